// A scripted, misbehaving HTTP/1.1 server on 127.0.0.1 for the real-transport half of C06: the
// library talks to it through its unmodified default network callbacks (reqwest).  The script for the
// current op is set by the replay loop; every request that reaches the server is logged in the same
// syntax as the injected callbacks use, so traces stay comparable with the model's.
use std::io::{Read, Write};
use std::net::{TcpListener, TcpStream};
use std::sync::atomic::{AtomicBool, AtomicU16, Ordering};
use std::sync::Mutex;

use crate::replay::{event_string, hx, RespSpec, LOG};

#[derive(Clone, Default)]
pub struct Script {
    pub resp: Option<RespSpec>,    // body of a healthy check answer
    pub raw_body: Option<Vec<u8>>, // served verbatim (200) instead, if present
    pub dl: Option<Vec<u8>>,
    pub hc: String, // behaviour of the check endpoint
    pub hd: String, // behaviour of the download endpoint
    pub he: String, // behaviour of the events endpoint
}

pub static SCRIPT: Mutex<Option<Script>> = Mutex::new(None);
pub static PORT: AtomicU16 = AtomicU16::new(0);
static REFUSE: AtomicBool = AtomicBool::new(false);
static LISTENING: AtomicBool = AtomicBool::new(false);

pub fn enabled() -> bool {
    PORT.load(Ordering::SeqCst) != 0
}

pub fn base_url() -> String {
    format!("http://127.0.0.1:{}", PORT.load(Ordering::SeqCst))
}

// a TCP socket bound to 127.0.0.1:port with SO_REUSEADDR + SO_REUSEPORT (port 0 = any); not yet listening
fn bind_reuse(port: u16) -> Option<i32> {
    unsafe {
        let fd = libc::socket(libc::AF_INET, libc::SOCK_STREAM | libc::SOCK_CLOEXEC, 0);
        if fd < 0 {
            return None;
        }
        let one: libc::c_int = 1;
        for opt in [libc::SO_REUSEADDR, libc::SO_REUSEPORT] {
            libc::setsockopt(fd, libc::SOL_SOCKET, opt, &one as *const _ as *const libc::c_void, 4);
        }
        let addr = libc::sockaddr_in {
            sin_family: libc::AF_INET as u16,
            sin_port: port.to_be(),
            sin_addr: libc::in_addr { s_addr: u32::from_ne_bytes([127, 0, 0, 1]) },
            sin_zero: [0; 8],
        };
        if libc::bind(fd, &addr as *const _ as *const libc::sockaddr, std::mem::size_of::<libc::sockaddr_in>() as u32) != 0 {
            libc::close(fd);
            return None;
        }
        Some(fd)
    }
}

fn listen_on(port: u16) -> Option<TcpListener> {
    use std::os::unix::io::FromRawFd;
    let fd = bind_reuse(port)?;
    unsafe {
        if libc::listen(fd, 128) != 0 {
            libc::close(fd);
            return None;
        }
        Some(TcpListener::from_raw_fd(fd))
    }
}

pub fn start() {
    if enabled() {
        return;
    }
    let l = listen_on(0).expect("bind");
    let port = l.local_addr().unwrap().port();
    // a second socket, bound but never listening, keeps the port ours while the listener is closed to
    // refuse connections (nobody else can be handed this port in the meantime)
    let reserve = bind_reuse(port).expect("reserve port");
    std::mem::forget(reserve);
    PORT.store(port, Ordering::SeqCst);
    LISTENING.store(true, Ordering::SeqCst);
    std::thread::spawn(move || accept_loop(l, port));
}

// connection refused: the listener is closed for the duration of the op
pub fn set_refuse(on: bool) {
    REFUSE.store(on, Ordering::SeqCst);
    while LISTENING.load(Ordering::SeqCst) == on {
        std::thread::sleep(std::time::Duration::from_millis(1));
    }
}

fn accept_loop(first: TcpListener, port: u16) {
    let mut l = Some(first);
    loop {
        if REFUSE.load(Ordering::SeqCst) {
            if l.is_some() {
                l = None;
                LISTENING.store(false, Ordering::SeqCst);
            }
            std::thread::sleep(std::time::Duration::from_millis(1));
            continue;
        }
        if l.is_none() {
            match listen_on(port) {
                Some(x) => {
                    l = Some(x);
                    LISTENING.store(true, Ordering::SeqCst);
                }
                None => {
                    std::thread::sleep(std::time::Duration::from_millis(2));
                    continue;
                }
            }
        }
        let li = l.as_ref().unwrap();
        li.set_nonblocking(true).unwrap();
        match li.accept() {
            Ok((s, _)) => {
                s.set_nonblocking(false).unwrap();
                std::thread::spawn(move || {
                    let _ = serve(s);
                });
            }
            Err(_) => std::thread::sleep(std::time::Duration::from_millis(1)),
        }
    }
}

fn find(h: &[u8], n: &[u8]) -> Option<usize> {
    h.windows(n.len()).position(|w| w == n)
}

fn read_request(s: &mut TcpStream) -> Option<(String, String, Vec<u8>)> {
    let mut buf = Vec::new();
    let mut tmp = [0u8; 4096];
    let hdr_end;
    loop {
        if let Some(p) = find(&buf, b"\r\n\r\n") {
            hdr_end = p + 4;
            break;
        }
        let n = s.read(&mut tmp).ok()?;
        if n == 0 {
            return None;
        }
        buf.extend_from_slice(&tmp[..n]);
    }
    let head = String::from_utf8_lossy(&buf[..hdr_end]).to_string();
    let mut lines = head.split("\r\n");
    let rl: Vec<&str> = lines.next()?.split(' ').collect();
    if rl.len() < 2 {
        return None;
    }
    let mut clen = 0usize;
    for l in lines {
        if let Some((k, v)) = l.split_once(':') {
            if k.eq_ignore_ascii_case("content-length") {
                clen = v.trim().parse().unwrap_or(0);
            }
        }
    }
    let mut body = buf[hdr_end..].to_vec();
    while body.len() < clen {
        let n = s.read(&mut tmp).ok()?;
        if n == 0 {
            break;
        }
        body.extend_from_slice(&tmp[..n]);
    }
    Some((rl[0].to_string(), rl[1].to_string(), body))
}

fn respond(s: &mut TcpStream, status: &str, ctype: &str, body: &[u8], claimed_len: Option<usize>) {
    let mut h = format!("HTTP/1.1 {status}\r\nContent-Type: {ctype}\r\nConnection: close\r\n");
    if let Some(n) = claimed_len {
        h.push_str(&format!("Content-Length: {n}\r\n"));
    }
    h.push_str("\r\n");
    let _ = s.write_all(h.as_bytes());
    let _ = s.write_all(body);
    let _ = s.flush();
}

fn reset(s: TcpStream) {
    use std::os::unix::io::AsRawFd;
    let lg = libc::linger { l_onoff: 1, l_linger: 0 };
    unsafe {
        libc::setsockopt(
            s.as_raw_fd(),
            libc::SOL_SOCKET,
            libc::SO_LINGER,
            &lg as *const _ as *const libc::c_void,
            std::mem::size_of::<libc::linger>() as u32,
        );
    }
    drop(s);
}

fn check_body(r: &RespSpec) -> Vec<u8> {
    let mut m = serde_json::Map::new();
    m.insert("patch_available".into(), r.avail.into());
    if let Some(p) = &r.patch {
        let mut pm = serde_json::Map::new();
        pm.insert("number".into(), p.number.into());
        pm.insert("hash".into(), p.hash.clone().into());
        pm.insert("download_url".into(), format!("{}/d/{}", base_url(), hx(&p.url)).into());
        if let Some(sg) = &p.sig {
            pm.insert("hash_signature".into(), sg.clone().into());
        }
        m.insert("patch".into(), serde_json::Value::Object(pm));
    }
    if let Some(rb) = &r.rb {
        m.insert("rolled_back_patch_numbers".into(), rb.clone().into());
    }
    serde_json::to_vec(&serde_json::Value::Object(m)).unwrap()
}

// generic misbehaviours shared by the three endpoints; returns true if it handled the connection
fn misbehave(kind: &str, mut s: TcpStream) -> Option<TcpStream> {
    match kind {
        "close" => None,
        "reset" => {
            reset(s);
            None
        }
        "stall" => {
            std::thread::sleep(std::time::Duration::from_millis(250));
            None
        }
        "garbage" => {
            let _ = s.write_all(b"\x00\x01\x02 this is not HTTP\r\n\r\n");
            None
        }
        "s500" => {
            respond(&mut s, "500 Internal Server Error", "text/plain", b"boom", Some(4));
            None
        }
        "s404" => {
            respond(&mut s, "404 Not Found", "text/plain", b"nope", Some(4));
            None
        }
        // error pages as proxies and captive portals send them: long, not ASCII, multi-byte characters at every
        // offset around the sizes a client might cut a log line at (64, 128, 256, 512, 1024 bytes)
        k if k.starts_with("s503u") => {
            let shift: usize = k[5..].parse().unwrap_or(0);
            let mut body = "x".repeat(shift);
            body.push_str(&"サービスは一時的に利用できません。".repeat(40));
            body.push_str(&"é".repeat(300));
            respond(&mut s, "503 Service Unavailable", "text/html; charset=utf-8", body.as_bytes(), Some(body.len()));
            None
        }
        "s403" => {
            respond(&mut s, "403 Forbidden", "application/json", b"{\"patch_available\":false}", Some(25));
            None
        }
        "s204" => {
            respond(&mut s, "204 No Content", "text/plain", b"", None);
            None
        }
        "chunkbad" => {
            let _ = s.write_all(b"HTTP/1.1 200 OK\r\nTransfer-Encoding: chunked\r\nConnection: close\r\n\r\nZZZ\r\n{}\r\n");
            None
        }
        // a length no client can allocate: 2^63, 2^64-1, 2^40 bytes announced, ten sent, connection closed
        k if k.starts_with("hugelen") => {
            let n = match &k[7..] { "63" => "9223372036854775808", "64" => "18446744073709551615", _ => "1099511627776" };
            let _ = s.write_all(format!("HTTP/1.1 200 OK\r\nContent-Type: application/octet-stream\r\nContent-Length: {}\r\nConnection: close\r\n\r\n0123456789", n).as_bytes());
            None
        }
        "halfhead" => {
            let _ = s.write_all(b"HTTP/1.1 200 OK\r\nContent-Ty");
            None
        }
        _ => Some(s),
    }
}

fn serve(mut s: TcpStream) -> Option<()> {
    s.set_read_timeout(Some(std::time::Duration::from_secs(10))).ok()?;
    let (method, path, body) = read_request(&mut s)?;
    let sc = SCRIPT.lock().unwrap().clone().unwrap_or_default();
    if method == "POST" && path == "/api/v1/patches/check" {
        let v: serde_json::Value = serde_json::from_slice(&body).unwrap_or(serde_json::Value::Null);
        let g = |k: &str| v.get(k).and_then(|x| x.as_str()).unwrap_or("?").to_string();
        let extra = if g("platform") != "linux" || g("arch") != crate::replay::arch_name() {
            format!(".BADPLAT:{}:{}", g("platform"), g("arch"))
        } else {
            String::new()
        };
        let nfields = v.as_object().map(|o| o.len()).unwrap_or(0);
        let extra = if nfields != 5 { format!("{extra}.FIELDS:{nfields}") } else { extra };
        LOG.lock().unwrap().push(format!(
            "C:{}.{}.{}{}",
            hx(&g("app_id")),
            hx(&g("channel")),
            hx(&g("release_version")),
            extra
        ));
        let mut s = misbehave(&sc.hc, s)?;
        let body = match (&sc.raw_body, &sc.resp) {
            (Some(b), _) => {
                // byte-level substitution: the body may be ill-formed UTF-8 on purpose
                let pat = b"@@DL@@";
                let rep = format!("{}/d", base_url()).into_bytes();
                let mut out = Vec::with_capacity(b.len() + 64);
                let mut i = 0;
                while i < b.len() {
                    if b[i..].starts_with(pat) {
                        out.extend_from_slice(&rep);
                        i += pat.len();
                    } else {
                        out.push(b[i]);
                        i += 1;
                    }
                }
                out
            }
            (None, Some(r)) => check_body(r),
            (None, None) => {
                respond(&mut s, "500 Internal Server Error", "text/plain", b"no script", Some(9));
                return Some(());
            }
        };
        match sc.hc.as_str() {
            "trunc" => respond(&mut s, "200 OK", "application/json", &body, Some(body.len() + 40)),
            "nolen" => respond(&mut s, "200 OK", "application/json", &body, None),
            _ => respond(&mut s, "200 OK", "application/json", &body, Some(body.len())),
        }
    } else if method == "POST" && path == "/api/v1/patches/events" {
        let v: serde_json::Value = serde_json::from_slice(&body).unwrap_or(serde_json::Value::Null);
        let ev = v.get("event").cloned().unwrap_or(serde_json::Value::Null);
        LOG.lock().unwrap().push(format!("E:{}", event_string(&ev)));
        let mut s = misbehave(&sc.he, s)?;
        respond(&mut s, "201 Created", "application/json", b"{}", Some(2));
    } else if method == "GET" && path.starts_with("/d/") {
        LOG.lock().unwrap().push(format!("D:{}", &path[3..]));
        let mut s = misbehave(&sc.hd, s)?;
        let data = match &sc.dl {
            Some(d) => d.clone(),
            None => {
                respond(&mut s, "404 Not Found", "text/plain", b"nope", Some(4));
                return Some(());
            }
        };
        let kind = sc.hd.as_str();
        if kind == "trunc" {
            // announces more than it sends, then closes
            respond(&mut s, "200 OK", "application/octet-stream", &data[..data.len() / 2], Some(data.len()));
        } else if let Some(k) = kind.strip_prefix("short:") {
            // no length, body ends when the connection closes: indistinguishable from a complete body
            let k: usize = k.parse().unwrap_or(0).min(data.len());
            respond(&mut s, "200 OK", "application/octet-stream", &data[..k], None);
        } else if kind == "nolen" {
            respond(&mut s, "200 OK", "application/octet-stream", &data, None);
        } else {
            respond(&mut s, "200 OK", "application/octet-stream", &data, Some(data.len()));
        }
    } else {
        LOG.lock().unwrap().push(format!("X:{}:{}", method, hx(&path)));
        respond(&mut s, "404 Not Found", "text/plain", b"nope", Some(4));
    }
    Some(())
}
