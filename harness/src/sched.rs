// Schedule controller (C11/C12): filled in later.
use std::sync::Mutex;
pub static NET_HOOK: Mutex<Option<fn(&str)>> = Mutex::new(None);
pub fn main(_args: &[String]) -> i32 {
    eprintln!("sched: not built yet");
    2
}
