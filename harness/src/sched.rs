// Schedule controller (C11/C12): runs the calls of several threads against the real library and
// decides, through the verif sync hook, which thread wins each acquisition of the config mutex.
use std::cell::Cell;
use std::sync::{Condvar, Mutex};

use updater::verif::{verif_set_sync_hook, SyncEvent};

use crate::replay::World;

pub static NET_HOOK: Mutex<Option<fn(&str)>> = Mutex::new(None);
pub static STALL: std::sync::atomic::AtomicBool = std::sync::atomic::AtomicBool::new(false);

// a hung connection: thread 0's patch check does not return until every other thread has finished
// all its calls (or 5 s pass, which is reported)
pub static STALL_BG: std::sync::atomic::AtomicBool = std::sync::atomic::AtomicBool::new(false);
pub static BG_IN_NET: std::sync::atomic::AtomicBool = std::sync::atomic::AtomicBool::new(false);

// `stall bg`: the hung connection is met by the library's OWN update thread (start_update_thread): its patch check does
// not return until every scheduled thread has finished all its calls (or 5 s pass, which is reported)
fn stall_bg(what: &str) {
    use std::sync::atomic::Ordering::SeqCst;
    if what != "check" || !STALL_BG.load(SeqCst) || BG_IN_NET.swap(true, SeqCst) {
        return; // only the first background update hangs
    }
    let start = std::time::Instant::now();
    let mut st = STATE.lock().unwrap();
    loop {
        let others_done = (0..MAXT).all(|i| st.finished[i] || !st.present[i]);
        if others_done || !st.active {
            return;
        }
        if start.elapsed().as_secs() >= 5 {
            crate::replay::DEPTH_VIOLATIONS
                .lock()
                .unwrap()
                .push("calls did not complete while the update thread was stuck in the network".into());
            return;
        }
        let (g, _) = CV.wait_timeout(st, std::time::Duration::from_millis(100)).unwrap();
        st = g;
    }
}

// `stall ev`: the EVENTS endpoint hangs: every event report, on whatever thread the library makes it, does not return
// until every scheduled thread has finished all its calls (or 5 s pass, which is reported)
pub static STALL_EV: std::sync::atomic::AtomicBool = std::sync::atomic::AtomicBool::new(false);
pub fn stall_ev() {
    use std::sync::atomic::Ordering::SeqCst;
    if !STALL_EV.load(SeqCst) {
        return;
    }
    let start = std::time::Instant::now();
    let mut st = STATE.lock().unwrap();
    loop {
        let done = (0..MAXT).all(|i| st.finished[i] || !st.present[i]);
        if done || !st.active || !STALL_EV.load(SeqCst) {
            return;
        }
        if start.elapsed().as_secs() >= 5 {
            let mut dv = crate::replay::DEPTH_VIOLATIONS.lock().unwrap();
            let msg = "calls did not complete while the events endpoint hung".to_string();
            if !dv.contains(&msg) {
                dv.push(msg);
            }
            return;
        }
        let (g, _) = CV.wait_timeout(st, std::time::Duration::from_millis(100)).unwrap();
        st = g;
    }
}

fn stall_hook(what: &str) {
    let Some(me) = IDX.with(|c| c.get()) else {
        stall_bg(what);
        return;
    };
    if what != "check" || me != 0 || !STALL.load(std::sync::atomic::Ordering::SeqCst) {
        return;
    }
    let start = std::time::Instant::now();
    let mut st = STATE.lock().unwrap();
    st.in_net[me] = true;
    CV.notify_all();
    loop {
        let others_done = (1..MAXT).all(|i| st.finished[i] || !st.present[i]);
        if others_done || !st.active {
            st.in_net[me] = false;
            return;
        }
        if start.elapsed().as_secs() >= 5 {
            crate::replay::DEPTH_VIOLATIONS
                .lock()
                .unwrap()
                .push("calls of other threads did not complete while an update was stuck in the network".into());
            st.in_net[me] = false;
            return;
        }
        let (g, _) = CV.wait_timeout(st, std::time::Duration::from_millis(100)).unwrap();
        st = g;
    }
}

const MAXT: usize = 4;

#[derive(Default)]
struct State {
    active: bool,
    parked: [bool; MAXT],
    finished: [bool; MAXT],
    granted: Option<usize>,
    releases: [u64; MAXT],
    trace: Vec<String>,
    parked_upd: [bool; MAXT],
    upd_holder: Option<usize>,
    present: [bool; MAXT],
    in_net: [bool; MAXT],
}

static STATE: Mutex<State> = Mutex::new(State {
    active: false,
    parked: [false; MAXT],
    finished: [false; MAXT],
    granted: None,
    releases: [0; MAXT],
    trace: Vec::new(),
    parked_upd: [false; MAXT],
    upd_holder: None,
    present: [false; MAXT],
    in_net: [false; MAXT],
});
static CV: Condvar = Condvar::new();

thread_local! {
    static IDX: Cell<Option<usize>> = Cell::new(None);
}

fn hook(ev: SyncEvent) {
    let Some(i) = IDX.with(|c| c.get()) else {
        return;
    };
    let mut st = STATE.lock().unwrap();
    if !st.active {
        return;
    }
    match ev {
        SyncEvent::CfgBefore | SyncEvent::UpdBefore => {
            st.trace.push(format!("{}:{}", i, if ev == SyncEvent::UpdBefore { "wantupd" } else { "want" }));
            st.parked[i] = true;
            st.parked_upd[i] = ev == SyncEvent::UpdBefore;
            CV.notify_all();
            while st.active && st.granted != Some(i) {
                st = CV.wait(st).unwrap();
            }
            st.parked[i] = false;
            st.granted = None;
        }
        SyncEvent::CfgAcquired => st.trace.push(format!("{}:acq", i)),
        SyncEvent::CfgRelease => {
            st.trace.push(format!("{}:rel", i));
            st.releases[i] += 1;
            CV.notify_all();
        }
        SyncEvent::UpdTry(ok) => {
            // the try_lock is the "critical section" of this scheduling slot
            st.trace.push(format!("{}:try{}", i, ok));
            if ok {
                st.upd_holder = Some(i);
            }
            st.releases[i] += 1;
            CV.notify_all();
        }
        SyncEvent::UpdRelease => {
            st.trace.push(format!("{}:relupd", i));
            if st.upd_holder == Some(i) {
                st.upd_holder = None;
            }
            CV.notify_all();
        }
    }
}

/// Runs `threads[i]` (each a list of tokenised API ops) concurrently; `order` lists which thread
/// wins each successive acquisition of the config mutex. Returns the outputs, threads separated
/// by '|', calls by ','.
pub fn run(w: &World, threads: Vec<Vec<Vec<String>>>, order: &[usize]) -> String {
    let n = threads.len();
    assert!(n <= MAXT);
    {
        let mut st = STATE.lock().unwrap();
        *st = State::default();
        st.active = true;
        for i in 0..n {
            st.present[i] = true;
        }
    }
    *NET_HOOK.lock().unwrap() = Some(stall_hook);
    verif_set_sync_hook(Some(hook));
    let outs: Vec<String> = std::thread::scope(|s| {
        let mut handles = vec![];
        for (i, ops) in threads.iter().enumerate() {
            handles.push(s.spawn(move || {
                IDX.with(|c| c.set(Some(i)));
                let mut o = vec![];
                for op in ops {
                    let toks: Vec<&str> = op.iter().map(|x| x.as_str()).collect();
                    o.push(w.exec_api(&toks));
                }
                let mut st = STATE.lock().unwrap();
                st.finished[i] = true;
                CV.notify_all();
                o.join(",")
            }));
        }
        // the scheduler
        for &t in order {
            if t >= n {
                continue;
            }
            let mut st = STATE.lock().unwrap();
            while !st.parked[t] && !st.finished[t] {
                st = CV.wait(st).unwrap();
            }
            if st.finished[t] {
                continue;
            }
            if st.parked_upd[t] {
                // a try_lock races with the holder's return path: wait until the holder either is
                // demonstrably still inside its update (parked at its next lock) or has let go
                loop {
                    match st.upd_holder {
                        Some(h) if h != t && !st.parked[h] && !st.finished[h] && !st.in_net[h] => {
                            st = CV.wait(st).unwrap();
                        }
                        _ => break,
                    }
                }
            }
            let before = st.releases[t];
            st.granted = Some(t);
            CV.notify_all();
            while st.releases[t] == before && !st.finished[t] {
                st = CV.wait(st).unwrap();
            }
        }
        {
            let mut st = STATE.lock().unwrap();
            st.active = false;
            CV.notify_all();
        }
        handles.into_iter().map(|h| h.join().unwrap()).collect()
    });
    verif_set_sync_hook(None);
    *NET_HOOK.lock().unwrap() = None;
    outs.join("|")
}

pub fn take_trace() -> Vec<String> {
    std::mem::take(&mut STATE.lock().unwrap().trace)
}

pub fn main(_args: &[String]) -> i32 {
    eprintln!("sched: use `replay` with t0/t1/order lines");
    2
}
