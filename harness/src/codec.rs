// Helper subcommands for generators: real patch construction and zstd, independent of the
// library's update path.
use std::io::{Cursor, Read, Write};

use comde::com::Compressor;
use comde::de::Decompressor;
use comde::zstd::{ZstdCompressor, ZstdDecompressor};

// a writer that keeps everything written so far even if the producer fails half-way
struct Keep(std::sync::Arc<std::sync::Mutex<Vec<u8>>>);
impl Write for Keep {
    fn write(&mut self, b: &[u8]) -> std::io::Result<usize> {
        self.0.lock().unwrap().extend_from_slice(b);
        Ok(b.len())
    }
    fn flush(&mut self) -> std::io::Result<()> {
        Ok(())
    }
}

pub fn zstd_partial(data: &[u8]) -> (Vec<u8>, bool) {
    let acc = std::sync::Arc::new(std::sync::Mutex::new(Vec::new()));
    let r = ZstdDecompressor::new().copy(Cursor::new(data.to_vec()), Keep(acc.clone()));
    let v = acc.lock().unwrap().clone();
    (v, r.is_ok())
}

pub fn raw_diff(old: &[u8], new: &[u8]) -> Vec<u8> {
    let mut out = Vec::new();
    let params = bidiff::DiffParams::new(1, None).unwrap();
    bidiff::simple_diff_with_params(old, new, &mut out, &params).unwrap();
    out
}

// mkpatch <base> <new> <outprefix>: <outprefix>.patch = what the `patch` tool produces,
// <outprefix>.raw = the uncompressed bidiff stream
pub fn mkpatch(args: &[String]) -> i32 {
    let old = std::fs::read(&args[0]).unwrap();
    let new = std::fs::read(&args[1]).unwrap();
    let mut c = Cursor::new(Vec::new());
    patch::make_patch(old.clone(), new.clone(), &mut c);
    let p = c.into_inner();
    std::fs::write(format!("{}.patch", args[2]), &p).unwrap();
    let (raw, ok) = zstd_partial(&p);
    assert!(ok);
    std::fs::write(format!("{}.raw", args[2]), &raw).unwrap();
    0
}

// zdec <file> <out>: what a zstd decoder emits before it ends or fails
pub fn zdec(args: &[String]) -> i32 {
    let data = std::fs::read(&args[0]).unwrap();
    let (v, ok) = zstd_partial(&data);
    std::fs::write(&args[1], &v).unwrap();
    println!("{}", if ok { "ok" } else { "err" });
    0
}

pub fn zenc(args: &[String]) -> i32 {
    let data = std::fs::read(&args[0]).unwrap();
    let mut c = Cursor::new(Vec::new());
    ZstdCompressor::new()
        .compress(&mut c, &mut Cursor::new(data))
        .unwrap();
    std::fs::write(&args[1], c.into_inner()).unwrap();
    0
}

// inflate <base> <rawpatch> <out>: the real bipatch reader on an uncompressed stream
pub fn inflate_real(args: &[String]) -> i32 {
    let old = std::fs::read(&args[0]).unwrap();
    let p = std::fs::read(&args[1]).unwrap();
    let r = (|| -> anyhow::Result<Vec<u8>> {
        let mut rd = bipatch::Reader::new(Cursor::new(p), Cursor::new(old))?;
        let mut out = Vec::new();
        rd.read_to_end(&mut out)?;
        Ok(out)
    })();
    match r {
        Ok(v) => {
            std::fs::write(&args[2], &v).unwrap();
            println!("ok");
        }
        Err(_) => println!("err"),
    }
    0
}

// inflatechunks <base> <rawpatch> <spec>...: the real bipatch reader pulled through read() with the cyclic
// buffer-size schedule <spec> (comma separated), until a call returns 0; prints one line per spec
pub fn inflate_chunks(args: &[String]) -> i32 {
    use sha2::{Digest, Sha256};
    let old = std::fs::read(&args[0]).unwrap();
    let p = std::fs::read(&args[1]).unwrap();
    for spec in &args[2..] {
        let sizes: Vec<usize> = spec.split(',').map(|x| x.parse().unwrap()).collect();
        let r = (|| -> anyhow::Result<Vec<u8>> {
            let mut rd = bipatch::Reader::new(Cursor::new(p.clone()), Cursor::new(old.clone()))?;
            let mut out = Vec::new();
            let mut i = 0usize;
            loop {
                let n = sizes[i % sizes.len()];
                i += 1;
                let mut buf = vec![0u8; n];
                let got = rd.read(&mut buf)?;
                if got == 0 {
                    break;
                }
                out.extend_from_slice(&buf[..got]);
            }
            Ok(out)
        })();
        match r {
            Ok(v) => println!("{}=ok:{}.{}", spec, v.len(), hex::encode(Sha256::digest(&v))),
            Err(_) => println!("{}=err", spec),
        }
    }
    0
}

// matches <base> <new>: the Match list bidiff::diff emits, one per line
pub fn matches(args: &[String]) -> i32 {
    let old = std::fs::read(&args[0]).unwrap();
    let new = std::fs::read(&args[1]).unwrap();
    let params = bidiff::DiffParams::new(1, None).unwrap();
    bidiff::diff(&old, &new, &params, |m| -> Result<(), std::io::Error> {
        println!(
            "{} {} {} {}",
            m.add_old_start, m.add_new_start, m.add_length, m.copy_end
        );
        Ok(())
    })
    .unwrap();
    0
}

// lsm <base> <new>: what the suffix-array matcher answers at every scan position of <new>
// (the oracle table of the model's scan loop), one "start len" per line
pub fn lsm(args: &[String]) -> i32 {
    use sacabase::StringIndex;
    let old = std::fs::read(&args[0]).unwrap();
    let new = std::fs::read(&args[1]).unwrap();
    let sa = sacapart::PartitionedSuffixArray::new(&old[..], 1, divsufsort::sort);
    let mut out = String::new();
    for sc in 0..new.len() {
        let r = sa.longest_substring_match(&new[sc..]);
        out.push_str(&format!("{}.{}\n", r.start, r.len));
    }
    print!("{}", out);
    0
}

// b64 <hex>...: what the library's base64 engine (BASE64_STANDARD, as cache/signing.rs uses it) makes of each string
pub fn b64(args: &[String]) -> i32 {
    use base64::Engine;
    for t in args {
        let raw = if t == "e" { vec![] } else { hex::decode(t).expect("hex") };
        match base64::prelude::BASE64_STANDARD.decode(&raw) {
            Ok(b) => println!("b64:{}=ok:{}", t, if b.is_empty() { "e".to_string() } else { hex::encode(b) }),
            Err(_) => println!("b64:{}=err", t),
        }
    }
    0
}

// what the library reads from the BYTES of a patch-check response body: the same entry point as reqwest's
// Response::json (serde_json::from_slice into PatchCheckResponse); one `name hex` line per body, answers in the
// syntax of the model driver's `jsonbody` command
pub fn jsonbodies(args: &[String]) -> i32 {
    let text = std::fs::read_to_string(&args[0]).expect("file");
    let hx = |s: &str| if s.is_empty() { "e".to_string() } else { hex::encode(s.as_bytes()) };
    for line in text.lines() {
        let f: Vec<&str> = line.split_whitespace().collect();
        if f.len() != 2 {
            continue;
        }
        let body = if f[1] == "e" { vec![] } else { hex::decode(f[1]).expect("hex") };
        match serde_json::from_slice::<updater::verif::PatchCheckResponse>(&body) {
            Err(_) => println!("jsonbody:{}=err", f[0]),
            Ok(r) => {
                let p = match &r.patch {
                    None => "-".to_string(),
                    Some(p) => format!(
                        "{}:{}:{}:{}",
                        p.number,
                        hx(&p.hash),
                        hx(&p.download_url),
                        p.hash_signature.as_deref().map_or("-".to_string(), |s| hx(s))
                    ),
                };
                let rb = match &r.rolled_back_patch_numbers {
                    None => "-".to_string(),
                    Some(l) if l.is_empty() => "e".to_string(),
                    Some(l) => l.iter().map(|x| x.to_string()).collect::<Vec<_>>().join(";"),
                };
                println!("jsonbody:{}=a={} p={} rb={}", f[0], if r.patch_available { "t" } else { "f" }, p, rb);
            }
        }
    }
    0
}
