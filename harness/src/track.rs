// A pass-through global allocator that, while armed, remembers the size every block was allocated with
// and checks it against the size the block is released with.  Rust's allocator contract requires the two
// to agree; the system malloc does not care, so a CString allocated as N bytes and released through
// CString::from_raw (which recomputes the length with strlen) goes unnoticed without this.
// No allocation happens inside the allocator: fixed table, spin lock.
use std::alloc::{GlobalAlloc, Layout, System};
use std::sync::atomic::{AtomicBool, AtomicUsize, Ordering};

pub struct Track;

const CAP: usize = 1 << 17;
static ARMED: AtomicBool = AtomicBool::new(false);
static LOCK: AtomicBool = AtomicBool::new(false);
static mut TAB: [(usize, usize); CAP] = [(0, 0); CAP];
static LIVE: AtomicUsize = AtomicUsize::new(0);
pub static MISMATCH: AtomicUsize = AtomicUsize::new(0);
pub static FIRST_ALLOC: AtomicUsize = AtomicUsize::new(0);
pub static FIRST_FREE: AtomicUsize = AtomicUsize::new(0);
pub static OVERFLOW: AtomicUsize = AtomicUsize::new(0);

fn lock() {
    while LOCK.compare_exchange_weak(false, true, Ordering::Acquire, Ordering::Relaxed).is_err() {
        std::hint::spin_loop();
    }
}
fn unlock() {
    LOCK.store(false, Ordering::Release);
}
fn slot(p: usize) -> usize {
    (p >> 4).wrapping_mul(0x9E37_79B9_7F4A_7C15) >> (64 - 17)
}
unsafe fn insert(p: usize, sz: usize) {
    lock();
    if LIVE.load(Ordering::Relaxed) > CAP / 2 {
        OVERFLOW.fetch_add(1, Ordering::Relaxed);
        unlock();
        return;
    }
    let mut i = slot(p);
    loop {
        let e = TAB[i].0;
        if e == 0 || e == 1 || e == p {
            if e != p {
                LIVE.fetch_add(1, Ordering::Relaxed);
            }
            TAB[i] = (p, sz);
            break;
        }
        i = (i + 1) & (CAP - 1);
    }
    unlock();
}
unsafe fn remove(p: usize) -> Option<usize> {
    lock();
    let mut i = slot(p);
    let mut n = 0;
    let r = loop {
        let e = TAB[i].0;
        if e == 0 || n > CAP {
            break None;
        }
        if e == p {
            let sz = TAB[i].1;
            TAB[i] = (1, 0); // tombstone
            break Some(sz);
        }
        i = (i + 1) & (CAP - 1);
        n += 1;
    };
    unlock();
    r
}
fn note(alloc_sz: usize, free_sz: usize) {
    if MISMATCH.fetch_add(1, Ordering::Relaxed) == 0 {
        FIRST_ALLOC.store(alloc_sz, Ordering::Relaxed);
        FIRST_FREE.store(free_sz, Ordering::Relaxed);
    }
}

unsafe impl GlobalAlloc for Track {
    unsafe fn alloc(&self, l: Layout) -> *mut u8 {
        let p = System.alloc(l);
        if ARMED.load(Ordering::Relaxed) && !p.is_null() {
            insert(p as usize, l.size());
        }
        p
    }
    unsafe fn alloc_zeroed(&self, l: Layout) -> *mut u8 {
        let p = System.alloc_zeroed(l);
        if ARMED.load(Ordering::Relaxed) && !p.is_null() {
            insert(p as usize, l.size());
        }
        p
    }
    unsafe fn dealloc(&self, p: *mut u8, l: Layout) {
        if ARMED.load(Ordering::Relaxed) {
            if let Some(sz) = remove(p as usize) {
                if sz != l.size() {
                    note(sz, l.size());
                }
            }
        }
        System.dealloc(p, l)
    }
    unsafe fn realloc(&self, p: *mut u8, l: Layout, new: usize) -> *mut u8 {
        let armed = ARMED.load(Ordering::Relaxed);
        if armed {
            if let Some(sz) = remove(p as usize) {
                if sz != l.size() {
                    note(sz, l.size());
                }
            }
        }
        let q = System.realloc(p, l, new);
        if armed && !q.is_null() {
            insert(q as usize, new);
        }
        q
    }
}

// arm / disarm around a C API call and the matching free; disarming forgets every block still live
// (internal allocations that outlive the call are none of our business)
pub fn arm() {
    ARMED.store(true, Ordering::SeqCst);
}
pub fn disarm() {
    ARMED.store(false, Ordering::SeqCst);
    unsafe {
        lock();
        for e in TAB.iter_mut() {
            *e = (0, 0);
        }
        LIVE.store(0, Ordering::Relaxed);
        unlock();
    }
}
pub fn report() -> Option<String> {
    let n = MISMATCH.load(Ordering::Relaxed);
    if n == 0 {
        return None;
    }
    Some(format!(
        "ALLOC-MISMATCH {} block(s) released with another size than allocated; first: allocated as {} bytes, released as {} bytes",
        n,
        FIRST_ALLOC.load(Ordering::Relaxed),
        FIRST_FREE.load(Ordering::Relaxed)
    ))
}
