// uvh — replays op files against the real updater library (through its C API where one exists)
// and prints one canonical trace line per op, in the same syntax as the extracted Coq model's
// driver. Also provides helper subcommands used by the generators.
mod codec;
mod http;
mod replay;
mod sched;
mod track;

// library/src/android.rs is compiled for Android and under cfg(test) only, so the library this harness links does not
// contain it; the file itself is included here (what it needs from its crate: InitError and the logging macros) so
// that the code that reads the bundled libapp.so out of the APK - the `base` oracle of the model on Android - runs.
#[allow(unused_macros)]
macro_rules! shorebird_debug { ($($t:tt)*) => {{ let _ = format!($($t)*); }}; }
#[allow(unused_macros)]
macro_rules! shorebird_info { ($($t:tt)*) => {{ let _ = format!($($t)*); }}; }
#[allow(unused_macros)]
macro_rules! shorebird_warn { ($($t:tt)*) => {{ let _ = format!($($t)*); }}; }
#[allow(unused_macros)]
macro_rules! shorebird_error { ($($t:tt)*) => {{ let _ = format!($($t)*); }}; }
#[allow(unused_imports)]
pub use updater::InitError;
#[allow(dead_code)]
#[path = "/repo/library/src/android.rs"]
mod android_src;

#[global_allocator]
static GLOBAL: track::Track = track::Track;

struct NoLog;
impl log::Log for NoLog {
    fn enabled(&self, _: &log::Metadata) -> bool {
        false
    }
    fn log(&self, _: &log::Record) {}
    fn flush(&self) {}
}
static NOLOG: NoLog = NoLog;

fn main() {
    // the library's init installs simple_logger (stdout); claim the logger slot first
    if std::env::var("UVH_LOG").is_err() {
        let _ = log::set_logger(&NOLOG);
    }
    // any panic on any thread is recorded on stdout (a panic that unwinds out of an extern "C"
    // function additionally aborts the process, which the orchestrator sees as a crash)
    std::panic::set_hook(Box::new(|info| {
        println!("PANIC-HOOK {}", info.to_string().replace('\n', " "));
    }));
    let args: Vec<String> = std::env::args().collect();
    if args.len() < 2 {
        eprintln!("usage: uvh replay <opfile> <workdir> | mkpatch <base> <new> <out> | zdec <file> | ...");
        std::process::exit(2);
    }
    let code = match args[1].as_str() {
        "replay" => replay::main(&args[2..]),
        "after" => replay::after(&args[2..]),
        "mkpatch" => codec::mkpatch(&args[2..]),
        "zdec" => codec::zdec(&args[2..]),
        "zenc" => codec::zenc(&args[2..]),
        "inflate" => codec::inflate_real(&args[2..]),
        "matches" => codec::matches(&args[2..]),
        "lsm" => codec::lsm(&args[2..]),
        "b64" => codec::b64(&args[2..]),
        "inflatechunks" => codec::inflate_chunks(&args[2..]),
        "jsoncheck" => {
            // what serde makes of a patch-check response body (debugging aid for the C06 body table)
            let b = std::fs::read(&args[2]).expect("file");
            match serde_json::from_slice::<updater::verif::PatchCheckResponse>(&b) {
                Ok(r) => println!("ok {:?}", r),
                Err(e) => println!("err {}", e),
            }
            0
        }
        "jsonbodies" => codec::jsonbodies(&args[2..]),
        "baselib" => {
            // uvh baselib <apks dir> <out file>: what android::open_base_lib hands to inflate as the base
            match android_src::open_base_lib(std::path::Path::new(&args[2]), "libapp.so") {
                Ok(c) => {
                    std::fs::write(&args[3], c.into_inner()).expect("write");
                    println!("baselib=ok");
                    0
                }
                Err(e) => {
                    println!("baselib=err {}", e.to_string().replace('\n', " "));
                    0
                }
            }
        }
        "sched" => sched::main(&args[2..]),
        other => {
            eprintln!("unknown subcommand {other}");
            2
        }
    };
    std::process::exit(code);
}
