// Replays op files against the real library.
use std::collections::HashMap;
use std::ffi::{CStr, CString};
use std::path::{Path, PathBuf};
use std::sync::Mutex;

use serde::Deserialize;
use updater::c_api;
use updater::verif::{
    verif_cfg_depth, verif_reset_config, verif_set_network_hooks, CreatePatchEventRequest, Patch,
    PatchCheckRequest, PatchCheckResponse,
};

// ---------- environment seen by the network callbacks ----------
#[derive(Clone, Default)]
pub struct PatchSpec {
    pub number: usize,
    pub hash: String,
    pub url: String,
    pub sig: Option<String>,
}
#[derive(Clone, Default)]
pub struct RespSpec {
    pub avail: bool,
    pub patch: Option<PatchSpec>,
    pub rb: Option<Vec<usize>>,
}
#[derive(Default)]
pub struct Env {
    pub resp: Option<RespSpec>, // None = check fails
    pub dl: Option<Vec<u8>>,    // None = download fails
    pub report_fails: bool,
}

thread_local! {
    pub static ENV: std::cell::RefCell<Option<Env>> = std::cell::RefCell::new(None);
}
pub static SPAWNED_ENV: Mutex<Option<(Option<RespSpec>, Option<Vec<u8>>)>> = Mutex::new(None);
pub static REPORT_FAILS: std::sync::atomic::AtomicBool = std::sync::atomic::AtomicBool::new(false);
pub static LOG: Mutex<Vec<String>> = Mutex::new(Vec::new());
pub static DEPTH_VIOLATIONS: Mutex<Vec<String>> = Mutex::new(Vec::new());
pub static ACT: Mutex<Vec<String>> = Mutex::new(Vec::new());
thread_local! {
    pub static IS_MAIN: std::cell::Cell<bool> = std::cell::Cell::new(false);
}

// ---- lock-discipline monitor: the model's calls are atomic because every mutation of the persisted state
// (state.json, patches_state.json, patches/) happens while the calling thread holds the config lock.  When the
// interposer (shim/shim.c) is preloaded it reports every mutating file-system call here; one made by the
// library without the lock is recorded and printed as an UNLOCKED-WRITE line.
thread_local! {
    pub static HARNESS_FS: std::cell::Cell<u32> = std::cell::Cell::new(0);
}
pub static UNLOCKED: Mutex<Vec<String>> = Mutex::new(Vec::new());
pub static CUR_OP: Mutex<(String, usize)> = Mutex::new((String::new(), 0));
pub static ROOT: Mutex<String> = Mutex::new(String::new());

/// the harness's own file-system work (set-up, damage ops, clean-up) is not the library's
pub struct HarnessFs;
impl HarnessFs {
    pub fn new() -> Self {
        HARNESS_FS.with(|c| c.set(c.get() + 1));
        HarnessFs
    }
}
impl Drop for HarnessFs {
    fn drop(&mut self) {
        HARNESS_FS.with(|c| c.set(c.get().saturating_sub(1)));
    }
}

extern "C" fn uvh_fs_event(what: *const std::os::raw::c_char, path: *const std::os::raw::c_char) {
    if HARNESS_FS.try_with(|c| c.get()).unwrap_or(1) > 0 {
        return;
    }
    let p = unsafe { CStr::from_ptr(path) }.to_string_lossy().into_owned();
    let base = p.rsplit('/').next().unwrap_or("");
    let state = base == "state.json" || base == "patches_state.json" || p.contains("/patches/") || p.ends_with("/patches");
    if !state || verif_cfg_depth() > 0 {
        return;
    }
    let root = match ROOT.try_lock() {
        Ok(r) => r.clone(),
        Err(_) => return,
    };
    if root.is_empty() || !p.starts_with(&root) {
        return;
    }
    let rel = match p.find("/storage/") {
        Some(i) => p[i + 1..].to_string(),
        None => p[root.len()..].to_string(),
    };
    let w = unsafe { CStr::from_ptr(what) }.to_string_lossy().into_owned();
    let (h, k) = CUR_OP.lock().map(|c| c.clone()).unwrap_or_default();
    let line = format!("hist={} op={} {} {}", h, k, w, rel);
    if let Ok(mut v) = UNLOCKED.lock() {
        if !v.contains(&line) {
            v.push(line);
        }
    }
}

/// registers the observer with the preloaded interposer, if there is one
pub fn register_fs_observer(root: &Path) {
    *ROOT.lock().unwrap() = root.to_string_lossy().into_owned();
    unsafe {
        let f = libc::dlsym(libc::RTLD_DEFAULT, b"shim_register_fs_callback\0".as_ptr() as *const _);
        if !f.is_null() {
            let reg: extern "C" fn(extern "C" fn(*const std::os::raw::c_char, *const std::os::raw::c_char)) = std::mem::transmute(f);
            reg(uvh_fs_event);
        }
    }
}

fn act(tok: &str) {
    if IS_MAIN.with(|m| m.get()) {
        ACT.lock().unwrap().push(tok.to_string());
    }
}

pub fn trace_hook(ev: updater::verif::SyncEvent) {
    use updater::verif::SyncEvent::*;
    match ev {
        CfgAcquired => {
            if updater::verif::verif_upd_depth() > 0 || true {
                act("A")
            }
        }
        CfgRelease => act("R"),
        UpdTry(ok) => {
            if verif_cfg_depth() != 0 {
                DEPTH_VIOLATIONS.lock().unwrap().push("update mutex tried while holding the config lock".into());
            }
            act(if ok { "T1" } else { "T0" })
        }
        UpdRelease => act("U"),
        CfgBefore => {
            if verif_cfg_depth() != 0 {
                DEPTH_VIOLATIONS.lock().unwrap().push("config lock re-entered".into());
            }
        }
        UpdBefore => {}
    }
}

pub fn hx(s: &str) -> String {
    if s.is_empty() {
        "e".to_string()
    } else {
        hex::encode(s.as_bytes())
    }
}

fn note_depth(what: &str) {
    act("N");
    if verif_cfg_depth() != 0 {
        DEPTH_VIOLATIONS
            .lock()
            .unwrap()
            .push(format!("{what} called while holding the config lock"));
    }
}

pub static RAW_PJ: Mutex<Option<Vec<u8>>> = Mutex::new(None);
pub static ODD_PATHS: std::sync::atomic::AtomicBool = std::sync::atomic::AtomicBool::new(false);
pub static ERRNUL: std::sync::atomic::AtomicBool = std::sync::atomic::AtomicBool::new(false);
pub static TRACK: std::sync::atomic::AtomicBool = std::sync::atomic::AtomicBool::new(false);

pub fn check_hook(_url: &str, req: PatchCheckRequest) -> anyhow::Result<PatchCheckResponse> {
    note_depth("check");
    let h = *crate::sched::NET_HOOK.lock().unwrap();
    if let Some(h) = h {
        h("check");
    }
    let v = serde_json::to_value(&req).unwrap();
    let g = |k: &str| v.get(k).and_then(|x| x.as_str()).unwrap_or("?").to_string();
    let extra = if g("platform") != "linux" || g("arch") != arch() {
        format!(".BADPLAT:{}:{}", g("platform"), g("arch"))
    } else {
        String::new()
    };
    LOG.lock().unwrap().push(format!(
        "C:{}.{}.{}{}",
        hx(&g("app_id")),
        hx(&g("channel")),
        hx(&g("release_version")),
        extra
    ));
    let resp = match ENV.with(|e| e.borrow().as_ref().map(|e| e.resp.clone())) {
        Some(r) => r,
        None => SPAWNED_ENV.lock().unwrap().as_ref().and_then(|e| e.0.clone()),
    };
    match &resp {
        None if ERRNUL.load(std::sync::atomic::Ordering::SeqCst) => {
            anyhow::bail!("injected check failure\0with an interior NUL and a tail long enough to change the size class of the block")
        }
        None => anyhow::bail!("injected check failure"),
        Some(r) => Ok(PatchCheckResponse {
            patch_available: r.avail,
            patch: r.patch.as_ref().map(|p| Patch {
                number: p.number,
                hash: p.hash.clone(),
                download_url: p.url.clone(),
                hash_signature: p.sig.clone(),
            }),
            rolled_back_patch_numbers: r.rb.clone(),
        }),
    }
}

pub fn download_hook(url: &str) -> anyhow::Result<Vec<u8>> {
    note_depth("download");
    LOG.lock().unwrap().push(format!("D:{}", hx(url)));
    let h = *crate::sched::NET_HOOK.lock().unwrap();
    if let Some(h) = h {
        h("download");
    }
    let dl = match ENV.with(|e| e.borrow().as_ref().map(|e| e.dl.clone())) {
        Some(d) => d,
        None => SPAWNED_ENV.lock().unwrap().as_ref().and_then(|e| e.1.clone()),
    };
    match dl {
        None if ERRNUL.load(std::sync::atomic::Ordering::SeqCst) => {
            anyhow::bail!("injected download failure\0with an interior NUL and a tail long enough to change the size class of the block")
        }
        None => anyhow::bail!("injected download failure"),
        Some(b) => Ok(b),
    }
}

pub fn arch_name() -> &'static str {
    arch()
}

fn arch() -> &'static str {
    if cfg!(target_arch = "x86_64") {
        "x86_64"
    } else if cfg!(target_arch = "aarch64") {
        "aarch64"
    } else {
        "?"
    }
}

pub fn event_string(ev: &serde_json::Value) -> String {
    let g = |k: &str| ev.get(k).and_then(|x| x.as_str()).unwrap_or("?").to_string();
    let kind = match g("type").as_str() {
        "__patch_install__" => "S",
        "__patch_install_failure__" => "F",
        "__patch_download__" => "D",
        _ => "?",
    };
    let num = ev
        .get("patch_number")
        .map(|n| n.to_string())
        .unwrap_or("?".into());
    let msg = match ev.get("message") {
        None | Some(serde_json::Value::Null) => "n".to_string(),
        Some(serde_json::Value::String(m)) => {
            let ni = format!("Patch {} was marked currently_booting in init", num);
            let ne = format!("Install failure reported from engine for patch {}", num);
            if *m == ni {
                "i".into()
            } else if *m == ne {
                "e".into()
            } else {
                format!("?{}", hx(m))
            }
        }
        _ => "?".to_string(),
    };
    let extra = if g("platform") != "linux" || g("arch") != arch() {
        format!(".BADPLAT:{}:{}", g("platform"), g("arch"))
    } else {
        String::new()
    };
    format!(
        "{}.{}.{}.{}.{}{}",
        kind,
        num,
        hx(&g("app_id")),
        hx(&g("release_version")),
        msg,
        extra
    )
}

pub fn report_hook(_url: &str, req: CreatePatchEventRequest) -> anyhow::Result<()> {
    note_depth("report");
    let v = serde_json::to_value(&req).unwrap();
    let ev = v.get("event").cloned().unwrap_or(serde_json::Value::Null);
    LOG.lock().unwrap().push(format!("E:{}", event_string(&ev)));
    crate::sched::stall_ev();
    if REPORT_FAILS.load(std::sync::atomic::Ordering::SeqCst) {
        anyhow::bail!("injected report failure");
    }
    Ok(())
}

// ---------- dummy file callbacks ----------
extern "C" fn fc_open() -> *mut libc::c_void {
    std::ptr::null_mut()
}
extern "C" fn fc_read(_h: *mut libc::c_void, _b: *mut u8, _c: usize) -> usize {
    0
}
extern "C" fn fc_seek(_h: *mut libc::c_void, _o: i64, _w: i32) -> i64 {
    0
}
extern "C" fn fc_close(_h: *mut libc::c_void) {}

// ---------- abstraction of the on-disk state ----------
#[derive(Deserialize)]
#[allow(dead_code)]
struct MetaM {
    number: usize,
    size: u64,
    hash: String,
    signature: Option<String>,
}
#[derive(Deserialize)]
struct PStateM {
    last_booted_patch: Option<MetaM>,
    next_boot_patch: Option<MetaM>,
    currently_booting_patch: Option<MetaM>,
    known_bad_patches: std::collections::HashSet<usize>,
}
#[derive(Deserialize)]
struct EventM {
    app_id: String,
    arch: String,
    #[serde(rename = "type")]
    identifier: String,
    patch_number: usize,
    platform: String,
    release_version: String,
    timestamp: u64,
    message: Option<String>,
}
#[derive(Deserialize)]
struct SStateM {
    release_version: String,
    // read as the library's Vec<PatchEvent> is: element by element through the struct's own visitor (a generic
    // serde_json::Value in between would be stricter about unknown members and would swallow repeated ones)
    queued_events: Vec<EventM>,
}

fn pr_meta(m: &Option<MetaM>) -> String {
    match m {
        None => "-".into(),
        Some(m) => format!(
            "{}.{}.{}.{}",
            m.number,
            m.size,
            hx(&m.hash),
            m.signature.as_ref().map_or("-".to_string(), |s| hx(s))
        ),
    }
}

pub fn fnv(b: &[u8]) -> u32 {
    let mut h: u32 = 0x811c9dc5;
    for x in b {
        h = (h ^ (*x as u32)).wrapping_mul(0x01000193);
    }
    h
}

pub fn abs_pj(storage: &Path) -> String {
    let p = storage.join("patches_state.json");
    let Ok(bytes) = std::fs::read(&p) else {
        return "M".into();
    };
    match serde_json::from_slice::<PStateM>(&bytes) {
        Err(_) => "G".into(),
        Ok(s) => {
            let mut bad: Vec<usize> = s.known_bad_patches.into_iter().collect();
            bad.sort();
            // C04_torn_state_file_is_garbage speaks of texts that begin with '{' and end with '}': flag a readable file
            // written by the library that does not (a file holding exactly the bytes of the last `dmg rawpj` is the harness' own)
            let first = bytes.iter().find(|c| !b" \t\n\r".contains(c)).copied();
            let raw = RAW_PJ.lock().unwrap().as_ref().map_or(false, |b| *b == bytes);
            if !raw && (first != Some(b'{') || bytes.last() != Some(&b'}')) {
                return "SHAPE".into();
            }
            format!(
                "{}/{}/{}/[{}]",
                pr_meta(&s.last_booted_patch),
                pr_meta(&s.next_boot_patch),
                pr_meta(&s.currently_booting_patch),
                bad.iter().map(|x| x.to_string()).collect::<Vec<_>>().join(",")
            )
        }
    }
}

pub fn abs_sj(storage: &Path) -> String {
    let p = storage.join("state.json");
    let Ok(bytes) = std::fs::read(&p) else {
        return "M".into();
    };
    match serde_json::from_slice::<SStateM>(&bytes) {
        Err(_) => "G".into(),
        Ok(s) => {
            let mut evs = vec![];
            for e in &s.queued_events {
                if !["__patch_install__", "__patch_install_failure__", "__patch_download__"]
                    .contains(&e.identifier.as_str())
                {
                    return "G".into();
                }
                evs.push(event_string(&serde_json::json!({
                    "app_id": e.app_id, "arch": e.arch, "type": e.identifier, "patch_number": e.patch_number,
                    "platform": e.platform, "release_version": e.release_version, "timestamp": e.timestamp,
                    "message": e.message})));
            }
            format!("{}/[{}]", hx(&s.release_version), evs.join(","))
        }
    }
}

pub fn abs_arts(storage: &Path) -> (String, u32) {
    let dir = storage.join("patches");
    let mut items: Vec<(u128, String)> = vec![];
    let mut junk = 0;
    if let Ok(rd) = std::fs::read_dir(&dir) {
        for e in rd.flatten() {
            let name = e.file_name().to_string_lossy().to_string();
            match name.parse::<u128>() {
                Ok(n) if n.to_string() == name => {
                    let f = e.path().join("dlc.vmcode");
                    match std::fs::read(&f) {
                        Ok(b) => items.push((n, format!("{}:F{}.{:08x}", n, b.len(), fnv(&b)))),
                        Err(_) => items.push((n, format!("{}:D", n))),
                    }
                }
                _ => junk = 1,
            }
        }
    }
    items.sort();
    (
        items.into_iter().map(|x| x.1).collect::<Vec<_>>().join(","),
        junk,
    )
}

pub fn abs_line(out: &str, storage: &Path, net: &[String]) -> String {
    let (arts, junk) = abs_arts(storage);
    format!(
        "out={} sj={} pj={} arts={} junk={} net={}",
        out,
        abs_sj(storage),
        abs_pj(storage),
        arts,
        junk,
        net.join(";")
    )
}

// the download directory: `<n>` and `<n>.full` files (anything else is listed by name)
pub fn abs_dls(cache: &Path) -> String {
    let dir = cache.join("downloads");
    let mut items: Vec<(u128, u8, String)> = vec![];
    if let Ok(rd) = std::fs::read_dir(&dir) {
        for e in rd.flatten() {
            let name = e.file_name().to_string_lossy().to_string();
            let (stem, full) = match name.strip_suffix(".full") {
                Some(s) => (s.to_string(), true),
                None => (name.clone(), false),
            };
            let tag = match std::fs::read(e.path()) {
                Ok(b) => format!("F{}.{:08x}", b.len(), fnv(&b)),
                Err(_) => "D".to_string(),
            };
            match stem.parse::<u128>() {
                Ok(n) if n.to_string() == stem => {
                    items.push((n, full as u8, format!("{}{}:{}", n, if full { "f" } else { "" }, tag)))
                }
                _ => items.push((u128::MAX, 2, format!("x{}:{}", hx(&name), tag))),
            }
        }
    }
    items.sort();
    items.into_iter().map(|x| x.2).collect::<Vec<_>>().join(",")
}

static STUCK_THREADS: std::sync::atomic::AtomicUsize = std::sync::atomic::AtomicUsize::new(0);

pub fn wait_quiescent() {
    // all helper threads (event reports, decompression) have exited when only this thread is left
    let start = std::time::Instant::now();
    loop {
        // the kernel's own thread count (one atomic read); a failed or garbled read counts as "still busy"
        let n = std::fs::read_to_string("/proc/self/status")
            .ok()
            .and_then(|s| {
                s.lines()
                    .find_map(|l| l.strip_prefix("Threads:").map(|v| v.trim().parse::<usize>().ok()))
                    .flatten()
            })
            .unwrap_or(usize::MAX);
        // the scripted HTTP server keeps one accept thread for the whole run; threads that were given up on earlier
        // (reported once, below) stay where they are
        let base = (if crate::http::enabled() { 2 } else { 1 }) + STUCK_THREADS.load(std::sync::atomic::Ordering::SeqCst);
        if n <= base {
            return;
        }
        // (once a thread has been given up on, later ones of the same process get 3 s: the report has been made)
        let limit = if STUCK_THREADS.load(std::sync::atomic::Ordering::SeqCst) > 0 { 3 } else { 20 };
        if start.elapsed().as_secs() > limit {
            // a library thread that does not end: reported on the trace (a violation of "no thread hangs" for the
            // checks that read it), and not waited for again
            println!("THREAD-STUCK {} thread(s) of the library still alive {} s after the call returned", n - base, limit);
            STUCK_THREADS.fetch_add(n - base, std::sync::atomic::Ordering::SeqCst);
            return;
        }
        std::thread::sleep(std::time::Duration::from_micros(200));
    }
}

// ---------- op parsing ----------
pub fn str_tok(t: &str) -> String {
    if t == "e" {
        String::new()
    } else {
        String::from_utf8(hex::decode(t).expect("hex")).expect("utf8")
    }
}
pub fn ostr_tok(t: &str) -> Option<String> {
    if t == "-" {
        None
    } else {
        Some(str_tok(t))
    }
}

pub struct World {
    pub root: PathBuf,
    pub storage: PathBuf,
    pub cache: PathBuf,
    pub base_path: PathBuf,
    pub blobs: HashMap<String, Vec<u8>>,
    pub base: Vec<u8>,
    pub snaps_pj: HashMap<usize, Option<Vec<u8>>>,
    pub snaps_sj: HashMap<usize, Option<Vec<u8>>>,
    pub idx: usize,
}

pub fn parse_resp<'a>(toks: &'a [&'a str]) -> (Option<RespSpec>, &'a [&'a str]) {
    if toks[0] == "err" {
        return (None, &toks[1..]);
    }
    let val = |t: &'a str| t.split_once('=').unwrap().1;
    let avail = val(toks[0]) == "t";
    let pv = val(toks[1]);
    let patch = if pv == "-" {
        None
    } else {
        let f: Vec<&str> = pv.split(':').collect();
        Some(PatchSpec {
            number: f[0].parse().expect("patch number"),
            hash: str_tok(f[1]),
            url: str_tok(f[2]),
            sig: ostr_tok(f[3]),
        })
    };
    let rv = val(toks[2]);
    let rb = if rv == "-" {
        None
    } else if rv == "e" {
        Some(vec![])
    } else {
        Some(rv.split(';').map(|x| x.parse().expect("rb number")).collect())
    };
    (Some(RespSpec { avail, patch, rb }), &toks[3..])
}

impl World {
    pub fn new(root: &Path) -> World {
        World {
            root: root.to_path_buf(),
            storage: root.join("storage"),
            cache: root.join("cache"),
            base_path: root.join("libapp.so"),
            blobs: HashMap::new(),
            base: vec![],
            snaps_pj: HashMap::new(),
            snaps_sj: HashMap::new(),
            idx: 0,
        }
    }
    pub fn start_history(&mut self, name: &str) {
        let _hfs = HarnessFs::new();
        verif_reset_config();
        let mut h = self.root.join(format!("h_{}", name));
        let _ = std::fs::remove_dir_all(&h);
        if ODD_PATHS.load(std::sync::atomic::Ordering::SeqCst) {
            // `paths odd`: the directories handed to shorebird_init contain spaces, an apostrophe and non-ASCII characters
            h = h.join("st\u{f6}r age 'x \u{65e5}\u{672c}\u{8a9e}");
        }
        self.storage = h.join("storage");
        self.cache = h.join("cache");
        self.base_path = h.join("libapp.so");
        std::fs::create_dir_all(&self.storage).unwrap();
        std::fs::create_dir_all(&self.cache).unwrap();
        std::fs::write(&self.base_path, &self.base).unwrap();
        self.snaps_pj.clear();
        self.snaps_sj.clear();
        self.idx = 0;
        LOG.lock().unwrap().clear();
    }
    pub fn blob(&self, t: &str) -> Vec<u8> {
        self.blobs
            .get(t.strip_prefix('@').expect("blob ref"))
            .unwrap_or_else(|| panic!("unknown blob {t}"))
            .clone()
    }
    fn yaml_of(&self, y: &str) -> String {
        if y == "bad" {
            return "channel: [unclosed".to_string();
        }
        if let Some(h) = y.strip_prefix("raw:") {
            return String::from_utf8_lossy(&hex::decode(h).unwrap_or_default()).replace('\0', " ");
        }
        let f: Vec<&str> = y.split(':').collect();
        let mut m = serde_yaml::Mapping::new();
        m.insert("app_id".into(), str_tok(f[1]).into());
        if let Some(c) = ostr_tok(f[2]) {
            m.insert("channel".into(), c.into());
        }
        if let Some(k) = ostr_tok(f[3]) {
            m.insert("patch_public_key".into(), k.into());
        }
        if f[4] != "-" {
            m.insert("auto_update".into(), (f[4] == "t").into());
        }
        if crate::http::enabled() {
            m.insert("base_url".into(), crate::http::base_url().into());
        } else {
            m.insert("base_url".into(), "http://h".into());
        }
        serde_yaml::to_string(&m).unwrap()
    }

    pub fn init(&self, rel: &str, y: &str, paths_ok: bool) -> bool {
        let rel_c = CString::new(str_tok(rel)).unwrap();
        let storage_c = CString::new(self.storage.to_str().unwrap()).unwrap();
        let cache_c = CString::new(self.cache.to_str().unwrap()).unwrap();
        let base_c = CString::new(self.base_path.to_str().unwrap()).unwrap();
        let paths = [base_c.as_ptr()];
        let params = c_api::AppParameters {
            release_version: rel_c.as_ptr(),
            original_libapp_paths: paths.as_ptr(),
            original_libapp_paths_size: if paths_ok { 1 } else { 0 },
            app_storage_dir: storage_c.as_ptr(),
            code_cache_dir: cache_c.as_ptr(),
        };
        let callbacks = c_api::FileCallbacks {
            open: fc_open,
            read: fc_read,
            seek: fc_seek,
            close: fc_close,
        };
        let yaml_c = CString::new(self.yaml_of(y)).unwrap();
        let r = c_api::shorebird_init(&params, callbacks, yaml_c.as_ptr());
        let n = ACT.lock().unwrap().len();
        if !crate::http::enabled() {
            // real-transport mode keeps the library's default callbacks (reqwest)
            verif_set_network_hooks(check_hook, download_hook, report_hook);
        }
        ACT.lock().unwrap().truncate(n);
        r
    }

    // real-transport mode: script the local server for this call (hc= hd= he= hb= tokens)
    fn http_script(&self, r: &Option<RespSpec>, dl: &Option<Vec<u8>>, toks: &[&str]) -> bool {
        if !crate::http::enabled() {
            return false;
        }
        let mut sc = crate::http::Script {
            resp: r.clone(),
            raw_body: None,
            dl: dl.clone(),
            hc: if r.is_none() { "s500".into() } else { "ok".into() },
            hd: if dl.is_none() { "s404".into() } else { "ok".into() },
            he: "ok".into(),
        };
        for t in toks {
            if let Some((k, v)) = t.split_once('=') {
                match k {
                    "hc" => sc.hc = v.to_string(),
                    "hd" => sc.hd = v.to_string(),
                    "he" => sc.he = v.to_string(),
                    "hb" => sc.raw_body = Some(self.blob(v)),
                    _ => {}
                }
            }
        }
        let refuse = sc.hc == "refused";
        *crate::http::SCRIPT.lock().unwrap() = Some(sc);
        if refuse {
            crate::http::set_refuse(true);
        }
        refuse
    }

    pub fn set_env(resp: Option<RespSpec>, dl: Option<Vec<u8>>) {
        ENV.with(|e| {
            *e.borrow_mut() = Some(Env {
                resp,
                dl,
                report_fails: false,
            })
        });
    }

    pub fn path_out(&self, p: *mut libc::c_char) -> String {
        if p.is_null() {
            return "null".into();
        }
        let s = unsafe { CStr::from_ptr(p) }.to_string_lossy().to_string();
        unsafe { c_api::shorebird_free_string(p) };
        if TRACK.load(std::sync::atomic::Ordering::SeqCst) {
            crate::track::disarm();
        }
        let pre = format!("{}/patches/", self.storage.to_str().unwrap());
        match s
            .strip_prefix(&pre)
            .and_then(|r| r.strip_suffix("/dlc.vmcode"))
        {
            Some(n) => format!("path:{}", n),
            None => format!("badpath:{}", s),
        }
    }

    pub fn update(&self, ch: &Option<String>) -> String {
        let c = ch.as_ref().map(|s| CString::new(s.as_str()).unwrap());
        let tr = TRACK.load(std::sync::atomic::Ordering::SeqCst);
        if tr {
            crate::track::arm();
        }
        let r = c_api::shorebird_update_with_result(
            c.as_ref().map_or(std::ptr::null(), |s| s.as_ptr()),
        );
        if r.is_null() {
            // the engine and the Dart binding dereference the result unconditionally
            if tr {
                crate::track::disarm();
            }
            return "NULLRESULT".into();
        }
        let status = unsafe { (*r).status };
        unsafe { c_api::shorebird_free_update_result(r as *mut c_api::UpdateResult) };
        if tr {
            crate::track::disarm();
        }
        status.to_string()
    }

    pub fn check(&self, ch: &Option<String>) -> String {
        let c = ch.as_ref().map(|s| CString::new(s.as_str()).unwrap());
        let r = c_api::shorebird_check_for_downloadable_update(
            c.as_ref().map_or(std::ptr::null(), |s| s.as_ptr()),
        );
        r.to_string()
    }

    pub fn damage(&mut self, toks: &[&str]) {
        let _hfs = HarnessFs::new();
        let pdir = |n: &str| self.storage.join("patches").join(n);
        match toks {
            ["delfile", n] => {
                let _ = std::fs::remove_file(pdir(n).join("dlc.vmcode"));
            }
            ["deldir", n] => {
                let _ = std::fs::remove_dir_all(pdir(n));
            }
            ["setart", n, b] => {
                std::fs::create_dir_all(pdir(n)).unwrap();
                // a replacement of the same length keeps the file's timestamps (cp -p, a restored backup, a coarse
                // clock): whatever (path, size, mtime) may have been remembered about the old content still matches
                let f = pdir(n).join("dlc.vmcode");
                let old = std::fs::metadata(&f).ok();
                let new = self.blob(b);
                let keep = old.as_ref().map_or(false, |m| m.is_file() && m.len() == new.len() as u64);
                std::fs::write(&f, new).unwrap();
                if keep {
                    let m = old.unwrap();
                    if let (Ok(mt), Ok(at)) = (m.modified(), m.accessed()) {
                        let t = std::fs::FileTimes::new().set_modified(mt).set_accessed(at);
                        if let Ok(fh) = std::fs::OpenOptions::new().write(true).open(&f) {
                            let _ = fh.set_times(t);
                        }
                    }
                }
            }
            ["rawpj", b] => {
                *RAW_PJ.lock().unwrap() = Some(self.blob(b));
                std::fs::write(self.storage.join("patches_state.json"), self.blob(b)).unwrap();
            }
            ["rawsj", b] => {
                std::fs::write(self.storage.join("state.json"), self.blob(b)).unwrap();
            }
            ["sjq", rel, evs] => {
                // a state.json holding the given queued events (same token syntax as the trace prints)
                let mut q = vec![];
                for t in evs.split(',').filter(|x| !x.is_empty() && *x != "-") {
                    let f: Vec<&str> = t.split('.').collect();
                    let ty = match f[0] {
                        "S" => "__patch_install__",
                        "F" => "__patch_install_failure__",
                        _ => "__patch_download__",
                    };
                    let msg = match f[4] {
                        "i" => serde_json::Value::String(format!("Patch {} was marked currently_booting in init", f[1])),
                        "e" => serde_json::Value::String(format!("Install failure reported from engine for patch {}", f[1])),
                        _ => serde_json::Value::Null,
                    };
                    q.push(serde_json::json!({
                        "app_id": str_tok(f[2]), "arch": arch(), "type": ty,
                        "patch_number": f[1].parse::<u64>().unwrap(), "platform": "linux",
                        "release_version": str_tok(f[3]), "timestamp": 1700000000u64, "message": msg}));
                }
                let v = serde_json::json!({"release_version": str_tok(rel), "queued_events": q});
                std::fs::write(self.storage.join("state.json"), serde_json::to_vec_pretty(&v).unwrap()).unwrap();
            }
            ["artisfile", n] => {
                let _ = std::fs::remove_dir_all(pdir(n));
                std::fs::create_dir_all(self.storage.join("patches")).unwrap();
                std::fs::write(pdir(n), b"not a directory").unwrap();
            }
            ["artfileisdir", n] => {
                let _ = std::fs::remove_dir_all(pdir(n));
                std::fs::create_dir_all(pdir(n).join("dlc.vmcode")).unwrap();
            }
            ["patchesisfile"] => {
                let _ = std::fs::remove_dir_all(self.storage.join("patches"));
                std::fs::write(self.storage.join("patches"), b"x").unwrap();
            }
            ["pjisdir"] => {
                let _ = std::fs::remove_file(self.storage.join("patches_state.json"));
                std::fs::create_dir_all(self.storage.join("patches_state.json")).unwrap();
            }
            ["junk"] => {
                std::fs::create_dir_all(self.storage.join("patches").join("junk")).unwrap();
            }
            ["junkh"] => {
                // a hidden, non-empty stray directory (what an interrupted clean-up of some other version may leave)
                let d = self.storage.join("patches").join(".trash");
                std::fs::create_dir_all(d.join("old")).unwrap();
                std::fs::write(d.join("old").join("dlc.vmcode"), b"stale").unwrap();
            }
            [f @ ("pj" | "sj"), what] => {
                let p = self.storage.join(if *f == "pj" {
                    "patches_state.json"
                } else {
                    "state.json"
                });
                match *what {
                    "missing" => {
                        let _ = std::fs::remove_file(&p);
                    }
                    "garbage" => {
                        std::fs::write(&p, b"{\n  \"release_version\": \"1.0").unwrap();
                    }
                    k => {
                        let k: usize = k.parse().unwrap();
                        let snap = if *f == "pj" {
                            self.snaps_pj.get(&k)
                        } else {
                            self.snaps_sj.get(&k)
                        };
                        match snap {
                            Some(Some(bytes)) => std::fs::write(&p, bytes).unwrap(),
                            _ => {
                                let _ = std::fs::remove_file(&p);
                            }
                        }
                    }
                }
            }
            _ => panic!("bad damage {:?}", toks),
        }
    }

    pub fn snapshot(&mut self) {
        self.idx += 1;
        self.snaps_pj.insert(
            self.idx,
            std::fs::read(self.storage.join("patches_state.json")).ok(),
        );
        self.snaps_sj
            .insert(self.idx, std::fs::read(self.storage.join("state.json")).ok());
    }

    // executes one op and returns its canonical output
    pub fn exec(&mut self, toks: &[&str]) -> String {
        if let ["dmg", rest @ ..] = toks {
            self.damage(rest);
            return "unit".into();
        }
        self.exec_api(toks)
    }

    // API calls only (usable from several threads)
    pub fn exec_api(&self, toks: &[&str]) -> String {
        match toks {
            ["init", rel, y, p] => self.init(rel, y, *p == "t").to_string(),
            ["kill"] => {
                verif_reset_config();
                "unit".into()
            }
            ["nextnum"] => c_api::shorebird_next_boot_patch_number().to_string(),
            ["nextpath"] => {
                if TRACK.load(std::sync::atomic::Ordering::SeqCst) {
                    crate::track::arm();
                }
                self.path_out(c_api::shorebird_next_boot_patch_path())
            }
            ["curnum"] => c_api::shorebird_current_boot_patch_number().to_string(),
            ["start"] => {
                c_api::shorebird_report_launch_start();
                "unit".into()
            }
            ["success"] => {
                c_api::shorebird_report_launch_success();
                "unit".into()
            }
            ["failure"] => {
                c_api::shorebird_report_launch_failure();
                "unit".into()
            }
            ["auto"] => c_api::shorebird_should_auto_update().to_string(),
            ["check", ch, rest @ ..] => {
                let (r, rest2) = parse_resp(rest);
                let refuse = self.http_script(&r, &None, rest2);
                Self::set_env(r, None);
                let o = self.check(&ostr_tok(ch));
                if refuse {
                    crate::http::set_refuse(false);
                }
                o
            }
            ["cinit", rel, y, spec] => {
                // shorebird_init with each pointer argument proper (o), NULL (n) or ill-formed UTF-8 (b):
                // spec = <params struct><release_version><storage dir><cache dir><paths: o/e(mpty)/n/b><yaml>
                let sp: Vec<char> = spec.chars().collect();
                let bad = [0xffu8, 0xfe, 0x00];
                let pick = |c: char, good: &CString| -> *const libc::c_char {
                    match c {
                        'n' => std::ptr::null(),
                        'b' => bad.as_ptr() as *const libc::c_char,
                        _ => good.as_ptr(),
                    }
                };
                let rel_c = CString::new(str_tok(rel)).unwrap();
                let storage_c = CString::new(self.storage.to_str().unwrap()).unwrap();
                let cache_c = CString::new(self.cache.to_str().unwrap()).unwrap();
                let base_c = CString::new(self.base_path.to_str().unwrap()).unwrap();
                let yaml_c = CString::new(self.yaml_of(y)).unwrap();
                let paths = [pick(sp[4], &base_c)];
                let params = c_api::AppParameters {
                    release_version: pick(sp[1], &rel_c),
                    original_libapp_paths: paths.as_ptr(),
                    original_libapp_paths_size: if sp[4] == 'e' { 0 } else { 1 },
                    app_storage_dir: pick(sp[2], &storage_c),
                    code_cache_dir: pick(sp[3], &cache_c),
                };
                let callbacks = c_api::FileCallbacks { open: fc_open, read: fc_read, seek: fc_seek, close: fc_close };
                let pp: *const c_api::AppParameters = if sp[0] == 'n' { std::ptr::null() } else { &params };
                let r = c_api::shorebird_init(pp, callbacks, pick(sp[5], &yaml_c));
                let n = ACT.lock().unwrap().len();
                if r && !crate::http::enabled() {
                    verif_set_network_hooks(check_hook, download_hook, report_hook);
                }
                ACT.lock().unwrap().truncate(n);
                r.to_string()
            }
            ["freenull"] => {
                // the free functions must accept NULL
                unsafe {
                    c_api::shorebird_free_string(std::ptr::null());
                    c_api::shorebird_free_update_result(std::ptr::null_mut());
                }
                "unit".into()
            }
            ["updatebadch"] => {
                // a channel that is not UTF-8: error status, message present, nothing else happens
                Self::set_env(None, None);
                let bad = [0xffu8, 0xfe, 0x00];
                let r = c_api::shorebird_update_with_result(bad.as_ptr() as *const libc::c_char);
                if r.is_null() {
                    return "NULLRESULT".into();
                }
                let status = unsafe { (*r).status };
                let has_msg = unsafe { !(*r).message.is_null() };
                unsafe { c_api::shorebird_free_update_result(r as *mut c_api::UpdateResult) };
                format!("{}{}", status, if has_msg { "" } else { ":nomsg" })
            }
            ["checkbadch"] => {
                Self::set_env(None, None);
                let bad = [0xffu8, 0xfe, 0x00];
                c_api::shorebird_check_for_downloadable_update(bad.as_ptr() as *const libc::c_char).to_string()
            }
            ["initbadutf8"] => {
                let bad = [0xffu8, 0xfe, 0x00];
                let storage_c = CString::new(self.storage.to_str().unwrap()).unwrap();
                let cache_c = CString::new(self.cache.to_str().unwrap()).unwrap();
                let base_c = CString::new(self.base_path.to_str().unwrap()).unwrap();
                let paths = [base_c.as_ptr()];
                let params = c_api::AppParameters {
                    release_version: bad.as_ptr() as *const libc::c_char,
                    original_libapp_paths: paths.as_ptr(),
                    original_libapp_paths_size: 1,
                    app_storage_dir: storage_c.as_ptr(),
                    code_cache_dir: cache_c.as_ptr(),
                };
                let callbacks = c_api::FileCallbacks { open: fc_open, read: fc_read, seek: fc_seek, close: fc_close };
                let yaml_c = CString::new("app_id: x").unwrap();
                let a = c_api::shorebird_init(&params, callbacks, yaml_c.as_ptr());
                let b = c_api::shorebird_init(std::ptr::null(), callbacks, yaml_c.as_ptr());
                format!("{},{}", a, b)
            }
            ["check0", rest @ ..] => {
                let (r, rest2) = parse_resp(rest);
                let refuse = self.http_script(&r, &None, rest2);
                Self::set_env(r, None);
                let o = c_api::shorebird_check_for_update().to_string();
                if refuse {
                    crate::http::set_refuse(false);
                }
                o
            }
            ["startupd", rest @ ..] => {
                // start_update_thread without waiting for the thread (the script stays in the global slot)
                let (r, rest2) = parse_resp(rest);
                let dl = if rest2[0] == "err" { None } else { Some(self.blob(rest2[0])) };
                *SPAWNED_ENV.lock().unwrap() = Some((r, dl));
                c_api::shorebird_start_update_thread();
                "unit".into()
            }
            ["waitbgnet"] => {
                // until the library's update thread is inside its (hung) patch check, at most 3 s
                let t0 = std::time::Instant::now();
                while !crate::sched::BG_IN_NET.load(std::sync::atomic::Ordering::SeqCst) && t0.elapsed().as_secs() < 3 {
                    std::thread::sleep(std::time::Duration::from_millis(2));
                }
                crate::sched::BG_IN_NET.load(std::sync::atomic::Ordering::SeqCst).to_string()
            }
            [k @ ("update0" | "updatet"), rest @ ..] => {
                let (r, rest2) = parse_resp(rest);
                let dl = if rest2[0] == "err" {
                    None
                } else {
                    Some(self.blob(rest2[0]))
                };
                let refuse = self.http_script(&r, &dl, &rest2[1..]);
                if *k == "update0" {
                    Self::set_env(r, dl);
                    c_api::shorebird_update();
                } else {
                    // the update runs on a thread of the library's own: hand it the script through the global slot
                    *SPAWNED_ENV.lock().unwrap() = Some((r, dl));
                    c_api::shorebird_start_update_thread();
                    wait_quiescent();
                    *SPAWNED_ENV.lock().unwrap() = None;
                }
                if refuse {
                    crate::http::set_refuse(false);
                }
                "unit".into()
            }
            ["update", ch, rest @ ..] => {
                let (r, rest2) = parse_resp(rest);
                let dl = if rest2[0] == "err" {
                    None
                } else {
                    Some(self.blob(rest2[0]))
                };
                let refuse = self.http_script(&r, &dl, &rest2[1..]);
                Self::set_env(r, dl);
                let o = self.update(&ostr_tok(ch));
                if refuse {
                    crate::http::set_refuse(false);
                }
                o
            }
            _ => panic!("bad op {:?}", toks),
        }
    }
}

pub fn main(args: &[String]) -> i32 {
    let opfile = &args[0];
    let root = PathBuf::from(&args[1]);
    std::fs::create_dir_all(&root).unwrap();
    register_fs_observer(&root);
    let text = std::fs::read_to_string(opfile).expect("op file");
    let mut w = World::new(&root);
    let keep = std::env::var("UVH_KEEP").is_ok();
    let mut cur_hist: Option<PathBuf> = None;
    let mut sched_threads: Vec<Vec<Vec<String>>> = vec![];
    let mut tracing = false;
    let mut dls_on = false;
    let mut rawfiles = false;
    let mut op_index = 0usize;
    let cut_op: Option<usize> = std::env::var("UVH_CUT_OP").ok().and_then(|x| x.parse().ok());
    use std::io::Write;
    let stdout = std::io::stdout();
    let mut out = std::io::BufWriter::new(stdout.lock());
    for line in text.lines() {
        let toks: Vec<&str> = line.split_whitespace().collect();
        if toks.is_empty() || toks[0].starts_with('#') {
            continue;
        }
        match toks[0] {
            "history" => {
                if let (Some(h), false) = (&cur_hist, keep) {
                    let _hfs = HarnessFs::new();
                    let _ = std::fs::remove_dir_all(h);
                }
                *CUR_OP.lock().unwrap() = (toks[1].to_string(), 0);
                w.start_history(toks[1]);
                cur_hist = Some(w.storage.parent().unwrap().to_path_buf());
                writeln!(out, "history {}", toks[1]).unwrap();
            }
            "blob" => {
                let b = if toks[2] == "e" {
                    vec![]
                } else {
                    hex::decode(toks[2]).expect("blob hex")
                };
                w.blobs.insert(toks[1].to_string(), b);
            }
            "zdec" | "sig" | "num" => {}
            "http" => {
                crate::http::start();
            }
            "paths" => {
                ODD_PATHS.store(toks[1] == "odd", std::sync::atomic::Ordering::SeqCst);
            }
            "stall" => {
                crate::sched::STALL.store(toks[1] == "on", std::sync::atomic::Ordering::SeqCst);
                crate::sched::STALL_BG.store(toks[1] == "bg", std::sync::atomic::Ordering::SeqCst);
                crate::sched::STALL_EV.store(toks[1] == "ev", std::sync::atomic::Ordering::SeqCst);
                crate::sched::BG_IN_NET.store(false, std::sync::atomic::Ordering::SeqCst);
            }
            "faultspec" => {}
            "dls" => {
                dls_on = toks[1] == "on";
            }
            "rawfiles" => {
                // after every call: the bytes of the two state files as they are on disk (for the canonical-form check of
                // what the library writes against the model of its writer)
                rawfiles = toks[1] == "on";
            }
            "errnul" => {
                ERRNUL.store(toks[1] == "on", std::sync::atomic::Ordering::SeqCst);
            }
            "track" => {
                TRACK.store(toks[1] == "on", std::sync::atomic::Ordering::SeqCst);
            }
            "trace" => {
                tracing = true;
                IS_MAIN.with(|m| m.set(true));
                updater::verif::verif_set_sync_hook(Some(trace_hook));
            }
            "base" => {
                w.base = w.blob(toks[1]);
            }
            "op" => {
                LOG.lock().unwrap().clear();
                ACT.lock().unwrap().clear();
                op_index += 1;
                CUR_OP.lock().unwrap().1 += 1;
                let arm = cut_op == Some(op_index);
                if arm {
                    // UVH_FAULT_SCOPE=all: faults also hit the download / inflate files under cache/ (C05), not only storage/
                    let scope = if std::env::var("UVH_FAULT_SCOPE").map(|v| v == "all").unwrap_or(false) {
                        w.storage.parent().unwrap().to_path_buf()
                    } else {
                        w.storage.clone()
                    };
                    std::env::set_var("SHIM_PREFIX", scope.to_str().unwrap());
                    std::env::set_var("SHIM_ARMED", "1");
                }
                let o = w.exec(&toks[1..]);
                if arm {
                    std::env::remove_var("SHIM_ARMED");
                }
                wait_quiescent();
                w.snapshot();
                let net = LOG.lock().unwrap().clone();
                if tracing {
                    let a = std::mem::take(&mut *ACT.lock().unwrap());
                    let a = if toks[1] == "kill" || toks[1] == "dmg" { "-".to_string() } else { a.join(",") };
                    writeln!(out, "{} act={}", abs_line(&o, &w.storage, &net), a).unwrap();
                } else if dls_on {
                    writeln!(out, "{} dls={}", abs_line(&o, &w.storage, &net), abs_dls(&w.cache)).unwrap();
                } else {
                    writeln!(out, "{}", abs_line(&o, &w.storage, &net)).unwrap();
                }
                if rawfiles {
                    let _hfs = HarnessFs::new();
                    let hxf = |p: std::path::PathBuf| std::fs::read(p).ok().map_or("-".to_string(), |b| if b.is_empty() { "e".to_string() } else { hex::encode(b) });
                    writeln!(out, "raw:{}:{}", hxf(w.storage.join("patches_state.json")), hxf(w.storage.join("state.json"))).unwrap();
                }
                out.flush().unwrap();
            }
            "applypatch" | "sha" | "wfm" | "sdiff" | "varint" | "chunked" | "bsdiff" | "json" | "b64" | "jsonbody" => {}
            "t0" | "t1" | "t2" => {
                let idx: usize = toks[0][1..].parse().unwrap();
                while sched_threads.len() <= idx {
                    sched_threads.push(vec![]);
                }
                sched_threads[idx].push(toks[2..].iter().map(|s| s.to_string()).collect());
            }
            "order" => {
                let order: Vec<usize> = toks[1].split(',').filter(|x| !x.is_empty()).map(|x| x.parse().unwrap()).collect();
                LOG.lock().unwrap().clear();
                CUR_OP.lock().unwrap().1 += 1;
                let outs = crate::sched::run(&w, std::mem::take(&mut sched_threads), &order);
                if tracing {
                    updater::verif::verif_set_sync_hook(Some(trace_hook));
                }
                wait_quiescent();
                w.snapshot();
                let mut net = LOG.lock().unwrap().clone();
                net.sort();
                writeln!(out, "{}", abs_line(&outs, &w.storage, &net)).unwrap();
                out.flush().unwrap();
            }
            other => panic!("bad line {other}"),
        }
    }
    if let (Some(h), false) = (&cur_hist, keep) {
        let _hfs = HarnessFs::new();
        let _ = std::fs::remove_dir_all(h);
    }
    for x in UNLOCKED.lock().unwrap().iter() {
        writeln!(out, "UNLOCKED-WRITE {}", x).unwrap();
    }
    let v = DEPTH_VIOLATIONS.lock().unwrap();
    for x in v.iter() {
        writeln!(out, "DEPTH-VIOLATION {}", x).unwrap();
    }
    if let Some(m) = crate::track::report() {
        writeln!(out, "{}", m).unwrap();
    }
    0
}

// after <history dir> <init op tokens...>: prints the abstract state of the (crashed) directory, then
// plays the next launch: init, nextnum, nextpath, curnum
pub fn after(args: &[String]) -> i32 {
    let hist = PathBuf::from(&args[0]);
    let mut w = World::new(&hist);
    w.storage = hist.join("storage");
    w.cache = hist.join("cache");
    w.base_path = hist.join("libapp.so");
    println!("{}", abs_line("crash", &w.storage, &[]));
    if args.len() > 1 {
        let toks: Vec<&str> = args[1..].iter().map(|x| x.as_str()).collect();
        let mut outs = vec![];
        outs.push(w.exec_api(&toks));
        for q in [["nextnum"], ["nextpath"], ["curnum"]] {
            outs.push(w.exec_api(&q));
        }
        wait_quiescent();
        println!("{}", abs_line(&outs.join(","), &w.storage, &[]));
    }
    0
}
