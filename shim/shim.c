// LD_PRELOAD interposer: counts the mutating file-system calls made under SHIM_PREFIX once
// SHIM_ARMED is set, and at index SHIM_CUT kills the process (before performing the call), or at
// index SHIM_FAIL makes that one call fail with EIO. SHIM_LOG=1 prints every counted call.
// A callback registered through shim_register_fs_callback sees every mutating call with its full path (lock-discipline monitor; no environment needed).
// With SHIM_READS=1 the opens for reading of state.json / patches_state.json / dlc.vmcode are counted (and faulted) as well.
#define _GNU_SOURCE
#include <dlfcn.h>
#include <errno.h>
#include <fcntl.h>
#include <stdarg.h>
#include <stdio.h>
#include <stdlib.h>
#include <string.h>
#include <sys/stat.h>
#include <unistd.h>

static int counter = 0;
static int armed = 0;
static int tracked_fd[4096];

// lock-discipline observer: the harness registers a callback that is told of every mutating call (armed or
// not, any path); it decides whether the calling thread may touch that path now
static void (*fs_cb)(const char *, const char *) = 0;
void shim_register_fs_callback(void (*f)(const char *, const char *)) { fs_cb = f; }
static void seen(const char *what, const char *path) {
  if (fs_cb && path) fs_cb(what, path);
}

static int envint(const char *n) { const char *s = getenv(n); return s ? atoi(s) : -1; }

// returns 0 = not counted, 1 = counted (go on), 2 = counted and must fail
static int hit(const char *what, const char *path) {
  const char *p = getenv("SHIM_PREFIX");
  if (!p || !path || strncmp(path, p, strlen(p)) != 0) return 0;
  if (!getenv("SHIM_ARMED")) { armed = 0; return 0; }
  if (!armed) { armed = 1; counter = 0; }
  int me = counter++;
  if (getenv("SHIM_LOG")) dprintf(2, "SHIM %d %s %s\n", me, what, path + strlen(p));
  if (me == envint("SHIM_CUT")) { dprintf(2, "SHIM CUT at %d %s %s\n", me, what, path + strlen(p)); _exit(137); }
  if (me == envint("SHIM_FAIL")) { dprintf(2, "SHIM FAIL at %d %s %s\n", me, what, path + strlen(p)); return 2; }
  return 1;
}

// reads that are faulted too (SHIM_READS=1): the two state files and the patch artifacts
static int is_data_file(const char *path) {
  if (!path) return 0;
  const char *b = strrchr(path, '/');
  b = b ? b + 1 : path;
  return strcmp(b, "state.json") == 0 || strcmp(b, "patches_state.json") == 0 || strcmp(b, "dlc.vmcode") == 0;
}

static const char *fullpath(int dirfd, const char *p, char *buf) {
  if (!p || p[0] == '/' || dirfd == AT_FDCWD) return p;
  char lnk[64];
  snprintf(lnk, sizeof lnk, "/proc/self/fd/%d", dirfd);
  ssize_t n = readlink(lnk, buf, 3900);
  if (n <= 0) return p;
  buf[n] = '/';
  strncpy(buf + n + 1, p, 190);
  buf[n + 1 + 190] = 0;
  return buf;
}

#define OPEN_BODY(NAME, HASDIR)                                                        \
  static int (*real)() = 0;                                                           \
  if (!real) real = dlsym(RTLD_NEXT, NAME);                                           \
  mode_t m = 0;                                                                       \
  if (flags & (O_CREAT | O_TMPFILE)) { va_list a; va_start(a, flags); m = va_arg(a, int); va_end(a); } \
  char buf[4200];                                                                     \
  int t = 0;                                                                          \
  if ((flags & O_CREAT) || (flags & O_TRUNC) || (flags & O_ACCMODE) != O_RDONLY) seen("open-w", HASDIR ? fullpath(dirfd, path, buf) : path); \
  if ((flags & O_CREAT) || (flags & O_TRUNC)) t = hit("create-trunc", HASDIR ? fullpath(dirfd, path, buf) : path); \
  else if (getenv("SHIM_READS") && (flags & O_ACCMODE) == O_RDONLY && !(flags & O_DIRECTORY) && is_data_file(path)) { \
    t = hit("read-open", HASDIR ? fullpath(dirfd, path, buf) : path); if (t == 1) t = 0; } \
  if (t == 2) { errno = EIO; return -1; }

int openat(int dirfd, const char *path, int flags, ...) {
  OPEN_BODY("openat", 1)
  int fd = real(dirfd, path, flags, m);
  if (t && fd >= 0 && fd < 4096) tracked_fd[fd] = 1;
  return fd;
}
int openat64(int dirfd, const char *path, int flags, ...) {
  OPEN_BODY("openat64", 1)
  int fd = real(dirfd, path, flags, m);
  if (t && fd >= 0 && fd < 4096) tracked_fd[fd] = 1;
  return fd;
}
int open(const char *path, int flags, ...) {
  int dirfd = AT_FDCWD;
  OPEN_BODY("open", 0)
  int fd = real(path, flags, m);
  if (t && fd >= 0 && fd < 4096) tracked_fd[fd] = 1;
  return fd;
}
int open64(const char *path, int flags, ...) {
  int dirfd = AT_FDCWD;
  OPEN_BODY("open64", 0)
  int fd = real(path, flags, m);
  if (t && fd >= 0 && fd < 4096) tracked_fd[fd] = 1;
  return fd;
}
ssize_t write(int fd, const void *b, size_t n) {
  static ssize_t (*real)(int, const void *, size_t) = 0;
  if (!real) real = dlsym(RTLD_NEXT, "write");
  if (fd >= 0 && fd < 4096 && tracked_fd[fd]) {
    const char *p = getenv("SHIM_PREFIX");
    char tmp[4200];
    snprintf(tmp, sizeof tmp, "%s/<fd%d>", p ? p : "", fd);
    int t = hit("write", tmp);
    if (t == 2) { errno = EIO; return -1; }
  }
  return real(fd, b, n);
}
int close(int fd) {
  static int (*real)(int) = 0;
  if (!real) real = dlsym(RTLD_NEXT, "close");
  if (fd >= 0 && fd < 4096) tracked_fd[fd] = 0;
  return real(fd);
}
int rename(const char *a, const char *b) {
  static int (*real)(const char *, const char *) = 0;
  if (!real) real = dlsym(RTLD_NEXT, "rename");
  seen("rename", a); seen("rename", b);
  int t = hit("rename", b);
  if (t == 2) { errno = EIO; return -1; }
  return real(a, b);
}
int mkdir(const char *p, mode_t m) {
  static int (*real)(const char *, mode_t) = 0;
  if (!real) real = dlsym(RTLD_NEXT, "mkdir");
  struct stat st;
  if (stat(p, &st) != 0) {
    seen("mkdir", p);
    int t = hit("mkdir", p);
    if (t == 2) { errno = EIO; return -1; }
  }
  return real(p, m);
}
int unlinkat(int d, const char *p, int f) {
  static int (*real)(int, const char *, int) = 0;
  if (!real) real = dlsym(RTLD_NEXT, "unlinkat");
  char buf[4200];
  seen(f ? "rmdir" : "unlink", fullpath(d, p, buf));
  int t = hit(f ? "rmdir" : "unlink", fullpath(d, p, buf));
  if (t == 2) { errno = EIO; return -1; }
  return real(d, p, f);
}
int unlink(const char *p) {
  static int (*real)(const char *) = 0;
  if (!real) real = dlsym(RTLD_NEXT, "unlink");
  seen("unlink", p);
  int t = hit("unlink", p);
  if (t == 2) { errno = EIO; return -1; }
  return real(p);
}
int rmdir(const char *p) {
  static int (*real)(const char *) = 0;
  if (!real) real = dlsym(RTLD_NEXT, "rmdir");
  seen("rmdir", p);
  int t = hit("rmdir", p);
  if (t == 2) { errno = EIO; return -1; }
  return real(p);
}
