#!/usr/bin/env python3
# writes the self-contained corpus files (witness histories of the repaired defects); run once, committed
import os, sys
sys.path.insert(0, os.path.dirname(os.path.abspath(__file__)))
from uvlib import *
import gen
ctx = Ctx(seed=7)
al = gen.Alphabet(ctx)
W = {
 'C03-D1-install-third-while-pending': ['u1', 's', 'ok', 'u2', 'u3', 'q', 'R', 's', 'fail', 'q', 'p'],
 'C19-D1-superseded-reclaimed': ['u1', 's', 'ok', 'u2', 'u3', 'q'],
 'C03-D1b-install-while-pending-is-booting': ['u1', 's', 'ok', 'u2', 'R', 's', 'u3', 'ok', 'q', 'c', 'R', 's', 'fail', 'q'],
 'C09-D2-lower-number-installed-during-boot': ['u2', 's', 'u1', 'ok', 'q', 'p', 'R', 'q'],
 'C09-D3-unrelated-rollback': ['u1', 's', 'ok', 'u2', 'rb5', 'q', 'crb5', 'q', 'ck2'],
 'C18-D3-no-spurious-restart-required': ['u1', 's', 'ok', 'u2', 'R', 's', 'c', 'q', 'rb5', 'c', 'q'],
 'C10-rollback-selected-falls-back': ['u1', 's', 'ok', 'u2', 'rb2', 'q', 'R', 'q', 'u2', 'q'],
 'C02-ban-survives-restart-and-reoffer': ['u1', 's', 'fail', 'q', 'u1', 'ck1', 'R', 'u1', 'q', 'u2', 'R', 's', 'R', 'u2', 'q'],
 'C08-release-change-resets': ['u1', 's', 'ok', 'u2', 'R', 's', 'fail', 'RV', 'q', 'c', 'u2', 'q'],
 'C17-events-flush-three': ['u1', 'R', 's', 'R', 'u2', 'R', 's', 'fail', 'u3', 'R', 's', 'R', 'u1b', 'R', 's', 'fail', 'upnone', 'upnone'],
}
os.makedirs(os.path.join(ROOT, 'corpus'), exist_ok=True)
for name, labs in W.items():
    write_opfile(os.path.join(ROOT, 'corpus', name + '.ops'), ctx.header(), [(name, [al.init] + al.seq(labs))])
ctx.cleanup()
print('wrote', len(W))
