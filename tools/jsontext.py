# jsontext.py — response bodies as BYTES for the text-level JSON model (coq/theories/JsonText.v): renderings of
# generated trees with random white space / escape forms / digit strings, byte-level mutations of them, and a table of
# edge cases around the places where serde_json's strict reader and its IgnoredAny scanner differ.
# Expected readings come from the model (driver command `jsonbody`), never from Python's json module.
import random

WS = [b' ', b'\t', b'\n', b'\r', b'  ', b' \n ']


def ws(rnd, p=0.25):
    return rnd.choice(WS) if rnd.random() < p else b''


def enc_char(rnd, cp, style):
    """one code point of a string, in one of the accepted forms"""
    if cp == 0x22:
        return rnd.choice([b'\\"', b'\\u0022'])
    if cp == 0x5c:
        return rnd.choice([b'\\\\', b'\\u005c', b'\\u005C'])
    if cp < 0x20:
        short = {8: b'\\b', 12: b'\\f', 10: b'\\n', 13: b'\\r', 9: b'\\t'}
        if cp in short and rnd.random() < 0.6:
            return short[cp]
        return ('\\u%04x' % cp).encode()
    if cp == 0x2f and rnd.random() < 0.3:
        return b'\\/'
    if style == 'raw' or rnd.random() < 0.7:
        return chr(cp).encode('utf-8')
    if cp < 0x10000:
        return (('\\u%04x' if rnd.random() < 0.5 else '\\u%04X') % cp).encode()
    v = cp - 0x10000
    return ('\\u%04x\\u%04x' % (0xd800 + (v >> 10), 0xdc00 + (v & 0x3ff))).encode()


def render_str(rnd, s):
    style = rnd.choice(['raw', 'mixed'])
    return b'"' + b''.join(enc_char(rnd, ord(ch), style) for ch in s) + b'"'


def render(rnd, n):
    """n: jsongen tree ('null',) ('bool',b) ('int',neg,v) ('float',text) ('str',s[,url]) ('arr',[..]) ('obj',[(k,v)..])"""
    k = n[0]
    if k == 'null':
        return b'null'
    if k == 'bool':
        return b'true' if n[1] else b'false'
    if k == 'int':
        return (b'-' if n[1] else b'') + str(n[2]).encode()
    if k == 'float':
        return n[1].encode()
    if k == 'str':
        return render_str(rnd, n[1])
    if k == 'arr':
        return b'[' + ws(rnd) + b','.join(ws(rnd) + render(rnd, x) + ws(rnd) for x in n[1]) + b']'
    if k == 'obj':
        return b'{' + ws(rnd) + b','.join(ws(rnd) + render_str(rnd, kk) + ws(rnd) + b':' + ws(rnd) + render(rnd, v) + ws(rnd) for kk, v in n[1]) + b'}'
    raise ValueError(n)


def mutate(rnd, b):
    b = bytearray(b)
    if not b:
        return bytes(b)
    m = rnd.randrange(9)
    if m == 0:
        return bytes(b[:rnd.randrange(len(b))])                      # truncated
    if m == 1:
        i = rnd.randrange(len(b)); b[i] = rnd.randrange(256)         # one byte replaced
    elif m == 2:
        i = rnd.randrange(len(b) + 1); b[i:i] = bytes([rnd.choice(b' \t\n\r,:{}[]"\\0e.-+ntf\x00\x1f\x7f\x80\xc0\xed\xf4\xff')])
    elif m == 3:
        i = rnd.randrange(len(b)); del b[i]
    elif m == 4:
        b += rnd.choice([b' ', b'\n', b'x', b'}', b',', b'{}', b'null', b'\x00', b'\xef\xbb\xbf'])   # oversized: trailing bytes
    elif m == 5:
        b[0:0] = rnd.choice([b' ', b'\xef\xbb\xbf', b'\n\n', b'x', b'[', b'\x00'])
    elif m == 6:
        i = rnd.randrange(len(b)); j = min(len(b), i + rnd.randrange(1, 6)); b[i:j] = b[i:j] * 2     # a stretch doubled
    elif m == 7:
        i = rnd.randrange(len(b)); b[i:i] = rnd.choice([b'\\ud800', b'\\udc00', b'\\ud83d\\ude00', b'\\u00e9', b'\\x', b'\\', b'\xed\xa0\x80', b'\xc3\xa9', b'\xc3'])
    else:
        i = rnd.randrange(len(b)); b[i:i] = rnd.choice([b'1e5', b'0.5', b'-0', b'01', b'1.', b'.5', b'1e', b'18446744073709551615', b'18446744073709551616', b'-9223372036854775809', b'1e400'])
    return bytes(b)


def edge_cases(h, url):
    """(name, body): hand-written bodies; H = a hash string, U = a url string"""
    H, U = h.encode(), url.encode()
    P = b'{"number":2,"hash":"' + H + b'","download_url":"' + U + b'"}'
    ok = b'{"patch_available":true,"patch":' + P + b'}'
    E = [
        ('ok', ok),
        ('ws_everywhere', b' \n{ "patch_available" :\ttrue , "patch" : { "number" : 2 , "hash" : "' + H + b'" , "download_url" : "' + U + b'" } }\r\n'),
        ('bom', b'\xef\xbb\xbf' + ok),
        ('trailing_ws', ok + b' \n\t\r'),
        ('trailing_garbage', ok + b' x'),
        ('trailing_value', ok + b'{}'),
        ('empty', b''),
        ('only_ws', b'  \n'),
        ('nul_byte', b'\x00' + ok),
        # unknown fields are scanned, not read: lone surrogates, ill-formed UTF-8, huge numbers and deep nesting are fine THERE
        ('unk_lone_hi', b'{"patch_available":false,"x":"\\ud800"}'),
        ('unk_lone_lo', b'{"patch_available":false,"x":"\\udc00 y"}'),
        ('unk_bad_utf8', b'{"patch_available":false,"x":"\xff\xfe\xc3"}'),
        ('unk_big_exp', b'{"patch_available":false,"x":1e999999999999999999999}'),
        ('unk_deep', b'{"patch_available":false,"x":' + b'[' * 300 + b']' * 300 + b'}'),
        ('unk_deep_obj', b'{"patch_available":false,"x":' + b'{"a":' * 200 + b'1' + b'}' * 200 + b'}'),
        ('unk_ctrl', b'{"patch_available":false,"x":"a\x01b"}'),
        ('unk_bad_escape', b'{"patch_available":false,"x":"\\q"}'),
        ('unk_short_hex', b'{"patch_available":false,"x":"\\u12"}'),
        ('unk_leading_zero', b'{"patch_available":false,"x":01}'),
        ('unk_trailing_comma', b'{"patch_available":false,"x":[1,]}'),
        ('unk_missing_colon', b'{"patch_available":false,"x":{"a" 1}}'),
        ('unk_key_lone', b'{"patch_available":false,"x":{"\\ud800":1}}'),
        ('unk_in_patch_lone', b'{"patch_available":true,"patch":{"number":2,"hash":"' + H + b'","download_url":"' + U + b'","z":"\\udc00"}}'),
        ('unk_in_patch_bad_utf8', b'{"patch_available":true,"patch":{"number":2,"hash":"' + H + b'","download_url":"' + U + b'","z":["\xff"]}}'),
        # the same things in KNOWN positions (or in a key of the struct itself) are errors
        ('key_lone', b'{"patch_available":false,"\\ud800":1}'),
        ('key_bad_utf8', b'{"patch_available":false,"\xff":1}'),
        ('known_lone', b'{"patch_available":true,"patch":{"number":2,"hash":"\\ud800","download_url":"' + U + b'"}}'),
        ('known_bad_utf8', b'{"patch_available":true,"patch":{"number":2,"hash":"\xc3","download_url":"' + U + b'"}}'),
        ('known_overlong', b'{"patch_available":true,"patch":{"number":2,"hash":"\xc0\xaf","download_url":"' + U + b'"}}'),
        ('known_surrogate_bytes', b'{"patch_available":true,"patch":{"number":2,"hash":"\xed\xa0\x80","download_url":"' + U + b'"}}'),
        ('known_pair', b'{"patch_available":true,"patch":{"number":2,"hash":"\\ud83d\\ude00","download_url":"' + U + b'"}}'),
        ('known_pair_raw', b'{"patch_available":true,"patch":{"number":2,"hash":"\xf0\x9f\x98\x80","download_url":"' + U + b'"}}'),
        ('known_pair_broken', b'{"patch_available":true,"patch":{"number":2,"hash":"\\ud83dx","download_url":"' + U + b'"}}'),
        ('known_pair_hi_hi', b'{"patch_available":true,"patch":{"number":2,"hash":"\\ud83d\\ud83d","download_url":"' + U + b'"}}'),
        ('known_nul', b'{"patch_available":true,"patch":{"number":2,"hash":"\\u0000","download_url":"' + U + b'"}}'),
        ('known_escapes', b'{"patch_available":true,"patch":{"number":2,"hash":"\\"\\\\\\/\\b\\f\\n\\r\\t\\u00e9","download_url":"' + U + b'"}}'),
        ('known_ctrl_raw', b'{"patch_available":true,"patch":{"number":2,"hash":"a\nb","download_url":"' + U + b'"}}'),
        ('known_del', b'{"patch_available":true,"patch":{"number":2,"hash":"a\x7fb","download_url":"' + U + b'"}}'),
        ('escaped_key', b'{"patch\\u005favailable":false}'),
        ('escaped_key_patch', b'{"patch_available":true,"p\\u0061tch":' + P + b'}'),
        # numbers in the usize positions
        ('num_zero', b'{"patch_available":true,"patch":{"number":0,"hash":"' + H + b'","download_url":"' + U + b'"}}'),
        ('num_neg_zero', b'{"patch_available":true,"patch":{"number":-0,"hash":"' + H + b'","download_url":"' + U + b'"}}'),
        ('num_leading_zero', b'{"patch_available":true,"patch":{"number":02,"hash":"' + H + b'","download_url":"' + U + b'"}}'),
        ('num_float', b'{"patch_available":true,"patch":{"number":2.0,"hash":"' + H + b'","download_url":"' + U + b'"}}'),
        ('num_exp', b'{"patch_available":true,"patch":{"number":2e0,"hash":"' + H + b'","download_url":"' + U + b'"}}'),
        ('num_max', b'{"patch_available":true,"patch":{"number":18446744073709551615,"hash":"' + H + b'","download_url":"' + U + b'"}}'),
        ('num_over', b'{"patch_available":true,"patch":{"number":18446744073709551616,"hash":"' + H + b'","download_url":"' + U + b'"}}'),
        ('num_huge', b'{"patch_available":true,"patch":{"number":' + b'9' * 400 + b',"hash":"' + H + b'","download_url":"' + U + b'"}}'),
        ('num_neg', b'{"patch_available":true,"patch":{"number":-2,"hash":"' + H + b'","download_url":"' + U + b'"}}'),
        ('num_plus', b'{"patch_available":true,"patch":{"number":+2,"hash":"' + H + b'","download_url":"' + U + b'"}}'),
        ('num_dot', b'{"patch_available":true,"patch":{"number":2.,"hash":"' + H + b'","download_url":"' + U + b'"}}'),
        ('num_str', b'{"patch_available":true,"patch":{"number":"2","hash":"' + H + b'","download_url":"' + U + b'"}}'),
        ('rb_mixed', b'{"patch_available":false,"rolled_back_patch_numbers":[1, 2 ,3]}'),
        ('rb_float', b'{"patch_available":false,"rolled_back_patch_numbers":[1,2.5]}'),
        ('rb_trailing_comma', b'{"patch_available":false,"rolled_back_patch_numbers":[1,]}'),
        ('rb_nested', b'{"patch_available":false,"rolled_back_patch_numbers":[[1]]}'),
        # literals and structure
        ('lit_True', b'{"patch_available":True}'),
        ('lit_tru', b'{"patch_available":tru}'),
        ('lit_truex', b'{"patch_available":truex}'),
        ('lit_nul', b'{"patch_available":false,"patch":nul}'),
        ('single_quotes', b"{'patch_available':false}"),
        ('unquoted_key', b'{patch_available:false}'),
        ('trailing_comma_obj', b'{"patch_available":false,}'),
        ('leading_comma_obj', b'{,"patch_available":false}'),
        ('double_comma', b'{"patch_available":false,,"patch":null}'),
        ('missing_comma', b'{"patch_available":false "patch":null}'),
        ('missing_close', b'{"patch_available":false'),
        ('extra_close', b'{"patch_available":false}}'),
        ('comment', b'{"patch_available":false /* no */}'),
        ('positional', b'[false,null,null]'),
        ('positional_ws', b' [ true , [ 2 , "' + H + b'" , "' + U + b'" ] ] '),
        ('positional_extra', b'[false,null,null,1]'),
        ('positional_trailing_comma', b'[false,null,]'),
        ('top_null', b'null'), ('top_num', b'42'), ('top_str', b'"x"'), ('top_true', b'true'),
        # the positional form follows the field schemas: a nested struct still scans its unknown members leniently,
        # surplus elements are errors whatever they hold
        ('pos_nested_lenient', b'[true,{"number":2,"hash":"' + H + b'","download_url":"' + U + b'","zz":"\\ud800","yy":["\xff",{"k":"\\udc00"}]}]'),
        ('pos_nested_lenient_rb', b'[true,{"x":"\xff","number":2,"hash":"' + H + b'","download_url":"' + U + b'"},[1,2]]'),
        ('pos_surplus_lenient', b'[false,null,null,"\\ud800"]'),
        ('pos_patch_positional', b'[true,[2,"' + H + b'","' + U + b'",null]]'),
        ('pos_patch_positional_lone', b'[true,[2,"' + H + b'","' + U + b'","\\ud800"]]'),
        ('pos_rb_object', b'[true,{"number":2,"hash":"' + H + b'","download_url":"' + U + b'"},{"x":"\xff"}]'),
        ('pos_empty', b'[]'),
        ('dup_unknown', b'{"x":1,"x":2,"patch_available":false}'),
        ('dup_known', b'{"patch_available":false,"patch_available":false}'),
        ('dup_known_after_garbage_type', b'{"patch_available":false,"patch_available":"\\ud800"}'),
    ]
    return E
