#!/bin/bash
# seedcheck.sh <worktree> <seed-id> <demo-test-filter> <prop> [<prop>...]
# 1. confirms in the scratch worktree: suite passes with the mutation; demo fails with it, passes without
# 2. stores patch.diff / demo.diff / meta.json under /verif/seeded/<id>/
# 3. applies the mutation to /repo, runs the given checks, restores /repo
set -u
WT=$1; ID=$2; FILT=$3; shift 3
PX=${PX:-}
OUT=/verif/seeded/$ID; mkdir -p $OUT
export CARGO_NET_OFFLINE=true
cd $WT || exit 2
git checkout -q -- . 2>/dev/null
git clean -fdq -e "*.diff" -e NOTES.md -e target -e OUT
DEMOARGS=${DEMOARGS:---workspace --no-fail-fast}
git apply ${PX}MUTATION.diff || { echo "mutation does not apply"; exit 2; }
SUITE=$(cargo test --workspace --no-fail-fast --offline 2>&1 | grep -E "^test result" | tr '\n' ' ')
echo "suite with mutation: $SUITE"
git apply ${PX}DEMO.diff || { echo "demo does not apply"; exit 2; }
DM=$(cargo test $DEMOARGS --offline "$FILT" 2>&1 | grep -E "^test result: (FAILED|ok). [1-9]|^test result: FAILED" | tr '\n' ' ')
echo "demo with mutation: $DM"
git checkout -q -- . ; git apply ${PX}DEMO.diff
DO=$(cargo test $DEMOARGS --offline "$FILT" 2>&1 | grep -E "^test result: (FAILED|ok). [1-9]|^test result: FAILED" | tr '\n' ' ')
echo "demo without mutation: $DO"
git checkout -q -- . ; git clean -fdq -e "*.diff" -e NOTES.md -e target -e OUT
cp ${PX}MUTATION.diff $OUT/patch.diff; cp ${PX}DEMO.diff $OUT/demo.diff; cp NOTES.md $OUT/NOTES.md
cd /verif
RES=""
git -C /repo apply $OUT/patch.diff || { echo "cannot apply to /repo"; exit 2; }
for P in "$@"; do
  R=$(python3 tools/vcheck.py $P 2>&1 | grep -E "VIOLATION|quick:" | head -3 | tr '\n' ' ')
  echo "check $P: $R"
  RES="$RES $P=[$(echo $R | cut -c1-300)]"
done
git -C /repo checkout -- .
python3 - "$ID" "$SUITE" "$DM" "$DO" "$RES" "$@" <<'PY'
import json,sys
id,suite,dm,do,res=sys.argv[1:6]; props=sys.argv[6:]
json.dump({'id':id,'breaks':props,'suite_with_mutation':suite,'demo_with_mutation':dm,'demo_without_mutation':do,'checks_run':res.strip(),
  'needs':'see NOTES.md','confirmed_by':'tools/seedcheck.sh (scratch worktree), then applied to /repo, checks run, /repo restored'}, open('/verif/seeded/%s/meta.json'%id,'w'), indent=1)
PY
git -C /repo status --short | head -3
