# monitors.py — the properties' own statements, evaluated on *implementation* traces.
# A monitor gets the parsed ops and the parsed post-state of every op and returns a list of
# (op index, message).  These decide "is this a property violation" whenever a proof obligation
# or the model/implementation correspondence breaks, and they run on every ordinary run too.
import hashlib
from uvlib import *

EMPTY = dict(out='', sj='M', pj='M', arts={}, net=[], junk=False)


class Walk:
    """walks a history keeping the ghost facts several monitors need"""

    def __init__(self, ctx, ops, states):
        self.ctx, self.ops, self.states = ctx, ops, states
        self.tag2blob = {}
        for k, v in ctx.blobs.items():
            self.tag2blob.setdefault(art_tag(v), v)

    def steps(self):
        cfg = None
        pre = EMPTY
        for i, (o, st) in enumerate(zip(self.ops, self.states)):
            yield i, o, pre, st, cfg
            if o['kind'] == 'kill':
                cfg = None
            elif o['kind'] == 'init' and st['out'] == 'true':
                cfg = dict(rel=o['rel'], key=o['key'], app=o['app'],
                           chan=o['chan'] if o['chan'] is not None else 'stable')
            pre = st


def handed_out(o, pre, st):
    """the patch number this op hands to the engine, if any"""
    k = o['kind']
    if k == 'nextnum' and st['out'] not in ('0', ''):
        return int(st['out'])
    if k == 'nextpath' and st['out'].startswith('path:'):
        return int(st['out'][5:])
    if k == 'start':
        cb = pstate(st)['cb']
        if cb is not None and (pstate(pre)['cb'] != cb):
            return cb['num']
    return None


def state_reset(o, pre, cfg_after_rel):
    """does a load in this op discard the stored state (release differs / state.json unreadable)?"""
    return not (isinstance(pre['sj'], dict) and pre['sj']['rel'] == cfg_after_rel)


# ------------------------------------------------------------------ C01 / C07
def mon_C01(ctx, ops, states, need_key=False):
    w = Walk(ctx, ops, states)
    bad = []
    sizes = {}
    for i, o, pre, st, cfg in w.steps():
        if o['kind'] == 'update' and st['out'] == '1':
            nb = pstate(st)['nb']
            if nb:
                sizes.setdefault(nb['num'], set()).add(nb['size'])
        if o['kind'] == 'init' and st['out'] == 'true' and state_reset(o, pre, o['rel']):
            sizes = {}
        if o['kind'] == 'dmg' and o['what'] in ('pj', 'sj'):
            pass
        n = handed_out(o, pre, st)
        if n is None:
            if o['kind'] == 'nextpath' and st['out'].startswith('badpath'):
                bad.append((i, 'C01: malformed path returned: %s' % st['out']))
            continue
        art = st['arts'].get(n)
        nb = pstate(st)['nb']
        if art is None or not art.startswith('F'):
            bad.append((i, 'C01: handed out patch %d but its artifact is %s' % (n, art)))
            continue
        alen = int(art[1:].split('.')[0])
        if nb is None or nb['num'] != n:
            bad.append((i, 'C01: handed out %d but next_boot_patch is %s' % (n, nb)))
            continue
        if alen != nb['size']:
            bad.append((i, 'C01: handed out %d with artifact size %d, recorded size %d' % (n, alen, nb['size'])))
        if n in sizes and alen not in sizes[n]:
            bad.append((i, 'C01: artifact size %d of patch %d differs from its install-time size %s' % (alen, n, sizes[n])))
        key = cfg['key'] if cfg else (o.get('key') if o['kind'] == 'init' else None)
        if key is not None:
            blob = w.tag2blob.get(art)
            ok = False
            if blob is not None and nb['sig'] is not None:
                h = hashlib.sha256(blob).hexdigest()
                ok = (key, h, nb['sig']) in ctx.sigs
            if not ok:
                bad.append((i, 'C07: handed out %d under a signing key without a valid signature over its current bytes' % n))
    return bad


# ------------------------------------------------------------------ C02
def mon_C02(ctx, ops, states):
    w = Walk(ctx, ops, states)
    bad = []
    banned = set()
    tainted = False
    # the launch in progress, from the history of CALLS (the property speaks of "a launch from patch n reported as failed"
    # and "the process ended after launch start for n without any launch report", not of a stored marker): set by a launch
    # start that hands a patch to the engine, cleared by a launch report
    boot = None
    for i, o, pre, st, cfg in w.steps():
        k = o['kind']
        if k == 'dmg' and o['what'] in ('pj', 'sj'):
            tainted = True
        if tainted:
            continue
        if k == 'init' and st['out'] == 'true':
            if state_reset(o, pre, o['rel']):
                banned = set()
            elif boot is not None:
                banned.add(boot)
            boot = None
        if k == 'failure' and cfg is not None:
            if state_reset(o, pre, cfg['rel']):
                banned = set()
            elif boot is not None:
                banned.add(boot)
            boot = None
        if k == 'success' and cfg is not None:
            boot = None
        if cfg is not None and k not in ('init', 'kill', 'dmg', 'auto') and state_reset(o, pre, cfg['rel']):
            banned = set()
            boot = None
        if k == 'start' and cfg is not None:
            hn = handed_out(o, pre, st)
            if hn is not None:
                boot = hn
        n = handed_out(o, pre, st)
        if n is not None and n in banned:
            bad.append((i, 'C02: patch %d handed out after it was reported/detected as failed' % n))
        nb = pstate(st)['nb']
        if nb and nb['num'] in banned:
            bad.append((i, 'C02: banned patch %d is selected as next boot patch' % nb['num']))
        if k in ('update', 'check') and cfg is not None and o['resp'] and o['resp']['patch']:
            pn = o['resp']['patch']['num']
            if pn in banned:
                if k == 'update':
                    if st['out'] == '1' or any(x.startswith('D:') for x in st['net']):
                        bad.append((i, 'C02: banned patch %d downloaded/installed again (status %s)' % (pn, st['out'])))
                    elif o['resp']['avail'] and st['out'] != '3':
                        bad.append((i, 'C02: offer of banned patch %d answered %s, not bad-patch' % (pn, st['out'])))
                elif st['out'] != 'false':
                    bad.append((i, 'C02: check offered banned patch %d answered %s' % (pn, st['out'])))
    return bad



def nb_looks_valid(st):
    nb = pstate(st)['nb']
    if nb is None:
        return True
    a = st['arts'].get(nb['num'])
    return a is not None and a.startswith('F%d.' % nb['size'])


def core(st):
    return (st['pj'] if isinstance(st['pj'], dict) else 'x', tuple(sorted(st['arts'].items())))


def genuine(ctx, o):
    """the update offers a content of ctx with its genuine download and correct hash"""
    p = o['resp']['patch']
    if not p or not o['dl'].startswith('@dl'):
        return None
    name = o['dl'][3:]
    pp = ctx.p.get(name) if hasattr(ctx, 'p') else None
    if pp and pp['hash'] == p['hash'].lower():
        return pp
    return None


# ------------------------------------------------------------------ C05 / C06
def mon_C05(ctx, ops, states):
    w = Walk(ctx, ops, states)
    bad = []
    for i, o, pre, st, cfg in w.steps():
        if o['kind'] != 'update' or cfg is None:
            continue
        r = o['resp']
        if st['out'] == '1':
            p = r['patch'] if r else None
            if not p or o['dl'] == 'err':
                bad.append((i, 'C05: installed without an offered patch / download'))
                continue
            nb = pstate(st)['nb']
            art = st['arts'].get(p['num'])
            blob = w.tag2blob.get(art)
            if nb is None or nb['num'] != p['num']:
                bad.append((i, 'C05: installed %d but next boot patch is %s' % (p['num'], nb)))
            elif blob is None:
                bad.append((i, 'C05: installed artifact %s is not a file the test served' % art))
            else:
                try:
                    want = bytes.fromhex(p['hash'])
                except ValueError:
                    want = None
                if want != hashlib.sha256(blob).digest():
                    bad.append((i, 'C05: installed although SHA-256 of the inflated file differs from the advertised hash'))
                if nb['size'] != len(blob):
                    bad.append((i, 'C05: recorded size differs from the verified file'))
                infl = getattr(ctx, 'infl', None)
                dn = o['dl'][1:]
                if infl is not None and dn in infl and infl[dn] != blob:
                    bad.append((i, 'C05: installed, but applying the downloaded bytes to the base does not produce the installed file (it %s)' % (
                        'fails' if infl[dn] is None else 'yields %d bytes' % len(infl[dn]))))
        else:
            rb = r['rb'] if r else None
            if not rb and nb_looks_valid(pre) and not state_reset(o, pre, cfg['rel']):
                if core(st) != core(pre):
                    bad.append((i, 'C05/C06: update returned %s but changed the patch state or artifacts' % st['out']))
    return bad


def mon_healthy(ctx, ops, states):
    """C06/C09: a healthy offer of a fresh number installs"""
    w = Walk(ctx, ops, states)
    bad = []
    for i, o, pre, st, cfg in w.steps():
        if o['kind'] != 'update' or cfg is None or not o['resp'] or not o['resp']['avail']:
            continue
        g = genuine(ctx, o)
        if g is None:
            continue
        p = o['resp']['patch']
        ps = pstate(pre) if not state_reset(o, pre, cfg['rel']) else dict(lb=None, nb=None, cb=None, bad=[])
        if p['num'] in ps['bad'] or p['num'] in (o['resp']['rb'] or []):
            continue
        if ps['nb'] and ps['nb']['num'] == p['num']:
            continue
        if st['out'] == '1':
            continue
        # "no update" is the right answer when the offered patch is the last good one and this very call
        # made it the selection again (the response rolled the pending patch back, or the pending patch
        # turned out to be invalid): it is installed, intact and selected after the call
        post = pstate(st)
        if st['out'] == '0' and ps['lb'] and ps['lb']['num'] == p['num'] and post['nb'] and post['nb']['num'] == p['num'] \
                and st['arts'].get(p['num'], '').startswith('F'):
            continue
        bad.append((i, 'C06: healthy offer of fresh patch %d answered %s' % (p['num'], st['out'])))
    return bad


# ------------------------------------------------------------------ C08
def mon_C08(ctx, ops, states):
    w = Walk(ctx, ops, states)
    bad = []
    for i, o, pre, st, cfg in w.steps():
        if o['kind'] == 'init' and st['out'] == 'true' and state_reset(o, pre, o['rel']):
            # (no patches_state.json at all is an empty state too: the property is about what survives, not about files)
            ok = (st['pj'] == 'M' or (isinstance(st['pj'], dict) and st['pj'] == dict(lb=None, nb=None, cb=None, bad=[]))) and \
                not st['arts'] and isinstance(st['sj'], dict) and st['sj'] == dict(rel=o['rel'], evq=[])
            if not ok:
                bad.append((i, 'C08: state of another release survived the first init: %s' % st['raw'][:200]))
        if cfg is not None and o['kind'] in ('nextnum', 'nextpath', 'curnum') and state_reset(o, pre, cfg['rel']):
            if st['out'] not in ('0', 'null'):
                bad.append((i, 'C08: query under a new release returned %s' % st['out']))
    return bad


# ------------------------------------------------------------------ C14 / C20
def mon_C14(ctx, ops, states):
    w = Walk(ctx, ops, states)
    bad = []
    for i, o, pre, st, cfg in w.steps():
        if o['kind'] == 'init' and cfg is not None:
            if st['out'] != 'false':
                bad.append((i, 'C14: second init reported success'))
            if (st['sj'], st['pj'], st['arts'], st['junk']) != (pre['sj'], pre['pj'], pre['arts'], pre['junk']):
                bad.append((i, 'C14: second init changed the disk'))
            elif st.get('dls') != pre.get('dls'):
                bad.append((i, 'C14: second init changed the download directory: %s -> %s' % (pre.get('dls'), st.get('dls'))))
    return bad + mon_C20(ctx, ops, states)


def mon_C20(ctx, ops, states):
    w = Walk(ctx, ops, states)
    bad = []
    for i, o, pre, st, cfg in w.steps():
        for n in st['net']:
            if cfg is None:
                bad.append((i, 'C20: network traffic without configuration: %s' % n))
                continue
            if n.startswith('C:'):
                app, chan, rel = n[2:].split('.')[:3]
                want_chan = o.get('ch') if o.get('ch') is not None else cfg['chan']
                if 'BADPLAT' in n:
                    bad.append((i, 'C20: wrong platform/arch in request %s' % n))
                if (unhx(app), unhx(chan), unhx(rel)) != (cfg['app'], want_chan, cfg['rel']):
                    bad.append((i, 'C20: request %s/%s/%s, expected %s/%s/%s' % (unhx(app), unhx(chan), unhx(rel), cfg['app'], want_chan, cfg['rel'])))
            elif n.startswith('E:'):
                f = n[2:].split('.')
                if 'BADPLAT' in n or unhx(f[2]) != cfg['app'] or unhx(f[3]) != cfg['rel']:
                    bad.append((i, 'C20: event %s does not carry the configured app id / release' % n))
    return bad



def eff_pstate(pre, cfg):
    """patch state a critical section of this process would load from `pre`"""
    if cfg is None or state_reset(None, pre, cfg['rel']):
        return dict(lb=None, nb=None, cb=None, bad=[])
    return pstate(pre)


def listed(o):
    r = o.get('resp')
    return list(r['rb']) if r and r['rb'] else []


def dmg_num(o):
    if o['kind'] == 'dmg' and o['what'] in ('delfile', 'deldir', 'setart'):
        return int(o['args'][0])
    return None


def state_dmg(o):
    return o['kind'] == 'dmg' and o['what'] in ('pj', 'sj')


# ------------------------------------------------------------------ C09
def mon_C09(ctx, ops, states):
    w = Walk(ctx, ops, states)
    bad = []
    sel = None
    # the launch in progress, from the history of calls (not from the stored marker: a marker left behind after a
    # reported success is exactly what must not count as a crashed boot): set by a launch start, cleared by a launch
    # report; if the process ends with it set, the next init rightly treats that patch as crashed
    boot = None
    for i, o, pre, st, cfg in w.steps():
        k = o['kind']
        ps = eff_pstate(pre, cfg) if cfg else pstate(pre)
        boot_before = boot
        if k == 'start' and cfg:
            boot = num(pstate(st)['cb'])
        elif k in ('success', 'failure') and cfg:
            boot = None
        elif k == 'init' and st['out'] == 'true':
            boot = None
        elif state_dmg(o):
            boot = None
        # does this op end the window?
        if sel is not None:
            ends = False
            if k == 'update' and st['out'] == '1':
                ends = True
            if k == 'failure' and cfg and boot_before == sel:
                ends = True
            if k == 'init' and st['out'] == 'true':
                if state_reset(o, pre, o['rel']) or boot_before == sel or o['key'] != selkey:
                    ends = True
            if k in ('check', 'update') and cfg and sel in listed(o):
                ends = True
            if dmg_num(o) == sel or state_dmg(o):
                ends = True
            if cfg and k not in ('init', 'kill', 'dmg', 'auto') and state_reset(o, pre, cfg['rel']):
                ends = True
            if ends:
                sel = None
            else:
                nb = pstate(st)['nb']
                if nb is None or nb['num'] != sel:
                    bad.append((i, 'C09: patch %d was installed and nothing concerned it, but after `%s` the selection is %s' % (sel, o['raw'][:60], num(nb))))
                    sel = None
                elif k == 'nextnum' and cfg and st['out'] != str(sel):
                    bad.append((i, 'C09: query returned %s while %d is installed' % (st['out'], sel)))
                elif k == 'nextpath' and cfg and st['out'] != 'path:%d' % sel:
                    bad.append((i, 'C09: query returned %s while %d is installed' % (st['out'], sel)))
                elif k == 'update' and cfg and o['resp'] and o['resp']['patch'] and o['resp']['patch']['num'] == sel and o['resp']['avail']:
                    if st['out'] != '0' or any(x.startswith('D:') for x in st['net']):
                        bad.append((i, 'C09: already installed patch %d offered again: status %s, net %s' % (sel, st['out'], st['net'])))
        if k == 'update' and st['out'] == '1' and cfg:
            p = o['resp']['patch']
            oksig = cfg['key'] is None or (cfg['key'], p['hash'].lower(), p['sig']) in ctx.sigs
            sel = p['num'] if oksig else None
            selkey = cfg['key']
    return bad


# ------------------------------------------------------------------ C03
def mon_C03(ctx, ops, states):
    w = Walk(ctx, ops, states)
    bad = []
    good = None
    tag = None
    for i, o, pre, st, cfg in w.steps():
        k = o['kind']
        ps = eff_pstate(pre, cfg) if cfg else pstate(pre)
        if good is not None:
            ends = False
            if k == 'success' and cfg and ps['cb'] and ps['cb']['num'] != good:
                ends = True
            if k == 'failure' and cfg and ps['cb'] and ps['cb']['num'] == good:
                ends = True
            if k == 'init' and st['out'] == 'true' and (state_reset(o, pre, o['rel']) or (pstate(pre)['cb'] and pstate(pre)['cb']['num'] == good) or o['key'] != goodkey):
                ends = True
            if k in ('check', 'update') and cfg and good in listed(o):
                ends = True
            if k == 'update' and st['out'] == '1' and o['resp']['patch']['num'] == good:
                # a re-install of the last good number rewrites its artifact with that download's verified bytes: with one
                # content per number (same length as the last good record) it is still the last good patch, followed
                # further under its new tag; another content under the same number ends the claim
                lb2 = pstate(st)['lb']
                a2 = st['arts'].get(good)
                if lb2 is not None and lb2['num'] == good and a2 is not None and a2.startswith('F%d.' % lb2['size']) and \
                        a2.split('.')[0] == (tag or '').split('.')[0]:
                    tag = a2
                    continue
                ends = True
            if dmg_num(o) == good or state_dmg(o):
                ends = True
            if cfg and k not in ('init', 'kill', 'dmg', 'auto') and state_reset(o, pre, cfg['rel']):
                ends = True
            if ends:
                good = None
            else:
                lb = pstate(st)['lb']
                if lb is None or lb['num'] != good:
                    bad.append((i, 'C03: last good patch %d lost its record after `%s`' % (good, o['raw'][:60])))
                    good = None
                elif st['arts'].get(good) != tag:
                    bad.append((i, 'C03: artifact of last good patch %d was removed or altered by `%s` (%s -> %s)' % (good, o['raw'][:60], tag, st['arts'].get(good))))
                    good = None
        if k == 'success' and cfg and ps['cb'] is not None:
            n = ps['cb']['num']
            a = st['arts'].get(n)
            if a is not None and a.startswith('F%d.' % ps['cb']['size']):
                good, tag, goodkey = n, a, cfg['key']
            elif pre['arts'].get(n, '').startswith('F%d.' % ps['cb']['size']):
                bad.append((i, 'C03: success report for %d destroyed its artifact' % n))
        # fallback target for single drops
        if cfg and k in ('failure',) and ps['cb'] and ps['nb'] and ps['nb']['num'] == ps['cb']['num'] and not state_dmg(o):
            x = ps['cb']['num']
            lb = ps['lb']
            lbok = lb is not None and lb['num'] != x and pre['arts'].get(lb['num'], '').startswith('F%d.' % lb['size'])
            want = lb['num'] if lbok and cfg['key'] is None else None
            got = num(pstate(st)['nb'])
            if cfg['key'] is None and got != want:
                bad.append((i, 'C03: after %d failed the selection is %s, expected fallback target %s' % (x, got, want)))
    return bad


# ------------------------------------------------------------------ C10
def mon_C10(ctx, ops, states):
    w = Walk(ctx, ops, states)
    bad = []
    rolled = set()
    for i, o, pre, st, cfg in w.steps():
        k = o['kind']
        if state_dmg(o):
            rolled = set()
        dn = dmg_num(o)
        if dn is not None and o['what'] == 'setart':
            rolled.discard(dn)
        if k == 'update' and st['out'] == '1':
            rolled.discard(o['resp']['patch']['num'])
        if k in ('check', 'update') and cfg and o['resp'] is not None:
            for x in listed(o):
                if not (k == 'update' and st['out'] == '1' and o['resp']['patch']['num'] == x):
                    rolled.add(x)
        nb = pstate(st)['nb']
        for x in sorted(rolled):
            if x in st['arts']:
                bad.append((i, 'C10: rolled back patch %d still has an artifact after `%s`' % (x, o['raw'][:60])))
                rolled.discard(x)
            elif nb and nb['num'] == x:
                bad.append((i, 'C10: rolled back patch %d is selected after `%s`' % (x, o['raw'][:60])))
                rolled.discard(x)
        n = handed_out(o, pre, st)
        if n is not None and n in rolled:
            bad.append((i, 'C10: rolled back patch %d handed out' % n))
    return bad


# ------------------------------------------------------------------ C17
def eff_evq(pre, cfg):
    if cfg is None or state_reset(None, pre, cfg['rel']):
        return []
    return list(pre['sj']['evq'])


def mon_C17(ctx, ops, states):
    w = Walk(ctx, ops, states)
    bad = []
    for i, o, pre, st, cfg in w.steps():
        k = o['kind']
        evs = [x[2:] for x in st['net'] if x.startswith('E:')]
        post_q = st['sj']['evq'] if isinstance(st['sj'], dict) else None
        if cfg is None and k != 'init':
            if evs:
                bad.append((i, 'C17: events sent without configuration'))
            continue
        if k == 'init':
            if cfg is not None or st['out'] != 'true':
                continue
            c2 = dict(rel=o['rel'], app=o['app'])
            q = [] if state_reset(o, pre, o['rel']) else list(pre['sj']['evq'])
            cb = None if state_reset(o, pre, o['rel']) else pstate(pre)['cb']
            want = q + (['F.%d.%s.%s.i' % (cb['num'], hx(c2['app']), hx(c2['rel']))] if cb else [])
            if post_q != want:
                bad.append((i, 'C17: queue after init is %s, expected %s' % (post_q, want)))
            continue
        ps = eff_pstate(pre, cfg)
        q = eff_evq(pre, cfg)
        tagc = '%s.%s' % (hx(cfg['app']), hx(cfg['rel']))
        if k == 'success':
            want = []
            if ps['cb'] and not (ps['lb'] and ps['lb']['num'] == ps['cb']['num']):
                want = ['S.%d.%s.n' % (ps['cb']['num'], tagc)]
            if evs != want:
                bad.append((i, 'C17: success report sent %s, expected %s' % (evs, want)))
            if post_q != q:
                bad.append((i, 'C17: success report changed the event queue'))
        elif k == 'failure':
            want = q + (['F.%d.%s.e' % (ps['cb']['num'], tagc)] if ps['cb'] else [])
            if post_q != want:
                bad.append((i, 'C17: queue after failure report is %s, expected %s' % (post_q, want)))
            if evs:
                bad.append((i, 'C17: failure report sent events directly'))
        elif k == 'update':
            net = st['net']
            first = ['E:' + e for e in q[:3]]
            if net[:len(first)] != first or len(net) <= len(first) or not net[len(first)].startswith('C:'):
                bad.append((i, 'C17: update did not flush the 3 oldest queued events before the check: %s (queue %s)' % (net, q)))
            if post_q != []:
                bad.append((i, 'C17: queue not empty after update: %s' % post_q))
            rest = [x for x in net[len(first) + 1:] if x.startswith('E:')]
            if st['out'] == '1':
                want = ['E:D.%d.%s.n' % (o['resp']['patch']['num'], tagc)]
                if rest != want or net[-1] != want[0]:
                    bad.append((i, 'C17: download event after install: got %s, expected %s last' % (rest, want)))
            elif rest:
                bad.append((i, 'C17: event %s sent by an update that did not install' % rest))
        elif k not in ('dmg', 'kill'):
            if evs:
                bad.append((i, 'C17: `%s` sent events %s' % (k, evs)))
            if k != 'check' and post_q is not None and post_q != q:
                bad.append((i, 'C17: `%s` changed the event queue' % k))
            if k == 'check' and post_q is not None and post_q != q:
                bad.append((i, 'C17: check changed the event queue'))
    return bad


# ------------------------------------------------------------------ C18
def mon_C18(ctx, ops, states):
    w = Walk(ctx, ops, states)
    bad = []
    cur = None           # patch handed to the engine at this process's launch start
    started = False
    installed_since = False
    for i, o, pre, st, cfg in w.steps():
        k = o['kind']
        ps = eff_pstate(pre, cfg) if cfg else pstate(pre)
        if k == 'kill' or (k == 'init' and st['out'] == 'true'):
            cur, started, installed_since = None, False, False
            continue
        if cfg is None:
            continue
        if state_dmg(o) or state_reset(o, pre, cfg['rel']):
            cur = None
            started = True   # stop judging this process
            continue
        if k == 'start':
            if started:
                cur = None
            else:
                started = True
                h = handed_out(o, pre, st)
                cb = pstate(st)['cb']
                cur = cb['num'] if cb is not None else None
                if cur is not None and not st['arts'].get(cur, '').startswith('F'):
                    cur = None
                installed_since = False
            continue
        if cur is not None:
            if k == 'failure' or cur in listed(o) or dmg_num(o) == cur:
                cur = None
                continue
            if k == 'update' and st['out'] == '1':
                if o['resp']['patch']['num'] == cur:
                    cur = None
                    continue
                installed_since = True
            if k == 'curnum' and st['out'] != str(cur):
                bad.append((i, 'C18: patch %d is running but current patch is reported as %s' % (cur, st['out'])))
            if k == 'nextnum' and not installed_since and st['out'] != str(cur):
                bad.append((i, 'C18: restart required reported (next=%s, current=%d) without any install' % (st['out'], cur)))
            if k == 'update' and st['out'] == '1':
                pass
        if not started and k == 'curnum':
            want = num(ps['lb']) if ps['cb'] is None else ps['cb']['num']
            if st['out'] != str(want or 0):
                bad.append((i, 'C18: after restart current patch is %s, last good is %s' % (st['out'], want)))
    return bad


# ------------------------------------------------------------------ C19
def mon_C19(ctx, ops, states):
    w = Walk(ctx, ops, states)
    bad = []
    for i, o, pre, st, cfg in w.steps():
        k = o['kind']
        if k == 'init' and st['out'] == 'true':
            if state_reset(o, pre, o['rel']):
                if st['arts']:
                    bad.append((i, 'C19: artifacts %s survive a release change' % sorted(st['arts'])))
            else:
                cb = pstate(pre)['cb']
                if cb and cb['num'] in st['arts']:
                    bad.append((i, 'C19: artifact of crashed patch %d not removed' % cb['num']))
            continue
        if cfg is None or state_reset(o, pre, cfg['rel']):
            continue
        ps = pstate(pre)
        if k == 'success' and ps['cb']:
            b = ps['cb']['num']
            nb = num(pstate(st)['nb'])
            for a in st['arts']:
                if a < b and a != nb:
                    bad.append((i, 'C19: artifact %d (< %d) remains after boot success and is not the selection' % (a, b)))
            if st['junk']:
                bad.append((i, 'C19: unrecognised directory remains after boot success'))
        if k == 'failure' and ps['cb'] and ps['cb']['num'] in st['arts']:
            bad.append((i, 'C19: artifact of failed patch %d not removed' % ps['cb']['num']))
        if k in ('check', 'update') and o['resp'] is not None:
            for x in listed(o):
                if x in st['arts'] and not (k == 'update' and st['out'] == '1' and o['resp']['patch']['num'] == x):
                    bad.append((i, 'C19: artifact of rolled back patch %d not removed' % x))
        if k == 'update' and st['out'] == '1' and not listed(o):
            n = o['resp']['patch']['num']
            x, l, cb = ps['nb'], ps['lb'], ps['cb']
            xvalid = x is not None and pre['arts'].get(x['num'], '').startswith('F%d.' % x['size'])
            if x and l and xvalid and cfg['key'] is None and x['num'] != l['num'] and x['num'] != n and not (cb and cb['num'] == x['num']):
                if x['num'] in st['arts']:
                    bad.append((i, 'C19: superseded never-booted patch %d not removed at the install of %d' % (x['num'], n)))
                if l['num'] != n and st['arts'].get(l['num']) != pre['arts'].get(l['num']):
                    bad.append((i, 'C19: install of %d touched the last good patch %d' % (n, l['num'])))
    return bad


MONITORS = {
    'C01': mon_C01,
    'C02': mon_C02,
}
