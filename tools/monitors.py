# monitors.py — the properties' own statements, evaluated on *implementation* traces.
# A monitor gets the parsed ops and the parsed post-state of every op and returns a list of
# (op index, message).  These decide "is this a property violation" whenever a proof obligation
# or the model/implementation correspondence breaks, and they run on every ordinary run too.
import hashlib
from uvlib import *

EMPTY = dict(out='', sj='M', pj='M', arts={}, net=[], junk=False)


class Walk:
    """walks a history keeping the ghost facts several monitors need"""

    def __init__(self, ctx, ops, states):
        self.ctx, self.ops, self.states = ctx, ops, states
        self.tag2blob = {}
        for k, v in ctx.blobs.items():
            self.tag2blob.setdefault(art_tag(v), v)

    def steps(self):
        cfg = None
        pre = EMPTY
        for i, (o, st) in enumerate(zip(self.ops, self.states)):
            yield i, o, pre, st, cfg
            if o['kind'] == 'kill':
                cfg = None
            elif o['kind'] == 'init' and st['out'] == 'true':
                cfg = dict(rel=o['rel'], key=o['key'], app=o['app'],
                           chan=o['chan'] if o['chan'] is not None else 'stable')
            pre = st


def handed_out(o, pre, st):
    """the patch number this op hands to the engine, if any"""
    k = o['kind']
    if k == 'nextnum' and st['out'] not in ('0', ''):
        return int(st['out'])
    if k == 'nextpath' and st['out'].startswith('path:'):
        return int(st['out'][5:])
    if k == 'start':
        cb = pstate(st)['cb']
        if cb is not None and (pstate(pre)['cb'] != cb):
            return cb['num']
    return None


def state_reset(o, pre, cfg_after_rel):
    """does a load in this op discard the stored state (release differs / state.json unreadable)?"""
    return not (isinstance(pre['sj'], dict) and pre['sj']['rel'] == cfg_after_rel)


# ------------------------------------------------------------------ C01 / C07
def mon_C01(ctx, ops, states, need_key=False):
    w = Walk(ctx, ops, states)
    bad = []
    sizes = {}
    for i, o, pre, st, cfg in w.steps():
        if o['kind'] == 'update' and st['out'] == '1':
            nb = pstate(st)['nb']
            if nb:
                sizes.setdefault(nb['num'], set()).add(nb['size'])
        if o['kind'] == 'init' and st['out'] == 'true' and state_reset(o, pre, o['rel']):
            sizes = {}
        if o['kind'] == 'dmg' and o['what'] in ('pj', 'sj'):
            pass
        n = handed_out(o, pre, st)
        if n is None:
            if o['kind'] == 'nextpath' and st['out'].startswith('badpath'):
                bad.append((i, 'C01: malformed path returned: %s' % st['out']))
            continue
        art = st['arts'].get(n)
        nb = pstate(st)['nb']
        if art is None or not art.startswith('F'):
            bad.append((i, 'C01: handed out patch %d but its artifact is %s' % (n, art)))
            continue
        alen = int(art[1:].split('.')[0])
        if nb is None or nb['num'] != n:
            bad.append((i, 'C01: handed out %d but next_boot_patch is %s' % (n, nb)))
            continue
        if alen != nb['size']:
            bad.append((i, 'C01: handed out %d with artifact size %d, recorded size %d' % (n, alen, nb['size'])))
        if n in sizes and alen not in sizes[n]:
            bad.append((i, 'C01: artifact size %d of patch %d differs from its install-time size %s' % (alen, n, sizes[n])))
        key = cfg['key'] if cfg else (o.get('key') if o['kind'] == 'init' else None)
        if key is not None:
            blob = w.tag2blob.get(art)
            ok = False
            if blob is not None and nb['sig'] is not None:
                h = hashlib.sha256(blob).hexdigest()
                ok = (key, h, nb['sig']) in ctx.sigs
            if not ok:
                bad.append((i, 'C07: handed out %d under a signing key without a valid signature over its current bytes' % n))
    return bad


# ------------------------------------------------------------------ C02
def mon_C02(ctx, ops, states):
    w = Walk(ctx, ops, states)
    bad = []
    banned = set()
    tainted = False
    for i, o, pre, st, cfg in w.steps():
        k = o['kind']
        if k == 'dmg' and o['what'] in ('pj', 'sj'):
            tainted = True
        if tainted:
            continue
        if k == 'init' and st['out'] == 'true':
            if state_reset(o, pre, o['rel']):
                banned = set()
            else:
                cb = pstate(pre)['cb']
                if cb:
                    banned.add(cb['num'])
        if k == 'failure' and cfg is not None:
            if state_reset(o, pre, cfg['rel']):
                banned = set()
            else:
                cb = pstate(pre)['cb']
                if cb:
                    banned.add(cb['num'])
        if cfg is not None and k not in ('init', 'kill', 'dmg', 'auto') and state_reset(o, pre, cfg['rel']):
            banned = set()
        n = handed_out(o, pre, st)
        if n is not None and n in banned:
            bad.append((i, 'C02: patch %d handed out after it was reported/detected as failed' % n))
        nb = pstate(st)['nb']
        if nb and nb['num'] in banned:
            bad.append((i, 'C02: banned patch %d is selected as next boot patch' % nb['num']))
        if k in ('update', 'check') and cfg is not None and o['resp'] and o['resp']['patch']:
            pn = o['resp']['patch']['num']
            if pn in banned:
                if k == 'update':
                    if st['out'] == '1' or any(x.startswith('D:') for x in st['net']):
                        bad.append((i, 'C02: banned patch %d downloaded/installed again (status %s)' % (pn, st['out'])))
                    elif o['resp']['avail'] and st['out'] != '3':
                        bad.append((i, 'C02: offer of banned patch %d answered %s, not bad-patch' % (pn, st['out'])))
                elif st['out'] != 'false':
                    bad.append((i, 'C02: check offered banned patch %d answered %s' % (pn, st['out'])))
    return bad



def nb_looks_valid(st):
    nb = pstate(st)['nb']
    if nb is None:
        return True
    a = st['arts'].get(nb['num'])
    return a is not None and a.startswith('F%d.' % nb['size'])


def core(st):
    return (st['pj'] if isinstance(st['pj'], dict) else 'x', tuple(sorted(st['arts'].items())))


def genuine(ctx, o):
    """the update offers a content of ctx with its genuine download and correct hash"""
    p = o['resp']['patch']
    if not p or not o['dl'].startswith('@dl'):
        return None
    name = o['dl'][3:]
    pp = ctx.p.get(name) if hasattr(ctx, 'p') else None
    if pp and pp['hash'] == p['hash'].lower():
        return pp
    return None


# ------------------------------------------------------------------ C05 / C06
def mon_C05(ctx, ops, states):
    w = Walk(ctx, ops, states)
    bad = []
    for i, o, pre, st, cfg in w.steps():
        if o['kind'] != 'update' or cfg is None:
            continue
        r = o['resp']
        if st['out'] == '1':
            p = r['patch'] if r else None
            if not p or o['dl'] == 'err':
                bad.append((i, 'C05: installed without an offered patch / download'))
                continue
            nb = pstate(st)['nb']
            art = st['arts'].get(p['num'])
            blob = w.tag2blob.get(art)
            if nb is None or nb['num'] != p['num']:
                bad.append((i, 'C05: installed %d but next boot patch is %s' % (p['num'], nb)))
            elif blob is None:
                bad.append((i, 'C05: installed artifact %s is not a file the test served' % art))
            else:
                try:
                    want = bytes.fromhex(p['hash'])
                except ValueError:
                    want = None
                if want != hashlib.sha256(blob).digest():
                    bad.append((i, 'C05: installed although SHA-256 of the inflated file differs from the advertised hash'))
                if nb['size'] != len(blob):
                    bad.append((i, 'C05: recorded size differs from the verified file'))
        else:
            rb = r['rb'] if r else None
            if not rb and nb_looks_valid(pre) and not state_reset(o, pre, cfg['rel']):
                if core(st) != core(pre):
                    bad.append((i, 'C05/C06: update returned %s but changed the patch state or artifacts' % st['out']))
    return bad


def mon_healthy(ctx, ops, states):
    """C06/C09: a healthy offer of a fresh number installs"""
    w = Walk(ctx, ops, states)
    bad = []
    for i, o, pre, st, cfg in w.steps():
        if o['kind'] != 'update' or cfg is None or not o['resp'] or not o['resp']['avail']:
            continue
        g = genuine(ctx, o)
        if g is None:
            continue
        p = o['resp']['patch']
        ps = pstate(pre) if not state_reset(o, pre, cfg['rel']) else dict(lb=None, nb=None, cb=None, bad=[])
        if p['num'] in ps['bad'] or p['num'] in (o['resp']['rb'] or []):
            continue
        if ps['nb'] and ps['nb']['num'] == p['num']:
            continue
        if st['out'] != '1':
            bad.append((i, 'C06: healthy offer of fresh patch %d answered %s' % (p['num'], st['out'])))
    return bad


# ------------------------------------------------------------------ C08
def mon_C08(ctx, ops, states):
    w = Walk(ctx, ops, states)
    bad = []
    for i, o, pre, st, cfg in w.steps():
        if o['kind'] == 'init' and st['out'] == 'true' and state_reset(o, pre, o['rel']):
            ok = isinstance(st['pj'], dict) and st['pj'] == dict(lb=None, nb=None, cb=None, bad=[]) and \
                not st['arts'] and isinstance(st['sj'], dict) and st['sj'] == dict(rel=o['rel'], evq=[])
            if not ok:
                bad.append((i, 'C08: state of another release survived the first init: %s' % st['raw'][:200]))
        if cfg is not None and o['kind'] in ('nextnum', 'nextpath', 'curnum') and state_reset(o, pre, cfg['rel']):
            if st['out'] not in ('0', 'null'):
                bad.append((i, 'C08: query under a new release returned %s' % st['out']))
    return bad


# ------------------------------------------------------------------ C14 / C20
def mon_C14(ctx, ops, states):
    w = Walk(ctx, ops, states)
    bad = []
    for i, o, pre, st, cfg in w.steps():
        if o['kind'] == 'init' and cfg is not None:
            if st['out'] != 'false':
                bad.append((i, 'C14: second init reported success'))
            if (st['sj'], st['pj'], st['arts'], st['junk']) != (pre['sj'], pre['pj'], pre['arts'], pre['junk']):
                bad.append((i, 'C14: second init changed the disk'))
    return bad + mon_C20(ctx, ops, states)


def mon_C20(ctx, ops, states):
    w = Walk(ctx, ops, states)
    bad = []
    for i, o, pre, st, cfg in w.steps():
        for n in st['net']:
            if cfg is None:
                bad.append((i, 'C20: network traffic without configuration: %s' % n))
                continue
            if n.startswith('C:'):
                app, chan, rel = n[2:].split('.')[:3]
                want_chan = o.get('ch') if o.get('ch') is not None else cfg['chan']
                if 'BADPLAT' in n:
                    bad.append((i, 'C20: wrong platform/arch in request %s' % n))
                if (unhx(app), unhx(chan), unhx(rel)) != (cfg['app'], want_chan, cfg['rel']):
                    bad.append((i, 'C20: request %s/%s/%s, expected %s/%s/%s' % (unhx(app), unhx(chan), unhx(rel), cfg['app'], want_chan, cfg['rel'])))
            elif n.startswith('E:'):
                f = n[2:].split('.')
                if 'BADPLAT' in n or unhx(f[2]) != cfg['app'] or unhx(f[3]) != cfg['rel']:
                    bad.append((i, 'C20: event %s does not carry the configured app id / release' % n))
    return bad


MONITORS = {
    'C01': mon_C01,
    'C02': mon_C02,
}
