#!/usr/bin/env python3
# translate.py — regenerates coq/gen/*.v (tables) from the current /repo sources. Filled in per property.
import sys
sys.exit(0)
