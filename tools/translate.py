#!/usr/bin/env python3
# translate.py — regenerates coq/gen/*.v (tables only) from the CURRENT /repo sources.
#   AbiTables.v  (C15): UpdateStatus variants, SHOREBIRD_* constants, exported prototypes, repr(C)
#                structs — as read from the Rust sources, the generated C header and the Dart bindings
#   PanicSites.v (C13): every explicit panic site / unsafe block in non-test library code
#   Consts.v     (C20/C17): default channel, URL suffixes, event type strings, request field names
# Deliberately dumb (regular expressions over a fixed code shape): when a shape is not recognised the
# translator FAILS (exit 1) rather than guess.
import os, re, sys

REPO = os.environ.get('UV_REPO', '/repo')   # override only for experiments on scratch worktrees
ROOT = os.path.dirname(os.path.dirname(os.path.abspath(__file__)))
GEN = os.path.join(ROOT, 'coq', 'gen')


class Bad(Exception):
    pass


def strip_tests(src):
    """drop every item that follows a #[cfg(test)] attribute (modules, impl blocks, fns, uses, consts)"""
    out = ''
    pos = 0
    while True:
        m = re.search(r'#\[cfg\(test\)\]', src[pos:])
        if not m:
            out += src[pos:]
            break
        out += src[pos:pos + m.start()]
        k = pos + m.end()
        # skip further attributes / doc comments
        while True:
            mm = re.match(r'\s*(#\[[^\]]*\]|///[^\n]*|//[^\n]*)', src[k:])
            if not mm:
                break
            k += mm.end()
        semi = src.find(';', k)
        brace = src.find('{', k)
        if brace != -1 and (semi == -1 or brace < semi):
            depth = 0
            e = brace
            while e < len(src):
                if src[e] == '{':
                    depth += 1
                elif src[e] == '}':
                    depth -= 1
                    if depth == 0:
                        break
                e += 1
            pos = e + 1
        else:
            pos = (semi + 1) if semi != -1 else len(src)
    return out


def strip_comments(src):
    src = re.sub(r'/\*.*?\*/', '', src, flags=re.S)
    return re.sub(r'//[^\n]*', '', src)


# ---------------------------------------------------------------- C type algebra (printing)
def ty(kind, *a):
    return (kind,) + a


def coq_ty(t):
    k = t[0]
    if k == 'ptr':
        return '(TPtr %s)' % coq_ty(t[1])
    if k == 'struct':
        return '(TStruct "%s")' % t[1]
    if k == 'fn':
        return '(TFn [%s] %s)' % ('; '.join(coq_ty(x) for x in t[1]), coq_ty(t[2]))
    return {'void': 'TVoid', 'bool': 'TBool', 'i32': 'TI32', 'i64': 'TI64', 'u8': 'TU8', 'int': 'TInt',
            'usize': 'TUSize', 'char': 'TChar'}[k]


# ---------------------------------------------------------------- Rust side
def rust_type(s):
    s = s.strip()
    m = re.match(r'\*(const|mut)\s+(.*)$', s)
    if m:
        return ty('ptr', rust_type(m.group(2)))
    m = re.match(r'extern "C" fn\((.*)\)(?:\s*->\s*(.*))?$', s, flags=re.S)
    if m:
        args = [rust_type(a.split(':', 1)[1] if ':' in a else a) for a in split_args(m.group(1))]
        return ty('fn', args, rust_type(m.group(2)) if m.group(2) else ty('void'))
    base = {'bool': 'bool', 'usize': 'usize', 'i32': 'i32', 'i64': 'i64', 'u8': 'u8',
            'libc::c_char': 'char', 'c_char': 'char', 'libc::c_int': 'int', 'libc::c_void': 'void', '()': 'void'}
    if s in base:
        return ty(base[s])
    if re.match(r'^[A-Z]\w+$', s):
        return ty('struct', s)
    raise Bad('unrecognised Rust type: %r' % s)


def split_args(s):
    s = s.replace('->', '\x01')
    return [a.replace('\x01', '->') for a in split_args0(s)]


def split_args0(s):
    out, depth, cur = [], 0, ''
    for ch in s:
        if ch in '(<':
            depth += 1
        if ch in ')>':
            depth -= 1
        if ch == ',' and depth == 0:
            out.append(cur)
            cur = ''
        else:
            cur += ch
    if cur.strip():
        out.append(cur)
    return [a.strip() for a in out if a.strip()]


def rust_side():
    src = strip_comments(strip_tests(open(os.path.join(REPO, 'library/src/c_api/mod.rs')).read()))
    fns = {}
    for m in re.finditer(r'#\[no_mangle\]\s*pub (?:unsafe )?extern "C" fn (\w+)\s*\((.*?)\)\s*(?:->\s*([^{]+?))?\s*\{', src, flags=re.S):
        name, args, ret = m.group(1), m.group(2), m.group(3)
        a = [rust_type(x.split(':', 1)[1]) for x in split_args(args)]
        fns[name] = (a, rust_type(ret) if ret else ty('void'))
    if len(fns) < 10:
        raise Bad('only %d exported functions recognised in c_api/mod.rs' % len(fns))
    n_nomangle = len(re.findall(r'#\[no_mangle\]', src))
    if n_nomangle != len(fns):
        raise Bad('%d #[no_mangle] items but %d prototypes recognised' % (n_nomangle, len(fns)))
    structs = {}
    for m in re.finditer(r'#\[repr\(C\)\]\s*pub struct (\w+)\s*\{(.*?)\n\}', src, flags=re.S):
        fields = []
        for f in split_args(m.group(2)):
            fm = re.match(r'pub (\w+)\s*:\s*(.*)$', f, flags=re.S)
            if not fm:
                raise Bad('unrecognised field in struct %s: %r' % (m.group(1), f))
            fields.append((fm.group(1), rust_type(fm.group(2))))
        structs[m.group(1)] = fields
    if len(re.findall(r'#\[repr\(C\)\]', src)) != len(structs):
        raise Bad('repr(C) items not all recognised')
    consts = {}
    for m in re.finditer(r'pub const (SHOREBIRD_\w+)\s*:\s*i32\s*=\s*(-?\d+)\s*;', src):
        consts[m.group(1)] = int(m.group(2))
    usrc = strip_comments(strip_tests(open(os.path.join(REPO, 'library/src/updater.rs')).read()))
    m = re.search(r'pub enum UpdateStatus\s*\{(.*?)\}', usrc, flags=re.S)
    if not m:
        raise Bad('enum UpdateStatus not found')
    variants = []
    disc = 0
    for v in split_args(m.group(1)):
        vm = re.match(r'(\w+)(?:\s*=\s*(-?\d+))?$', v)
        if not vm:
            raise Bad('unrecognised UpdateStatus variant %r' % v)
        if vm.group(2) is not None:
            disc = int(vm.group(2))
        variants.append((vm.group(1), disc))
        disc += 1
    # how to_update_result turns a status into the C status field
    cm = re.search(r'fn to_update_result.*?\n\}', src, flags=re.S)
    # (the mapping itself is provoked through the C API on every run; here only: the status is the enum's
    # discriminant and the error case uses the named constant, wherever in the function that is written)
    if not cm or not re.search(r'\bas i32\b', cm.group(0)) or 'SHOREBIRD_UPDATE_ERROR' not in cm.group(0):
        raise Bad('to_update_result no longer mentions `as i32` and SHOREBIRD_UPDATE_ERROR')
    return fns, structs, consts, variants


# ---------------------------------------------------------------- C header
def c_type(s):
    s = s.strip()
    s = re.sub(r'\bstruct\s+', '', s)
    m = re.match(r'^(.*)\(\*\s*\w*\)\((.*)\)$', s, flags=re.S)       # function pointer: ret (*name)(args)
    if m:
        args = [] if m.group(2).strip() == 'void' else [c_type(strip_name(a)) for a in split_args(m.group(2))]
        return ty('ptr_fn', args, c_type(m.group(1)))
    if s.endswith('*') or s.endswith('*const'):
        inner = re.sub(r'\*\s*(const)?$', '', s).strip()
        return ty('ptr', c_type(inner))
    s = re.sub(r'\bconst\b', '', s).strip()
    base = {'bool': 'bool', 'uintptr_t': 'usize', 'int32_t': 'i32', 'int64_t': 'i64', 'uint8_t': 'u8', 'char': 'char',
            'int': 'int', 'void': 'void'}
    if s in base:
        return ty(base[s])
    if re.match(r'^[A-Z]\w+$', s):
        return ty('struct', s)
    raise Bad('unrecognised C type: %r' % s)


def strip_name(decl):
    """`const char *c_yaml` -> `const char *`"""
    decl = decl.strip()
    if '(*' in decl:
        return decl
    m = re.match(r'^(.*?)(\w+)$', decl, flags=re.S)
    if not m or not m.group(1).strip():
        return decl
    return m.group(1).strip()


def norm_fnptr(t):
    if t[0] == 'ptr_fn':
        return ty('fn', [norm_fnptr(a) for a in t[1]], norm_fnptr(t[2]))
    if t[0] == 'ptr':
        return ty('ptr', norm_fnptr(t[1]))
    return t


def header_side():
    src = strip_comments(open(os.path.join(REPO, 'library/include/updater.h')).read())
    defines = {m.group(1): int(m.group(2)) for m in re.finditer(r'#define (SHOREBIRD_(?!EXPORT)\w+)\s+(-?\d+)', src)}
    structs = {}
    for m in re.finditer(r'typedef struct (\w+)\s*\{(.*?)\}\s*\w+;', src, flags=re.S):
        fields = []
        for f in [x.strip() for x in m.group(2).split(';') if x.strip()]:
            fm = re.match(r'^(.*)\(\*(\w+)\)\((.*)\)$', f, flags=re.S)
            if fm:
                fields.append((fm.group(2), norm_fnptr(c_type(f))))
                continue
            fm = re.match(r'^(.*?)(\w+)$', f, flags=re.S)
            fields.append((fm.group(2), c_type(fm.group(1))))
        structs[m.group(1)] = fields
    fns = {}
    protos = src[src.index('extern "C" {'):]
    for m in re.finditer(r'SHOREBIRD_EXPORT\s+(.*?)\b(shorebird_\w+)\s*\((.*?)\)\s*;', protos, flags=re.S):
        ret, name, args = m.group(1), m.group(2), m.group(3)
        a = [] if args.strip() == 'void' else [c_type(strip_name(x)) for x in split_args(args)]
        fns[name] = (a, c_type(ret))
    if len(fns) < 10:
        raise Bad('only %d prototypes recognised in updater.h' % len(fns))
    return fns, structs, defines


# ---------------------------------------------------------------- Dart bindings
def dart_type(s):
    s = s.strip()
    m = re.match(r'^ffi\.Pointer<(.*)>$', s, flags=re.S)
    if m:
        inner = m.group(1).strip()
        fm = re.match(r'^ffi\s*\.\s*NativeFunction<(.*)>$', inner, flags=re.S)
        if fm:
            return dart_fn(fm.group(1))
        return ty('ptr', dart_type(inner))
    base = {'ffi.Bool': 'bool', 'ffi.UintPtr': 'usize', 'ffi.Int32': 'i32', 'ffi.Int64': 'i64', 'ffi.Uint8': 'u8',
            'ffi.Char': 'char', 'ffi.Int': 'int', 'ffi.Void': 'void'}
    if s in base:
        return ty(base[s])
    if re.match(r'^[A-Z]\w+$', s):
        return ty('struct', s)
    raise Bad('unrecognised Dart type: %r' % s)


def dart_fn(s):
    m = re.match(r'^(.*?)\s+Function\((.*)\)$', s.strip(), flags=re.S)
    if not m:
        raise Bad('unrecognised Dart function type: %r' % s)
    args = []
    for a in split_args(m.group(2)):
        am = re.match(r'^(.*?)(?:\s+\w+)?$', a.strip(), flags=re.S)
        t = a.strip()
        # optional parameter name after the type
        parts = t.rsplit(' ', 1)
        if len(parts) == 2 and re.match(r'^\w+$', parts[1]) and not parts[1].startswith('ffi') and ('<' not in parts[1]):
            t = parts[0]
        args.append(dart_type(t))
    return ty('fn', args, dart_type(m.group(1)))


def dart_side():
    src = open(os.path.join(REPO, 'shorebird_code_push/lib/src/generated/updater_bindings.g.dart')).read()
    src = re.sub(r'///[^\n]*', '', src)
    fns = {}
    for m in re.finditer(r"'(shorebird_\w+)'\)", src):
        st = src.rfind('_lookup<', 0, m.start())
        seg = src[st:m.start()]
        sm = re.match(r"_lookup<\s*ffi\.NativeFunction<(.*)>>\(\s*$", seg, flags=re.S)
        if not sm:
            raise Bad('unrecognised Dart lookup for %s' % m.group(1))
        f = dart_fn(sm.group(1))
        fns[m.group(1)] = (f[1], f[2])
    if len(fns) < 8:
        raise Bad('only %d shorebird_* lookups recognised in the Dart bindings' % len(fns))
    structs = {}
    for name in ('AppParameters', 'FileCallbacks', 'UpdateResult'):
        m = re.search(r'final class %s extends ffi\.Struct \{(.*?)\n\}' % name, src, flags=re.S)
        if not m:
            raise Bad('Dart struct %s not found' % name)
        fields = []
        for f in [x.strip() for x in m.group(1).split(';') if x.strip()]:
            fm = re.match(r'^(?:@(ffi\.\w+)\(\)\s*)?external\s+(.*?)\s+(\w+)$', f, flags=re.S)
            if not fm:
                raise Bad('unrecognised Dart field in %s: %r' % (name, f))
            t = dart_type(fm.group(1)) if fm.group(1) else dart_type(fm.group(2))
            fields.append((fm.group(3), t))
        structs[name] = fields
    consts = {m.group(1): int(m.group(2)) for m in re.finditer(r'const int (SHOREBIRD_\w+)\s*=\s*(-?\d+)\s*;', src)}
    io = open(os.path.join(REPO, 'shorebird_code_push/lib/src/shorebird_updater_io.dart')).read()
    m = re.search(r'UpdateFailureReason toFailureReason\(\) \{(.*?)\n  \}', io, flags=re.S)
    if not m:
        raise Bad('toFailureReason not found')
    cases = re.findall(r'case (SHOREBIRD_\w+):\s*return UpdateFailureReason\.(\w+);', m.group(1))
    # "restart required": how the Dart layer derives it from the two patch numbers the library reports, and how a
    # patch number becomes "a patch / no patch" (whitespace-normalised source text of those expressions)
    norm = lambda x: re.sub(r'\s+', ' ', x).strip()
    rr = [norm(x) for x in re.findall(r'return\s+(next != null[^;?]*\?\.number[^;?]*)\?\s*UpdateStatus\.restartRequired\s*:\s*UpdateStatus\.upToDate;', io, flags=re.S)]
    rr += [norm(x) for x in re.findall(r'final status =\s*(next != null[^;?]*\?\.number[^;?]*)\?\s*UpdateStatus\.restartRequired\s*:\s*UpdateStatus\.upToDate;', io, flags=re.S)]
    pn = [norm(x) for x in re.findall(r'return (patchNumber[^;]*);', io)]
    if not rr or not pn:
        raise Bad('restart-required / patch-number expressions not recognised in shorebird_updater_io.dart')
    global DART_EXPRS
    DART_EXPRS = (rr, pn)
    return fns, structs, consts, cases


DART_EXPRS = ([], [])


def erase(t):
    return t


def emit_abi():
    rf, rs, rc, rv = rust_side()
    hf, hs, hd = header_side()
    df, ds, dc, dcases = dart_side()
    out = ['(* GENERATED by tools/translate.py from /repo — do not edit. *)',
           'From Coq Require Import List ZArith String.', 'From UV Require Import Abi.', 'Import ListNotations.',
           'Open Scope string_scope.', '']

    def fn_table(name, fns):
        rows = ['  ("%s", [%s], %s)' % (n, '; '.join(coq_ty(a) for a in fns[n][0]), coq_ty(fns[n][1])) for n in sorted(fns)]
        out.append('Definition %s : list (string * list cty * cty) :=\n  [\n%s\n  ].\n' % (name, ';\n'.join(rows)))

    def struct_table(name, st):
        rows = ['  ("%s", [%s])' % (n, '; '.join('("%s", %s)' % (f, coq_ty(t)) for f, t in st[n])) for n in sorted(st)]
        out.append('Definition %s : list (string * list (string * cty)) :=\n  [\n%s\n  ].\n' % (name, ';\n'.join(rows)))

    def const_table(name, cs):
        rows = ['("%s", (%d)%%Z)' % (k, cs[k]) for k in sorted(cs)]
        out.append('Definition %s : list (string * Z) := [%s].\n' % (name, '; '.join(rows)))
    fn_table('rust_fns', rf)
    fn_table('header_fns', hf)
    fn_table('dart_fns', df)
    struct_table('rust_structs', rs)
    struct_table('header_structs', hs)
    struct_table('dart_structs', ds)
    const_table('rust_consts', rc)
    const_table('header_defines', hd)
    const_table('dart_consts', dc)
    out.append('Definition rust_status_variants : list (string * Z) := [%s].\n' % '; '.join('("%s", (%d)%%Z)' % v for v in rv))
    out.append('Definition dart_failure_cases : list (string * string) := [%s].\n' % '; '.join('("%s", "%s")' % c for c in dcases))
    out.append('Definition dart_restart_required_exprs : list string := [%s].\n' % '; '.join('"%s"' % x for x in DART_EXPRS[0]))
    out.append('Definition dart_patch_of_number_exprs : list string := [%s].\n' % '; '.join('"%s"' % x for x in DART_EXPRS[1]))
    return '\n'.join(out)


# ---------------------------------------------------------------- panic sites
PANIC_PAT = re.compile(r'\.unwrap\(\)|\.expect\(|panic!\(|unreachable!\(|unimplemented!\(|todo!\(|assert!\(|assert_eq!\(|assert_ne!\(|\bunsafe\b|thread::spawn\(|(?<![#!\w])\w+\[[^\]\n]+\](?!\s*=\s*\{)|\.offset\(')


def emit_panics():
    sites = []
    base = os.path.join(REPO, 'library/src')
    files = []
    for dp, _, fs in os.walk(base):
        for f in fs:
            if f.endswith('.rs') and f not in ('android.rs', 'test_utils.rs', 'verif.rs'):
                files.append(os.path.join(dp, f))
    for path in sorted(files):
        src = strip_tests(open(path).read())
        fn = '?'
        for ln, line in enumerate(src.splitlines(), 1):
            code = re.sub(r'//.*', '', line)
            m = re.search(r'\bfn (\w+)', code)
            if m:
                fn = m.group(1)
            for pm in PANIC_PAT.finditer(code):
                kind = pm.group(0).strip('.(!')
                if '[' in kind:
                    if kind.startswith(('vec', 'cfg', 'derive', 'allow', 'serde')) or re.match(r'^[A-Z]', kind):
                        continue
                    kind = 'index'
                sites.append((os.path.relpath(path, base), fn, kind))
    rows = ['  ("%s", "%s", "%s")' % s for s in sites]
    return ('(* GENERATED by tools/translate.py from /repo — do not edit. *)\n'
            'From Coq Require Import List String.\nImport ListNotations.\nOpen Scope string_scope.\n\n'
            '(* (file, enclosing fn, kind) of every explicit panic site / unsafe block in non-test library code *)\n'
            'Definition panic_sites : list (string * string * string) :=\n  [\n%s\n  ].\n' % ';\n'.join(rows))



# ---------------------------------------------------------------- lock / network call sites (C12)
LOCKERS = ('with_config', 'with_config_mut', 'with_state', 'with_mut_state')
UPD_LOCKER = 'with_updater_thread_lock'
NET_FREE = ('send_patch_event', 'download_to_path', 'patch_check_request_default', 'download_file_default', 'report_event_default')


def blank_literals(src):
    """one-pass lexer: comments removed, string / raw-string / char literals blanked"""
    out = []
    i, n = 0, len(src)
    while i < n:
        c = src[i]
        two = src[i:i + 2]
        if two == '//':
            j = src.find('\n', i)
            i = n if j == -1 else j
        elif two == '/*':
            depth, i = 1, i + 2
            while i < n and depth:
                if src[i:i + 2] == '/*':
                    depth += 1; i += 2
                elif src[i:i + 2] == '*/':
                    depth -= 1; i += 2
                else:
                    i += 1
        elif c == 'r' and re.match(r'r#*"', src[i:]) and (i == 0 or not (src[i - 1].isalnum() or src[i - 1] == '_')):
            m = re.match(r'r(#*)"', src[i:])
            end = src.find('"' + m.group(1), i + m.end())
            out.append('""')
            i = n if end == -1 else end + 1 + len(m.group(1))
        elif c == '"':
            i += 1
            while i < n and src[i] != '"':
                i += 2 if src[i] == '\\' else 1
            out.append('""')
            i += 1
        elif c == "'":
            m = re.match(r"'(?:\\(?:x[0-9a-fA-F]{2}|u\{[0-9a-fA-F]+\}|.)|[^'\\])'", src[i:])
            if m:
                out.append("' '")
                i += m.end()
            else:           # a lifetime
                out.append(c)
                i += 1
        else:
            out.append(c)
            i += 1
    return ''.join(out)


def match_close(src, i, open_c, close_c):
    depth = 0
    while i < len(src):
        if src[i] == open_c:
            depth += 1
        elif src[i] == close_c:
            depth -= 1
            if depth == 0:
                return i
        i += 1
    raise Bad('unbalanced %s' % open_c)


PARAMS = {}     # (fn name, body start) -> parameter list text, filled by functions_of


def functions_of(src):
    """[(name, is_method, body_start, body_end)] for every fn with a body"""
    out = []
    for m in re.finditer(r'\bfn\s+(\w+)', src):
        k = m.end()
        # generics
        while k < len(src) and src[k].isspace():
            k += 1
        if k < len(src) and src[k] == '<':
            depth = 0
            while k < len(src):
                if src[k] == '<':
                    depth += 1
                elif src[k] == '>' and src[k - 1] != '-':
                    depth -= 1
                    if depth == 0:
                        k += 1
                        break
                k += 1
        po = src.find('(', k)
        if po == -1:
            continue
        pc = match_close(src, po, '(', ')')
        params = src[po + 1:pc]
        is_method = bool(re.match(r'\s*(&\s*(\'\w+\s+)?)?(mut\s+)?self\b', params))
        # body: first '{' before the next ';' at this level
        j = pc + 1
        brace = None
        while j < len(src):
            if src[j] == '{':
                brace = j
                break
            if src[j] == ';':
                break
            j += 1
        if brace is None:
            continue
        end = match_close(src, brace, '{', '}')
        out.append((m.group(1), is_method, brace, end))
        PARAMS[(m.group(1), brace)] = params
    return out


def emit_locks():
    base = os.path.join(REPO, 'library/src')
    files = []
    for dp, _, fs in os.walk(base):
        for f in fs:
            if f.endswith('.rs') and f not in ('android.rs', 'test_utils.rs', 'verif.rs'):
                files.append(os.path.join(dp, f))
    fns = []      # (file, name, is_method)
    sites = []    # (caller, callee, under_cfg, under_upd)
    # thin wrappers around thread::spawn (`fn spawn_detached<F>(f: F) { std::thread::spawn(f); }`): a closure handed to
    # one of them runs on another thread exactly like one handed to thread::spawn itself
    spawners = set()
    for path in sorted(files):
        src0 = blank_literals(strip_tests(open(path).read()))
        for name, is_m, b0, b1 in functions_of(src0):
            if is_m:
                continue
            pnames = re.findall(r'(?:^|,)\s*(?:mut\s+)?(\w+)\s*:', PARAMS.get((name, b0), ''))
            body0 = src0[b0:b1 + 1]
            for pn in pnames:
                if re.search(r'\bspawn\s*\(\s*(?:move\s*\|\s*\|\s*)?%s\b' % re.escape(pn), body0):
                    spawners.add(name)
    for path in sorted(files):
        rel = os.path.relpath(path, base)
        src = blank_literals(strip_tests(open(path).read()))
        # feature-gated instrumentation lines are not part of the shipped code
        src = re.sub(r'#\[cfg\(feature = ""\)\]\s*[^;]*;', '', src)
        fl = functions_of(src)
        for name, is_m, b0, b1 in fl:
            # skip functions nested in another function's body (closures are not `fn`)
            fns.append((rel, name, is_m))
            body = src[b0:b1 + 1]
            # aliases of network callbacks: names bound by a `let` whose initialiser mentions network_hooks
            aliases = set()
            for lm in re.finditer(r'\blet\s+(\([^)]*\)|\w+)\s*(?::[^=;]*)?=', body):
                st = lm.end()
                depth = 0
                j = st
                while j < len(body):
                    c = body[j]
                    if c in '({[':
                        depth += 1
                    elif c in ')}]':
                        depth -= 1
                    elif c == ';' and depth == 0:
                        break
                    j += 1
                if 'network_hooks' in body[st:j]:
                    for nm in re.findall(r'\w+', lm.group(1)):
                        if nm not in ('mut', 'ref'):
                            aliases.add(nm)
            spans = []   # (open, close, kind)
            calls = []   # (pos, callee)
            for cm in re.finditer(r'(\.|::)?\s*\b([A-Za-z_]\w*)\s*(\()', body):
                pre, name2 = cm.group(1), cm.group(2)
                if name2 in ('if', 'while', 'match', 'for', 'return', 'fn', 'Some', 'Ok', 'Err', 'None', 'loop', 'move', 'in', 'as', 'let', 'mut', 'ref'):
                    continue
                po = cm.start(3)
                pc = match_close(body, po, '(', ')')
                if pre == '.':
                    if name2.endswith('_fn') or name2.endswith('_hook'):
                        callee = 'NET:' + name2
                    else:
                        callee = '.' + name2
                else:
                    callee = name2
                    # (a local alias of a callback is called as a plain identifier: `Type::name(..)` is a path, not that local)
                    if (pre is None and name2 in aliases) or name2.endswith('_fn') or name2.endswith('_hook'):
                        callee = 'NET:' + name2
                    elif name2 in NET_FREE:
                        callee = 'NET:' + name2
                if name2 in LOCKERS and pre != '.':
                    spans.append((po, pc, 'cfg'))
                elif name2 == UPD_LOCKER and pre != '.':
                    spans.append((po, pc, 'upd'))
                elif name2 == 'spawn' or (name2 in spawners and pre != '.'):
                    spans.append((po, pc, 'spawn'))
                    callee = 'SPAWN'
                calls.append((cm.start(2), callee))
            # `(config.network_hooks.x)(...)`: a call through the field itself
            for cm in re.finditer(r'network_hooks\s*\.\s*(\w+)\s*\)\s*\(', body):
                calls.append((cm.start(1), 'NET:' + cm.group(1)))
            for pos, callee in calls:
                cfg = upd = spawned = False
                for (a, b, k) in sorted(spans):
                    if a < pos <= b:   # strictly inside the argument list
                        if k == 'spawn':
                            cfg = upd = False
                            spawned = True
                        elif k == 'cfg':
                            cfg = True
                        else:
                            upd = True
                sites.append(('%s%s' % ('.' if is_m else '', name), callee, cfg, upd, spawned))
    names = sorted(set(('.' if m else '') + n for _, n, m in fns))
    b = lambda x: 'true' if x else 'false'
    rows = ['  ("%s", "%s", %s, %s, %s)' % (c, d, b(x), b(y), b(z)) for c, d, x, y, z in sites]
    if not any(r[1].startswith('NET:') for r in sites) or not any(r[1] in LOCKERS for r in sites):
        raise Bad('no network call or no lock acquisition found in library/src (source shape changed?)')
    return ('(* GENERATED by tools/translate.py from /repo — do not edit. *)\n'
            'From Coq Require Import List String Bool.\nImport ListNotations.\nOpen Scope string_scope.\n\n'
            '(* every function with a body in non-test library code ("." prefix = takes self) *)\n'
            'Definition gen_fns : list string :=\n  [%s].\n\n'
            '(* (caller, callee, lexically inside a config-lock closure, lexically inside the update-lock closure,\n'
            '   lexically inside a thread::spawn closure) for every call in those functions; "NET:x" = call of a network\n'
            '   callback or of a function that performs HTTP itself, "SPAWN" = thread::spawn (its closure runs on another\n'
            '   thread: the lock flags are reset inside it) *)\n'
            'Definition gen_calls : list (string * string * bool * bool * bool) :=\n  [\n%s\n  ].\n'
            % ('; '.join('"%s"' % n for n in names), ';\n'.join(rows)))

# ---------------------------------------------------------------- constants
def emit_consts():
    # the default channel: a `const DEFAULT_CHANNEL: &str` (free or associated, any visibility) somewhere in the library
    chan = None
    for fn_ in sorted(os.listdir(os.path.join(REPO, 'library/src'))):
        if fn_.endswith('.rs'):
            m = re.search(r'const\s+DEFAULT_CHANNEL\s*:\s*&(?:\'static\s+)?str\s*=\s*"([^"]*)"\s*;', strip_tests(open(os.path.join(REPO, 'library/src', fn_)).read()))
            if m:
                chan = m.group(1)
                break
    if chan is None:
        raise Bad('DEFAULT_CHANNEL not found')
    net = strip_tests(open(os.path.join(REPO, 'library/src/network.rs')).read())
    # the two endpoint paths: string literals "/api/..." in network.rs, with or without a leading {base_url}
    sufs = [l.replace('{base_url}', '') for l in re.findall(r'"((?:\{base_url\})?/api/[^"]*)"', strip_comments(net))]
    class _M:
        def __init__(self, v): self.v = v
        def group(self, i): return self.v
    cks = sorted(set(x for x in sufs if 'check' in x))
    evs = sorted(set(x for x in sufs if 'event' in x))
    if len(cks) != 1 or len(evs) != 1:
        raise Bad('endpoint paths not recognised (%r)' % (sufs,))
    cm, em = _M(cks[0]), _M(evs[0])
    ev = open(os.path.join(REPO, 'library/src/events.rs')).read()
    # the wire name of every event type: match arms or table rows, the string given literally or through a `const NAME: &str`
    evc = strip_comments(strip_tests(ev))
    consts = dict(re.findall(r'const\s+(\w+)\s*:\s*&(?:\'static\s+)?str\s*=\s*"([^"]*)"\s*;', evc))
    names = set()
    for var, lit, ident in re.findall(r'EventType::(\w+)\s*(?:=>|,)\s*(?:"([^"]+)"|([A-Z][A-Z0-9_]*)\b)', evc):
        if lit:
            names.add((var, lit))
        elif ident in consts:
            names.add((var, consts[ident]))
    names = sorted(names)
    if len(names) < 3 or len(set(v for v, _ in names)) != len(names):
        raise Bad('event type names not recognised (%r)' % (names,))
    rm = re.search(r'pub struct PatchCheckRequest \{(.*?)\n\}', strip_comments(net), flags=re.S)
    fields = re.findall(r'pub (\w+): String', rm.group(1)) if rm else []
    if not fields:
        raise Bad('PatchCheckRequest fields not recognised')
    # the struct literal that builds the request (in `new`, a From impl, a helper ...): the first `PatchCheckRequest { .. }` /
    # `Self { .. }` literal of the non-test code that names every member of the struct
    assigns = []
    for lit in re.findall(r'(?:PatchCheckRequest|Self)\s*\{([^{}]*)\}', strip_comments(net)):
        a = re.findall(r'(\w+)\s*:\s*([^,\n]+),?', lit)
        if a and set(fields) <= set(x for x, _ in a) and all(re.search(r'[a-z_]\(|\.', b) for _, b in a):
            assigns = [(x, y) for x, y in a if x in fields]
            break
    if not assigns:
        raise Bad('the construction of PatchCheckRequest was not recognised')
    # where each field comes from, reduced to the config field / function it names (not the exact expression)
    def src_key(e):
        m1 = re.search(r'config\.(\w+)', e)
        m2 = re.search(r'\b(current_\w+)\s*\(', e)
        return 'config.' + m1.group(1) if m1 else (m2.group(1) if m2 else e.strip())
    assigns = [(a, src_key(b)) for a, b in assigns]
    return ('(* GENERATED by tools/translate.py from /repo — do not edit. *)\n'
            'From Coq Require Import List String.\nImport ListNotations.\nOpen Scope string_scope.\n\n'
            'Definition gen_default_channel : string := "%s".\n'
            'Definition gen_check_url_suffix : string := "%s".\n'
            'Definition gen_events_url_suffix : string := "%s".\n'
            'Definition gen_event_type_names : list (string * string) := [%s].\n'
            'Definition gen_request_fields : list string := [%s].\n'
            'Definition gen_request_sources : list (string * string) := [%s].\n'
            % (chan, cm.group(1), em.group(1), '; '.join('("%s", "%s")' % n for n in names),
               # (sorted: the order of the members of a JSON object, and so of the struct's fields, carries no meaning)
               '; '.join('"%s"' % f for f in sorted(fields)), '; '.join('("%s", "%s")' % (a, b.strip().replace('"', "'")) for a, b in sorted(assigns))))


# ---------------------------------------------------------------- persisted / wire formats
def serde_struct(src, name):
    """(struct-level serde attributes, [(wire name, kind)]) of a struct with derived Deserialize; kind = opt (an Option
    without attributes: a missing member is None), default (#[serde(default...)]), skip, or req"""
    m = re.search(r'((?:#\[[^\]]*\]\s*)*)(?:pub(?:\([^)]*\))?\s+)?struct %s\s*\{(.*?)\n\}' % name, src, flags=re.S)
    if not m:
        raise Bad('struct %s not found' % name)
    sattrs = sorted(a.strip() for a in ','.join(re.findall(r'#\[serde\((.*?)\)\]', m.group(1), flags=re.S)).split(',') if a.strip())
    if 'Deserialize' not in m.group(1):
        raise Bad('struct %s does not derive Deserialize' % name)
    fields = []
    for fm in re.finditer(r'((?:#\[[^\]]*\]\s*)*)(?:pub(?:\([^)]*\))?\s+)?(\w+)\s*:\s*([^,\n]+(?:<[^\n]*>)?)\s*,', m.group(2)):
        attrs = ','.join(re.findall(r'#\[serde\((.*?)\)\]', fm.group(1), flags=re.S))
        wire = fm.group(2)
        rn = re.search(r'rename\s*=\s*"([^"]*)"', attrs)
        if rn:
            wire = rn.group(1)
        ty = fm.group(3).strip()
        other = [a.strip() for a in attrs.split(',') if a.strip() and not a.strip().startswith('rename') and not a.strip().startswith('default') and not a.strip().startswith('skip')]
        kind = 'skip' if re.search(r'\bskip', attrs) else 'default' if re.search(r'\bdefault\b', attrs) else 'opt' if ty.startswith('Option<') else 'req'
        if other:
            kind += '+' + '+'.join(sorted(other))
        fields.append((wire, kind))
    if not fields:
        raise Bad('struct %s: no fields recognised' % name)
    return sattrs, sorted(fields)


def emit_persisted():
    us = strip_comments(strip_tests(open(os.path.join(REPO, 'library/src/cache/updater_state.rs')).read()))
    pm = strip_comments(strip_tests(open(os.path.join(REPO, 'library/src/cache/patch_manager.rs')).read()))
    ev = strip_comments(strip_tests(open(os.path.join(REPO, 'library/src/events.rs')).read()))
    net = strip_comments(strip_tests(open(os.path.join(REPO, 'library/src/network.rs')).read()))
    rows = []
    for src, name in ((us, 'SerializedState'), (ev, 'PatchEvent'), (pm, 'PatchesState'), (pm, 'PatchMetadata'), (net, 'PatchCheckResponse'), (net, 'Patch')):
        sattrs, fields = serde_struct(src, name)
        rows.append('  ("%s", [%s], [%s])' % (name, '; '.join('"%s"' % a.replace('"', "'") for a in sattrs),
                                             '; '.join('("%s", "%s")' % (w, k.replace('"', "'")) for w, k in fields)))
    # how the two state files are read and written
    dio = strip_comments(strip_tests(open(os.path.join(REPO, 'library/src/cache/disk_io.rs')).read()))
    rd = 'from_reader' if re.search(r'serde_json::from_reader', dio) else 'other'
    wr = 'to_writer_pretty' if re.search(r'serde_json::to_writer_pretty', dio) else 'to_writer' if re.search(r'serde_json::to_writer', dio) else 'other'
    return ('(* GENERATED by tools/translate.py from /repo — do not edit. *)\n'
            'From Coq Require Import List String.\nImport ListNotations.\nOpen Scope string_scope.\n\n'
            '(* every struct whose JSON text the model reads: (name, struct-level serde attributes, members sorted by wire name\n'
            '   with their kind: req = required, opt = Option without attributes (missing = None), default = #[serde(default)]) *)\n'
            'Definition gen_wire_structs : list (string * list string * list (string * string)) :=\n [\n%s\n ].\n'
            'Definition gen_state_file_reader : string := "%s".\nDefinition gen_state_file_writer : string := "%s".\n'
            % (';\n'.join(rows), rd, wr))


def write_if_changed(path, text):
    old = open(path).read() if os.path.exists(path) else None
    if old != text:
        open(path, 'w').write(text)


def main():
    os.makedirs(GEN, exist_ok=True)
    failed = []
    for name, fn in (('AbiTables', emit_abi), ('PanicSites', emit_panics), ('Consts', emit_consts), ('LockSites', emit_locks), ('WireFormats', emit_persisted)):
        try:
            write_if_changed(os.path.join(GEN, name + '.v'), fn())
        except Bad as e:
            failed.append(name)
            print('translate.py: %s: source shape not recognised: %s' % (name, e))
        except Exception as e:       # an unexpected shape must not take the other tables down with it
            failed.append(name)
            print('translate.py: %s: translator error: %r' % (name, e))
    if failed:
        print('translate.py: FAILED ' + ' '.join(failed))
        sys.exit(1)
    print('translate.py: ok')


if __name__ == '__main__':
    main()
