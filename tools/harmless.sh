#!/bin/bash
# harmless.sh [r1 r2 ...] — applies each recorded behaviour-preserving refactor to /repo, runs every quick check,
# restores /repo. Any VIOLATION line here is a false alarm of the machinery.
cd "$(dirname "$0")/.."
trap 'git -C /repo checkout -- . 2>/dev/null' EXIT
for r in ${@:-r1 r2 r3 r4}; do
  echo "=== harmless refactor $r"
  git -C /repo apply $PWD/seeded/harmless/$r/patch.diff || { echo "$r does not apply"; continue; }
  tools/refresh.sh quick 2>&1 | grep -E "VIOLATION|quick:" | grep -v "divergences=0 monitor_fail=0" | cut -c1-200
  git -C /repo checkout -- .
done
