#!/bin/bash
# refresh.sh [tier] — runs every property's check on /repo as it is and rewrites evidence/; prints one line per property
cd "$(dirname "$0")/.."
TIER=${1:-quick}
rc=0
for i in $(seq -w 1 20); do
  out=$(python3 tools/vcheck.py C$i --tier $TIER 2>&1)
  echo "$out" | grep -E "^VIOLATION|^KNOWN-FINDING" | head -3
  echo "$out" | tail -1
  echo "$out" | grep -q "^VIOLATION" && rc=1
done
exit $rc
