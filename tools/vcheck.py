#!/usr/bin/env python3
# vcheck.py — orchestrator.  tools/vcheck.py Cxx --tier quick|thorough | --replay <file> | --setup
import argparse, json, os, sys, time, hashlib, random, shutil, re, subprocess, collections
sys.path.insert(0, os.path.dirname(os.path.abspath(__file__)))
from uvlib import *
import gen, monitors, props

EVID = os.path.join(ROOT, 'evidence')
REPLAY = os.path.join(EVID, 'replay')
ALLOWED_AXIOMS = set()   # property theorems must be closed under the global context


def load_known():
    fixed, findings = [], []
    p = os.path.join(ROOT, 'known_findings.txt')
    if os.path.exists(p):
        for line in open(p):
            line = line.strip()
            if line.startswith('finding:'):
                findings.append(line)
            elif line.startswith('fixed:'):
                fixed.append(line)
    return fixed, findings


def hygiene():
    """no Admitted / axioms / disabled checks anywhere in the development"""
    pat = re.compile(r'\b(Admitted|admit|Axiom|Axioms|Parameter|Parameters|Conjecture|Hypothesis|Variable|Unset Guard Checking|'
                     r'Unset Positivity Checking|Unset Universe Checking|bypass_check|type-in-type|Admit Obligations)\b')
    issues = []
    for dp, _, fs in os.walk(COQ):
        for f in fs:
            if not f.endswith('.v'):
                continue
            path = os.path.join(dp, f)
            txt = open(path).read()
            txt_nc = re.sub(r'\(\*.*?\*\)', '', txt, flags=re.S)
            depth = 0
            for ln, line in enumerate(txt_nc.splitlines(), 1):
                s = line.strip()
                if re.match(r'Section\b', s):
                    depth += 1
                m = pat.search(line)
                if m:
                    w = m.group(1)
                    if w in ('Variable', 'Hypothesis') and depth > 0:
                        pass
                    else:
                        issues.append('%s:%d: %s' % (os.path.relpath(path, ROOT), ln, w))
                if re.match(r'End\b', s) and depth > 0:
                    depth -= 1
    return issues


def check_theorems(pid):
    """compile props/<pid>.v on its own, collect Print Assumptions; returns (n_thm, n_ok, problems, names)"""
    f = os.path.join(COQ, 'props', pid + '.v')
    if not os.path.exists(f):
        return 0, 0, ['props/%s.v missing' % pid], []
    src = open(f).read()
    names = re.findall(r'^\s*(?:Theorem|Lemma|Corollary)\s+(\w+)', src, flags=re.M)
    p = sh('timeout 600 coqc -q -Q theories UV -Q props UVP -Q gen UVG props/%s.v 2>&1' % pid, cwd=COQ, timeout=700)
    problems = []
    if p.returncode != 0:
        problems.append('coqc props/%s.v failed: %s' % (pid, p.stdout[-1500:]))
        return len(names), 0, problems, names
    out = p.stdout
    closed = out.count('Closed under the global context')
    axioms = re.findall(r'^Axioms:\s*\n((?:.+\n)+?)(?=\S|\Z)', out, flags=re.M)
    if 'Axioms:' in out:
        problems.append('axioms reported under props/%s.v: %s' % (pid, out[out.index('Axioms:'):][:800]))
    n_print = len(re.findall(r'Print Assumptions', re.sub(r'\(\*.*?\*\)', '', src, flags=re.S)))
    if n_print < len(names):
        problems.append('props/%s.v: %d theorems but only %d Print Assumptions' % (pid, len(names), n_print))
    ok = min(closed, len(names)) if not problems else 0
    return len(names), ok, problems, names


def cone_members(pid):
    """files (relative to coq/) props/<pid>.v depends on, itself included"""
    seen, todo = set(), [os.path.join(COQ, 'props', pid + '.v')]
    while todo:
        f = todo.pop()
        if f in seen or not os.path.exists(f):
            continue
        seen.add(f)
        src = open(f).read()
        for lib, sub in (('UV', 'theories'), ('UVG', 'gen')):
            for m in re.findall(r'From %s Require (?:Import|Export) ([^.]*)\.' % lib, src):
                for mod in m.split():
                    todo.append(os.path.join(COQ, sub, mod + '.v'))
    return set(os.path.relpath(f, COQ) for f in seen)


def count_cone(pid):
    """number of Lemma/Theorem statements in the theory files the property file imports (transitively)"""
    seen, todo = set(), [os.path.join(COQ, 'props', pid + '.v')]
    total = 0
    while todo:
        f = todo.pop()
        if f in seen or not os.path.exists(f):
            continue
        seen.add(f)
        src = open(f).read()
        total += len(re.findall(r'^\s*(?:Theorem|Lemma|Corollary|Example|Fact)\s+\w+', src, flags=re.M))
        for m in re.findall(r'From UV Require (?:Import|Export) ([^.]*)\.', src):
            for mod in m.split():
                todo.append(os.path.join(COQ, 'theories', mod + '.v'))
        for m in re.findall(r'From UVG Require (?:Import|Export) ([^.]*)\.', src):
            for mod in m.split():
                todo.append(os.path.join(COQ, 'gen', mod + '.v'))
    return total


def setup():
    t0 = time.time()
    os.makedirs(CACHE, exist_ok=True)
    ok, log = build_harness()
    print('harness build:', 'ok' if ok else 'FAILED')
    if not ok:
        print(log[-3000:])
        return 2
    ok, log = build_translators()
    print('translators:', 'ok' if ok else 'FAILED')
    if not ok:
        print(log[-3000:])
    ok, log = build_coq()
    print('coq build:', 'ok' if ok else 'FAILED')
    if not ok:
        print(log[-3000:])
        return 2
    ok, log = build_driver()
    print('driver build:', 'ok' if ok else 'FAILED')
    if not ok:
        print(log[-3000:])
        return 2
    print('setup done in %.0fs' % (time.time() - t0))
    return 0


def is_sched(ops):
    """a scheduled history (thread lines + order line): trace indices are not line indices, keep it whole"""
    return any(o.startswith(('t0 ', 't1 ', 'order ', 'stall ')) for o in ops)


def write_replay(pid, tag, header, name, ops, note):
    os.makedirs(REPLAY, exist_ok=True)
    hid = hashlib.sha1(('\n'.join(ops) + note).encode()).hexdigest()[:10]
    path = os.path.join(REPLAY, '%s-%s-%s.ops' % (pid, tag, hid))
    with open(path, 'w') as f:
        f.write('# %s\n' % note.replace('\n', '\n# '))
        f.write('\n'.join(header) + '\n')
        f.write('history %s\n' % name)
        f.write('\n'.join(ops) + '\n')
    return path


def shrink(pid, ctx, header, name, ops, workdir, pred):
    """delta-debug the op list: smallest prefix/sub-list on which pred(ops) still holds"""
    best = list(ops)
    # prefix first
    changed = True
    budget = 40
    while changed and budget > 0:
        changed = False
        for i in range(1, len(best)):   # never drop op 0 (init)
            cand = best[:i] + best[i + 1:]
            budget -= 1
            if budget <= 0:
                break
            try:
                if pred(cand):
                    best = cand
                    changed = True
                    break
            except Exception:
                pass
    return best


def main():
    ap = argparse.ArgumentParser()
    ap.add_argument('pid', nargs='?')
    ap.add_argument('--tier', default=os.environ.get('VERIF_TIER', 'quick'))
    ap.add_argument('--replay')
    ap.add_argument('--setup', action='store_true')
    ap.add_argument('--no-build', action='store_true')
    a = ap.parse_args()
    if a.setup:
        sys.exit(setup())
    pid = a.pid
    tier = a.tier if a.tier in ('quick', 'thorough') else 'quick'
    seed = int(os.environ.get('VERIF_SEED', '1'))
    t0 = time.time()
    spec = props.PROPS[pid]
    if a.replay:
        # a replay is judged against /repo's current working tree too: rebuild the harness (and the model driver if the
        # extraction is in place) before playing the file
        okh, logh = build_harness()
        if not okh:
            print('INFRA: harness/library does not build:\n' + logh[-3000:])
            sys.exit(2)
        if os.path.exists(os.path.join(COQ, 'extraction', 'Extract.vo')):
            with BuildLock():
                build_driver()
        sys.exit(props.replay(pid, a.replay))

    violations = []      # (message, replay path)
    notes = []
    # ---- 1. builds (all from /repo's current working tree)
    okh, logh = build_harness()
    if not okh:
        print('INFRA: harness/library does not build:\n' + logh[-3000:])
        sys.exit(2)
    with BuildLock():
        okt, logt = build_translators()
        okc, logc = build_coq()
        if not okc:
            # a second pass separates a transient failure from a file that really does not compile
            okc, logc = build_coq()
    # the build keeps going past failures (make -k): a broken table theorem of one property must not
    # take the other properties' proofs down with it; each property is judged on its own props file
    ext_vo = os.path.join(COQ, 'extraction', 'Extract.vo')
    ext_ok = os.path.exists(ext_vo) and os.path.getmtime(ext_vo) >= os.path.getmtime(os.path.join(COQ, 'theories', 'Model.v'))
    with BuildLock():
        okd, logd = build_driver() if ext_ok else (False, 'extraction not built')
    proof_problems = []
    if not okt:
        # each generated table serves its own properties; a table that could not be regenerated is stale
        m = re.search(r'translate\.py: FAILED (.*)', logt)
        bad_tables = m.group(1).split() if m else ['AbiTables', 'PanicSites', 'Consts', 'LockSites', 'WireFormats']
        serves = {'AbiTables': ('C15', 'C18'), 'PanicSites': ('C13',), 'Consts': ('C20', 'C17'), 'LockSites': ('C12',), 'WireFormats': ('C13',)}
        if any(pid in serves[t] for t in bad_tables):
            proof_problems.append('translator failed: ' + logt[-1200:])
    hyg = hygiene()
    if hyg:
        proof_problems.append('forbidden constructs: ' + '; '.join(hyg[:10]))
    n_thm, n_ok, tp, names = check_theorems(pid)
    if tp and not okc:
        m = re.search(r'File "([^"]+)", line (\d+)', logc)
        tp = ['coq build failed%s' % (' at %s:%s' % m.groups() if m else '')] + tp
    if tp and pid == 'C12':
        # name the call sites the static lock-discipline theorem rejects
        q = os.path.join(CACHE, 'lockq_%d.v' % os.getpid())
        open(q, 'w').write('From Coq Require Import List String.\nFrom UV Require Import LockOrder.\nFrom UVG Require Import LockSites.\n'
                           'Eval vm_compute in List.filter (fun s => under_cfg s && (is_net (cs_callee s) || mem (cs_callee s) (reach gen_calls gen_fns is_net) '
                           '|| mem (cs_callee s) lockers || mem (cs_callee s) (reach gen_calls gen_fns (fun c => mem c lockers)) '
                           '|| String.eqb upd_locker (cs_callee s) || mem (cs_callee s) (reach gen_calls gen_fns (String.eqb upd_locker))))%bool gen_calls.\n')
        qp = sh('timeout 300 coqc -q -Q theories UV -Q gen UVG %s 2>&1' % q, cwd=COQ, timeout=400)
        tp.append('call sites inside a config-lock closure that reach the network or a lock (caller, callee, cfg, upd, spawn): ' + ' '.join(qp.stdout.split())[:1500])
        for ext in ('.v', '.vo', '.glob', '.vok', '.vos'):
            try:
                os.remove(q[:-2] + ext)
            except OSError:
                pass
    proof_problems += tp
    cone = count_cone(pid)
    coqchk_note = 'not run (quick tier)'
    if tier == 'thorough' and not tp:
        # independent re-check of the compiled closure of props/<pid>.vo, with its axiom report
        cp = sh('timeout 1500 coqchk -silent -o -Q theories UV -Q props UVP -Q gen UVG UVP.%s 2>&1' % pid, cwd=COQ, timeout=1600)
        m = re.search(r'\* Axioms:\s*(.*?)\n\s*\n', cp.stdout + '\n\n', flags=re.S)
        ax = m.group(1).strip() if m else '?'
        if cp.returncode != 0:
            proof_problems.append('coqchk rejects the closure of props/%s.vo: %s' % (pid, cp.stdout[-600:]))
        elif ax != '<none>':
            proof_problems.append('coqchk reports axioms under props/%s.vo: %s' % (pid, ax[:400]))
        coqchk_note = 'coqchk -o UVP.%s: rc=%d, axioms: %s' % (pid, cp.returncode, ax[:200])
    failed_files = sorted(set(re.findall(r'File "\./([^"]+\.v)"', logc)) |
                          set(x + '.v' for x in re.findall(r'\*\*\* \[[^\]]*?:\s*(\S+)\.vo\] Error', logc))) if not okc else []
    cone_files = cone_members(pid)
    for ff in failed_files:
        if ff in cone_files and not tp:
            proof_problems.append('%s, which props/%s.v depends on, no longer compiles' % (ff, pid))

    # ---- 2. correspondence + monitors
    res = spec['run'](pid, tier, seed, model_ok=okd)
    # res: dict(evaluations, distinct, samples, divergences[(hist,idx,m,i,ops,header)], monitor_fail[(hist,idx,msg,ops,header)],
    #           rule, dist, extras)
    fixed, findings = load_known()
    known_hits = []
    for (h, idx, msg, ops, header) in res['monitor_fail']:
        suppressed = None
        for fl in findings:
            m = re.match(r'finding: property=(\S+) class=(\S+)', fl)
            if m and m.group(1) == pid and m.group(2) in msg:
                suppressed = fl
        if suppressed:
            known_hits.append((suppressed, h))
            continue
        path = write_replay(pid, 'viol', header, h, ops if is_sched(ops) else ops[:idx + 1], 'property %s fails on the implementation: %s (op index %d)' % (pid, msg, idx))
        violations.append((msg, path, ''))
    seen_known = set()
    for fl, h in known_hits:
        if fl not in seen_known:
            seen_known.add(fl)
            print('KNOWN-FINDING: property=%s %s' % (pid, fl.split(' ', 3)[-1]))
    if not violations:
        for (h, idx, ml, il, ops, header) in res['divergences'][:5]:
            note = 'correspondence broken (model and implementation differ) for %s at op %d\nmodel: %s\nimpl:  %s\ntheorems at stake: %s' % (
                pid, idx, ml, il, ', '.join(names))
            path = write_replay(pid, 'corr', header, h, ops[:idx + 1] if idx >= 0 and not is_sched(ops) else ops, note)
            violations.append(('model/implementation divergence at %s op %d' % (h, idx), path, ' no-failing-input-found'))
        if proof_problems:
            os.makedirs(REPLAY, exist_ok=True)
            path = os.path.join(REPLAY, '%s-proof.txt' % pid)
            open(path, 'w').write('proof obligations of %s no longer check:\n%s\ntheorems: %s\n' % (pid, '\n'.join(proof_problems), ', '.join(names)))
            violations.append(('proof obligation broken: ' + proof_problems[0][:200], path, ' no-failing-input-found'))
        for x in res.get('extras', [])[:3]:
            os.makedirs(REPLAY, exist_ok=True)
            path = os.path.join(REPLAY, '%s-extra.txt' % pid)
            open(path, 'w').write('\n'.join(res['extras']))
            violations.append(('harness anomaly: ' + x[:200], path, ' no-failing-input-found'))
            break

    # ---- 3. evidence
    wall = time.time() - t0
    ev = {
        'property_id': pid, 'tier': tier, 'seed': seed, 'level': 'proof',
        'coverage': {
            'obligations': max(1, n_thm + cone),
            'discharged': (n_thm + cone) if not proof_problems else 0,
            'build_failures_outside_cone': [f for f in failed_files if f not in cone_files],
            'property_theorems': names,
            'checker_cmd': 'make -C coq (coqc 8.16.1, full .vo build) ; coqc props/%s.v with Print Assumptions ; grep for Admitted/Axiom/...' % pid,
            'trusted_base': spec.get('trusted', []) + [
                'Coq 8.16.1 kernel incl. vm_compute (no native_compute)',
                'axioms: none (every property theorem is Closed under the global context)',
                'hand-written Gallina model theories/*.v, tied to /repo by the correspondence run below',
                'extraction (ExtrOcamlBasic only) + extraction/driver.ml (parser, printer, SHA-256, oracle tables)',
                'harness/ (uvh), tools/*.py generators, differ and monitors'],
            'evaluations': res['evaluations'],
            'distinct_nontrivial': res['distinct'],
            'rule': res['rule'],
            'samples': res['samples'][:6],
            'traces_validated_against_impl': res.get('traces', 0),
            'op_distribution': res.get('dist', {}),
            'divergences': len(res['divergences']),
            'monitor_failures': len(res['monitor_fail']),
            'proof_problems': proof_problems,
            'coqchk': coqchk_note,
        },
        'assumptions': spec.get('assumptions', []),
        'wall_s': round(wall, 1),
        'violations': len(violations),
    }
    os.makedirs(EVID, exist_ok=True)
    json.dump(ev, open(os.path.join(EVID, pid + '.json'), 'w'), indent=1)
    for msg, path, suffix in violations[:10]:
        print('# ' + msg)
        print('VIOLATION property=%s replay=%s%s' % (pid, path, suffix))
    print('%s %s: theorems=%d cone=%d evaluations=%d distinct=%d divergences=%d monitor_fail=%d wall=%.0fs' % (
        pid, tier, n_thm, cone, res['evaluations'], res['distinct'], len(res['divergences']), len(res['monitor_fail']), wall))
    sys.exit(1 if violations else 0)


if __name__ == '__main__':
    main()
