import json,jsonschema,sys,glob
jsonschema.validate(json.load(open('MANIFEST.json')), json.load(open('/root/.vp/MANIFEST.schema.json'))); print('manifest ok')
for f in sorted(glob.glob('evidence/C*.json')):
    jsonschema.validate(json.load(open(f)), json.load(open('/root/.vp/EVIDENCE.schema.json'))); print('evidence ok',f)
