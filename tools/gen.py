# gen.py — history generators (exhaustive small scope + guided random walks).
import itertools, random
from uvlib import *


def parse_op(line):
    """op line -> dict(kind=..., ...) for monitors"""
    t = line.split()
    assert t[0] == 'op'
    k = t[1]
    d = dict(kind=k, raw=line)
    if k == 'init':
        d['rel'] = unhx(t[2])
        d['bad'] = t[3] == 'bad'
        d['paths'] = t[4] == 't'
        if not d['bad']:
            f = t[3].split(':')
            d['app'] = unhx(f[1])
            d['chan'] = None if f[2] == '-' else unhx(f[2])
            d['key'] = None if f[3] == '-' else unhx(f[3])
            d['auto'] = None if f[4] == '-' else f[4] == 't'
    elif k in ('check', 'update'):
        d['ch'] = None if t[2] == '-' else unhx(t[2])
        if t[3] == 'err':
            d['resp'] = None
            rest = t[4:]
        else:
            val = lambda x: x.split('=', 1)[1]
            r = dict(avail=val(t[3]) == 't', patch=None, rb=None)
            pv = val(t[4])
            if pv != '-':
                f = pv.split(':')
                r['patch'] = dict(num=int(f[0]), hash=unhx(f[1]), url=unhx(f[2]), sig=None if f[3] == '-' else unhx(f[3]))
            rv = val(t[5])
            if rv != '-':
                r['rb'] = [] if rv == 'e' else [int(x) for x in rv.split(';')]
            d['resp'] = r
            rest = t[6:]
        if k == 'update':
            d['dl'] = rest[0]
    elif k == 'dmg':
        d['what'] = t[2]
        d['args'] = t[3:]
    return d


class Alphabet:
    """Named concrete ops over patch numbers 1,2,3 (+5 never installed)."""

    def __init__(self, ctx, key=None, chan=None, rel=REL1):
        self.ctx = ctx
        self.key = key
        signed = key is not None
        self.init = op_init(rel=rel, key=key, chan=chan)
        self.ops = {
            'q': ['op nextnum'], 'p': ['op nextpath'], 'c': ['op curnum'],
            's': ['op start'], 'ok': ['op success'], 'fail': ['op failure'],
            'R': ['op kill', self.init],
            'i2': [op_init(rel=REL2, app='other', chan='zzz')],          # second init, other params
            'i2bad': [op_init(bad=True)],
            'RV': ['op kill', op_init(rel=REL2, key=key, chan=chan)],    # release change
            'RV0': ['op kill', op_init(rel='0.9', key=key, chan=chan)],  # downgrade
            'auto': ['op auto'],
            'ckerr': ['op check - err'],
            'uperr': ['op update - err err'],
            'upnone': [op_update_nopatch()],
        }
        for n in (1, 2, 3):
            self.ops['u%d' % n] = [op_update(ctx, n, signed=signed)]
            self.ops['ck%d' % n] = [op_check(ctx, n, signed=signed)]
            self.ops['udl%d' % n] = [op_update(ctx, n, signed=signed, dl='err')]
            self.ops['uh%d' % n] = [op_update(ctx, n, signed=signed, hash='00' * 32)]
            self.ops['uj%d' % n] = [op_update(ctx, n, signed=signed, dl='@junkdl')]
            self.ops['uns%d' % n] = [op_update(ctx, n, signed=False)]     # unsigned offer
            # the same patch under another spelling of its metadata: the digest in upper-case hex (hex::decode takes both;
            # the record keeps the server's spelling, so two records of one number and one content can differ as text)
            self.ops['uU%d' % n] = [op_update(ctx, n, signed=signed, hash=ctx.p[str(n)]['hash'].upper())]
            self.ops['dF%d' % n] = ['op dmg delfile %d' % n]
            self.ops['dD%d' % n] = ['op dmg deldir %d' % n]
            self.ops['dT%d' % n] = ['op dmg setart %d @trunc%d' % (n, n)]
            self.ops['dE%d' % n] = ['op dmg setart %d @ext%d' % (n, n)]
            self.ops['dS%d' % n] = ['op dmg setart %d @same%d' % (n, n)]
        self.ops['u1b'] = [op_update(ctx, '1b', signed=signed)]
        for n in (1, 2, 3, 5):
            self.ops['rb%d' % n] = [op_update_nopatch(rb=[n])]
            self.ops['crb%d' % n] = [op_check(ctx, None, rb=[n])]
        self.ops['rb12'] = [op_update_nopatch(rb=[1, 2])]
        self.ops['rb221'] = [op_update_nopatch(rb=[2, 2, 1])]
        self.ops['rbe'] = [op_update_nopatch(rb=[])]
        self.ops['u3rb2'] = [op_update(ctx, 3, signed=signed, rb=[2])]
        self.ops['u2rb2'] = [op_update(ctx, 2, signed=signed, rb=[2])]
        self.ops['dPg'] = ['op dmg pj garbage']
        self.ops['dPm'] = ['op dmg pj missing']
        self.ops['dSg'] = ['op dmg sj garbage']
        self.ops['dSm'] = ['op dmg sj missing']
        self.ops['dJ'] = ['op dmg junk']
        self.ops['dJh'] = ['op dmg junkh']

    def seq(self, labels):
        out = []
        for l in labels:
            out += self.ops[l]
        return out


def exhaustive(alpha, labels, depth, prefixes=((),), name='x', stale=False):
    """all sequences over `labels` of length 1..depth after each prefix; each history starts with init"""
    hs = []
    k = 0
    for pi, pre in enumerate(prefixes):
        for dpt in range(1, depth + 1):
            for combo in itertools.product(labels, repeat=dpt):
                ops = [alpha.init] + alpha.seq(pre) + alpha.seq(combo)
                hs.append(('%s%d_%s' % (name, k, '.'.join(list(pre) + ['|'] + list(combo)).replace('|.', '-')), ops))
                k += 1
    return hs


def exhaustive_exact(alpha, labels, depth, prefixes=((),), name='x', suffix=()):
    hs = []
    k = 0
    for pre in prefixes:
        for combo in itertools.product(labels, repeat=depth):
            ops = [alpha.init] + alpha.seq(pre) + alpha.seq(combo) + alpha.seq(suffix)
            hs.append(('%s%d_%s' % (name, k, '.'.join(list(pre) + ['-'] + list(combo))), ops))
            k += 1
    return hs


def random_walks(alpha, labels, weights, count, length, rnd, name='r', conformant=True, stale=False):
    """guided random walks; keeps the engine protocol mostly conformant"""
    hs = []
    for i in range(count):
        ops = [alpha.init]
        labs = []
        started = False
        reported = False
        nops = 1
        for _ in range(rnd.randrange(length[0], length[1] + 1)):
            l = rnd.choices(labels, weights)[0]
            if conformant:
                if l == 's' and started:
                    l = 'q'
                if l in ('ok', 'fail') and (not started or reported):
                    l = 'p'
                if l == 's':
                    started = True
                if l in ('ok', 'fail'):
                    reported = True
                if l in ('R', 'RV', 'RV0'):
                    started = False
                    reported = False
            if stale and rnd.random() < 0.05 and nops > 2:
                which = rnd.choice(['pj', 'sj'])
                ops.append('op dmg %s %d' % (which, rnd.randrange(1, nops)))
                labs.append('st')
                nops += 1
            ops += alpha.ops[l]
            nops += len(alpha.ops[l])
            labs.append(l)
        hs.append(('%s%d_%s' % (name, i, '.'.join(labs)), ops))
    return hs


# prefixes that reach the interesting lifecycle states
PFX = {
    'empty': (),
    'pend1': ('u1',),                                 # NB=1
    'boot1': ('u1', 's'),                             # CB=1
    'good1': ('u1', 's', 'ok'),                       # LB=NB=1
    'good1pend2': ('u1', 's', 'ok', 'u2'),            # LB=1 NB=2
    'good1boot2': ('u1', 's', 'ok', 'u2', 'R', 's'),  # LB=1 NB=CB=2
    'good2': ('u2', 's', 'ok'),
    'good2pend1': ('u2', 's', 'ok', 'u1'),            # lower-numbered pending
    'good1bad2': ('u1', 's', 'ok', 'u2', 'R', 's', 'fail'),
    'boot2pend3': ('u2', 's', 'u3'),
    'good1boot2pend3': ('u1', 's', 'ok', 'u2', 'R', 's', 'u3'),
}
