# uvlib.py — shared machinery: builds, content context, op syntax, runners, trace parsing, diffing.
import hashlib, json, os, random, subprocess, sys, time, base64, shutil, re
from concurrent.futures import ThreadPoolExecutor

ROOT = os.path.dirname(os.path.dirname(os.path.abspath(__file__)))
CACHE = os.path.join(ROOT, '.cache')
UVH = os.environ.get('UV_UVH') or os.path.join(CACHE, 'harness-target', 'debug', 'uvh')   # override: coverage-instrumented build (tools/coverage.sh)
DRIVER = os.path.join(ROOT, 'coq', 'extraction', 'driver')
COQ = os.path.join(ROOT, 'coq')
REPO = '/repo'
NPROC = 16
os.environ.setdefault('UV_ARCH', {'x86_64': 'x86_64', 'aarch64': 'aarch64', 'arm64': 'aarch64'}.get(__import__('platform').machine(), '?'))   # what the harness' arch() answers
ENVV = dict(os.environ, CARGO_NET_OFFLINE='true', CARGO_TARGET_DIR=os.path.join(CACHE, 'harness-target'))


def sh(cmd, timeout=1800, cwd=None, env=None, check=False):
    p = subprocess.run(cmd, cwd=cwd, env=env or ENVV, timeout=timeout, capture_output=True, text=True,
                       shell=isinstance(cmd, str))
    if check and p.returncode != 0:
        raise RuntimeError('command failed: %s\n%s\n%s' % (cmd, p.stdout[-3000:], p.stderr[-3000:]))
    return p


# ---------------------------------------------------------------- builds
class InfraError(Exception):
    pass


def build_translators():
    """Regenerate coq/gen/*.v from the current /repo sources."""
    p = sh([sys.executable, os.path.join(ROOT, 'tools', 'translate.py')], timeout=300)
    return p.returncode == 0, (p.stdout + p.stderr)


class BuildLock:
    """serialise the coq / translator builds of concurrently running checks (one .vo tree)"""
    def __enter__(self):
        import fcntl
        os.makedirs(CACHE, exist_ok=True)
        self.f = open(os.path.join(CACHE, 'build.lock'), 'w')
        fcntl.flock(self.f, fcntl.LOCK_EX)
        return self

    def __exit__(self, *a):
        import fcntl
        fcntl.flock(self.f, fcntl.LOCK_UN)
        self.f.close()


def build_coq():
    """Full .vo build through coq_makefile; returns (ok, log)."""
    if not os.path.exists(os.path.join(COQ, 'Makefile')) or \
            os.path.getmtime(os.path.join(COQ, '_CoqProject')) > os.path.getmtime(os.path.join(COQ, 'Makefile')):
        sh('coq_makefile -f _CoqProject -o Makefile', cwd=COQ, check=True)
    p = sh('timeout 1500 make -k -j%d 2>&1' % NPROC, cwd=COQ, timeout=1600)
    return p.returncode == 0, p.stdout


def build_driver():
    ext = os.path.join(COQ, 'extraction')
    src = [os.path.join(ext, f) for f in ('model.mli', 'model.ml', 'driver.ml')]
    if os.path.exists(DRIVER) and all(os.path.getmtime(DRIVER) >= os.path.getmtime(s) for s in src):
        return True, ''
    p = sh('ocamlfind ocamlopt -w -a model.mli model.ml driver.ml -o driver 2>&1', cwd=ext, timeout=600)
    return p.returncode == 0, p.stdout


def build_harness():
    h = os.path.join(ROOT, 'harness')
    try:
        shutil.copyfile(os.path.join(REPO, 'Cargo.lock'), os.path.join(h, 'Cargo.lock.repo'))
    except OSError:
        pass
    p = sh('timeout 1500 cargo build --offline 2>&1', cwd=h, timeout=1600)
    return p.returncode == 0, p.stdout


# ---------------------------------------------------------------- strings / tokens
def hx(s):
    if s is None:
        return '-'
    b = s.encode('utf-8') if isinstance(s, str) else s
    return b.hex() if b else 'e'


def unhx(t):
    return '' if t == 'e' else bytes.fromhex(t).decode('utf-8', 'replace')


def fnv(b):
    h = 0x811c9dc5
    for x in b:
        h = ((h ^ x) * 0x01000193) & 0xffffffff
    return h


def art_tag(b):
    return 'F%d.%08x' % (len(b), fnv(b))


# ---------------------------------------------------------------- content context
KEY1 = open(os.path.join(ROOT, 'keys', 'pub.b64')).read().strip()
KEY2 = open(os.path.join(ROOT, 'keys', 'pub2.b64')).read().strip()


def sign(msg, which=1):
    pem = os.path.join(ROOT, 'keys', 'priv.pem' if which == 1 else 'priv2.pem')
    p = subprocess.run(['openssl', 'dgst', '-sha256', '-sign', pem], input=msg.encode(), capture_output=True)
    return base64.b64encode(p.stdout).decode()


class Ctx:
    """Blobs, real patches, hashes and signatures used by histories."""

    def __init__(self, seed=0, tmp=None, nums=(1, 2, 3, 5), base_len=300):
        rnd = random.Random(seed)
        self.tmp = tmp or os.path.join(CACHE, 'ctx-%d-%d' % (os.getpid(), seed))
        os.makedirs(self.tmp, exist_ok=True)
        self.blobs = {}
        self.infl = {}
        self.zdec = []
        self.sigs = []
        self.base = bytes(rnd.randrange(256) for _ in range(base_len))
        self.blobs['base'] = self.base
        self.p = {}
        for n in nums:
            self.add_patch(str(n), rnd, extra=n)
        # a second content for number 1 (same number, other bytes, other size)
        self.add_patch('1b', rnd, extra=17)
        # a patch whose new binary is EMPTY (0 bytes: a recorded size of 0, the size "no file" would also have); offered as number 3
        self.add_patch('z', random.Random(seed + 1), content=b'')
        # damage payloads
        for n in ('1', '2', '3'):
            new = self.p[n]['new']
            self.blobs['trunc' + n] = new[:len(new) // 2]
            self.blobs['ext' + n] = new + b'XX'
            same = bytearray(new)
            same[len(same) // 3] ^= 0x5a
            self.blobs['same' + n] = bytes(same)
        self.blobs['empty'] = b''
        self.blobs['junkdl'] = b'not a zstd stream at all'
        self.zdec.append(('junkdl', 'empty'))
        self.infl['junkdl'] = None
        self.infl['empty'] = None

    def add_patch(self, name, rnd, extra=0, content=None):
        new = bytearray(self.base)
        pos = rnd.randrange(0, len(new) - 20)
        ins = bytes(rnd.randrange(256) for _ in range(5 + extra))
        new[pos:pos + 3] = ins
        new = bytes(new) if content is None else content
        bp = os.path.join(self.tmp, 'base.bin')
        npth = os.path.join(self.tmp, 'new.bin')
        open(bp, 'wb').write(self.base)
        open(npth, 'wb').write(new)
        subprocess.run([UVH, 'mkpatch', bp, npth, os.path.join(self.tmp, 'p')], check=True, capture_output=True)
        dl = open(os.path.join(self.tmp, 'p.patch'), 'rb').read()
        raw = open(os.path.join(self.tmp, 'p.raw'), 'rb').read()
        h = hashlib.sha256(new).hexdigest()
        sg = sign(h)
        self.blobs['new' + name] = new
        self.blobs['dl' + name] = dl
        self.blobs['raw' + name] = raw
        self.zdec.append(('dl' + name, 'raw' + name))
        self.sigs.append((KEY1, h, sg))
        self.p[name] = dict(new=new, dl='dl' + name, hash=h, sig=sg, tag=art_tag(new))
        self.infl['dl' + name] = new

    def add_blob(self, name, data):
        self.blobs[name] = data

    def add_zdec_real(self, dlname):
        """register zdec(dl) computed by the zstd library (partial output on failure)"""
        src = os.path.join(self.tmp, 'z.in')
        dst = os.path.join(self.tmp, 'z.out')
        open(src, 'wb').write(self.blobs[dlname])
        subprocess.run([UVH, 'zdec', src, dst], check=True, capture_output=True)
        self.blobs['zd_' + dlname] = open(dst, 'rb').read()
        self.zdec.append((dlname, 'zd_' + dlname))
        self.infl[dlname] = self.real_inflate(dst)

    def real_inflate(self, rawpath):
        """what the real bipatch reader makes of an uncompressed stream applied to the base (None = error)"""
        bp = os.path.join(self.tmp, 'base.bin')
        open(bp, 'wb').write(self.base)
        outp = os.path.join(self.tmp, 'infl.out')
        r = subprocess.run([UVH, 'inflate', bp, rawpath, outp], capture_output=True, text=True)
        if r.stdout.strip() == 'ok':
            return open(outp, 'rb').read()
        return None

    def header(self):
        out = []
        for k, v in self.blobs.items():
            out.append('blob %s %s' % (k, v.hex() if v else 'e'))
        for a, b in self.zdec:
            out.append('zdec @%s @%s' % (a, b))
        for k, m, s in self.sigs:
            out.append('sig %s %s %s' % (hx(k), hx(m), hx(s)))
        out.append('base @base')
        out.append('dls on')
        return out

    def cleanup(self):
        shutil.rmtree(self.tmp, ignore_errors=True)


# ---------------------------------------------------------------- op constructors
APP = 'app-1'
REL1 = '1.0.0'
REL2 = '2.0.0'


def op_init(rel=REL1, app=APP, chan=None, key=None, auto=None, paths=True, bad=False):
    y = 'bad' if bad else 'ok:%s:%s:%s:%s' % (hx(app), hx(chan), hx(key), '-' if auto is None else ('t' if auto else 'f'))
    return 'op init %s %s %s' % (hx(rel), y, 't' if paths else 'f')


def resp(avail=True, patch=None, rb=None):
    """patch = (num, hash, url, sig)"""
    p = '-' if patch is None else '%s:%s:%s:%s' % (patch[0], hx(patch[1]), hx(patch[2]), hx(patch[3]))
    if rb is None:
        r = '-'
    elif len(rb) == 0:
        r = 'e'
    else:
        r = ';'.join(str(x) for x in rb)
    return 'a=%s p=%s rb=%s' % ('t' if avail else 'f', p, r)


def url_of(n):
    return 'http://dl/%s' % n


def offer(ctx, name, num=None, signed=False, hash=None, sig='auto'):
    pp = ctx.p[str(name)]
    num = num if num is not None else int(str(name).rstrip('b'))
    s = (pp['sig'] if signed else None) if sig == 'auto' else sig
    return (num, hash if hash is not None else pp['hash'], url_of(num), s)


def op_update(ctx, name, ch=None, rb=None, signed=False, dl=None, avail=True, **kw):
    """update offered patch `name` with its genuine download (or blob `dl`, or 'err')"""
    pt = offer(ctx, name, signed=signed, **kw)
    d = dl if dl is not None else '@' + ctx.p[str(name)]['dl']
    return 'op update %s %s %s' % (hx(ch), resp(avail, pt, rb), d)


def op_update_nopatch(ch=None, rb=None, avail=False):
    return 'op update %s %s err' % (hx(ch), resp(avail, None, rb))


def op_check(ctx, name=None, ch=None, rb=None, signed=False):
    pt = offer(ctx, name, signed=signed) if name is not None else None
    return 'op check %s %s' % (hx(ch), resp(True, pt, rb))


# ---------------------------------------------------------------- running
def write_opfile(path, header, histories):
    with open(path, 'w') as f:
        f.write('\n'.join(header) + '\n')
        for name, ops in histories:
            f.write('history %s\n' % name)
            f.write('\n'.join(ops) + '\n')


RAW_FILES = []


def parse_out(text):
    res = {}
    cur = None
    extra = []
    for line in text.splitlines():
        if line.startswith('history '):
            cur = line.split()[1]
            res[cur] = []
        elif line.startswith('out='):
            if cur is not None:
                res[cur].append(line)
        elif line.startswith('raw:'):
            RAW_FILES.append(line)      # `rawfiles on`: state-file bytes after a call (collected by the caller)
        elif line.strip():
            # (a library thread that never ends is reported where it was given up on: name the history)
            extra.append(line + (' hist=%s' % cur if line.startswith('THREAD-STUCK') else ''))
    return res, extra


SHIM = os.path.join(CACHE, 'shim.so')


def build_shim():
    src = os.path.join(ROOT, 'shim', 'shim.c')
    if not os.path.exists(SHIM) or os.path.getmtime(SHIM) < os.path.getmtime(src):
        p = sh(['gcc', '-shared', '-fPIC', '-O1', '-o', SHIM, src, '-ldl'])
        if p.returncode != 0:
            raise InfraError('shim build failed: ' + p.stderr)


def run_both(header, histories, workdir, shards=NPROC, impl_only=False, model_only=False, lockcheck=False):
    """Runs model driver and real harness on the histories; returns (model, impl, extras).
    lockcheck: the implementation runs with the interposer preloaded, and every mutation of the persisted state made
    by a library thread that does not hold the config lock comes back as an 'impl: UNLOCKED-WRITE hist=.. op=.. ..' extra."""
    os.makedirs(workdir, exist_ok=True)
    ienv = None
    if lockcheck:
        build_shim()
        ienv = dict(os.environ, LD_PRELOAD=SHIM)
    shards = max(1, min(shards, len(histories)))
    chunks = [histories[i::shards] for i in range(shards)]
    files = []
    for i, ch in enumerate(chunks):
        p = os.path.join(workdir, 's%d.ops' % i)
        write_opfile(p, header, ch)
        files.append(p)

    def run_model(p):
        return subprocess.run([DRIVER, p], capture_output=True, text=True, timeout=3000)

    def run_impl(ip):
        i, p = ip
        return subprocess.run([UVH, 'replay', p, os.path.join(workdir, 'w%d' % i)], capture_output=True, text=True,
                              timeout=3000, env=ienv)

    model, impl, extras = {}, {}, []
    with ThreadPoolExecutor(max_workers=NPROC) as ex:
        mres = [] if impl_only else list(ex.map(run_model, files))
        ires = [] if model_only else list(ex.map(run_impl, enumerate(files)))
    for r in mres:
        if r.returncode != 0:
            extras.append('MODEL-CRASH rc=%d %s' % (r.returncode, r.stderr[-500:]))
        m, e = parse_out(r.stdout)
        model.update(m)
        extras += ['model: ' + x for x in e]
    for r in ires:
        if r.returncode != 0:
            extras.append('IMPL-CRASH rc=%d %s' % (r.returncode, r.stderr[-800:]))
        m, e = parse_out(r.stdout)
        impl.update(m)
        extras += ['impl: ' + x for x in e]
    for i in range(len(chunks)):
        shutil.rmtree(os.path.join(workdir, 'w%d' % i), ignore_errors=True)
    return model, impl, extras


# ---------------------------------------------------------------- trace parsing
def parse_meta(t):
    if t == '-':
        return None
    f = t.split('.')
    return dict(num=int(f[0]), size=int(f[1]), hash=unhx(f[2]), sig=None if f[3] == '-' else unhx(f[3]))


def parse_line(line):
    d = {}
    for tok in line.split(' '):
        k, _, v = tok.partition('=')
        d[k] = v
    r = dict(out=d['out'], raw=line, junk=d.get('junk') == '1')
    sj = d['sj']
    if sj in ('M', 'G'):
        r['sj'] = sj
    else:
        rel, _, evs = sj.partition('/')
        evs = evs.strip('[]')
        r['sj'] = dict(rel=unhx(rel), evq=[e for e in evs.split(',') if e])
    pj = d['pj']
    if pj in ('M', 'G'):
        r['pj'] = pj
    else:
        f = pj.split('/')
        bad = f[3].strip('[]')
        r['pj'] = dict(lb=parse_meta(f[0]), nb=parse_meta(f[1]), cb=parse_meta(f[2]),
                       bad=[int(x) for x in bad.split(',') if x])
    arts = {}
    for it in d['arts'].split(','):
        if it:
            n, _, v = it.partition(':')
            arts[int(n)] = v
    r['arts'] = arts
    r['net'] = [x for x in d['net'].split(';') if x]
    r['dls'] = d.get('dls')          # download directory listing (None when the stream does not print it)
    return r


def pstate(st):
    """effective patch state as the library loads it"""
    if isinstance(st['pj'], dict):
        return st['pj']
    return dict(lb=None, nb=None, cb=None, bad=[])


def num(m):
    return m['num'] if m else None


def norm_dls(x, y):
    """x = model line, y = implementation line.  The content of `<n>.full` after a failed inflate is not
    modelled (the model prints `<n>f:?`); the implementation's entry for that file then compares equal."""
    if ' dls=' not in x or ':?' not in x or ' dls=' not in y:
        return y
    xm = dict(e.split(':', 1) for e in x.rsplit(' dls=', 1)[1].split(',') if e)
    yh, yd = y.rsplit(' dls=', 1)
    ents = []
    for e in yd.split(','):
        if e:
            k, _, v = e.partition(':')
            ents.append('%s:?' % k if xm.get(k) == '?' else e)
    return yh + ' dls=' + ','.join(ents)


UNREP_SKIPPED = []


def diff_traces(model, impl):
    """first divergence per history: list of (history, index, model_line, impl_line)"""
    out = []
    for h in model:
        a, b = model[h], impl.get(h)
        if any(' UNREP' in l for l in a):
            # the model cannot represent this history (a state.json holding an event of another platform / architecture:
            # the model's event does not carry those fields); implementation-only, counted in UNREP_SKIPPED
            UNREP_SKIPPED.append(h)
            continue
        if b is None:
            out.append((h, -1, '<present>', '<missing history>'))
            continue
        for i in range(max(len(a), len(b))):
            x = a[i] if i < len(a) else '<missing>'
            y = b[i] if i < len(b) else '<missing>'
            y = norm_dls(x, y)
            if x != y:
                out.append((h, i, x, y))
                break
    return out

# ---------------------------------------------------------------- extraction cross-check
def coq_crosscheck(tag, items, limit=400):
    """items = [(kind, name, bytes)], kind in resp / pj / sj / b64.  The extracted model (driver `coqx`) prints, for each input,
    the equation  <reader> <input> = <what the extracted code computed>  as a Coq term; one coqc run then proves every
    equation by vm_compute + reflexivity inside the kernel.  An equation that does not check means that the OCaml code
    the correspondence runs and the Gallina definitions the theorems are about disagree on that input (extraction,
    the OCaml compiler, or the driver's glue).  Returns (number checked, list of problems)."""
    items = items[:limit]
    if not items:
        return 0, []
    work = os.path.join(CACHE, 'xc-%s-%d' % (tag, os.getpid()))
    os.makedirs(work, exist_ok=True)
    try:
        f = os.path.join(work, 'in.ops')
        with open(f, 'w') as fh:
            for i, (kind, name, data) in enumerate(items):
                fh.write('coqx %s x%d %s\n' % (kind, i, data.hex() or 'e'))
        p = subprocess.run([DRIVER, f], capture_output=True, text=True, timeout=600)
        eqs = [l.split(':', 2) for l in p.stdout.splitlines() if l.startswith('coqx:')]
        if p.returncode != 0 or len(eqs) != len(items):
            return 0, ['extraction cross-check: the driver answered %d of %d inputs (rc=%d) %s' % (len(eqs), len(items), p.returncode, p.stderr[-300:])]
        v = os.path.join(work, 'xc_%s.v' % tag)
        with open(v, 'w') as fh:
            fh.write('From UV Require Import Base Codec Model Json JsonText JsonState JsonSj Signing.\nLocal Open Scope N_scope.\n')
            for _, nm, term in eqs:
                fh.write('Example %s : %s.\nProof. vm_compute. reflexivity. Qed.\n' % (nm, term))
        q = sh('timeout 900 coqc -q -Q %s UV %s 2>&1' % (os.path.join(COQ, 'theories'), v), cwd=work, timeout=1000)
        if q.returncode != 0:
            m = re.search(r'line (\d+)', q.stdout)
            which = ''
            if m:
                ln = int(m.group(1))
                idx = max(0, (ln - 3) // 2)
                if idx < len(items):
                    which = ' (input %s %s: %s)' % (items[idx][0], items[idx][1], items[idx][2][:80].hex())
            return 0, ['extraction cross-check: an equation computed by the extracted model does not hold in the kernel%s: %s' % (which, ' '.join(q.stdout.split())[:400])]
        return len(items), []
    finally:
        shutil.rmtree(work, ignore_errors=True)


def canonical_files_check(raw_lines, limit=3000):
    """raw_lines = 'raw:<pj hex|->:<sj hex|->' lines printed by the harness under `rawfiles on`.  Every distinct state
    file the library wrote must be a fixed point of the model's read-then-write (JsonWrite.pj_canonical / sj_canonical:
    the model of serde_json::to_writer_pretty applied to what the model's reader reads gives the same bytes).
    Returns (number of distinct files checked, list of (kind, file hex, expected hex))."""
    pjs, sjs = set(), set()
    for l in raw_lines:
        f = l.strip().split(':')
        if len(f) == 3:
            if f[1] not in ('-',):
                pjs.add(f[1])
            if f[2] not in ('-',):
                sjs.add(f[2])
    items = [('pj', h) for h in sorted(pjs)][:limit] + [('sj', h) for h in sorted(sjs)][:limit]
    if not items:
        return 0, []
    work = os.path.join(CACHE, 'canon-%d' % os.getpid())
    os.makedirs(work, exist_ok=True)
    try:
        f = os.path.join(work, 'in.ops')
        with open(f, 'w') as fh:
            for i, (k, h) in enumerate(items):
                fh.write('canon %s c%d %s\n' % (k, i, h))
        p = subprocess.run([DRIVER, f], capture_output=True, text=True, timeout=900)
        res = dict(l[6:].split('=', 1) for l in p.stdout.splitlines() if l.startswith('canon:'))
        bad = []
        for i, (k, h) in enumerate(items):
            r = res.get('c%d' % i)
            if r is None:
                bad.append((k, h, 'no answer from the model driver: ' + p.stderr[-200:]))
            elif r != 'ok':
                bad.append((k, h, r[5:]))
        return len(items), bad
    finally:
        shutil.rmtree(work, ignore_errors=True)
