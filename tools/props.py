# props.py — per-property registry: streams, monitors, non-triviality rule.
import os, random, collections, shutil
from uvlib import *
import gen, monitors
from gen import PFX


def state_key(st):
    r = st['raw']
    i = r.index(' sj=')
    j = r.index(' net=')
    return r[i:j]


def run_lifecycle(pid, tier, seed, build, mons, trig, rule, model_ok=True, check_divergence=True):
    """build(ctx, tier, rnd) -> list of (name, ops).  Runs model + impl, diffs, runs monitors on impl."""
    rnd = random.Random(seed)
    ctx = Ctx(seed=seed)
    work = os.path.join(CACHE, 'work-%s-%d' % (pid, os.getpid()))
    try:
        hs = build(ctx, tier, rnd)
        header = ctx.header()
        model, impl, extras = run_both(header, hs, work, impl_only=not model_ok)
        opsof = dict(hs)
        divs = []
        if model_ok and check_divergence:
            for (h, idx, ml, il) in diff_traces(model, impl):
                divs.append((h, idx, ml, il, opsof[h], header))
        fails = []
        distinct = set()
        evals = 0
        dist = collections.Counter()
        samples = []
        for name, ops in hs:
            tr = impl.get(name)
            if tr is None:
                continue
            pops = [gen.parse_op(o) for o in ops]
            sts = [parse_line(l) for l in tr]
            if len(sts) != len(pops):
                extras.append('impl trace of %s has %d lines for %d ops' % (name, len(sts), len(pops)))
                continue
            evals += len(pops)
            pre = monitors.EMPTY
            for o, st in zip(pops, sts):
                dist[o['kind']] += 1
                if trig(o, pre, st):
                    distinct.add((state_key(pre) if 'raw' in pre else '', o['raw']))
                pre = st
            for m in mons:
                for (idx, msg) in m(ctx, pops, sts):
                    fails.append((name, idx, msg, ops, header))
            if len(samples) < 6 and len(ops) > 3 and rnd.random() < 0.01:
                samples.append({'history': name, 'ops': ops[:12], 'last_line': tr[-1][:300]})
        if not samples and hs:
            samples.append({'history': hs[0][0], 'ops': hs[0][1][:12]})
        return dict(evaluations=evals, distinct=len(distinct), samples=samples, divergences=divs,
                    monitor_fail=fails, rule=rule, dist=dict(dist), extras=extras, traces=len(impl))
    finally:
        ctx.cleanup()
        shutil.rmtree(work, ignore_errors=True)


def replay(pid, path):
    """re-executes a replay op file on model and implementation and re-judges it"""
    lines = [l for l in open(path).read().splitlines() if l and not l.startswith('#')]
    if path.endswith('.txt'):
        print(open(path).read())
        return 1
    header = [l for l in lines if not l.startswith('op ') and not l.startswith('history ')]
    name = [l for l in lines if l.startswith('history ')][0].split()[1]
    ops = [l for l in lines if l.startswith('op ')]
    work = os.path.join(CACHE, 'replay-%d' % os.getpid())
    model, impl, extras = run_both(header, [(name, ops)], work)
    shutil.rmtree(work, ignore_errors=True)
    print('model:')
    print('\n'.join(model.get(name, [])))
    print('impl:')
    print('\n'.join(impl.get(name, [])))
    d = diff_traces(model, impl)
    rc = 0
    if d:
        print('DIVERGENCE at op %d' % d[0][1])
        rc = 1

    class C:  # minimal ctx for monitors
        pass
    c = C()
    c.blobs = {}
    c.sigs = []
    for l in header:
        t = l.split()
        if t[0] == 'blob':
            c.blobs[t[1]] = b'' if t[2] == 'e' else bytes.fromhex(t[2])
        if t[0] == 'sig':
            c.sigs.append((unhx(t[1]), unhx(t[2]), unhx(t[3])))
    pops = [gen.parse_op(o) for o in ops]
    sts = [parse_line(l) for l in impl.get(name, [])]
    for m in PROPS[pid].get('mons', []):
        for idx, msg in m(c, pops, sts):
            print('MONITOR op %d: %s' % (idx, msg))
            rc = 1
    if rc:
        print('VIOLATION property=%s replay=%s' % (pid, path))
    return rc


# ------------------------------------------------------------------ streams
LIFE = ['q', 's', 'ok', 'fail', 'R', 'u1', 'u2', 'u3', 'rb1', 'rb2', 'rb5', 'ck2', 'c']
DMG1 = ['dF1', 'dD1', 'dT1', 'dE1', 'dS1', 'dPg', 'dPm', 'dSg', 'dSm']


def build_C01(ctx, tier, rnd):
    hs = []
    for key in (None, KEY1):
        al = gen.Alphabet(ctx, key=key)
        tag = 'k' if key else 'n'
        dmg = DMG1 + ['dF2', 'dT2', 'dS2']
        acts = ['q', 'p', 's', 'R', 'ok', 'u2', 'rb5', 'c']
        pf = [PFX[k] for k in ('pend1', 'boot1', 'good1', 'good1pend2', 'good1boot2', 'good2pend1')]
        # one damage op at every position of short histories, then every continuation
        for pre in pf:
            for d in dmg:
                for a in acts:
                    for b in (acts if tier == 'thorough' else ['q', 's', 'R']):
                        hs.append(('c01%s_%d' % (tag, len(hs)), [al.init] + al.seq(pre) + al.seq([d, a, b, 'p'])))
        depth = 3 if tier == 'quick' else 4
        small = ['q', 's', 'ok', 'fail', 'R', 'u1', 'u2', 'dT1', 'dS1', 'dPg'] if tier == 'quick' else \
            ['q', 's', 'ok', 'fail', 'R', 'u1', 'u2', 'dT1', 'dS1', 'dPg', 'dD2', 'rb1']
        hs += gen.exhaustive(al, small, depth, name='c01x' + tag)
        labels = LIFE + DMG1 + ['p', 'dT2', 'dD2', 'dS2', 'u1b']
        weights = [3 if l in ('q', 'p', 's', 'R') else 1 for l in labels]
        hs += gen.random_walks(al, labels, weights, 150 if tier == 'quick' else 3000, (8, 30), rnd, name='c01r' + tag, stale=True)
    return hs


def trig_handout(o, pre, st):
    return monitors.handed_out(o, pre, st) is not None or (o['kind'] in ('nextnum', 'nextpath') and pstate(pre)['nb'] is not None)


def build_C02(ctx, tier, rnd):
    al = gen.Alphabet(ctx)
    hs = []
    # a failure or a kill at every position, then every continuation
    conts = ['q', 's', 'R', 'u1', 'u2', 'ck1', 'ck2', 'ok', 'rb5', 'fail']
    depth = 2 if tier == 'quick' else 3
    for pk in ('boot1', 'good1boot2', 'boot2pend3', 'good1boot2pend3'):
        for ender in (('fail',), ('R',), ('fail', 'R'), ('R', 'R')):
            hs += gen.exhaustive(al, conts, depth, prefixes=(PFX[pk] + ender,), name='c02_%s_' % pk)
    hs += gen.exhaustive(al, ['s', 'fail', 'R', 'u1', 'u2', 'q', 'ok'], 4 if tier == 'quick' else 6, name='c02x')
    labels = LIFE + ['ck1', 'RV']
    weights = [4 if l in ('s', 'fail', 'R', 'u1', 'u2') else 1 for l in labels]
    hs += gen.random_walks(al, labels, weights, 200 if tier == 'quick' else 4000, (10, 40), rnd, name='c02r', conformant=False)
    return hs


def trig_banned_offer(o, pre, st):
    p = pstate(pre)
    if o['kind'] in ('update', 'check') and o.get('resp') and o['resp']['patch']:
        return o['resp']['patch']['num'] in p['bad']
    return o['kind'] in ('failure', 'init') and p['cb'] is not None


def mk(build, mons, trig, rule, **kw):
    d = dict(mons=mons, run=lambda pid, tier, seed, model_ok=True: run_lifecycle(pid, tier, seed, build, mons, trig, rule, model_ok=model_ok))
    d.update(kw)
    return d


PROPS = {
    'C01': mk(build_C01, [monitors.mon_C01], trig_handout,
              'damage op at every position of lifecycle prefixes x continuations, exhaustive small alphabet, guided random walks with stale-file damage; '
              'non-trivial = distinct (abstract disk state, op) pairs where a query/start ran with a selected next boot patch',
              assumptions=['sha256/rsa/base64 are oracles (driver: real SHA-256, signature table from openssl)']),
    'C02': mk(build_C02, [monitors.mon_C02], trig_banned_offer,
              'failure/kill at every position x all continuations, exhaustive {s,fail,R,u1,u2,q,ok}, unconformant random walks; '
              'non-trivial = distinct (state, op) where a banned number is offered or a booting patch is failed/crash-detected'),
}
