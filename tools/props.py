# props.py — per-property registry: streams, monitors, non-triviality rule.
import os, random, collections, shutil, subprocess, re
from uvlib import *
import gen, monitors
from gen import PFX


def state_key(st):
    r = st['raw']
    i = r.index(' sj=')
    j = r.index(' net=')
    return r[i:j]


def run_lifecycle(pid, tier, seed, build, mons, trig, rule, model_ok=True, check_divergence=True):
    """build(ctx, tier, rnd) -> list of (name, ops).  Runs model + impl, diffs, runs monitors on impl."""
    rnd = random.Random(seed)
    ctx = Ctx(seed=seed)
    work = os.path.join(CACHE, 'work-%s-%d' % (pid, os.getpid()))
    try:
        hs = build(ctx, tier, rnd)
        header = ctx.header()
        model, impl, extras = run_both(header, hs, work, impl_only=not model_ok)
        opsof = dict(hs)
        # corpus first-class: minimised witnesses of earlier findings, self-contained files
        corp = run_corpus(pid, work, model_ok)
        extras += corp['extras']
        divs = []
        if model_ok and check_divergence:
            for (h, idx, ml, il) in diff_traces(model, impl):
                divs.append((h, idx, ml, il, opsof[h], header))
        fails = list(corp['fails'])
        divs += corp['divs']
        distinct = set()
        evals = 0
        dist = collections.Counter()
        samples = []
        for name, ops in hs:
            tr = impl.get(name)
            if tr is None:
                continue
            pops = [gen.parse_op(o) for o in ops]
            sts = [parse_line(l) for l in tr]
            if len(sts) != len(pops):
                extras.append('impl trace of %s has %d lines for %d ops' % (name, len(sts), len(pops)))
                continue
            evals += len(pops)
            pre = monitors.EMPTY
            for o, st in zip(pops, sts):
                dist[o['kind']] += 1
                if trig(o, pre, st):
                    distinct.add((state_key(pre) if 'raw' in pre else '', o['raw']))
                pre = st
            for m in mons:
                for (idx, msg) in m(ctx, pops, sts):
                    fails.append((name, idx, msg, ops, header))
            if len(samples) < 6 and len(ops) > 3 and rnd.random() < 0.01:
                samples.append({'history': name, 'ops': ops[:12], 'last_line': tr[-1][:300]})
        if not samples and hs:
            samples.append({'history': hs[0][0], 'ops': hs[0][1][:12]})
        return dict(evaluations=evals, distinct=len(distinct), samples=samples, divergences=divs,
                    monitor_fail=fails, rule=rule, dist=dict(dist), extras=extras, traces=len(impl))
    finally:
        ctx.cleanup()
        shutil.rmtree(work, ignore_errors=True)


class MiniCtx:
    """context rebuilt from a self-contained op file (for monitors)"""

    def __init__(self, header):
        self.blobs, self.sigs, self.p = {}, [], {}
        for l in header:
            t = l.split()
            if t[0] == 'blob':
                self.blobs[t[1]] = b'' if t[2] == 'e' else bytes.fromhex(t[2])
            if t[0] == 'sig':
                self.sigs.append((unhx(t[1]), unhx(t[2]), unhx(t[3])))
        import hashlib
        for k, v in self.blobs.items():
            if k.startswith('new'):
                self.p[k[3:]] = dict(new=v, dl='dl' + k[3:], hash=hashlib.sha256(v).hexdigest(), tag=art_tag(v))


def split_opfile(path):
    lines = [l for l in open(path).read().splitlines() if l and not l.startswith('#')]
    hi = [i for i, l in enumerate(lines) if l.startswith('history ')][0]
    header = lines[:hi]
    name = lines[hi].split()[1]
    ops = lines[hi + 1:]        # op lines and, in scheduled histories, the thread / order / stall lines between them
    return header, name, ops


def run_corpus(pid, work, model_ok):
    res = dict(fails=[], divs=[], extras=[])
    cdir = os.path.join(ROOT, 'corpus')
    files = sorted(f for f in os.listdir(cdir) if f.endswith('.ops')) if os.path.isdir(cdir) else []
    mons = PROPS[pid].get('mons', [])
    for f in files:
        header, name, ops = split_opfile(os.path.join(cdir, f))
        model, impl, extras = run_both(header, [(name, ops)], os.path.join(work, 'corpus'), impl_only=not model_ok)
        res['extras'] += extras
        if model_ok:
            for (h, idx, ml, il) in diff_traces(model, impl):
                res['divs'].append((h, idx, ml, il, ops, header))
        tr = impl.get(name)
        if tr is None or len(tr) != len(ops):
            res['extras'].append('corpus %s: no/short implementation trace' % f)
            continue
        c = MiniCtx(header)
        pops = [gen.parse_op(o) for o in ops]
        sts = [parse_line(l) for l in tr]
        for m in mons:
            for (idx, msg) in m(c, pops, sts):
                res['fails'].append((name, idx, msg, ops, header))
    return res


def replay(pid, path):
    """re-executes a replay op file on model and implementation and re-judges it"""
    if path.endswith('.txt'):
        print(open(path).read())
        return 1
    header, name, ops = split_opfile(path)
    work = os.path.join(CACHE, 'replay-%d' % os.getpid())
    fs = [h for h in header if h.startswith('faultspec ')]
    if fs:
        # a history with one failing file-system call (C04 second sentence, C07 under faults): re-run under the shim
        kv = dict(x.split('=', 1) for x in fs[0].split()[1:])
        build_shim()
        f = os.path.join(work, 'r.ops')
        os.makedirs(work, exist_ok=True)
        write_opfile(f, header, [(name, ops)])
        env = dict(os.environ, LD_PRELOAD=SHIM, UVH_CUT_OP=kv['target'], SHIM_FAIL=kv['k'])
        if kv.get('reads') == '1':
            env['SHIM_READS'] = '1'
        if kv.get('scope'):
            env['UVH_FAULT_SCOPE'] = kv['scope']
        r = subprocess.run([UVH, 'replay', f, os.path.join(work, 'w')], capture_output=True, text=True, env=env)
        shutil.rmtree(work, ignore_errors=True)
        lines = [l for l in r.stdout.splitlines() if l.startswith('out=')]
        print('\n'.join([x for x in r.stderr.splitlines() if 'SHIM FAIL' in x] + lines))
        tgt = int(kv['target'])
        bad = []
        if len(lines) != len([o for o in ops if o.startswith('op ')]):
            bad.append('the run did not complete (%d results)' % len(lines))
        elif kv['kind'] == 'c07':
            bad = ['patch 2 handed out at op %d' % j for j in range(tgt - 1, len(lines)) if parse_line(lines[j])['out'] in ('2', 'path:2')]
        elif kv['kind'] == 'c05':
            bad = c05_judge_fault(ops, lines, tgt, kv['art'])
        else:
            bb = set(int(x) for x in kv['bad'].split(',')) if kv['bad'] != '-' else set()
            bad = ['patch %d selected at op %d: %s' % (n, j, why) for (j, n, why) in c04_judge_fail(ops[:tgt], ops[tgt:], lines, kv['kind'], bb)]
        for b in bad:
            print('MONITOR: ' + b)
        if bad:
            print('VIOLATION property=%s replay=%s' % (pid, path))
            return 1
        return 0
    if any(o.startswith('t0 op init') for o in ops):
        # two threads initialising concurrently (C14): implementation only, judged by the same rule as the check
        _, impl, extras = run_both(header, [(name, ops)], work, impl_only=True)
        shutil.rmtree(work, ignore_errors=True)
        print('impl:')
        print('\n'.join(impl.get(name, [])))
        r = judge_concurrent_init(ops, impl.get(name))
        for idx, msg in (r or []):
            print('MONITOR: ' + msg)
        if r is None or r:
            print('VIOLATION property=%s replay=%s' % (pid, path))
            return 1
        return 0
    if ops and ops[0].startswith('apk '):
        # the Android base reader (C05): the containers are rebuilt and read again
        a_ = dict(monitor_fail=[], evaluations=0)
        os.makedirs(work, exist_ok=True)
        android_base_stream(a_, random.Random(int(os.environ.get('VERIF_SEED', '1')) + 5), work)
        shutil.rmtree(work, ignore_errors=True)
        for m_ in a_['monitor_fail']:
            print('MONITOR: ' + m_[2])
        if a_['monitor_fail']:
            print('VIOLATION property=%s replay=%s' % (pid, path))
            return 1
        print('%d containers read back exactly' % a_['evaluations'])
        return 0
    if ops and ops[0].startswith('jsonbody '):
        # one response body as bytes: the model's reading against the library's (C06, text level)
        os.makedirs(work, exist_ok=True)
        _, nm, hexb = ops[0].split()
        f1, f2 = os.path.join(work, 'm.ops'), os.path.join(work, 'i.txt')
        open(f1, 'w').write(ops[0] + '\n')
        open(f2, 'w').write('%s %s\n' % (nm, hexb))
        mo = subprocess.run([DRIVER, f1], capture_output=True, text=True).stdout.strip()
        io_ = subprocess.run([UVH, 'jsonbodies', f2], capture_output=True, text=True).stdout.strip()
        shutil.rmtree(work, ignore_errors=True)
        print('body : %r' % (b'' if hexb == 'e' else bytes.fromhex(hexb))[:300])
        print('model: ' + mo)
        print('impl : ' + io_)
        if mo != io_:
            print('DIVERGENCE')
            print('VIOLATION property=%s replay=%s' % (pid, path))
            return 1
        return 0
    if sched_shape(ops) is not None:
        # one scheduled interleaving of real threads (C11, C17, C18, C12 stalls): model and implementation run the same
        # order under the lock-discipline observer; re-judged by the rules of the check it came from
        bg = any(' startupd ' in o for o in ops)      # the library's own update thread hangs: implementation only
        model, impl, extras = run_both(header, [(name, ops)], work, lockcheck=True, impl_only=bg)
        shutil.rmtree(work, ignore_errors=True)
        print('model:')
        print('\n'.join(model.get(name, [])))
        print('impl:')
        print('\n'.join(impl.get(name, [])))
        rc = 0
        d = [] if bg else diff_traces(model, impl)
        if d:
            print('DIVERGENCE at op %d' % d[0][1])
            rc = 1
        extras, lw = unlocked_writes(extras, {name: ops}, header)
        msgs = [m_[2] for m_ in lw] + [x for x in extras if 'DEPTH-VIOLATION' in x or 'did not complete' in x]
        npre, uop, oops, order_idx = sched_shape(ops)
        sts = [parse_line(l) for l in impl.get(name, [])]
        if len(sts) > npre:
            if pid == 'C11' and len(sts) == npre + 9:
                msgs += [m_ for (_, m_) in judge_c11(MiniCtx(header), ops, sts)]
            else:
                msgs += sched_event_faults(sts[npre], [[uop], oops])
        else:
            msgs.append('the scheduled run did not complete (%d results)' % len(sts))
        for m_ in msgs:
            print('MONITOR: ' + m_)
            rc = 1
        if not rc:
            print('(not reproduced by the generic rules; the judgement recorded by the check is the first line of the file)')
            print(open(path).readline().rstrip())
        else:
            print('VIOLATION property=%s replay=%s' % (pid, path))
        return rc
    if 'http on' in header:
        # real-transport history (C06): re-run on the implementation; the judgement is in the file's first line
        _, impl, extras = run_both(header, [(name, ops)], work, impl_only=True)
        shutil.rmtree(work, ignore_errors=True)
        print(open(path).readline().rstrip())
        print('impl:')
        print('\n'.join(impl.get(name, [])))
        print('VIOLATION property=%s replay=%s' % (pid, path))
        return 1
    model, impl, extras = run_both(header, [(name, ops)], work, lockcheck=pid in ('C11', 'C12', 'C14', 'C17', 'C18'))
    shutil.rmtree(work, ignore_errors=True)
    print('model:')
    print('\n'.join(model.get(name, [])))
    print('impl:')
    print('\n'.join(impl.get(name, [])))
    d = diff_traces(model, impl)
    rc = 0
    for m_ in unlocked_writes(extras, {name: ops}, header)[1]:
        print('MONITOR: ' + m_[2])
        rc = 1
    if d:
        print('DIVERGENCE at op %d' % d[0][1])
        rc = 1
    c = MiniCtx(header)
    pops = [gen.parse_op(o) for o in ops]
    sts = [parse_line(l) for l in impl.get(name, [])]
    for m in PROPS[pid].get('mons', []):
        for idx, msg in m(c, pops, sts):
            print('MONITOR op %d: %s' % (idx, msg))
            rc = 1
    if rc:
        print('VIOLATION property=%s replay=%s' % (pid, path))
    return rc


# ------------------------------------------------------------------ streams
LIFE = ['q', 's', 'ok', 'fail', 'R', 'u1', 'u2', 'u3', 'rb1', 'rb2', 'rb5', 'ck2', 'c']
DMG1 = ['dF1', 'dD1', 'dT1', 'dE1', 'dS1', 'dPg', 'dPm', 'dSg', 'dSm']


def build_C01(ctx, tier, rnd):
    hs = []
    for key in (None, KEY1):
        al = gen.Alphabet(ctx, key=key)
        tag = 'k' if key else 'n'
        dmg = DMG1 + ['dF2', 'dT2', 'dS2']
        acts = ['q', 'p', 's', 'R', 'ok', 'u2', 'rb5', 'c']
        pf = [PFX[k] for k in ('pend1', 'boot1', 'good1', 'good1pend2', 'good1boot2', 'good2pend1')]
        # one damage op at every position of short histories, then every continuation
        for pre in pf:
            for d in dmg:
                for a in acts:
                    for b in (acts if tier == 'thorough' else ['q', 's', 'R']):
                        hs.append(('c01%s_%d' % (tag, len(hs)), [al.init] + al.seq(pre) + al.seq([d, a, b, 'p'])))
        hs += double_damage(al, 'c01dd' + tag)
        # a patch of ZERO bytes (recorded size 0): installed, selected, booted - and then its file or directory disappears
        uz = op_update(ctx, 'z', num=3, signed=key is not None)
        for pre in ((), ('u1', 's', 'ok')):
            for mid in ((), ('s', 'ok'), ('R',)):
                for d in ('op dmg delfile 3', 'op dmg deldir 3', 'op dmg setart 3 @ext3'):
                    for ask in (('q', 'p'), ('p', 'q'), ('s', 'c', 'p'), ('R', 'q', 'p')):
                        hs.append(('c01z%s_%d' % (tag, len(hs)), [al.init] + al.seq(pre) + [uz, 'op nextnum', 'op nextpath'] + al.seq(mid) + [d] + al.seq(ask)))
        depth = 3 if tier == 'quick' else 4
        small = ['q', 's', 'ok', 'fail', 'R', 'u1', 'u2', 'dT1', 'dS1', 'dPg'] if tier == 'quick' else \
            ['q', 's', 'ok', 'fail', 'R', 'u1', 'u2', 'dT1', 'dS1', 'dPg', 'dD2', 'rb1']
        hs += gen.exhaustive(al, small, depth, name='c01x' + tag)
        labels = LIFE + DMG1 + ['p', 'dT2', 'dD2', 'dS2', 'u1b']
        weights = [3 if l in ('q', 'p', 's', 'R') else 1 for l in labels]
        hs += gen.random_walks(al, labels, weights, 150 if tier == 'quick' else 3000, (8, 30), rnd, name='c01r' + tag, stale=True)
    return hs


def double_damage(al, name):
    """the fallback target is damaged too: selection invalidated AND last good patch damaged, in both
    orders, then every way of asking for the next boot patch"""
    hs = []
    for pk in ('good1pend2', 'good1boot2', 'good1boot2pend3'):
        sel = '3' if pk.endswith('pend3') else '2'
        for d_sel in ('dD' + sel, 'dF' + sel, 'dT' + sel, 'dS' + sel):
            for d_lb in ('dS1', 'dT1', 'dE1', 'dF1', 'dD1'):
                for order in (0, 1):
                    for ask in (('q',), ('p',), ('s', 'c'), ('R', 'q'), ('R', 's', 'p'), ('rb5', 'q'), ('ck2', 'p')):
                        dd = [d_sel, d_lb] if order == 0 else [d_lb, d_sel]
                        hs.append(('%s_%d' % (name, len(hs)), [al.init] + al.seq(PFX[pk]) + al.seq(dd) + al.seq(ask) + ['op nextpath', 'op nextnum']))
    return hs


def trig_handout(o, pre, st):
    return monitors.handed_out(o, pre, st) is not None or (o['kind'] in ('nextnum', 'nextpath') and pstate(pre)['nb'] is not None)


def build_C02(ctx, tier, rnd):
    al = gen.Alphabet(ctx)
    hs = []
    # a failure or a kill at every position, then every continuation
    conts = ['q', 's', 'R', 'u1', 'u2', 'ck1', 'ck2', 'ok', 'rb5', 'fail']
    depth = 2 if tier == 'quick' else 3
    for pk in ('boot1', 'good1boot2', 'boot2pend3', 'good1boot2pend3'):
        for ender in (('fail',), ('R',), ('fail', 'R'), ('R', 'R')):
            hs += gen.exhaustive(al, conts, depth, prefixes=(PFX[pk] + ender,), name='c02_%s_' % pk)
    hs += gen.exhaustive(al, ['s', 'fail', 'R', 'u1', 'u2', 'q', 'ok'], 4 if tier == 'quick' else 6, name='c02x')
    labels = LIFE + ['ck1', 'RV']
    weights = [4 if l in ('s', 'fail', 'R', 'u1', 'u2') else 1 for l in labels]
    hs += gen.random_walks(al, labels, weights, 200 if tier == 'quick' else 4000, (10, 40), rnd, name='c02r', conformant=False)
    # "never again ... for as long as the same release stays installed": the ban outlives LATER SUCCESSES - a newer (or an
    # older) patch is installed and boots successfully, is perhaps rolled back, and the failed number is offered again
    k = 0
    for n_, m_ in ((1, 2), (1, 3), (2, 3), (2, 1), (3, 1)):
        for enders in (('fail',), ('R',)):
            for mid in ((), ('R',), ('rb%d' % m_,) if 'rb%d' % m_ in al.ops else ('R',), ('q', 'R', 'ok')):
                seq = ['u%d' % n_, 'R', 's'] + list(enders) + ['u%d' % m_, 'R', 's', 'ok'] + list(mid) + ['ck%d' % n_ if 'ck%d' % n_ in al.ops else 'q', 'u%d' % n_, 'q', 'R', 'u%d' % n_, 'q']
                hs.append(('c02late%d' % k, [al.init] + al.seq(seq)))
                k += 1
    return hs


def trig_banned_offer(o, pre, st):
    p = pstate(pre)
    if o['kind'] in ('update', 'check') and o.get('resp') and o['resp']['patch']:
        return o['resp']['patch']['num'] in p['bad']
    return o['kind'] in ('failure', 'init') and p['cb'] is not None



def build_C05(ctx, tier, rnd):
    al = gen.Alphabet(ctx)
    hs = []
    nmut = 60 if tier == 'quick' else 1500
    # byte-level mutants of a genuine patch: flip / truncate / extend, at the zstd level and at the bidiff level
    dl = ctx.blobs['dl2']
    raw = ctx.blobs['raw2']
    muts = []
    for k in range(nmut):
        kind = rnd.choice(['flip', 'trunc', 'ext', 'rawflip', 'rawtrunc'])
        if kind == 'flip':
            b = bytearray(dl); j = rnd.randrange(len(b)); b[j] ^= 1 << rnd.randrange(8); muts.append(('z', bytes(b)))
        elif kind == 'trunc':
            muts.append(('z', dl[:rnd.randrange(len(dl))]))
        elif kind == 'ext':
            muts.append(('z', dl + bytes(rnd.randrange(256) for _ in range(rnd.randrange(1, 9)))))
        elif kind == 'rawflip':
            b = bytearray(raw); j = rnd.randrange(len(b)); b[j] ^= 1 << rnd.randrange(8); muts.append(('r', bytes(b)))
        else:
            muts.append(('r', raw[:rnd.randrange(len(raw))]))
    tmp = ctx.tmp
    for k, (lvl, data) in enumerate(muts):
        name = 'mut%d' % k
        if lvl == 'r':
            open(os.path.join(tmp, 'r.in'), 'wb').write(data)
            subprocess.run([UVH, 'zenc', os.path.join(tmp, 'r.in'), os.path.join(tmp, 'r.out')], check=True, capture_output=True)
            data = open(os.path.join(tmp, 'r.out'), 'rb').read()
        ctx.add_blob(name, data)
        ctx.add_zdec_real(name)
    # wrong base: a patch built against another base
    other = bytes(reversed(ctx.base))
    open(os.path.join(tmp, 'ob.bin'), 'wb').write(other)
    open(os.path.join(tmp, 'on.bin'), 'wb').write(ctx.p['2']['new'])
    subprocess.run([UVH, 'mkpatch', os.path.join(tmp, 'ob.bin'), os.path.join(tmp, 'on.bin'), os.path.join(tmp, 'op')], check=True, capture_output=True)
    ctx.add_blob('wrongbase', open(os.path.join(tmp, 'op.patch'), 'rb').read())
    ctx.add_zdec_real('wrongbase')
    names = ['mut%d' % k for k in range(len(muts))] + ['wrongbase', 'empty', 'junkdl']
    ctx.zdec.append(('empty', 'empty'))
    prefixes = [PFX['empty'], PFX['good1'], PFX['good1pend2'], PFX['good1boot2']]
    for j, nm in enumerate(names):
        pre = prefixes[j % len(prefixes)]
        hs.append(('c05m%d' % j, [al.init] + al.seq(pre) + [op_update(ctx, 2, dl='@' + nm), 'op nextnum', 'op curnum'] + al.seq(['u2', 'q'])))
    # a corrupt download offered under the number of the RUNNING / last good / pending patch (a re-offer after a channel
    # switch back): "next-boot patch, current patch and banned set are exactly what they were before"
    for j, nm in enumerate(names[:12] + ['wrongbase', 'empty', 'junkdl']):
        for pk in ('good1pend2', 'good1boot2', 'good2pend1', 'good1'):
            for n in (1, 2, 3):
                hs.append(('c05n%d_%s_%d' % (j, pk, n), [al.init] + al.seq(PFX[pk]) + [op_update(ctx, n, dl='@' + nm), 'op nextnum', 'op curnum'] + al.seq(['q', 'c'])))
    # truncation of the uncompressed stream at EVERY length (record boundaries included), alone and after
    # an earlier attempt for the same number that was rejected (right bytes, wrong hash) or failed
    step = 1 if tier == 'thorough' else max(1, len(raw) // 24)
    for cut in list(range(8, len(raw), step)) + [len(raw) - 1]:
        nm = 'cut%d' % cut
        open(os.path.join(tmp, 'r.in'), 'wb').write(raw[:cut])
        subprocess.run([UVH, 'zenc', os.path.join(tmp, 'r.in'), os.path.join(tmp, 'r.out')], check=True, capture_output=True)
        ctx.add_blob(nm, open(os.path.join(tmp, 'r.out'), 'rb').read())
        ctx.add_zdec_real(nm)
        for before in ((), ('uh2',), ('uh2', 'udl2'), ('uj2',)):
            hs.append(('c05c%d_%d' % (cut, len(hs)), [al.init] + al.seq(PFX['good1']) + al.seq(before) + [op_update(ctx, 2, dl='@' + nm), 'op nextnum'] + al.seq(['u2', 'q'])))
    # the download and its inflated output are written on top of whatever earlier attempts for the same
    # number left in downloads/ (nothing ever deletes those files; they survive rollbacks, restarts and
    # release changes): a body cut short at the compressed level after an intact download of the same number
    zcuts = sorted(set([0, 1, 10, len(dl) // 2, len(dl) - 1] + ([rnd.randrange(len(dl)) for _ in range(3)] if tier == 'quick' else list(range(0, len(dl), 7)))))
    for cut in zcuts:
        nm = 'zcut%d' % cut
        ctx.add_blob(nm, dl[:cut])
        ctx.add_zdec_real(nm)
        for lbl, before in (('rb', ('u2', 'rb2')), ('rbboot', ('u2', 's', 'ok', 'rb2')), ('rv', ('u2', 'RV')), ('dmg', ('u2', 'dD2', 'q')), ('fresh', ())):
            hs.append(('c05z%d_%s' % (cut, lbl), [al.init] + al.seq(PFX['good1']) + al.seq(before) + [op_update(ctx, 2, dl='@' + nm), 'op nextnum'] + al.seq(['u2', 'q'])))
    # hash strings
    h = ctx.p['2']['hash']
    hashes = [h.upper(), h[:-1], h + '0', h + '00', '', 'zz' + h[2:], h[:32], '0' * 64, ' ' + h, h.replace('a', 'A', 1),
              ctx.p['3']['hash'], 'g' * 64, h[:-2] + 'ZZ', '0x' + h, h + '\n']
    if tier == 'thorough':
        for _ in range(40):
            b = list(h); j = rnd.randrange(len(b)); b[j] = rnd.choice('0123456789abcdefABCDEFxyz '); hashes.append(''.join(b))
    for j, hh in enumerate(hashes):
        pre = prefixes[j % len(prefixes)]
        hs.append(('c05h%d' % j, [al.init] + al.seq(pre) + [op_update(ctx, 2, hash=hh), 'op nextnum'] + al.seq(['u2', 'q'])))
    # hash strings that look like paths: whatever the string is used for before it is known to be hex, it must not name a file
    for j, hh in enumerate(('../patches/1/dlc.vmcode', '../patches/2/dlc.vmcode', '../patches_state.json', '../state.json', '../patches/1', '1', '2.full',
                            '../../storage/patches_state.json', './' + h, '/dev/null', '..', '.', 'a/b')):
        for pk in ('good1', 'good1pend2', 'pend1', 'good1boot2'):
            hs.append(('c05p%d_%s' % (j, pk), [al.init] + al.seq(PFX[pk]) + [op_update(ctx, 2, hash=hh), 'op nextnum', 'op nextpath'] + al.seq(['R', 'q', 'u2', 'q'])))
    return hs


def trig_update(o, pre, st):
    return o['kind'] == 'update' and o.get('resp') is not None and o['resp']['patch'] is not None


def build_C06(ctx, tier, rnd):
    al = gen.Alphabet(ctx)
    hs = []
    fails = ['ckerr', 'uperr', 'udl2', 'udl3', 'uj2', 'uh2', 'upnone',
             ]
    al.ops['contra'] = ['op update - %s err' % resp(True, None, None)]
    al.ops['contra_rb'] = ['op update - %s err' % resp(True, None, [2])]
    al.ops['navail'] = [op_update(ctx, 2, avail=False)]
    # an oversized body that is well-formed: the (longer) genuine patch 3 served for patch 2 - it inflates, fails the
    # content check, and must not spoil the later healthy update of the same number (leftovers in downloads/)
    al.ops['uover2'] = [op_update(ctx, 2, dl='@' + ctx.p['3']['dl'])]
    fails += ['contra', 'contra_rb', 'navail', 'uover2']
    depth = 2 if tier == 'quick' else 3
    pres = [PFX[k] for k in ('empty', 'pend1', 'boot1', 'good1', 'good1pend2', 'good1boot2', 'good1bad2', 'good2pend1')]
    if tier == 'thorough':
        pres += [tuple(x) for x in __import__('itertools').product(['u1', 's', 'ok', 'fail', 'R', 'u2'], repeat=3)]
    for pre in pres:
        for f in fails:
            for g in (fails if tier == 'thorough' else ['ckerr', 'udl2', 'uj2']):
                hs.append(('c06_%d' % len(hs), [al.init] + al.seq(pre) + al.seq([f, 'q', 'c', g, 'u2', 'q', 'u3', 'q'])))
    return hs


# ---- C06, real-transport half: the library's default callbacks (reqwest) against a scripted local server
HC_FAIL = ['close', 'reset', 'stall', 'garbage', 's500', 's404', 's403', 's204', 'chunkbad', 'halfhead', 'trunc', 'refused', 's503u0', 's503u1', 's503u2', 'hugelen63', 'hugelen64', 'hugelen40']
HD_FAIL = ['close', 'reset', 'stall', 'garbage', 's500', 's404', 'trunc', 'chunkbad', 'halfhead', 's503u0', 's503u1', 's503u2', 'hugelen63', 'hugelen64', 'hugelen40']
HE_FAIL = ['s500', 'close', 'reset', 'garbage', 's503u1']


def http_bodies(ctx):
    """(name, raw body, model-equivalent response tokens or 'err'): what serde makes of a 200 body"""
    p2 = ctx.p['2']
    H, U = p2['hash'], '@@DL@@/' + hx(url_of(2))
    ok2 = resp(True, (2, H, url_of(2), None), None)
    patch = '{"number":2,"hash":"%s","download_url":"%s"}' % (H, U)
    big = 18446744073709551615
    v = [
        ('min', '{"patch_available":true,"patch":%s}' % patch, ok2),
        ('extra', '{"zzz":[1,{"a":null}],"patch_available":true,"patch":{"size":12,"number":2,"hash":"%s","download_url":"%s","x":{}},"more":"x"}' % (H, U), ok2),
        ('rbnull', '{"patch_available":true,"patch":%s,"rolled_back_patch_numbers":null}' % patch, ok2),
        ('signull', '{"patch_available":true,"patch":{"number":2,"hash":"%s","download_url":"%s","hash_signature":null}}' % (H, U), ok2),
        ('pad', ' ' * 300000 + '{"patch_available":true,"patch":%s}' % patch + '\n' * 1000, ok2),
        ('navail_null', '{"patch_available":false,"patch":null}', resp(False, None, None)),
        ('navail', '{"patch_available":false}', resp(False, None, None)),
        ('contra', '{"patch_available":true}', resp(True, None, None)),
        ('navail_patch', '{"patch_available":false,"patch":%s}' % patch, resp(False, (2, H, url_of(2), None), None)),
        ('rb1', '{"patch_available":false,"rolled_back_patch_numbers":[1]}', resp(False, None, [1])),
        ('rb_dup', '{"patch_available":false,"rolled_back_patch_numbers":[2,2,1]}', resp(False, None, [2, 2, 1])),
        ('rb_empty', '{"patch_available":true,"patch":%s,"rolled_back_patch_numbers":[]}' % patch, resp(True, (2, H, url_of(2), None), [])),
        # serde_json skips an ignored value iteratively: no recursion limit applies to it
        ('deep_ignored', '{"patch_available":true,"patch":%s,"x":%s%s}' % (patch, '[' * 300, ']' * 300), ok2),
        ('escapes', '{"patch_available":true,"patch":{"number":2,"hash":"%s","download\\u005furl":"%s"}}' % (H, U), ok2),
    ]
    bad = [
        ('empty', ''), ('null', 'null'), ('arr', '[]'), ('str', '"patch_available"'), ('obj0', '{}'),
        ('avail_str', '{"patch_available":"yes"}'), ('avail_int', '{"patch_available":1}'), ('avail_null', '{"patch_available":null}'),
        ('num_str', '{"patch_available":true,"patch":{"number":"2","hash":"%s","download_url":"%s"}}' % (H, U)),
        ('num_neg', '{"patch_available":true,"patch":{"number":-1,"hash":"%s","download_url":"%s"}}' % (H, U)),
        ('num_frac', '{"patch_available":true,"patch":{"number":2.5,"hash":"%s","download_url":"%s"}}' % (H, U)),
        ('num_float', '{"patch_available":true,"patch":{"number":2.0,"hash":"%s","download_url":"%s"}}' % (H, U)),
        ('num_huge', '{"patch_available":true,"patch":{"number":%d,"hash":"%s","download_url":"%s"}}' % (big + 1, H, U)),
        ('no_hash', '{"patch_available":true,"patch":{"number":2,"download_url":"%s"}}' % U),
        ('no_url', '{"patch_available":true,"patch":{"number":2,"hash":"%s"}}' % H),
        ('no_num', '{"patch_available":true,"patch":{"hash":"%s","download_url":"%s"}}' % (H, U)),
        ('hash_int', '{"patch_available":true,"patch":{"number":2,"hash":5,"download_url":"%s"}}' % U),
        ('hash_null', '{"patch_available":true,"patch":{"number":2,"hash":null,"download_url":"%s"}}' % U),
        ('sig_int', '{"patch_available":true,"patch":{"number":2,"hash":"%s","download_url":"%s","hash_signature":7}}' % (H, U)),
        ('patch_arr', '{"patch_available":true,"patch":[]}'), ('patch_str', '{"patch_available":true,"patch":"2"}'),
        ('rb_mixed', '{"patch_available":false,"rolled_back_patch_numbers":[1,"2"]}'),
        ('rb_obj', '{"patch_available":false,"rolled_back_patch_numbers":{"1":true}}'),
        ('rb_neg', '{"patch_available":false,"rolled_back_patch_numbers":[-1]}'),
        ('rb_int', '{"patch_available":false,"rolled_back_patch_numbers":1}'),
        ('dup_key', '{"patch_available":false,"patch_available":true,"patch":%s}' % patch),
        ('dup_patch', '{"patch_available":true,"patch":%s,"patch":%s}' % (patch, patch)),
        ('trailing', '{"patch_available":true,"patch":%s} trailing' % patch),
        ('two_docs', '{"patch_available":true,"patch":%s}{"patch_available":false}' % patch),
        ('cut', ('{"patch_available":true,"patch":%s}' % patch)[:-9]),
        ('bom', '\ufeff{"patch_available":true,"patch":%s}' % patch),
        ('single_quotes', "{'patch_available':true}"),
        ('comment', '{"patch_available":true,/* c */"patch":%s}' % patch),
        ('nan', '{"patch_available":true,"patch":{"number":NaN,"hash":"%s","download_url":"%s"}}' % (H, U)),
        ('html', '<html><body>502 Bad Gateway</body></html>'),
    ]
    out = [(n, b.encode('utf-8'), m) for n, b, m in v] + [(n, b.encode('utf-8'), 'err') for n, b in bad]
    # serde_json does not validate the bytes of a string it skips: ill-formed UTF-8 in an ignored field is accepted
    out.append(('badutf8_ignored', b'{"patch_available":true,"zz":"\xff\xfe","patch":' + patch.encode() + b'}', ok2))
    out.append(('badutf8_hash', b'{"patch_available":true,"patch":{"number":2,"hash":"\xff\xfe","download_url":"x"}}', 'err'))
    out.append(('nul', b'{"patch_available":true\x00}', 'err'))
    out.append(('num_max', ('{"patch_available":true,"patch":{"number":%d,"hash":"%s","download_url":"@@DL@@/%s"}}' % (big, H, hx(url_of(2)))).encode(),
                resp(True, (big, H, url_of(2), None), None)))
    return out


JSON_STATS = {}


def build_C06_http(ctx, tier, rnd):
    """returns [(name, impl_ops, model_ops, refused_indices)]"""
    al = gen.Alphabet(ctx)
    p2 = ctx.p['2']
    dl2 = ctx.blobs[p2['dl']]
    cuts = sorted(set([0, 1, len(dl2) // 2, len(dl2) - 1]))
    for k in cuts:
        nm = 'h_short%d' % k
        ctx.add_blob(nm, dl2[:k])
        ctx.add_zdec_real(nm)
    bodies = http_bodies(ctx)
    for n, b, m in bodies:
        ctx.add_blob('hb_' + n, b)
    u2 = op_update(ctx, 2)
    ck2 = op_check(ctx, 2)
    variants = []   # (label, impl op, model op, refused?)
    for k in HC_FAIL:
        variants.append(('hc_' + k, u2 + ' hc=' + k, 'op update - err @%s' % p2['dl'], k == 'refused'))
        variants.append(('ckhc_' + k, ck2 + ' hc=' + k, 'op check - err', k == 'refused'))
    variants.append(('hc_nolen', u2 + ' hc=nolen', u2, False))
    for k in HD_FAIL:
        variants.append(('hd_' + k, u2 + ' hd=' + k, op_update(ctx, 2, dl='err'), False))
    variants.append(('hd_nolen', u2 + ' hd=nolen', u2, False))
    for k in cuts:
        variants.append(('hd_short%d' % k, u2 + ' hd=short:%d' % k, op_update(ctx, 2, dl='@h_short%d' % k), False))
    for k in HE_FAIL:
        variants.append(('he_' + k, u2 + ' he=' + k, u2, False))
    for n, b, m in bodies:
        mo = 'op update - err @%s' % p2['dl'] if m == 'err' else 'op update - %s @%s' % (m, p2['dl'])
        variants.append(('hb_' + n, u2 + ' hb=@hb_' + n, mo, False))
        if tier == 'thorough' or n in ('min', 'navail', 'rb1', 'avail_str', 'num_str', 'trailing', 'dup_key'):
            mc = 'op check - err' if m == 'err' else 'op check - %s' % m
            variants.append(('ckhb_' + n, ck2 + ' hb=@hb_' + n, mc, False))
    # generated bodies: JSON trees (duplicates, missing / retyped / reordered / unknown fields, positional form, number
    # tokens around the usize range); what the library should read from each is computed by the MODEL (Json.resp_of_json)
    import jsongen
    ntree = 120 if tier == 'quick' else 800
    gen_ = [jsongen.gen_resp(rnd, 2, p2['hash'], url_of(2), None) for _ in range(ntree)]
    trees = [t for t, _ in gen_]
    fk = collections.Counter(f for _, fs in gen_ for f in fs)
    jf = os.path.join(ctx.tmp, 'trees.ops')
    open(jf, 'w').write(''.join('json t%d %s\n' % (i, ','.join(jsongen.enc(t))) for i, t in enumerate(trees)))
    jr = subprocess.run([DRIVER, jf], capture_output=True, text=True)
    reading = dict(l[5:].split('=', 1) for l in jr.stdout.splitlines() if l.startswith('json:'))
    JSON_STATS.clear()
    JSON_STATS.update({'fault_' + k: v for k, v in fk.items()})
    JSON_STATS.update(trees=len(trees), model_failed=0 if len(reading) == len(trees) else 1, read_ok=0, read_err=0, skipped_foreign_url=0)
    for i, t in enumerate(trees):
        m = reading.get('t%d' % i)
        if m is None:
            continue
        if m != 'err' and ' p=-' not in m and (':%s:' % hx(url_of(2))) not in m:
            JSON_STATS['skipped_foreign_url'] += 1     # a string that is not a served URL landed in download_url: the download outcome is not scripted
            continue
        JSON_STATS['read_ok' if m != 'err' else 'read_err'] += 1
        ctx.add_blob('hj_%d' % i, jsongen.text(t).encode('utf-8'))
        mo = 'op update - err @%s' % p2['dl'] if m == 'err' else 'op update - %s @%s' % (m, p2['dl'])
        variants.append(('hj_%d' % i, u2 + ' hb=@hj_%d' % i, mo, False))
        if i % 4 == 0:
            variants.append(('ckhj_%d' % i, ck2 + ' hb=@hj_%d' % i, 'op check - err' if m == 'err' else 'op check - %s' % m, False))
    prekeys = ('empty', 'good1', 'good1boot2') if tier == 'quick' else ('empty', 'pend1', 'boot1', 'good1', 'good1pend2', 'good1boot2', 'good1bad2', 'good2pend1')
    hs = []
    for pk in prekeys:
        pre = [al.init] + al.seq(PFX[pk])
        for lab, io, mo, refused in variants:
            if lab.startswith(('hj_', 'ckhj_')) and pk not in ('empty', 'good1', 'good1boot2'):
                continue          # generated bodies: three start states are enough (the reading does not depend on the state)
            tail = al.seq(['q', 'c']) + al.seq(['u2', 'q', 's', 'ok', 'q', 'R', 'q'])
            iops = pre + [io] + tail
            mops = pre + [mo] + tail
            hs.append(('h6_%s_%s' % (pk, lab), iops, mops, [len(pre)] if refused else []))
    # failure events queued, then a refused / failing / healthy server: the queue is flushed best-effort
    for lab, io, mo, refused in variants[:2 * len(HC_FAIL)]:
        pre = [al.init] + al.seq(PFX['good1boot2']) + al.seq(['fail', 'R'])
        tail = al.seq(['q', 'u3', 'q'])
        hs.append(('h6_ev_%s' % lab, pre + [io] + tail, pre + [mo] + tail, [len(pre)] if refused else []))
    return hs


def json_text_stream(a, tier, rnd, ctx, work, model_ok):
    """C06, text level: response bodies as BYTES (renderings of generated trees with random white space / escape forms,
    byte-level mutations of them, a table of edge cases) read by the model (JsonText.resp_of_body, driver `jsonbody`)
    and by the library's own entry point (serde_json::from_slice::<PatchCheckResponse>, `uvh jsonbodies`)."""
    import jsongen, jsontext
    p2 = ctx.p['2']
    bodies = list(jsontext.edge_cases(p2['hash'], url_of(2)))
    n = 250 if tier == 'quick' else 6000
    for i in range(n):
        t, _ = jsongen.gen_resp(rnd, 2, p2['hash'], url_of(2), None)
        b = jsontext.render(rnd, t)
        bodies.append(('g%d' % i, b))
        for j in range(3):
            bodies.append(('g%d_m%d' % (i, j), jsontext.mutate(rnd, b)))
    os.makedirs(work, exist_ok=True)
    f1, f2 = os.path.join(work, 'jt_model.ops'), os.path.join(work, 'jt_impl.txt')
    open(f1, 'w').write(''.join('jsonbody %s %s\n' % (nm, b.hex() or 'e') for nm, b in bodies))
    open(f2, 'w').write(''.join('%s %s\n' % (nm, b.hex() or 'e') for nm, b in bodies))
    im = subprocess.run([UVH, 'jsonbodies', f2], capture_output=True, text=True)
    ii = dict(l[9:].split('=', 1) for l in im.stdout.splitlines() if l.startswith('jsonbody:'))
    mm = {}
    if model_ok:
        mo = subprocess.run([DRIVER, f1], capture_output=True, text=True)
        mm = dict(l[9:].split('=', 1) for l in mo.stdout.splitlines() if l.startswith('jsonbody:'))
        if len(mm) != len(dict(bodies)):
            a['extras'].append('json text: the model driver answered %d of %d bodies %s' % (len(mm), len(dict(bodies)), mo.stderr[-200:]))
    if len(ii) != len(dict(bodies)):
        a['extras'].append('json text: the library answered %d of %d bodies (rc=%d) %s' % (len(ii), len(dict(bodies)), im.returncode, im.stderr[-200:]))
    acc = 0
    for nm, b in bodies:
        if ii.get(nm, 'err') != 'err':
            acc += 1
        if model_ok and nm in mm and nm in ii and mm[nm] != ii[nm]:
            a['divergences'].append(('jsontext_' + nm, 0, 'model reads the body as: ' + mm[nm][:200], 'library reads it as: ' + ii[nm][:200], ['jsonbody %s %s' % (nm, b.hex() or 'e')], []))
    a['evaluations'] += len(bodies)
    # the extracted reader against the kernel's own evaluation of resp_of_body on a sample of these bodies
    nxc = 0
    if model_ok:
        xs = [('resp', nm, b) for nm, b in bodies if len(b) <= 1500]
        rnd.shuffle(xs)
        nxc, xcp = coq_crosscheck('C06', xs, limit=150 if tier == 'quick' else 1500)
        a['extras'] += xcp
    a['dist'] = dict(a.get('dist', {}), json_text_bodies=len(bodies), json_text_accepted_by_the_library=acc, extraction_equations_checked_in_the_kernel=nxc)


def run_C06(pid, tier, seed, model_ok=True):
    a = run_lifecycle(pid, tier, seed, build_C06, [monitors.mon_C05, monitors.mon_healthy], trig_update, C06_RULE, model_ok=model_ok)
    rnd = random.Random(seed)
    ctx = Ctx(seed=seed)
    work = os.path.join(CACHE, 'work-%s-http-%d' % (pid, os.getpid()))
    try:
        hs = build_C06_http(ctx, tier, rnd)
        header = ctx.header()
        model, _, ex1 = run_both(header, [(n, m) for n, i, m, r in hs], work, model_only=True) if model_ok else ({}, {}, [])
        _, impl, ex2 = run_both(header + ['http on'], [(n, i) for n, i, m, r in hs], work, impl_only=True)
        # "every call returns normally": a panic on any thread (hook) or a dead process is a violation with the
        # history that was running as its replay
        for x in ex2:
            if 'PANIC-HOOK' in x or 'CRASH' in x:
                hist = next((h for h in hs if impl.get(h[0]) is not None and len(impl[h[0]]) < len([o for o in h[1] if o.startswith('op ')])), hs[0])
                a['monitor_fail'].append((hist[0], max(0, len(impl.get(hist[0], [])) ), 'C06: a call did not return normally against a misbehaving server: ' + x[:300], hist[1], header + ['http on']))
        a['extras'] += ex1 + [x for x in ex2 if 'PANIC-HOOK' not in x and 'CRASH' not in x]
        kinds = collections.Counter()
        for name, iops, mops, refused in hs:
            tr = impl.get(name)
            if tr is None:
                a['extras'].append('http: no implementation trace for %s' % name)
                continue
            mt = model.get(name)
            if mt is not None:
                mt = list(mt)
                for idx in refused:      # a refused connection never reaches a server: nothing is observed on the wire
                    if idx < len(mt):
                        mt[idx] = re.sub(r'net=\S*', 'net=', mt[idx])
                for i in range(max(len(mt), len(tr))):
                    x = mt[i] if i < len(mt) else '<missing>'
                    y = norm_dls(x, tr[i]) if i < len(tr) else '<missing>'
                    if x != y:
                        if i < len(mops) and re.match(r'op (update|check) \S+ err\b', mops[i]) and ' hb=' in iops[i] and x.split(' ')[0] != y.split(' ')[0]:
                            # the body served is not a well-formed answer (the model's reader - JsonText.resp_of_body /
                            # Json.resp_of_json - rejects it), yet the call did not report the failed check: the input is here
                            a['monitor_fail'].append((name, i, 'real HTTP: C06: the served body (%s) is not a well-formed patch-check answer, but the call answered %s instead of %s' % (
                                iops[i].split(' hb=')[1].split()[0], y.split(' ')[0][4:], x.split(' ')[0][4:]), iops, header + ['http on']))
                        else:
                            a['divergences'].append((name, i, x, y, iops, header + ['http on']))
                        break
            pops = [gen.parse_op(o) for o in mops]
            sts = [parse_line(l) for l in tr]
            if len(sts) != len(pops):
                a['extras'].append('http: impl trace of %s has %d lines for %d ops' % (name, len(sts), len(pops)))
                continue
            a['evaluations'] += len(pops)
            kinds[name.split('_', 2)[2].split('_')[0]] += 1
            for m in (monitors.mon_C05, monitors.mon_healthy):
                for (idx, msg) in m(ctx, pops, sts):
                    a['monitor_fail'].append((name, idx, 'real HTTP: ' + msg, iops, header + ['http on']))
        a['distinct'] += len(hs)
        a['traces'] = a.get('traces', 0) + len(impl)
        a['dist'] = dict(a.get('dist', {}), **{'http_' + k: v for k, v in kinds.items()})
        a['dist'].update({'json_' + k: v for k, v in JSON_STATS.items()})
        if JSON_STATS.get('model_failed'):
            a['extras'].append('json: the model driver did not answer for every generated tree')
        if hs:
            a['samples'].append({'history': hs[0][0], 'ops': hs[0][1][:12]})
        json_text_stream(a, tier, rnd, ctx, work + 'jt', model_ok)
        return a
    finally:
        ctx.cleanup()
        shutil.rmtree(work, ignore_errors=True)
        shutil.rmtree(work + 'jt', ignore_errors=True)


def build_C07(ctx, tier, rnd):
    hs = []
    h2 = ctx.p['2']['hash']
    good = ctx.p['2']['sig']
    import base64 as b64
    rawsig = b64.b64decode(good)
    variants = {
        'valid': good, 'absent': None, 'trunc': good[:-8], 'empty': '',
        'urlsafe': b64.urlsafe_b64encode(rawsig).decode(), 'nopad': good.rstrip('='),
        'otherkey': sign(h2, which=2), 'othermsg': ctx.p['3']['sig'], 'notb64': '!!!not base64!!!',
        'flipped': b64.b64encode(bytes([rawsig[0] ^ 1]) + rawsig[1:]).decode(),
    }
    ctx.sigs.append((KEY2, h2, variants['otherkey']))
    keys = {'k1': KEY1, 'kbad': 'not-base64-key!!', 'kjunk': b64.b64encode(b'this is not a DER key').decode(), 'k2': KEY2,
            # a key entry that is present but unusable is still a key: it rejects every patch, it does not switch verification off
            'kempty': '', 'kspace': '   ', 'karmor': '-----BEGIN PUBLIC KEY----- -----END PUBLIC KEY-----',
            'kpem': '-----BEGIN PUBLIC KEY----- ' + KEY1 + ' -----END PUBLIC KEY-----', 'knl': KEY1[:40] + '\n' + KEY1[40:]}
    for kn, key in keys.items():
        al = gen.Alphabet(ctx, key=key)
        for vn, sg in variants.items():
            for pk in ('empty', 'good1', 'good1pend2') if kn == 'k1' else ('empty', 'good1'):
                ops = [al.init] + al.seq(PFX[pk]) + [op_update(ctx, 2, sig=sg), 'op nextnum', 'op nextpath', 'op start', 'op curnum', 'op success', 'op kill', al.init, 'op nextnum']
                hs.append(('c07_%s_%s_%s' % (kn, vn, pk), ops))
        # tampering after a valid install, same size and different size, then every continuation
        for dm in ('dS2', 'dT2', 'dE2', 'dF2', 'dD2'):
            for cont in (('q',), ('s', 'c'), ('R', 'q'), ('p', 's', 'ok', 'q')):
                for pk in ('empty', 'good1'):
                    ops = [al.init] + al.seq(PFX[pk]) + [op_update(ctx, 2, signed=True)] + al.seq([dm]) + al.seq(cont) + ['op nextpath']
                    hs.append(('c07t_%s_%d' % (kn, len(hs)), ops))
    al = gen.Alphabet(ctx, key=KEY1)
    # the digest spelled in upper case by the server (the signature is over the file's own, lower-case, digest): installs, stays
    # selected and boots like any other
    for i, seq in enumerate((('uU2', 'q', 'p', 's', 'c', 'ok', 'R', 'q'), ('u1', 's', 'ok', 'uU2', 'q', 'R', 'q', 's', 'ok', 'c'), ('uU1', 'R', 'q', 'uU1', 'q', 'u2', 'q'),
                             ('u1', 's', 'ok', 'u2', 'uU1', 'u3', 's', 'fail', 'q'))):
        hs.append(('c07U%d' % i, [al.init] + al.seq(seq)))
    hs += double_damage(al, 'c07dd')
    labels = ['q', 'p', 's', 'ok', 'fail', 'R', 'u1', 'u2', 'u3', 'uns2', 'dS1', 'dS2', 'dT2', 'rb1', 'c']
    hs += gen.random_walks(al, labels, [2] * len(labels), 100 if tier == 'quick' else 3000, (6, 25), rnd, name='c07r')
    hs += gen.exhaustive(al, ['q', 's', 'ok', 'R', 'u1', 'uns2', 'u2', 'dS1', 'dS2'], 3 if tier == 'quick' else 4, name='c07x')
    return hs


def build_C08(ctx, tier, rnd):
    hs = []
    al = gen.Alphabet(ctx)
    depth = 3 if tier == 'quick' else 4
    olds = list(__import__('itertools').product(['u1', 'u2', 's', 'ok', 'fail', 'R', 'rb1'], repeat=depth))
    olds += [PFX[k] for k in PFX]
    for old in olds:
        for rv in ('RV', 'RV0'):
            for tail in (('q', 'c', 'p'), ('c', 'u1', 'q'), ('u2', 'q', 's', 'c')):
                hs.append(('c08_%d' % len(hs), [al.init] + al.seq(old) + al.seq([rv]) + al.seq(tail)))
    # queued events and bans of the old release must not reach the new one
    for old in (('u1', 's', 'fail'), ('u1', 's', 'R'), ('u1', 's', 'ok', 'u2', 'R', 's', 'fail')):
        hs.append(('c08e_%d' % len(hs), [al.init] + al.seq(old) + al.seq(['RV', 'upnone', 'u1', 'q', 'u2', 'q'])))
    # the record of WHICH release the stored state was written for is itself lost or cut short (an interrupted save of
    # state.json) when the release changes: nothing of the old release may be taken over on the strength of the other files
    for old in [PFX[k] for k in sorted(PFX)] + [('u1', 's', 'ok', 'u2', 's', 'fail'), ('u1', 's', 'fail', 'u2')]:
        for dmg in ('op dmg sj garbage', 'op dmg sj missing', 'op dmg rawsj @empty', 'op dmg rawsj @sjcut'):
            for rv in ('RV', 'RV0'):
                hs.append(('c08d_%d' % len(hs), [al.init] + al.seq(old) + [dmg] + al.seq([rv, 'q', 'c', 'p', 'u1', 'q'])))
    ctx.add_blob('empty', b'')
    ctx.add_blob('sjcut', b'{\n  "release_version": "1.0.0+1",\n  "queued_events": [')
    return hs


def trig_relchange(o, pre, st):
    return o['kind'] == 'init' and isinstance(pre['sj'], dict) and pre['sj']['rel'] != o['rel'] and \
        (pstate(pre)['nb'] is not None or pstate(pre)['bad'] or pre['sj']['evq'])


def build_C14(ctx, tier, rnd):
    hs = []
    al = gen.Alphabet(ctx, chan='beta')
    al.ops['i2same'] = [al.init]
    al.ops['i2key'] = [op_init(key=KEY1)]
    al.ops['i2nopath'] = [op_init(paths=False)]
    al.ops['i2chan'] = [op_init(chan='other', app='app-2')]
    seconds = ['i2', 'i2bad', 'i2same', 'i2key', 'i2nopath', 'i2chan']
    depth = 3 if tier == 'quick' else 4
    base_l = ['u1', 's', 'ok', 'fail', 'u2', 'q']
    for combo in __import__('itertools').product(base_l, repeat=depth):
        for pos in range(depth + 1):
            sec = seconds[(len(hs)) % len(seconds)]
            seq = list(combo[:pos]) + [sec] + list(combo[pos:]) + ['upnone', 'q', 'c']
            hs.append(('c14_%d' % len(hs), [al.init] + al.seq(seq)))
    return hs


def trig_init2(o, pre, st):
    return o['kind'] == 'init' and st['out'] == 'false'


def build_C20(ctx, tier, rnd):
    hs = []
    strs = ['stable', 'beta', 'Ünï-çødé ✓', 'a b', 'x' * 40, '1.2.3+4', 'chan/with:odd#chars', '日本語', '', ' ', '\t']     # (blank is a channel name like any other)
    n = 40 if tier == 'quick' else 600
    for i in range(n):
        ychan = rnd.choice([None, None] + strs)
        app = rnd.choice(['app-1', 'Äpp', 'a' * 30, strs[2]])
        rel = rnd.choice(['1.0.0', '1.0.0+7', '9', strs[7]])
        init = op_init(rel=rel, app=app, chan=ychan)
        ops = [init]
        for _ in range(rnd.randrange(3, 12)):
            ch = rnd.choice([None, None] + strs)
            k = rnd.randrange(8)
            if k == 0:
                ops.append(op_check(ctx, 2, ch=ch))
            elif k == 1:
                ops.append(op_update(ctx, rnd.choice([1, 2, 3]), ch=ch))
            elif k == 2:
                ops.append(op_update_nopatch(ch=ch))
            elif k == 3:
                ops.append('op check %s err' % hx(ch))
            elif k == 4:
                ops += ['op start', 'op failure']
            elif k == 5:
                ops += ['op start', 'op success']
            elif k == 6:
                ops += ['op kill', init]
            else:
                ops.append(op_init(rel='7.7', app='intruder', chan='leak'))
        hs.append(('c20_%d' % i, ops))
    return hs


def trig_request(o, pre, st):
    return any(x.startswith('C:') for x in st['net'])



RENUM = {'1': '9', '2': '10', '3': '100', '5': '1000'}


def renumber(ops, m=RENUM):
    """rewrites the patch numbers of a history (offers, rollback lists, damage ops); contents and hashes stay"""
    out = []
    for o in ops:
        o = re.sub(r'(?<= p=)(\d+)(?=:)', lambda k: m.get(k.group(1), k.group(1)), o)
        o = re.sub(r'(?<= rb=)([0-9;]+)', lambda k: ';'.join(m.get(x, x) for x in k.group(1).split(';')), o)
        o = re.sub(r'^(op dmg (?:delfile|deldir|setart|trunc|ext|same|artisfile|artfileisdir) )(\d+)', lambda k: k.group(1) + m.get(k.group(2), k.group(2)), o)
        out.append(o)
    return out


def build_life(ctx, tier, rnd, labels=None, extra_pfx=(), depth=None, walks=None, key=None):
    al = gen.Alphabet(ctx, key=key)
    labels = labels or LIFE
    depth = depth or (3 if tier == 'quick' else 4)
    hs = []
    pf = [PFX[k] for k in ('empty', 'good1', 'good1pend2', 'good1boot2', 'good2pend1', 'boot2pend3', 'good1boot2pend3')] + list(extra_pfx)
    for pre in pf:
        hs += gen.exhaustive_exact(al, labels, depth, prefixes=(pre,), name='L%d_' % len(hs), suffix=('q', 'c'))
    wl = labels + ['p', 'c', 'q', 'u1b', 'rb12', 'rb221', 'u3rb2', 'u2rb2', 'crb2', 'crb1', 'udl2', 'uh3', 'i2', 'dJ', 'uU1', 'uU2']
    # a number that is re-offered under another spelling of the same metadata (upper-case digest) while it is the last good,
    # the pending or the booting patch, followed by a third install, a failure, a restart: records of one number that are
    # not equal as text
    for i, seq in enumerate((('u1', 's', 'ok', 'u2', 'uU1', 'u3', 's', 'fail', 'q', 'p'), ('u1', 's', 'ok', 'u2', 'uU1', 'u3', 'R', 's', 'R', 'q'),
                             ('u1', 's', 'ok', 'uU1', 'u2', 's', 'fail', 'q'), ('uU1', 's', 'ok', 'u2', 'u1', 'u3', 's', 'fail', 'q'),
                             ('u1', 's', 'uU1', 'ok', 'R', 'q', 'u2', 's', 'fail', 'q'), ('u1', 's', 'ok', 'u2', 's', 'uU2', 'ok', 'R', 'q', 'c'),
                             ('uU2', 'u2', 'q', 'R', 'q', 's', 'ok', 'q', 'c'), ('u1', 's', 'ok', 'u2', 'uU2', 'q', 'R', 's', 'ok', 'c'),
                             ('u1', 's', 'ok', 'u2', 'uU1', 'rb1', 'q'), ('u2', 's', 'ok', 'u1', 'uU2', 'u3', 's', 'fail', 'q', 'R', 'q'))):
        hs.append(('Lsp%d' % i, [al.init] + al.seq(seq)))
    walks_ = gen.random_walks(al, wl, [1] * len(wl), walks or (150 if tier == 'quick' else 4000), (10, 40), rnd, name='Lr')
    hs += walks_
    # the same walks with the patches numbered 9, 10, 100 (and 5 -> 1000): numeric order kept, the order of the decimal
    # strings / directory names reversed - anything that compares names instead of numbers shows here
    hs += [(n_ + 'rn', renumber(o_)) for n_, o_ in walks_[:(40 if tier == 'quick' else 1200)]]
    return hs


def build_C09(ctx, tier, rnd):
    hs = build_life(ctx, tier, rnd, labels=['q', 's', 'ok', 'fail', 'R', 'u1', 'u2', 'u3', 'rb1', 'rb5', 'ck2', 'udl3', 'uperr'])
    # scale: a long-running process (hundreds of calls, installs and launch reports without a restart in between, the
    # same query repeated many times) - anything that accumulates or is cached across calls
    al = gen.Alphabet(ctx)
    wl = ['q', 'q', 'q', 'p', 'c', 's', 'ok', 'fail', 'u1', 'u2', 'u3', 'u1b', 'rb1', 'rb2', 'rb12', 'ck2', 'upnone', 'uperr', 'udl2']
    longs = [('long%d' % i, o_) for i, (_, o_) in enumerate(gen.random_walks(al, wl, [1] * len(wl), 3 if tier == 'quick' else 40, (400, 600), rnd, name='long'))]
    hs += longs + [(n_ + 'rn', renumber(o_)) for n_, o_ in longs[-1:]]     # (short names: the name becomes a directory)
    # the same promise for an app built with a signing key (every read of the selection re-validates it against the recorded
    # metadata and the signature): correctly signed installs, also with the digest spelled in upper case by the server
    alk = gen.Alphabet(ctx, key=KEY1)
    for i, seq in enumerate((('u2', 'q', 'p', 'R', 'q', 's', 'c', 'ok', 'q'), ('uU2', 'q', 'p', 'R', 'q', 's', 'c', 'ok', 'R', 'q'),
                             ('u1', 's', 'ok', 'uU2', 'q', 'ck2', 'q', 'rb5', 'q', 'upnone', 'q', 'uperr', 'q', 'R', 'q', 's', 'ok', 'q'),
                             ('uU1', 'q', 'upnone', 'q', 'udl3', 'q', 'R', 'q'), ('u1', 's', 'ok', 'u2', 'uU1', 'q', 'R', 'q', 'u3', 'q'),
                             ('u1', 'u2', 'q', 'u1b', 'q', 'R', 'q'))):
        hs.append(('c09k%d' % i, [alk.init] + alk.seq(seq)))
    hs += gen.random_walks(alk, ['q', 'p', 's', 'ok', 'fail', 'R', 'u1', 'u2', 'u3', 'uU1', 'uU2', 'rb1', 'rb5', 'ck2', 'upnone', 'uperr'], [1] * 16,
                           30 if tier == 'quick' else 800, (8, 30), rnd, name='c09kr')
    return hs


C09_RULE = ('exhaustive depth-k continuations of 7 lifecycle prefixes incl. lower-numbered installs and installs during boot + random walks; updates that fail '
            'INSIDE the install (a file where patches/<n> must be a directory) from states with a pending patch: the selection and its artifact must stay; non-trivial as C03')


def run_C09(pid, tier, seed, model_ok=True):
    a = run_lifecycle(pid, tier, seed, build_C09, [monitors.mon_C09, monitors.mon_healthy], trig_life, C09_RULE, model_ok=model_ok)
    # "failed or no-op updates" include the ones that fail after the download verified, while the artifact is being moved into
    # place; the model has no word for a file squatting on patches/<n>, so this stream is judged on the implementation only
    ctx = Ctx(seed=seed)
    work = os.path.join(CACHE, 'work-%s-fi-%d' % (pid, os.getpid()))
    try:
        al = gen.Alphabet(ctx)
        header = ctx.header()
        hs = []
        for pk in ('good1pend2', 'good1boot2', 'pend1', 'good2pend1', 'good1'):
            for n in (1, 2, 3):
                for tail in (['q'], ['R', 'q'], ['s', 'ok', 'q']):
                    hs.append(('fi_%s_%d_%s' % (pk, n, '.'.join(tail)), [al.init] + al.seq(PFX[pk]) + ['op nextnum', 'op dmg artisfile %d' % n, al.ops['u%d' % n][0], 'op nextnum'] + al.seq(tail)))
        _, impl, ex = run_both(header, hs, work, impl_only=True)
        a['extras'] += [x for x in ex if 'PANIC' in x or 'CRASH' in x]
        nfi = 0
        for name, ops in hs:
            tr = impl.get(name)
            if tr is None or len(tr) != len(ops):
                a['extras'].append('C09 failing-install stream: incomplete trace for %s' % name)
                continue
            st = [parse_line(l) for l in tr]
            k = next(i for i, o in enumerate(ops) if ' dmg artisfile ' in o)
            sel, n = st[k - 1]['out'], int(ops[k].split()[-1])
            had = st[k - 1]['arts'].get(int(sel)) if sel != '0' else None
            nfi += 1
            if sel != '0' and int(sel) != n and st[k + 1]['out'] != '1':
                if st[k + 2]['out'] != sel or st[k + 2]['arts'].get(int(sel)) != had:
                    a['monitor_fail'].append((name, k + 2, 'C09: patch %s was selected, an update to patch %d failed (status %s) and nothing concerned %s, yet the selection is now %s (artifact %s -> %s)' % (
                        sel, n, st[k + 1]['out'], sel, st[k + 2]['out'], had, st[k + 2]['arts'].get(int(sel))), ops, header))
        a['evaluations'] += nfi
        a['dist'] = dict(a.get('dist', {}), updates_failing_inside_the_install=nfi)
        return a
    finally:
        ctx.cleanup()
        shutil.rmtree(work, ignore_errors=True)


def build_C03(ctx, tier, rnd):
    return build_life(ctx, tier, rnd, labels=['q', 's', 'ok', 'fail', 'R', 'u1', 'u2', 'u3', 'rb2', 'rb5', 'ck2', 'dD2', 'dT1'])


def build_C10(ctx, tier, rnd):
    labels = ['q', 's', 'ok', 'R', 'u1', 'u2', 'rb1', 'rb2', 'rb5', 'rb12', 'rb221', 'rbe', 'crb1', 'crb2', 'u3rb2', 'u2rb2']
    return build_life(ctx, tier, rnd, labels=labels, depth=3 if tier == 'quick' else 4)


def build_C17(ctx, tier, rnd):
    hs = build_life(ctx, tier, rnd, labels=['s', 'ok', 'fail', 'R', 'u1', 'u2', 'upnone', 'uperr', 'ck2', 'rb1', 'q'])
    al = gen.Alphabet(ctx)
    # many failures before an update, restarts in between
    for n in range(1, 6):
        seq = []
        for j in range(n):
            seq += ['u%d' % (1 + j % 3), 'R', 's', 'fail' if j % 2 == 0 else 'R']
        hs.append(('c17many%d' % n, [al.init] + al.seq(seq + ['R', 'upnone', 'q', 'upnone'])))
        hs.append(('c17manyb%d' % n, [al.init] + al.seq(seq + ['uperr', 'u2', 'R', 's', 'ok', 'R', 's', 'ok'])))
    # two failures queued by a fallback chain (2 fails, falls back to 1, 1 fails) with restarts, then every kind of update
    for f2 in (['fail'], ['R']):
        for f1 in (['fail'], ['R']):
            for mid in ([], ['R'], ['q', 'R', 'q']):
                for fl in ('upnone', 'uperr', 'u3', 'udl3', 'rb5'):
                    seq = ['u1', 's', 'ok', 'u2', 'R', 's'] + f2 + mid + ['s'] + f1 + ['R'] + [fl, 'q', 'upnone']
                    hs.append(('c17chain%d' % len(hs), [al.init] + al.seq(seq)))
    # queues of 0..6 stored events (as an older run of the same release left them), then an update: at most
    # three are sent, oldest first, before the check, and the queue is empty afterwards
    tag = '%s.%s' % (hx(APP), hx(REL1))
    pool = ['F.2.%s.e' % tag, 'F.1.%s.i' % tag, 'F.3.%s.e' % tag, 'F.5.%s.i' % tag, 'F.7.%s.e' % tag, 'F.9.%s.i' % tag, 'S.4.%s.n' % tag, 'D.6.%s.n' % tag]
    for n in range(0, 7):
        for rot in range(3 if tier == 'quick' else 7):
            evs = [pool[(rot + j) % len(pool)] for j in range(n)]
            q = 'op dmg sjq %s %s' % (hx(REL1), ','.join(evs) or '-')
            for fl in ('upnone', 'uperr', 'u2'):
                hs.append(('c17q%d' % len(hs), [al.init] + al.seq(['u1', 's', 'ok']) + [q] + al.seq(['q', 'R', 'q', fl, 'q', 'upnone'])))
                hs.append(('c17q%d' % len(hs), [al.init, q] + al.seq(['s', 'fail', fl, 'q'])))
                # ... and a failure that is queued ON TOP of a stored queue (four and more unsent events, the newest added by
                # the library itself): nothing already waiting may be dropped or reordered by the addition
                if n >= 2:
                    hs.append(('c17q%d' % len(hs), [al.init] + al.seq(['u1']) + [q] + al.seq(['s', 'fail', 'q', 'R', 'q', fl, 'q', 'upnone'])))
                    hs.append(('c17q%d' % len(hs), [al.init] + al.seq(['u1']) + [q] + al.seq(['s', 'R', 'q', fl, 'q'])))
    # long and non-ASCII messages in stored events (a multi-byte character at every offset around 256 bytes): they are re-sent as stored
    for k in range(4):
        msg = 'a' * (253 + k) + '\u00e9' * 40
        for fl in ('upnone', 'u2'):
            hs.append(('c17long%d%s' % (k, fl), [al.init] + ['op dmg rawsj @c17long%d' % k] + al.seq([fl, 'q', 'upnone'])))
        ctx.add_blob('c17long%d' % k, __import__('json').dumps({'release_version': REL1, 'queued_events': [
            {'app_id': APP, 'arch': os.environ.get('UV_ARCH', 'x86_64'), 'type': '__patch_install_failure__', 'patch_number': 2, 'platform': 'linux',
             'release_version': REL1, 'timestamp': 1700000000, 'message': msg}]}, ensure_ascii=False).encode('utf-8'))
    return hs


def build_C18(ctx, tier, rnd):
    return build_life(ctx, tier, rnd, labels=['c', 'q', 's', 'ok', 'fail', 'R', 'u1', 'u2', 'u3', 'rb1', 'rb5', 'ck2'])


def build_C19(ctx, tier, rnd):
    hs = build_life(ctx, tier, rnd, labels=['s', 'ok', 'fail', 'R', 'u1', 'u2', 'u3', 'rb1', 'rb2', 'dJ', 'RV', 'q'])
    # a hidden, non-empty stray directory in patches/ while patches fail, are rolled back and are superseded
    al = gen.Alphabet(ctx)
    for i, seq in enumerate((('dJh', 'u1', 's', 'fail', 'q'), ('u1', 'dJh', 's', 'fail', 'q', 'R', 'q'), ('u1', 's', 'ok', 'u2', 'dJh', 'rb2', 'q'),
                             ('u1', 's', 'ok', 'dJh', 'u2', 'u3', 'q', 's', 'fail', 'q'), ('dJh', 'u1', 's', 'ok', 'u2', 's', 'ok', 'q'),
                             ('u1', 'dJh', 'rb1', 'q', 'u2', 's', 'R', 'q'), ('dJh', 'u2', 'u1', 's', 'ok', 'R', 'q'))):
        hs.append(('c19h%d' % i, [al.init] + al.seq(seq)))
    return hs


def trig_life(o, pre, st):
    p = pstate(pre)
    return (p['nb'] is not None or p['lb'] is not None) and o['kind'] in ('update', 'check', 'success', 'failure', 'init', 'start')


def trig_rb(o, pre, st):
    return o['kind'] in ('update', 'check') and bool(o.get('resp')) and bool(o['resp']['rb'])


def trig_events(o, pre, st):
    return any(x.startswith('E:') for x in st['net']) or (isinstance(st['sj'], dict) and st['sj']['evq'] != (pre['sj']['evq'] if isinstance(pre['sj'], dict) else []))


def trig_cur(o, pre, st):
    return o['kind'] == 'curnum' and st['out'] != '0'



# ------------------------------------------------------------------ C16 (custom runner)
def gen_pairs(tier, rnd):
    """(base, new) pairs: tiny, identical, unrelated, structured edits, repeated blocks, sizes crossing
    the 4096 / 8192 / 65536 buffer sizes; base is never empty"""
    pairs = []
    rb = lambda n: bytes(rnd.randrange(256) for _ in range(n))

    def edits(b, k):
        b = bytearray(b)
        for _ in range(k):
            pos = rnd.randrange(len(b) + 1)
            op = rnd.randrange(3)
            if op == 0:
                b[pos:pos] = rb(rnd.randrange(1, 40))
            elif op == 1:
                del b[pos:pos + rnd.randrange(1, 40)]
            else:
                b[pos:pos + rnd.randrange(1, 20)] = rb(rnd.randrange(1, 20))
        return bytes(b)
    sizes = [1, 2, 7, 31, 100, 1000, 4095, 4096, 4097, 8191, 8192, 8193, 12000, 20000]
    if tier == 'thorough':
        sizes += [65535, 65536, 65537, 131072, 200000]
    for n in sizes:
        base = rb(n)
        pairs.append(('ident%d' % n, base, base))
        pairs.append(('edit%d' % n, base, edits(base, 1 + n // 2000)))
        pairs.append(('unrel%d' % n, base, rb(max(0, n + rnd.randrange(-5, 6)))))
        pairs.append(('empty%d' % n, base, b''))
        pairs.append(('prefix%d' % n, base, base[:n // 2] + rb(n // 3 + 1)))
        pairs.append(('suffix%d' % n, base, rb(n // 3 + 1) + base[n // 2:]))
        blk = rb(max(1, min(64, n // 4 + 1)))
        pairs.append(('rep%d' % n, blk * (n // len(blk) + 1), blk * (n // len(blk) + 3) + base[:5]))
        pairs.append(('grow%d' % n, base, base + rb(n)))
        pairs.append(('shrink%d' % n, base, base[n // 3:n // 3 + n // 4]))
    for i in range(20 if tier == 'quick' else 300):
        n = rnd.choice([1, 3, 50, 500, 5000, 9000])
        base = rb(n)
        pairs.append(('rnd%d' % i, base, edits(base, rnd.randrange(0, 8))))
    return pairs


def run_C16(pid, tier, seed, model_ok=True):
    import hashlib
    from concurrent.futures import ThreadPoolExecutor
    rnd = random.Random(seed)
    work = os.path.join(CACHE, 'work-C16-%d' % os.getpid())
    os.makedirs(work, exist_ok=True)
    pairs = gen_pairs(tier, rnd)
    big = []
    # incompressible unrelated targets: the compressed patch itself exceeds 1 MiB
    rbig = lambda n: random.Random(seed + n).randbytes(n)
    big.append(('unrelbig', rbig(700000), rbig(1600000)))
    if tier == 'thorough':
        big.append(('unrelbig2', rbig(3 << 20), rbig((3 << 20) + 12345)))
    if tier == 'thorough':
        for n in (1 << 20, 3 << 20):
            base = bytes(rnd.randrange(256) for _ in range(4096)) * (n // 4096)
            new = bytearray(base)
            for _ in range(50):
                pos = rnd.randrange(len(new)); new[pos:pos + 10] = bytes(rnd.randrange(256) for _ in range(17))
            big.append(('big%d' % n, base, bytes(new)))
    fails, divs, extras, samples = [], [], [], []
    evals = 0
    distinct = set()
    lsm_tables = []
    nbs = [0]
    nleft = [0]

    def one(item):
        name, base, new = item
        d = os.path.join(work, name)
        os.makedirs(d, exist_ok=True)
        open(os.path.join(d, 'b'), 'wb').write(base)
        open(os.path.join(d, 'n'), 'wb').write(new)
        subprocess.run([UVH, 'mkpatch', os.path.join(d, 'b'), os.path.join(d, 'n'), os.path.join(d, 'p')], check=True, capture_output=True)
        ms = subprocess.run([UVH, 'matches', os.path.join(d, 'b'), os.path.join(d, 'n')], check=True, capture_output=True, text=True).stdout.split('\n')
        ms = [m.strip().replace(' ', '.') for m in ms if m.strip()]
        dl = open(os.path.join(d, 'p.patch'), 'rb').read()
        raw = open(os.path.join(d, 'p.raw'), 'rb').read()
        h = hashlib.sha256(new).hexdigest()
        small = len(base) <= 300000 and len(new) <= 300000
        lines = ['blob base %s' % base.hex(), 'blob new %s' % (new.hex() or 'e'), 'blob raw %s' % raw.hex(), 'blob dl %s' % dl.hex(),
                 'zdec @dl @raw', 'base @base']
        chunk_real = {}
        if small and model_ok:
            lines += ['wfm @base @new %s' % (','.join(ms) or '-'), 'sdiff @base @new %s' % (','.join(ms) or '-'), 'applypatch @base @raw']
            # the model's scan loop (Bsdiff.v) fed with what the real suffix-array matcher answers at every position
            if len(new) <= (30000 if tier == 'thorough' else 9000) and len(base) > 0:
                tb = subprocess.run([UVH, 'lsm', os.path.join(d, 'b'), os.path.join(d, 'n')], check=True, capture_output=True, text=True).stdout.split()
                lsm_tables.append((name, len(base), len(new), tb))
                lines.append('bsdiff @base @new %s' % (','.join(tb) or '-'))
            # the Reader pulled through read() with assorted buffer-size schedules, on the genuine stream and on
            # a truncated and a corrupted one (error for error)
            if len(new) <= 40000:
                r2 = random.Random(len(raw) * 31 + len(new))
                variants = {'raw': raw, 'rawt': raw[:r2.randrange(8, max(9, len(raw)))]}
                fl = bytearray(raw)
                if len(fl) > 9:
                    fl[r2.randrange(8, len(fl))] ^= 1 << r2.randrange(8)
                variants['rawf'] = bytes(fl)
                specs = ['1', '7,3', '4096', '4097,1', '65536', '5000,4095,2', '%d' % r2.randrange(2, 9000)]
                if len(new) > 6000:
                    specs = specs[1:]
                for vn, vb in variants.items():
                    if vn != 'raw':
                        lines.insert(0, 'blob %s %s' % (vn, vb.hex()))
                    open(os.path.join(d, vn), 'wb').write(vb)
                    rr = subprocess.run([UVH, 'inflatechunks', os.path.join(d, 'b'), os.path.join(d, vn)] + specs, capture_output=True, text=True)
                    for l in rr.stdout.splitlines():
                        k, _, v = l.partition('=')
                        chunk_real[(vn, k)] = v
                    for sp in specs:
                        lines.append('chunked %s @base @%s' % (sp, vn))
        # every second small pair: an earlier attempt for the same patch number (a patch to a LONGER target, rejected by
        # the hash gate) has left downloads/1 and downloads/1.full behind; the tool's patch must still install
        pre_ops = []
        if small and len(new) <= 60000 and (len(base) + len(new)) % 2 == 0 and len(base) > 0:
            longer = new + bytes(random.Random(len(new)).randrange(256) for _ in range(3000 + len(new) % 777))
            open(os.path.join(d, 'n2'), 'wb').write(longer)
            subprocess.run([UVH, 'mkpatch', os.path.join(d, 'b'), os.path.join(d, 'n2'), os.path.join(d, 'p2')], check=True, capture_output=True)
            dl2 = open(os.path.join(d, 'p2.patch'), 'rb').read()
            raw2 = open(os.path.join(d, 'p2.raw'), 'rb').read()
            lines = ['blob dlx %s' % dl2.hex(), 'blob rawx %s' % raw2.hex(), 'zdec @dlx @rawx'] + lines
            pre_ops = ['op update - %s @dlx' % resp(True, (1, h, 'http://dl/1', None), None)]
        lines += ['history ' + name, op_init()] + pre_ops + ['op update - %s @dl' % resp(True, (1, h, 'http://dl/1', None), None), 'op nextpath', 'op nextnum']
        f = os.path.join(d, 'x.ops')
        open(f, 'w').write('\n'.join(lines) + '\n')
        mo = subprocess.run(['bash', '-c', 'ulimit -s unlimited; exec "$0" "$1"', DRIVER, f], capture_output=True, text=True) if (small and model_ok) else None
        im = subprocess.run([UVH, 'replay', f, os.path.join(d, 'w')], capture_output=True, text=True)
        shutil.rmtree(d, ignore_errors=True)
        return name, base, new, raw, ms, mo, im, lines, chunk_real

    with ThreadPoolExecutor(max_workers=NPROC) as ex:
        results = list(ex.map(one, pairs + big))
    nchunk = 0
    for name, base, new, raw, ms, mo, im, lines, chunk_real in results:
        evals += 1
        header = [l for l in lines if not l.startswith('op ') and not l.startswith('history ')]
        ops = [l for l in lines if l.startswith('op ')]
        distinct.add((len(base), len(new), len(ms)))
        itr = [l for l in im.stdout.splitlines() if l.startswith('out=')]
        nlo = 0
        if len(itr) == 5:      # the leftover-producing attempt must have been rejected; then judge the rest as usual
            if not itr[1].startswith('out=-1 '):
                extras.append('C16 leftover attempt for %s was not rejected: %s' % (name, itr[1][:80]))
            itr = [itr[0]] + itr[2:]
            nlo = 1
            nleft[0] += 1
        if im.returncode != 0 or len(itr) != 4:
            fails.append((name, 1, 'C16: the patch the tool built for (%d -> %d bytes) could not be applied through the library at all (run ended rc=%d after %d of 4 results) %s' % (
                len(base), len(new), im.returncode, len(itr), (im.stdout + im.stderr)[-200:].replace('\n', ' ')), ops, header))
            continue
        st = [parse_line(l) for l in itr]
        want = art_tag(new)
        if st[1]['out'] != '1' or st[1]['arts'].get(1) != want or st[2]['out'] != 'path:1':
            fails.append((name, 1, 'C16: patch built by the tool for (%d -> %d bytes) did not install back to the new binary: status %s artifact %s expected %s' % (
                len(base), len(new), st[1]['out'], st[1]['arts'].get(1), want), ops, header))
        if mo is not None:
            if mo.returncode != 0:
                extras.append('model run failed for %s: %s' % (name, mo.stderr[-300:]))
                continue
            out = mo.stdout.splitlines()
            kv = dict(l.split('=', 1) for l in out if '=' in l and not l.startswith('out='))
            mtr = [l for l in out if l.startswith('out=')]
            if nlo and len(mtr) == 5:
                mtr = [mtr[0]] + mtr[2:]
            if kv.get('wfm') != 'true':
                divs.append((name, 0, 'wf_matches = %s on the matches bidiff emitted' % kv.get('wfm'), 'matches: %s' % ms[:5], ops, header))
            if 'bsdiff' in kv:
                nbs[0] += 1
                if kv['bsdiff'] != (','.join(ms) or '-'):
                    divs.append((name, 0, 'model scan loop (Bsdiff.v) emits %s' % kv['bsdiff'][:200], 'real BsdiffIterator emits %s' % (','.join(ms) or '-')[:200], ops, header))
            if kv.get('sdiff') != '%d.%s' % (len(raw), hashlib.sha256(raw).hexdigest()):
                divs.append((name, 0, 'model writer output %s' % kv.get('sdiff'), 'real bidiff stream %d.%s' % (len(raw), hashlib.sha256(raw).hexdigest()), ops, header))
            if kv.get('apply') != 'ok:%d.%s' % (len(new), hashlib.sha256(new).hexdigest()):
                divs.append((name, 0, 'model apply_patch gives %s' % kv.get('apply'), 'new binary %d.%s' % (len(new), hashlib.sha256(new).hexdigest()), ops, header))
            for i, (a, b) in enumerate(zip(mtr, itr)):
                if a != norm_dls(a, b):
                    divs.append((name, i, a, b, ops, header))
                    break
            for (vn, sp), rv in chunk_real.items():
                nchunk += 1
                mv = kv.get('chunked:@%s:%s' % (vn, sp))
                if mv != rv:
                    divs.append((name, 0, 'model Reader with buffer sizes %s on %s: %s' % (sp, vn, mv), 'real bipatch Reader: %s' % rv, ops, header))
                if vn == 'raw' and rv != 'ok:%d.%s' % (len(new), hashlib.sha256(new).hexdigest()):
                    fails.append((name, 0, 'C16: real Reader with buffer sizes %s does not reproduce the new binary: %s' % (sp, rv), ops, header))
        if len(samples) < 5 and name.startswith(('edit', 'rep', 'big')):
            samples.append({'pair': name, 'base_len': len(base), 'new_len': len(new), 'matches': len(ms), 'patch_len': len(raw)})
    # the hypothesis of C16_scan_loop_emits_wf_matches, checked on every answer of the real matcher
    nlsm = 0
    for name, bl, nl, tb in lsm_tables:
        for sc, e in enumerate(tb):
            a, b = e.split('.')
            nlsm += 1
            if int(a) + int(b) > bl or sc + int(b) > nl:
                divs.append((name, 0, 'lsm_bounded (hypothesis of the scan-loop theorems)', 'the real matcher answered (%s,%s) at scan %d with |old|=%d |new|=%d' % (a, b, sc, bl, nl), [], []))
                break
    # the packaging tools themselves (patch/src/main.rs, patch/src/bin/string_patch.rs), built from the current tree:
    # the file `patch <base> <new> <out>` writes, and the bytes + hash `string_patch <base> <new>` prints, must install
    # through the library to exactly the new binary
    nbin = 0
    tdir = os.path.join(CACHE, 'repo-target')
    pb = sh('timeout 1500 cargo build --offline -p patch --bins 2>&1', cwd=REPO, env=dict(ENVV, CARGO_TARGET_DIR=tdir), timeout=1600)
    exe_p, exe_s = os.path.join(tdir, 'debug', 'patch'), os.path.join(tdir, 'debug', 'string_patch')
    if pb.returncode != 0 or not os.path.exists(exe_p) or not os.path.exists(exe_s):
        extras.append('patch tools do not build: ' + pb.stdout[-400:])
    else:
        os.makedirs(work, exist_ok=True)
        r3 = random.Random(seed + 77)
        cases = []
        for i in range(6 if tier == 'quick' else 40):
            n = r3.choice([1, 40, 700, 4096, 9000])
            base = bytes(r3.randrange(256) for _ in range(n))
            new = bytes(r3.randrange(256) for _ in range(r3.randrange(0, 30))) + base[n // 3:] + bytes(r3.randrange(256) for _ in range(r3.randrange(0, 50)))
            bp, np_, op_ = (os.path.join(work, 'tb%d.%s' % (i, x)) for x in ('b', 'n', 'o'))
            open(bp, 'wb').write(base); open(np_, 'wb').write(new)
            r = subprocess.run([exe_p, bp, np_, op_], capture_output=True, text=True)
            if r.returncode != 0 or not os.path.exists(op_):
                fails.append(('tool%d' % i, 0, 'C16: the patch tool failed on a (%d -> %d byte) pair: rc=%d %s' % (len(base), len(new), r.returncode, r.stderr[-200:]), [], []))
                continue
            cases.append(('tool%d' % i, base, new, open(op_, 'rb').read(), hashlib.sha256(new).hexdigest()))
        # the same tool fed through pipes instead of regular files (`patch base <(build-step) out`, /dev/stdin): what it
        # reads must not depend on what stat() says about its inputs
        for i, (which, n) in enumerate([('new', 700), ('new', 160000), ('base', 9000)]):
            base = bytes(r3.randrange(256) for _ in range(n))
            new = base[: n // 2] + bytes(r3.randrange(256) for _ in range(37)) + base[n // 2:]
            bp, np_, op_, ff = (os.path.join(work, 'tp%d.%s' % (i, x)) for x in ('b', 'n', 'o', 'fifo'))
            open(bp, 'wb').write(base); open(np_, 'wb').write(new)
            if os.path.exists(ff):
                os.remove(ff)
            os.mkfifo(ff)
            args = [exe_p, bp, ff, op_] if which == 'new' else [exe_p, ff, np_, op_]
            pr = subprocess.Popen(args, stdout=subprocess.PIPE, stderr=subprocess.PIPE, text=True)
            payload = new if which == 'new' else base

            def feed(path=ff, data=payload):
                try:
                    with open(path, 'wb') as fw:        # blocks until the tool opens the pipe
                        fw.write(data)
                except OSError:
                    pass
            import threading
            th = threading.Thread(target=feed, daemon=True)
            th.start()
            try:
                so, se = pr.communicate(timeout=120)
            except subprocess.TimeoutExpired:
                pr.kill(); so, se = pr.communicate()
            try:                                         # a tool that never opened the pipe: release the feeder
                fd_ = os.open(ff, os.O_RDONLY | os.O_NONBLOCK)
                th.join(timeout=5)
                os.close(fd_)
            except OSError:
                pass
            os.remove(ff)
            if pr.returncode != 0 or not os.path.exists(op_):
                # refusing a pipe is fine; a patch that is written must be right
                continue
            cases.append(('toolpipe_%s%d' % (which, i), base, new, open(op_, 'rb').read(), hashlib.sha256(new).hexdigest()))
        alphabet = 'abcdefghij klmnop.,;XYZ0123456789'
        for i in range(6 if tier == 'quick' else 40):
            a_ = ''.join(r3.choice(alphabet) for _ in range(r3.randrange(1, 200)))
            b_ = a_[:len(a_) // 2] + ''.join(r3.choice(alphabet) for _ in range(r3.randrange(0, 60))) + a_[len(a_) // 2 + r3.randrange(0, 5):]
            r = subprocess.run([exe_s, a_, b_], capture_output=True, text=True)
            m1 = re.search(r'^Patch: \[([0-9, ]*)\]$', r.stdout, flags=re.M)
            m2 = re.search(r'^Hash \(new\): ([0-9a-f]+)$', r.stdout, flags=re.M)
            if r.returncode != 0 or not m1 or not m2:
                fails.append(('strtool%d' % i, 0, 'C16: string_patch failed or printed no patch/hash: rc=%d %s' % (r.returncode, (r.stdout + r.stderr)[-200:]), [], []))
                continue
            cases.append(('strtool%d' % i, a_.encode(), b_.encode(), bytes(int(x) for x in m1.group(1).split(',') if x.strip()), m2.group(1)))
        for name, base, new, dl, h in cases:
            lines = ['blob base %s' % base.hex(), 'blob dl %s' % dl.hex(), 'base @base', 'history ' + name, op_init(),
                     'op update - %s @dl' % resp(True, (1, h, 'http://dl/1', None), None), 'op nextpath']
            f = os.path.join(work, name + '.ops')
            open(f, 'w').write('\n'.join(lines) + '\n')
            im = subprocess.run([UVH, 'replay', f, os.path.join(work, name + '.w')], capture_output=True, text=True)
            tr = [parse_line(l) for l in im.stdout.splitlines() if l.startswith('out=')]
            nbin += 1
            evals += 1
            if len(tr) != 3 or tr[1]['out'] != '1' or tr[1]['arts'].get(1) != art_tag(new) or tr[2]['out'] != 'path:1':
                fails.append((name, 1, 'C16: what the packaging tool produced for (%d -> %d bytes), with the hash it reports (%s), did not install back to the new binary: %s' % (
                    len(base), len(new), h[:16], [t['out'] for t in tr] + [tr[1]['arts'].get(1) if len(tr) > 1 else None, art_tag(new)]), [l for l in lines if l.startswith('op ')], [l for l in lines if not l.startswith('op ') and not l.startswith('history ')]))
    shutil.rmtree(work, ignore_errors=True)
    return dict(evaluations=evals, distinct=len(distinct), samples=samples, divergences=divs, monitor_fail=fails,
                rule='the `patch` and `string_patch` binaries built from the current tree (%d runs: output file / printed bytes + printed hash install through the library to the new binary); ' % nbin + 'model scan loop with the real matcher as oracle == real BsdiffIterator matches (%d pairs, %d matcher answers all inside the buffers); ' % (nbs[0], nlsm) + '(base,new) pairs: identical / edited / unrelated / empty target / shared prefix or suffix / repeated blocks / grow / shrink at sizes crossing 4096, 8192 (and 65536, MiB in thorough); tool make_patch -> library update installs -> artifact == new; model: wf_matches on real matches, model writer == real bidiff bytes, model reader == new; model Reader state machine == real bipatch Reader under 6-7 buffer-size schedules on the genuine, a truncated and a bit-flipped stream; non-trivial = distinct (|base|,|new|,#matches)',
                dist={'pairs': evals, 'reader_buffer_schedules': nchunk, 'pairs_installed_over_leftovers_of_a_longer_rejected_attempt': nleft[0]}, extras=extras, traces=evals)



# ------------------------------------------------------------------ C11 (schedules)
def sched_orders(a, n0=8, maxn=None):
    """all interleavings: thread 1 has `a` acquisitions, thread 0 up to n0; returns order strings"""
    import itertools
    outs = []
    for pos in itertools.combinations_with_replacement(range(n0 + 1), a):
        o = []
        for j in range(n0 + 1):
            o += ['1'] * sum(1 for p in pos if p == j)
            if j < n0:
                o.append('0')
        o += ['0'] * 10 + ['1'] * 10
        outs.append(','.join(o))
    return outs


def sched_event_faults(post, thread_ops):
    """C17 under concurrency: a download event goes out once for every update of the interleaving that reports
    'installed', and for no other; thread_ops = per thread the list of its op lines"""
    outs = [t.split(',') for t in post['out'].split('|')]
    inst = 0
    for ops_t, outs_t in zip(thread_ops, outs):
        for o, r in zip(ops_t, outs_t):
            if o.split()[1] == 'update' and r == '1':
                inst += 1
    ndl = len([x for x in post['net'] if x.startswith('E:D.')])
    if ndl != inst:
        return ['C17/C11: %d update(s) of the interleaving reported installed (outputs %s) but %d download event(s) were sent (%s)' % (
            inst, post['out'], ndl, [x for x in post['net'] if x.startswith('E:')])]
    return []


C18_RULE = ('exhaustive depth-k lifecycle histories with current/next queries interleaved + random walks; every interleaving of a launch start / success report with an '
            'update that rolls back unrelated numbers (scheduler-controlled real threads): the current patch is the one handed to the engine, also after a restart; '
            'non-trivial = distinct (state, current-patch query answering non-zero)')


def run_C18(pid, tier, seed, model_ok=True):
    a = run_lifecycle(pid, tier, seed, build_C18, [monitors.mon_C18], trig_cur, C18_RULE, model_ok=model_ok)
    # "installing, checking or rolling back other patches never changes it" while those run on another thread
    ctx = Ctx(seed=seed)
    work = os.path.join(CACHE, 'work-%s-sch-%d' % (pid, os.getpid()))
    try:
        al = gen.Alphabet(ctx)
        header = [h for h in ctx.header() if h != 'dls on']
        hs, meta = [], {}
        t1s = {'start': ['op start'], 'start_ok': ['op start', 'op success']}
        for stt, handed in (('good1pend2', 2), ('pend1', 1), ('good1', 1)):
            for uk in ('rb5', 'rb3', 'upnone', 'uperr'):     # updates that install nothing: what is handed out does not depend on the order
                for tk, t1 in t1s.items():
                    orders = sched_orders(len(t1))
                    if tier == 'quick':
                        orders = orders[::2]
                    for oi, order in enumerate(orders):
                        name = 'c18s_%s_%s_%s_%d' % (stt, uk, tk, oi)
                        lines = [al.init] + al.seq(PFX[stt])
                        hs.append((name, lines + ['t0 ' + al.ops[uk][0]] + ['t1 ' + x for x in t1] + ['order ' + order, 'op curnum', 'op kill', al.init, 'op curnum']))
                        meta[name] = (len(lines), handed, tk, uk)
        model, impl, ex = run_both(header, hs, work, impl_only=not model_ok, lockcheck=True)
        ex, lw = unlocked_writes(ex, dict(hs), header)
        a['monitor_fail'] += lw
        a['extras'] += ex
        if model_ok:
            for (h, idx, ml, il) in diff_traces(model, impl):
                a['divergences'].append((h, idx, ml, il, dict(hs)[h], header))
        n = 0
        for name, ops in hs:
            tr = impl.get(name)
            npre, handed, tk, uk = meta[name]
            if tr is None or len(tr) != npre + 5:
                a['extras'].append('C18 schedules: incomplete implementation trace for %s' % name)
                continue
            n += 1
            cur_now = parse_line(tr[npre + 1])['out']
            cur_after = parse_line(tr[npre + 4])['out']
            if cur_now != str(handed):
                a['monitor_fail'].append((name, len(ops) - 4, 'C18: patch %d was handed to the engine at launch start while an update (%s) ran on another thread; the reported current patch is %s' % (handed, uk, cur_now), ops, header))
            if tk == 'start_ok' and cur_after != str(handed):
                a['monitor_fail'].append((name, len(ops) - 1, 'C18: patch %d booted and was reported good while an update (%s) ran on another thread; after a restart the current patch is %s' % (handed, uk, cur_after), ops, header))
        a['evaluations'] += n
        a['dist'] = dict(a.get('dist', {}), launch_report_vs_update_schedules=n)
        a['traces'] = a.get('traces', 0) + len(impl)
        return a
    finally:
        ctx.cleanup()
        shutil.rmtree(work, ignore_errors=True)


def run_C17(pid, tier, seed, model_ok=True):
    a = run_lifecycle(pid, tier, seed, build_C17, [monitors.mon_C17, monitors.mon_C20], trig_events, C17_RULE, model_ok=model_ok)
    # "a download event is sent once after each successful install and never otherwise" when launch reports of another
    # thread land between the critical sections of the update (scheduler-controlled real threads, as in C11)
    ctx = Ctx(seed=seed)
    work = os.path.join(CACHE, 'work-%s-sch-%d' % (pid, os.getpid()))
    try:
        al = gen.Alphabet(ctx)
        header = [h for h in ctx.header() if h != 'dls on']
        hs, meta = [], {}
        others = {'s_fail': ['op start', 'op failure'], 'fail': ['op failure'], 'ok': ['op success'], 'fail_q': ['op failure', 'op nextnum']}
        for stt in ('good1', 'boot1', 'good1boot2', 'good1pend2'):
            for uk in ('u1', 'u2', 'u2rb2'):
                for ok, oops in others.items():
                    orders = sched_orders(2)
                    if tier == 'quick':
                        orders = orders[::3]
                    for oi, order in enumerate(orders):
                        name = 'c17s_%s_%s_%s_%d' % (stt, uk, ok, oi)
                        lines = [al.init] + al.seq(PFX[stt])
                        hs.append((name, lines + ['t0 ' + al.ops[uk][0]] + ['t1 ' + x for x in oops] + ['order ' + order, 'op nextnum']))
                        meta[name] = (len(lines), [[al.ops[uk][0]], oops])
        # "one failure event, sent once": a queued failure event and TWO update attempts overlapping on different threads
        # (the app's own update() while the automatic one is still running)
        queued = {}
        for uk in ('upnone', 'u2'):
            for oi, order in enumerate(sched_orders(2) if tier != 'quick' else sched_orders(2)[::2]):
                name = 'c17q_%s_%d' % (uk, oi)
                lines = [al.init] + al.seq(PFX['boot1']) + ['op failure']
                hs.append((name, lines + ['t0 ' + al.ops[uk][0], 't1 ' + al.ops['upnone'][0], 'order ' + order, 'op nextnum']))
                meta[name] = (len(lines), [[al.ops[uk][0]], [al.ops['upnone'][0]]])
                queued[name] = 1
        model, impl, ex = run_both(header, hs, work, impl_only=not model_ok, lockcheck=True)
        ex, lw = unlocked_writes(ex, dict(hs), header)
        a['monitor_fail'] += lw
        a['extras'] += ex
        if model_ok:
            for (h, idx, ml, il) in diff_traces(model, impl):
                a['divergences'].append((h, idx, ml, il, dict(hs)[h], header))
        n = 0
        for name, ops in hs:
            tr = impl.get(name)
            if tr is None or len(tr) != meta[name][0] + 2:
                a['extras'].append('C17 schedules: incomplete implementation trace for %s' % name)
                continue
            n += 1
            post = parse_line(tr[meta[name][0]])
            for msg in sched_event_faults(post, meta[name][1]):
                a['monitor_fail'].append((name, len(ops) - 1, msg, ops, header))
            if name in queued:
                sent = [x for x in post['net'] if x.startswith('E:F.')]
                if len(sent) != queued[name]:
                    a['monitor_fail'].append((name, len(ops) - 1, 'C17: %d failure event was queued and two update attempts overlapped: it was sent %d time(s) (%s)' % (
                        queued[name], len(sent), sent), ops, header))
        a['evaluations'] += n
        a['dist'] = dict(a.get('dist', {}), update_vs_launch_report_schedules=n)
        a['traces'] = a.get('traces', 0) + len(impl)
        return a
    finally:
        ctx.cleanup()
        shutil.rmtree(work, ignore_errors=True)


def sched_shape(ops):
    """a scheduled history = op lines, then 't0 <op>', 't1 <op>'.., 'order ..', then op lines:
    (number of op lines before the schedule, thread 0 op line, thread 1 op lines, index of the order line)"""
    t0 = [i for i, o in enumerate(ops) if o.startswith('t0 ')]
    od = [i for i, o in enumerate(ops) if o.startswith('order ')]
    if not t0 or not od:
        return None
    npre = len([o for o in ops[:t0[0]] if o.startswith('op ')])
    return npre, ops[t0[0]][3:], [o[3:] for o in ops if o.startswith('t1 ')], od[0]


def judge_c11(ctx, ops, sts):
    """the C11 rules on one scheduled history (C01-C03 after every interleaving); returns [(index into ops, message)]"""
    npre, uop, oops, order_idx = sched_shape(ops)
    fails = []
    pre, post = sts[npre - 1], sts[npre]
    ps = pstate(post)
    for slot in ('nb', 'lb', 'cb'):
        if ps[slot] and ps[slot]['num'] in ps['bad']:
            fails.append((order_idx, 'C11: after the interleaving patch %d is banned AND is the %s patch (outputs %s)' % (ps[slot]['num'], slot, post['out'])))
    for msg in sched_event_faults(post, [[uop], oops]):
        fails.append((order_idx, msg))
    ppre = pstate(pre)
    t1kinds = [x.split()[1] for x in oops]
    if 'failure' in t1kinds and 'start' not in t1kinds and ppre['cb']:
        n = ppre['cb']['num']
        if n not in ps['bad'] or (ps['nb'] and ps['nb']['num'] == n):
            fails.append((order_idx, 'C11: the boot failure of patch %d was reported during the update, yet afterwards it is %s (outputs %s)' % (
                n, 'selected' if ps['nb'] and ps['nb']['num'] == n else 'not banned', post['out'])))
    if t1kinds and t1kinds[0] == 'success' and ppre['cb'] and 'failure' not in t1kinds:
        n = ppre['cb']['num']
        u0 = gen.parse_op(uop)
        touched = n in monitors.listed(u0) or (u0['resp'] and u0['resp']['patch'] and u0['resp']['patch']['num'] == n)
        if not touched and (num(ps['lb']) != n or ps['cb'] is not None):
            fails.append((order_idx, 'C11: the boot success of patch %d reported during the update was lost (lb=%s cb=%s)' % (n, num(ps['lb']), num(ps['cb']))))
    # C01 on everything handed out after the interleaving
    tail_ops = [gen.parse_op(o) for o in ops[npre + len(oops) + 2:]]
    tail_sts = sts[npre + 1:]
    full_ops = [gen.parse_op(o) for o in ops[:npre]] + [dict(kind='sched', raw='sched')] + tail_ops
    for (idx, msg) in monitors.mon_C01(ctx, full_ops, sts):
        fails.append((idx if idx < npre else order_idx + (idx - npre), msg))
    # C03: the last good patch survives unless something in the interleaving concerns it
    plb = pstate(pre)['lb']
    if plb is not None and pre['arts'].get(plb['num'], '').startswith('F%d.' % plb['size']):
        k = plb['num']
        u = gen.parse_op(uop)
        conc = k in monitors.listed(u) or (u['resp'] and u['resp']['patch'] and u['resp']['patch']['num'] == k)
        pcb = pstate(pre)['cb']
        for o in oops:
            po = gen.parse_op(o)
            if po['kind'] == 'success' and pcb and pcb['num'] != k:
                conc = True
            if po['kind'] in ('failure', 'start'):
                conc = True
            if po['kind'] in ('check', 'update') and (k in monitors.listed(po) or (po['resp'] and po['resp']['patch'] and po['resp']['patch']['num'] == k and po['kind'] == 'update')):
                conc = True
        if not conc:
            if num(ps['lb']) != k or post['arts'].get(k) != pre['arts'].get(k):
                fails.append((order_idx, 'C11/C03: interleaving lost the last good patch %d (lb=%s, artifact %s)' % (k, num(ps['lb']), post['arts'].get(k))))
    return fails


def run_C11(pid, tier, seed, model_ok=True):
    rnd = random.Random(seed)
    ctx = Ctx(seed=seed)
    work = os.path.join(CACHE, 'work-%s-%d' % (pid, os.getpid()))
    try:
        al = gen.Alphabet(ctx)
        states = ['boot1', 'good1boot2', 'good1boot2pend3', 'good1', 'good1pend2', 'boot2pend3']
        upd = {
            'u1': op_update(ctx, 1), 'u2': op_update(ctx, 2), 'u3': op_update(ctx, 3),
            'u3rb2': op_update(ctx, 3, rb=[2]), 'u2rb1': op_update(ctx, 2, rb=[1]), 'rb2': op_update_nopatch(rb=[2]),
            'udl2': op_update(ctx, 2, dl='err'),
        }
        others = {
            'fail': (['op failure'], 1), 'ok': (['op success'], 1), 'q': (['op nextnum'], 1),
            'fail_q': (['op failure', 'op nextnum'], 2), 'ok_q': (['op success', 'op nextpath'], 2),
            'ck2': ([op_check(ctx, 2)], 3), 'ck3rb2': ([op_check(ctx, 3, rb=[2])], 4),
            's_fail': (['op start', 'op failure'], 2), 'upd': ([op_update(ctx, 2)], 2),
        }
        if tier == 'quick':
            ukeys = ['u1', 'u2', 'u3rb2', 'rb2']
            okeys = ['fail', 'ok', 'fail_q', 'ok_q', 'ck2', 's_fail', 'upd']
        else:
            ukeys = list(upd)
            okeys = list(others)
        hs = []
        meta = {}
        for stt in states:
            for uk in ukeys:
                for ok in okeys:
                    oops, acq = others[ok]
                    orders = sched_orders(min(acq, 2 if tier == 'quick' else 3))
                    if tier == 'quick' and len(orders) > 12:
                        orders = rnd.sample(orders, 12)
                    for oi, order in enumerate(orders):
                        name = 'c11_%s_%s_%s_%d' % (stt, uk, ok, oi)
                        lines = [al.init] + al.seq(PFX[stt])
                        sched = ['t0 ' + upd[uk]] + ['t1 ' + x for x in oops] + ['order ' + order]
                        tail = ['op nextnum', 'op nextpath', 'op curnum', 'op kill', al.init, 'op nextnum', 'op start', 'op curnum']
                        hs.append((name, lines + sched + tail))
                        meta[name] = (len(lines), upd[uk], oops, order)
        header = [h for h in ctx.header() if h != 'dls on']   # a scheduled update writes downloads/ outside the sequential step function
        model, impl, extras = run_both(header, hs, work, impl_only=not model_ok, lockcheck=True)
        opsof = dict(hs)
        divs, fails = [], []
        extras, lw = unlocked_writes(extras, opsof, header)
        fails += lw
        if model_ok:
            for (h, idx, ml, il) in diff_traces(model, impl):
                divs.append((h, idx, ml, il, opsof[h], header))
        distinct = set()
        evals = 0
        samples = []
        for name, ops in hs:
            tr = impl.get(name)
            if tr is None:
                continue
            npre, uop, oops, order = meta[name]
            evals += 1
            sts = [parse_line(l) for l in tr]
            if len(sts) != npre + 1 + 8:
                extras.append('impl trace of %s has %d lines' % (name, len(sts)))
                continue
            pre, post = sts[npre - 1], sts[npre]
            distinct.add((state_key(pre), uop, tuple(oops), post['out']))
            for (idx, msg) in judge_c11(ctx, ops, sts):
                fails.append((name, idx, msg, ops, header))
            if len(samples) < 5 and rnd.random() < 0.01:
                samples.append({'history': name, 'sched': ops[npre:npre + len(oops) + 2], 'result': tr[npre][:200]})
        if not samples and hs:
            samples.append({'history': hs[0][0], 'ops': hs[0][1][:12]})
        return dict(evaluations=evals, distinct=len(distinct), samples=samples, divergences=divs, monitor_fail=fails,
                    rule='every interleaving (at config-lock granularity, scheduler-controlled real threads) of one update (7 responses) with 1-2 calls of another thread (9 variants) from 6 states with a boot in flight or just finished; model runs the same block order; non-trivial = distinct (state, update, other calls, outputs)',
                    dist={'schedules': evals}, extras=extras, traces=len(impl))
    finally:
        ctx.cleanup()
        shutil.rmtree(work, ignore_errors=True)



# ------------------------------------------------------------------ C12 (action traces, stalls)
def run_C12(pid, tier, seed, model_ok=True):
    rnd = random.Random(seed)
    ctx = Ctx(seed=seed)
    work = os.path.join(CACHE, 'work-%s-%d' % (pid, os.getpid()))
    try:
        al = gen.Alphabet(ctx)
        labels = ['q', 'p', 'c', 's', 'ok', 'fail', 'R', 'u1', 'u2', 'u3', 'rb1', 'rb12', 'rbe', 'ck2', 'crb2', 'udl2', 'uh3',
                  'uj2', 'ckerr', 'uperr', 'upnone', 'auto', 'i2', 'i2bad', 'u3rb2']
        depth = 2 if tier == 'quick' else 3
        hs = []
        for pk in ('empty', 'good1', 'good1pend2', 'good1boot2', 'good1bad2'):
            hs += gen.exhaustive_exact(al, labels, depth, prefixes=(PFX[pk],), name='T%d_' % len(hs))
        # calls before initialisation, bad inits
        pre = ['op nextnum', 'op nextpath', 'op curnum', 'op start', 'op success', 'op failure', 'op auto',
               'op check - err', 'op update - err err', op_init(bad=True), op_init(paths=False)]
        hs.append(('T_uninit', pre + [al.init] + al.seq(['q', 'u1', 'q'])))
        hs += gen.random_walks(al, labels, [1] * len(labels), 60 if tier == 'quick' else 1500, (8, 30), rnd, name='Tr', conformant=False)
        header = ['trace on'] + ctx.header()
        # hung connection: thread 0's check does not return until thread 1 has finished all its calls
        stall = []
        t1s = {
            'queries': ['op nextnum', 'op nextpath', 'op curnum', 'op auto'],
            'reports': ['op start', 'op success', 'op nextnum'],
            'failure': ['op start', 'op failure', 'op nextnum'],
            'check': [op_check(ctx, 2), 'op nextnum'],
            'update2': [op_update(ctx, 3), 'op nextnum', op_update(ctx, 3)],
            # a failure event is queued AFTER the stuck update flushed the queue; the second update must be refused
            # at once: no event report, no state access before the try-lock
            'failupd2': ['op start', 'op failure', op_update(ctx, 3), 'op nextnum'],
        }
        for pk in ('empty', 'good1', 'good1pend2', 'boot1'):
            for k, t1 in t1s.items():
                for uk in ('u2', 'u3rb2', 'udl2'):
                    order = ','.join(['0'] * 4 + ['1'] * 12 + ['0'] * 12)
                    ops = [al.init] + al.seq(PFX[pk]) + ['stall on', 't0 ' + al.ops[uk][0]] + ['t1 ' + x for x in t1] + ['order ' + order, 'stall off', 'op nextnum', 'op curnum']
                    stall.append(('S_%s_%s_%s' % (pk, k, uk), ops))
        model, impl, extras = run_both(header, hs + stall, work, impl_only=not model_ok, lockcheck=True)
        opsof = dict(hs + stall)
        extras, lock_fails = unlocked_writes(extras, opsof, header)
        # the hung connection met by the library's OWN update thread: start_update_thread while the previous automatic
        # update is still stuck must return at once, like every other call (implementation only)
        stall_bg = []
        r_none = resp(False, None, None)
        for pk in ('empty', 'good1', 'good1pend2'):
            for mid in (['op nextnum'], ['op start', 'op success'], ['op check - %s' % r_none]):
                t0 = ['op startupd %s err' % r_none, 'op waitbgnet', 'op startupd %s err' % r_none] + mid + ['op startupd %s err' % r_none, 'op nextnum']
                ops = [al.init] + al.seq(PFX[pk]) + ['stall bg'] + ['t0 ' + x for x in t0] + ['t1 op nextnum', 'order ' + ','.join(['0'] * 12 + ['1'] * 4 + ['0'] * 12), 'stall off', 'op nextnum', 'op curnum']
                stall_bg.append(('SB_%s_%s' % (pk, mid[0].split()[1]), ops))
        # the EVENTS endpoint hangs: every event report stays in the network while the same process goes on installing, booting
        # and installing again (three and more reports in flight); every call must still return
        for pk in ('empty', 'good1'):
            for tail in (['op nextnum'], [op_update(ctx, 1) if pk == 'empty' else op_update(ctx, 2), 'op nextnum', 'op curnum']):
                first, second, third = (1, 2, 3) if pk == 'empty' else (2, 3, 1)
                t0 = [op_update(ctx, first), 'op start', 'op success', op_update(ctx, second), 'op nextnum', 'op kill', al.init, 'op start', 'op success', op_update(ctx, third), 'op nextnum'] + tail
                t0 = [x for x in t0 if x != 'op kill' and x != al.init]     # (one process: no restart inside the scheduled block)
                ops = [al.init] + al.seq(PFX[pk]) + ['stall ev'] + ['t0 ' + x for x in t0] + ['t1 op nextnum', 'order ' + ','.join(['0'] * 60 + ['1'] * 4 + ['0'] * 60), 'stall off', 'op nextnum', 'op curnum']
                stall_bg.append(('SE_%s_%d' % (pk, len(tail)), ops))
        _, impl_bg, ex_bg = run_both(header, stall_bg, work + 'bg', impl_only=True, lockcheck=True)
        ex_bg, lf_bg = unlocked_writes(ex_bg, dict(stall_bg), header)
        lock_fails += lf_bg
        for name, ops in stall_bg:
            tr = impl_bg.get(name)
            if tr is None or len(tr) != len([o for o in ops if o.startswith('op ')]) + 1:
                lock_fails.append((name, len(ops) - 1, 'C12: the calls made while the update thread was stuck did not all return (%s results)' % (len(tr) if tr else 0), ops, header))
        for x in ex_bg:
            if 'events endpoint hung' in x:
                se = next(h for h in stall_bg if h[0].startswith('SE_'))
                lock_fails.append((se[0], len(se[1]) - 1, 'C12: ' + x + ' (installs, launch reports and queries of one process while every event report hangs in the network: a call waited for the network)', se[1], header))
            elif 'DEPTH-VIOLATION' in x or 'did not complete' in x:
                lock_fails.append((stall_bg[0][0], len(stall_bg[0][1]) - 1, 'C12: ' + x + ' (start_update_thread / queries issued while the automatic update hangs in its patch check)', stall_bg[0][1], header))
            elif 'PANIC' in x or 'CRASH' in x:
                lock_fails.append((stall_bg[0][0], len(stall_bg[0][1]) - 1, 'C12: ' + x[:300], stall_bg[0][1], header))
        divs, fails = [], []
        if model_ok:
            for (h, idx, ml, il) in diff_traces(model, impl):
                divs.append((h, idx, ml, il, opsof[h], header))
        distinct = set()
        evals = 0
        samples = []
        for name, ops in hs + stall:
            tr = impl.get(name)
            if tr is None:
                continue
            for l in tr:
                evals += 1
                m = re.search(r' act=(\S*)', l)
                if not m:
                    continue
                a = m.group(1)
                distinct.add(a)
                if a == '-':
                    continue
                depth, upd = 0, False
                for tok in [x for x in a.split(',') if x]:
                    bad = None
                    if tok == 'A':
                        bad = 'config lock re-entered' if depth else None
                        depth = 1
                    elif tok == 'R':
                        depth = 0
                    elif tok == 'N' and depth:
                        bad = 'network callback while holding the config lock'
                    elif tok in ('T1', 'T0'):
                        if depth:
                            bad = 'update lock requested while holding the config lock'
                        if tok == 'T1':
                            upd = True
                    elif tok == 'U':
                        upd = False
                    if bad:
                        fails.append((name, 0, 'C12: %s (trace %s)' % (bad, a), ops, header))
                if depth or upd:
                    fails.append((name, 0, 'C12: a lock is still held when the call returns (trace %s)' % a, ops, header))
            if name.startswith('S_'):
                line = [l for l in tr if '|' in l.split(' ')[0]]
                if line:
                    o1 = line[0].split(' ')[0].split('|')[1].split(',')
                    if 'update2' in name and o1[0] != '-1':
                        fails.append((name, 0, 'C12: second update during a stuck update returned %s, not the already-in-progress error' % o1[0], ops, header))
                    if 'failupd2' in name:
                        sent = [x for x in parse_line(line[0])['net'] if x.startswith('E:F.')]
                        if o1[2] != '-1' or sent:
                            fails.append((name, 0, 'C12: an update requested while another one is stuck in the network must return the already-in-progress error at once, without network I/O: it returned %s and the failure event queued meanwhile was %s' % (
                                o1[2], 'sent by it (%s)' % sent if sent else 'not sent'), ops, header))
            if len(samples) < 5 and rnd.random() < 0.01:
                samples.append({'history': name, 'last': tr[-1][-120:]})
        fails += lock_fails
        for x in extras:
            if 'DEPTH-VIOLATION' in x or 'did not complete' in x:
                fails.append(('harness', 0, 'C12: ' + x, ['op nextnum'], header))
        extras = [x for x in extras if 'DEPTH-VIOLATION' not in x]
        if not samples:
            samples.append({'history': hs[0][0], 'ops': hs[0][1][:8]})
        return dict(evaluations=evals, distinct=len(distinct), samples=samples, divergences=divs, monitor_fail=fails,
                    rule='per-call lock/network action trace (config mutex acquire/release, update try_lock/release, network callbacks with the thread-local lock depth) compared with the model trace for exhaustive depth-k calls from 5 states, calls before init, random walks; hung-connection scenarios: thread 0 update stalls in the patch check until thread 1 (queries, launch reports, check, second update) finished; non-trivial = distinct action traces',
                    dist={'lines': evals}, extras=extras, traces=len(impl))
    finally:
        ctx.cleanup()
        shutil.rmtree(work, ignore_errors=True)



def unlocked_writes(extras, opsof, header):
    """splits the lock-discipline reports off the extras of a run_both(lockcheck=True): every mutation of state.json,
    patches_state.json or patches/ by a library thread that did not hold the config lock.  The model's calls are atomic
    (Blocks.v / LockSem.v: a critical section is one step) only because no such write exists; one that does is a
    violation of the concurrency properties with the history as replay.  Returns (other extras, monitor failures)."""
    rest, fails, seen = [], [], set()
    for x in extras:
        m = re.match(r'impl: UNLOCKED-WRITE hist=(\S+) op=(\d+) (.*)', x)
        if not m:
            rest.append(x)
            continue
        h = m.group(1)
        if h in opsof and h not in seen:
            seen.add(h)
            fails.append((h, len(opsof[h]) - 1, 'persisted state is mutated by a thread that does not hold the config lock (%s, during op %s): '
                          'calls are not atomic, a concurrent report or query can be overwritten' % (m.group(3), m.group(2)), opsof[h], header))
    return rest, fails



# ------------------------------------------------------------------ C13 (malformed inputs, call orders)
def json_mutants(rnd, n):
    import json as J
    meta = lambda k: {"number": k, "size": 303, "hash": "ab" * 32, "signature": None}
    pj = {"last_booted_patch": meta(1), "next_boot_patch": meta(2), "currently_booting_patch": None, "known_bad_patches": [3]}
    ev = {"app_id": "a", "arch": "x86_64", "type": "__patch_install_failure__", "patch_number": 2, "platform": "linux",
          "release_version": "1.0.0", "timestamp": 1, "message": None}
    sj = {"release_version": "1.0.0", "queued_events": [ev]}
    weird = [None, True, -1, 0, 2 ** 64 - 1, 2 ** 64, 1e30, -0.5, "", "x" * 3000, [], {}, [[[]]], "\u0000", {"number": "1"}, [1, 2], "1.0.0"]
    outs = []
    # well-formed state whose queued events carry extreme clock readings (an event stamped ahead of the clock, at the
    # epoch, at the ends of u64): the values are legal, only arithmetic on them can go wrong
    for ts in (0, 1, 2 ** 31, 4102444800, 2 ** 62, 2 ** 63, 2 ** 64 - 1):
        for cnt in (1, 3):
            doc = J.loads(J.dumps(sj))
            doc['queued_events'] = [dict(ev, timestamp=ts, patch_number=i + 1) for i in range(cnt)]
            outs.append(('sj', J.dumps(doc).encode()))
    # unreadable files made of long runs of multi-byte characters, shifted so that EVERY byte offset falls inside a
    # character in one of them: whatever an error path cuts, quotes or measures, it meets a non-boundary
    for which in ('pj', 'sj'):
        for ch in ('\u00e9', '\u65e5', '\U0001F600'):
            for shift in range(4):
                outs.append((which, (' ' * shift + '{"k":"' + ch * 150 + '"').encode('utf-8')))               # torn
                outs.append((which, (' ' * shift + '{"' + ch * 40 + '":"' + ch * 120 + '"}').encode('utf-8')))  # wrong schema
    for _ in range(n):
        which = rnd.choice(['pj', 'sj'])
        doc = J.loads(J.dumps(pj if which == 'pj' else sj))
        k = rnd.randrange(6)
        if k == 0:      # replace a random field by a weird value
            tgt = doc
            if which == 'pj' and rnd.random() < 0.5:
                tgt = doc[rnd.choice(['last_booted_patch', 'next_boot_patch'])]
            elif which == 'sj' and rnd.random() < 0.5:
                tgt = doc['queued_events'][0]
            key = rnd.choice(list(tgt.keys()))
            tgt[key] = rnd.choice(weird)
            text = J.dumps(doc)
        elif k == 1:    # drop a field
            key = rnd.choice(list(doc.keys()))
            del doc[key]
            text = J.dumps(doc)
        elif k == 2:    # truncate
            text = J.dumps(doc, indent=2)
            text = text[:rnd.randrange(len(text))]
        elif k == 3:    # byte noise
            b = bytearray(J.dumps(doc).encode())
            for _ in range(rnd.randrange(1, 4)):
                b[rnd.randrange(len(b))] = rnd.randrange(256)
            outs.append((which, bytes(b)))
            continue
        elif k == 4:    # huge / duplicate
            if which == 'pj':
                doc['known_bad_patches'] = [rnd.choice([1, 2, 3, 2 ** 63]) for _ in range(rnd.randrange(0, 50))]
                doc['next_boot_patch']['number'] = rnd.choice([0, 2 ** 64 - 1, 2 ** 32, 2])
                doc['next_boot_patch']['size'] = rnd.choice([0, 2 ** 64 - 1, 303])
            else:
                doc['queued_events'] = [ev] * rnd.randrange(0, 40)
            text = J.dumps(doc)
        else:           # not an object at all
            text = rnd.choice(['[]', 'null', '42', '"str"', '', '{', '{}', '﻿{}', '{"a":' * 50])
        outs.append((which, text.encode('utf-8', 'surrogatepass') if isinstance(text, str) else text))
    return outs


def run_C13(pid, tier, seed, model_ok=True):
    rnd = random.Random(seed)
    ctx = Ctx(seed=seed)
    work = os.path.join(CACHE, 'work-%s-%d' % (pid, os.getpid()))
    try:
        al = gen.Alphabet(ctx)
        api = ['op nextnum', 'op nextpath', 'op curnum', 'op start', 'op success', 'op failure', 'op auto',
               'op check - err', al.ops['ck2'][0], al.ops['u2'][0], al.ops['rb12'][0], al.ops['upnone'][0]]
        # (a) structurally malformed storage: implementation only (the model's abstraction of unreadable
        # JSON is JGarbage; these inputs probe the JSON/YAML/fs glue the model abstracts away)
        hs_impl, hs_pjtext = [], []
        nmal = 300 if tier == 'quick' else 6000
        for i, (which, data) in enumerate(json_mutants(rnd, nmal)):
            ctx.add_blob('mal%d' % i, data)
            pre = al.seq(rnd.choice([PFX['good1pend2'], PFX['good1boot2'], PFX['boot1'], ()]))
            tail = rnd.sample(api, 5)
            if i < 14:      # the extreme-timestamp documents (the first 14): make sure the queue is actually reported
                tail = [al.ops['upnone'][0]] + tail
            # both state files: the model reads the bytes itself (JsonState.pj_of_file, JsonSj.sj_of_file) - compared, not only exercised
            hs_pjtext.append(('mal%d' % i, [al.init] + pre + ['op dmg raw%s @mal%d' % (which, i)] + tail + ['op kill', al.init] + rnd.sample(api, 4)))
        # the same file at the text level: a well-formed state spelled with white space, escapes, reordered and unknown members
        # (lenient content under unknown keys), and byte-level mutants of it
        import jsontext
        mt = lambda k: ('obj', [('number', ('int', False, k)), ('size', ('int', False, 303)), ('hash', ('str', 'ab' * 32)), ('signature', ('null',))])
        base_tree = ('obj', [('last_booted_patch', mt(1)), ('next_boot_patch', mt(2)), ('currently_booting_patch', ('null',)),
                             ('known_bad_patches', ('arr', [('int', False, 3), ('int', False, 3), ('int', False, 7)]))])
        pj_edges = [
            b'{"known_bad_patches":[]}', b'{"known_bad_patches":[],"x":"\\ud800"}', b'{"known_bad_patches":[],"x":"\xff"}',
            b'{"known_bad_patches":[],"\\ud800":1}', b'{"known_bad_patches":[3,3,3]}', b'[null,null,null,[]]', b'[null,null,null]',
            b'[null,null,null,[],1]', b'{"known_bad_patches":[1,]}', b'{"known_bad_patches":[01]}', b'{"known_bad_patches":[-0]}',
            b'{"known_bad_patches":[18446744073709551615]}', b'{"known_bad_patches":[18446744073709551616]}',
            b'{"known_bad_patches":[],"next_boot_patch":{"number":2,"size":303,"hash":"' + b'ab' * 32 + b'"}}',
            b'{"known_bad_patches":[],"next_boot_patch":[2,303,"' + b'ab' * 32 + b'",null]}',
            b'{"known_bad_patches":[],"next_boot_patch":[2,303,"' + b'ab' * 32 + b'"]}',
            b'{"known_bad_patches":[],"next_boot_patch":{"number":2,"size":303,"hash":"\\ud83d\\ude00","signature":"s","z":{"q":["\\udc00"]}}}',
            b'{"known_bad_patches":[],"next_boot_patch":{"number":2,"size":303,"hash":"\xed\xa0\x80"}}',
            b'\xef\xbb\xbf{"known_bad_patches":[]}', b'{"known_bad_patches":[]} x', b' \n{"known_bad_patches" : [ ] }\n\n', b'{"known_bad_patches":[],"known_bad_patches":[]}',
            b'{"last_booted_patch":null}', b'null', b'', b'{', b'{"known_bad_patches":{}}', b'{"known_bad_patches":[],"last_booted_patch":2}',
        ]
        texts = list(pj_edges)
        for _ in range(40 if tier == 'quick' else 1500):
            b_ = jsontext.render(rnd, base_tree)
            texts.append(b_)
            texts.append(jsontext.mutate(rnd, b_))
            texts.append(jsontext.mutate(rnd, jsontext.mutate(rnd, b_)))
        for i, data in enumerate(texts):
            ctx.add_blob('pjt%d' % i, data)
            pre = al.seq(rnd.choice([PFX['good1pend2'], PFX['good1boot2'], PFX['boot1'], ()]))
            hs_pjtext.append(('pjt%d' % i, [al.init] + pre + ['op dmg rawpj @pjt%d' % i] + rnd.sample(api, 4) + ['op kill', al.init] + rnd.sample(api, 3)))
        # state.json at the text level: a release version and queued events spelled with white space, escapes, reordered and
        # unknown members (lenient content under unknown keys, inside events too), positional forms, and byte-level mutants
        evt = lambda k, num, msg: ('obj', [('app_id', ('str', 'app-1')), ('arch', ('str', os.environ.get('UV_ARCH', 'x86_64'))), ('type', ('str', k)),
                                           ('patch_number', ('int', False, num)), ('platform', ('str', 'linux')), ('release_version', ('str', REL1)),
                                           ('timestamp', ('int', False, 1700000000)), ('message', msg)])
        sj_tree = ('obj', [('release_version', ('str', REL1)),
                           ('queued_events', ('arr', [evt('__patch_install_failure__', 2, ('str', 'Install failure reported from engine for patch 2')),
                                                      evt('__patch_install_failure__', 12, ('str', 'Patch 12 was marked currently_booting in init')),
                                                      evt('__patch_download__', 3, ('null',)),
                                                      evt('__patch_install__', 1, ('str', 'some other text'))]))])
        r1 = REL1.encode()
        e1 = b'{"app_id":"a","arch":"' + os.environ.get('UV_ARCH', 'x86_64').encode() + b'","type":"__patch_install_failure__","patch_number":2,"platform":"linux","release_version":"' + r1 + b'","timestamp":1,"message":null'
        sj_edges = [
            b'{"release_version":"' + r1 + b'","queued_events":[]}', b'{"queued_events":[],"release_version":"' + r1 + b'"}',
            b'{"release_version":"' + r1 + b'","queued_events":[],"x":"\\ud800"}', b'{"release_version":"' + r1 + b'","queued_events":[],"x":"\xff"}',
            b'{"release_version":"' + r1 + b'"}', b'{"queued_events":[]}', b'{"release_version":"' + r1 + b'","queued_events":null}',
            b'{"release_version":"' + r1 + b'","queued_events":{}}', b'{"release_version":"' + r1 + b'","queued_events":{"0":' + e1 + b'}}}',
            b'{"release_version":"' + r1 + b'","queued_events":[],"release_version":"' + r1 + b'"}', b'["' + r1 + b'",[]]', b'["' + r1 + b'"]', b'["' + r1 + b'",[],1]',
            b'{"release_version":"' + r1 + b'","queued_events":[' + e1 + b'}]}',
            b'{"release_version":"' + r1 + b'","queued_events":[' + e1 + b',"zz":"\\udc00"}]}',
            b'{"release_version":"' + r1 + b'","queued_events":[' + e1 + b',"zz":{"q":["\xed\xa0\x80"]}}]}',
            b'{"release_version":"' + r1 + b'","queued_events":[' + e1 + b',"message":null}]}',
            b'{"release_version":"' + r1 + b'","queued_events":[' + e1.replace(b',"message":null', b'') + b'}]}',
            b'{"release_version":"' + r1 + b'","queued_events":[' + e1.replace(b'__patch_install_failure__', b'__patch_install_failed__') + b'}]}',
            b'{"release_version":"' + r1 + b'","queued_events":[' + e1.replace(b'"type":"__patch_install_failure__"', b'"type":null') + b'}]}',
            b'{"release_version":"' + r1 + b'","queued_events":[' + e1.replace(b'"patch_number":2', b'"patch_number":-0') + b'}]}',
            b'{"release_version":"' + r1 + b'","queued_events":[' + e1.replace(b'"patch_number":2', b'"patch_number":18446744073709551615') + b'}]}',
            b'{"release_version":"' + r1 + b'","queued_events":[' + e1.replace(b'"patch_number":2', b'"patch_number":18446744073709551616') + b'}]}',
            b'{"release_version":"' + r1 + b'","queued_events":[' + e1.replace(b'"timestamp":1', b'"timestamp":1.5') + b'}]}',
            b'{"release_version":"' + r1 + b'","queued_events":[' + e1.replace(b'"message":null', b'"message":""') + b'}]}',
            b'{"release_version":"' + r1 + b'","queued_events":[' + e1.replace(b'"message":null', b'"message":"Patch 2 was marked currently_booting in init"') + b'}]}',
            b'{"release_version":"' + r1 + b'","queued_events":[' + e1.replace(b'"message":null', b'"message":"Patch 02 was marked currently_booting in init"') + b'}]}',
            b'{"release_version":"' + r1 + b'","queued_events":[["a","' + os.environ.get('UV_ARCH', 'x86_64').encode() + b'","__patch_download__",3,"linux","' + r1 + b'",5,null]]}',
            b'{"release_version":"' + r1 + b'","queued_events":[["a","' + os.environ.get('UV_ARCH', 'x86_64').encode() + b'","__patch_download__",3,"linux","' + r1 + b'",5]]}',
            b'{"release_version":"' + r1 + b'","queued_events":[' + e1 + b'},' + e1 + b'},' + e1 + b'},' + e1 + b'},' + e1 + b'}]}',
            b'{"release_version":"' + r1 + b'","queued_events":[' + e1 + b'},]}', b'{"release_version":"other","queued_events":[' + e1 + b'}]}',
            b'{"release_version":"' + r1 + b'","queued_events":[' + e1.replace(b'"platform":"linux"', b'"platform":"android"') + b'}]}',
            b'\xef\xbb\xbf{"release_version":"' + r1 + b'","queued_events":[]}', b'{"release_version":"' + r1 + b'","queued_events":[]} x',
            b' \n{"release_version" : "' + r1 + b'" , "queued_events" : [ ] }\n\n', b'null', b'', b'{', b'{\n  "release_version": "' + r1 + b'",\n  "queued_events": [',
        ]
        # long messages with a multi-byte character at every offset around 256 bytes (whatever a later call cuts or measures)
        for k_ in range(4):
            sj_edges.append(b'{"release_version":"' + r1 + b'","queued_events":[' + e1.replace(b'"message":null', b'"message":"' + b'a' * (253 + k_) + '\u00e9'.encode('utf-8') * 40 + b'"') + b'}]}')
        stexts = list(sj_edges)
        for _ in range(40 if tier == 'quick' else 1500):
            b_ = jsontext.render(rnd, sj_tree)
            stexts.append(b_)
            stexts.append(jsontext.mutate(rnd, b_))
            stexts.append(jsontext.mutate(rnd, jsontext.mutate(rnd, b_)))
        for i, data in enumerate(stexts):
            ctx.add_blob('sjt%d' % i, data)
            pre = al.seq(rnd.choice([PFX['good1pend2'], PFX['good1boot2'], PFX['boot1'], ()]))
            # the update that reports nothing new comes first: whatever queue was read is put on the wire and compared
            hs_pjtext.append(('sjt%d' % i, [al.init] + pre + ['op dmg rawsj @sjt%d' % i, al.ops['upnone'][0]] + rnd.sample(api, 3) + ['op kill', al.init] + rnd.sample(api, 3)))
        fsd = ['op dmg artisfile 2', 'op dmg artfileisdir 2', 'op dmg patchesisfile', 'op dmg pjisdir', 'op dmg artisfile 1', 'op dmg artfileisdir 1']
        for i, dmg in enumerate(fsd):
            for pk in ('good1pend2', 'good1boot2', 'empty'):
                for t in range(4):
                    hs_impl.append(('fs%d_%s_%d' % (i, pk, t), [al.init] + al.seq(PFX[pk]) + [dmg] + rnd.sample(api, 6) + ['op kill', al.init] + rnd.sample(api, 5)))
        yamls = ['', 'app_id: 1', 'app_id: [a, b]', 'app_id: a\nchannel: {x: 1}', 'app_id: a\nauto_update: maybe', ': : :', 'app_id: a\nbase_url: 7',
                 'app_id: "' + 'x' * 5000 + '"', '\tapp_id: a', 'app_id: a\napp_id: b', '- a\n- b', 'app_id: a\npatch_public_key: ""', '&a [*a]',
                 'app_id: a\nunknown_field: {deep: [1,2,{x: y}]}', 'app_id: ~', 'app_id: a\nchannel: ~']
        if tier == 'thorough':
            for _ in range(300):
                yamls.append(''.join(rnd.choice('app_id: \n-[]{}&*!|>\'"%@`xyz0 1,#\t') for _ in range(rnd.randrange(1, 60))))
        for i, y in enumerate(yamls):
            init = 'op init %s raw:%s t' % (hx(REL1), y.encode().hex() or 'e')
            hs_impl.append(('yaml%d' % i, [init] + rnd.sample(api, 4) + [al.init] + rnd.sample(api, 3)))
        # (a') downloads that are valid zstd streams of LARGE payloads which the patch reader gives up on early or late:
        # the decompression thread is then still pushing data into the pipe when the caller leaves inflate()
        raw2 = ctx.blobs['raw2']
        bigs = {'bz_zero': bytes(1 << 20), 'bz_hdrjunk': raw2[:8] + bytes(rnd.randrange(256) for _ in range(300000)),
                'bz_goodtail': raw2 + bytes(1 << 19), 'bz_cutrec': raw2[:max(9, len(raw2) // 2)] + b'\xff' * 400000,
                'bz_magic': b'\x00' + raw2[1:] + bytes(700000)}
        for nm, payload in bigs.items():
            open(os.path.join(ctx.tmp, 'bz.in'), 'wb').write(payload)
            subprocess.run([UVH, 'zenc', os.path.join(ctx.tmp, 'bz.in'), os.path.join(ctx.tmp, 'bz.out')], check=True, capture_output=True)
            ctx.add_blob(nm, open(os.path.join(ctx.tmp, 'bz.out'), 'rb').read())
            for t in range(3):
                hs_impl.append(('%s_%d' % (nm, t), [al.init] + al.seq(PFX['good1'] if t else ()) + [op_update(ctx, 2, dl='@' + nm)] + rnd.sample(api, 4) + [op_update(ctx, 2, dl='@' + nm), al.ops['u2'][0], 'op nextnum']))
        # (b) extreme values through the normal op language: model AND implementation
        hs_both = []
        big = 2 ** 64 - 1
        h2 = ctx.p['2']['hash']
        offers = [(0, h2), (big, h2), (2 ** 63, h2), (2, ''), (2, 'z' * 64), (2, h2 * 50), (2, 'AB' * 32)]
        for i, (n, h) in enumerate(offers):
            for dlb in ('@dl2', '@junkdl', '@empty', 'err'):
                ops = [al.init, 'op update - %s %s' % (resp(True, (n, h, 'http://dl/x', None), [big, 0, n]), dlb), 'op nextnum', 'op nextpath',
                       'op start', 'op curnum', 'op failure', 'op check - %s' % resp(True, (n, h, 'u', None), None), 'op kill', al.init, 'op nextnum']
                hs_both.append(('ext%d_%s' % (i, dlb.strip('@')), ops))
        ctx.zdec.append(('empty', 'empty'))
        labels = ['q', 'p', 'c', 's', 'ok', 'fail', 'R', 'u1', 'u2', 'rb1', 'ck2', 'uj2', 'uh3', 'upnone', 'i2', 'i2bad', 'auto', 'dF1', 'dD2', 'dPg', 'dSg', 'dJ', 'RV']
        hs_both += gen.random_walks(al, labels, [1] * len(labels), 150 if tier == 'quick' else 5000, (10, 50), rnd, name='ord', conformant=False, stale=True)
        # calls before any init
        hs_both.append(('noinit', list(api) + [al.init] + list(api)))
        hs_both += hs_pjtext
        header = ctx.header()
        model, impl, extras = run_both(header, hs_both, work, impl_only=not model_ok)
        _, impl2, extras2 = run_both(header, hs_impl, work + 'b', impl_only=True)
        # what the library WRITES: after every call of damage-free walks (failures, restarts, updates: bans, queues of events,
        # records with and without signature) the bytes of both state files must be exactly what the model of the writer
        # (JsonWrite.v) writes for the state the model's reader reads from them
        ncanon, canon_bad = 0, []
        if model_ok:
            cw = gen.random_walks(al, ['q', 's', 'ok', 'fail', 'fail', 'R', 'R', 'u1', 'u2', 'u3', 'rb1', 'rb12', 'ck2', 'upnone', 'uperr', 'udl2', 'RV'], [1] * 17,
                                  40 if tier == 'quick' else 1200, (10, 40), rnd, name='cw')
            alk = gen.Alphabet(ctx, key=KEY1)
            cw += gen.random_walks(alk, ['q', 's', 'ok', 'fail', 'R', 'u1', 'u2', 'u3', 'rb1', 'upnone'], [1] * 10, 15 if tier == 'quick' else 300, (8, 25), rnd, name='cwk')
            del RAW_FILES[:]
            _, _, exc = run_both(header + ['rawfiles on'], cw, work + 'c', impl_only=True)
            extras2 += [x for x in exc if 'PANIC-HOOK' in x or 'CRASH' in x]
            ncanon, canon_bad = canonical_files_check(list(RAW_FILES))
            del RAW_FILES[:]
        # the extracted readers against the kernel's own evaluation of the same Gallina terms, on the texts of this run
        nxc, xcp = (0, [])
        if model_ok:
            xs = [('pj', 'pjt%d' % i, t) for i, t in enumerate(texts)] + [('sj', 'sjt%d' % i, t) for i, t in enumerate(stexts)]
            xs = [x for x in xs if len(x[2]) <= 1500]
            rnd.shuffle(xs)
            nxc, xcp = coq_crosscheck('C13', xs, limit=150 if tier == 'quick' else 1500)
        extras += xcp
        opsof = dict(hs_both + hs_impl)
        divs, fails = [], []
        if model_ok:
            for (h, idx, ml, il) in diff_traces(model, impl):
                divs.append((h, idx, ml, il, opsof[h], header))
        for k, got, want in canon_bad[:5]:
            divs.append(('written_%s' % k, 0, 'the model of the writer writes (hex): ' + want[:600], 'the library wrote (hex): ' + got[:600], ['canon %s f %s' % (k, got)], []))
        evals = 0
        distinct = set()
        for name, ops in hs_both + hs_impl:
            tr = (impl if name in impl else impl2).get(name)
            nops = len([o for o in ops if o.startswith('op ')])
            if tr is None or len(tr) != nops:
                fails.append((name, len(tr or []), 'C13: the process died or a call did not return (got %d of %d results)' % (len(tr or []), nops), ops, header))
                continue
            for o, l in zip([o for o in ops if o.startswith('op ')], tr):
                evals += 1
                out = l.split(' ')[0][4:]
                k = o.split()[1]
                dom = {'nextnum': r'^\d+$', 'curnum': r'^\d+$', 'nextpath': r'^(null|path:\d+)$', 'init': r'^(true|false)$', 'auto': r'^(true|false)$',
                       'check': r'^(true|false)$', 'update': r'^(-1|0|1|3)$'}.get(k, r'^unit$')
                if not re.match(dom, out):
                    fails.append((name, 0, 'C13: `%s` returned %s, outside its documented domain' % (k, out), ops, header))
                distinct.add((k, out, l.split(' pj=')[1][:1]))
        for x in extras + extras2:
            if 'PANIC-HOOK' in x or 'CRASH' in x:
                fails.append(('harness', 0, 'C13: ' + x[:300], ['op nextnum'], header))
            elif 'THREAD-STUCK' in x:
                # a thread of the library that never ends (blocked on a channel, a pipe, a lock): the call returned, the thread hangs
                m = re.search(r'hist=(\S+)', x)
                h = m.group(1) if m and m.group(1) in opsof else 'harness'
                fails.append((h, len(opsof.get(h, [])) - 1 if h in opsof else 0, 'C13: ' + x[:300], opsof.get(h, ['op nextnum']), header))
        extras = [x for x in extras + extras2 if 'PANIC-HOOK' not in x and 'CRASH' not in x and 'THREAD-STUCK' not in x]
        samples = [{'history': hs_impl[0][0], 'ops': [o[:100] for o in hs_impl[0][1][:8]]}, {'history': hs_both[0][0], 'ops': [o[:100] for o in hs_both[0][1][:6]]}]
        return dict(evaluations=evals, distinct=len(distinct), samples=samples, divergences=divs, monitor_fail=fails,
                    rule='malformed state.json / patches_state.json (typed mutants, truncation, byte noise, huge values), files where directories are expected and vice versa, malformed YAML, extreme patch numbers / hashes / downloads, unconformant random call orders incl. calls before init; a panic hook on every thread + process exit status; every output checked against its documented domain; non-trivial = distinct (call, output, state-file kind)',
                    dist={'malformed_histories': len(hs_impl), 'model_compared_histories': len(hs_both), 'state_json_texts_compared': len(stexts), 'extraction_equations_checked_in_the_kernel': nxc, 'distinct_state_files_written_by_the_library_checked_against_the_writer_model': ncanon, 'patches_state_json_texts_compared': len(texts),
                          'histories_the_model_cannot_represent_(foreign platform in a stored event)': len(set(UNREP_SKIPPED))}, extras=extras, traces=len(impl) + len(impl2))
    finally:
        ctx.cleanup()
        shutil.rmtree(work, ignore_errors=True)
        shutil.rmtree(work + 'b', ignore_errors=True)


# ------------------------------------------------------------------ C15 (ABI tables, symbols, memory)
def run_C15(pid, tier, seed, model_ok=True):
    rnd = random.Random(seed)
    fails, divs, extras = [], [], []
    header = ['base @base']
    # exported symbols of the cdylib built from the current tree
    tdir = os.path.join(CACHE, 'repo-target')
    p = sh('timeout 1500 cargo build --offline -p updater 2>&1', cwd=REPO, env=dict(ENVV, CARGO_TARGET_DIR=tdir), timeout=1600)
    so = os.path.join(tdir, 'debug', 'libupdater.so')
    syms = set()
    if p.returncode != 0 or not os.path.exists(so):
        extras.append('cdylib build failed: ' + p.stdout[-500:])
    else:
        out = sh(['nm', '-D', '--defined-only', so]).stdout
        syms = set(l.split()[-1] for l in out.splitlines() if ' T ' in l and 'shorebird_' in l)
    tbl = open(os.path.join(COQ, 'gen', 'AbiTables.v')).read()
    rust_names = set(re.findall(r'\("(shorebird_\w+)"', tbl.split('Definition header_fns')[0]))
    if syms and syms != rust_names:
        fails.append(('symbols', 0, 'C15: exported symbols differ from the prototypes: only in library %s, only in tables %s' % (sorted(syms - rust_names), sorted(rust_names - syms)), ['op nextnum'], header))
    # status codes provoked through the C API + ownership under valgrind
    ctx = Ctx(seed=seed)
    work = os.path.join(CACHE, 'work-%s-%d' % (pid, os.getpid()))
    try:
        al = gen.Alphabet(ctx)
        hs = [('codes', [al.init] + al.seq(['u1', 'u1', 'uperr', 'udl2', 'uh2', 'upnone', 's', 'fail', 'u1', 'p', 'q', 'u2', 'p', 'p', 'R', 'p']) + ['op update - err err'])]
        hs.append(('codes_noinit', ['op update - err err', 'op nextpath', al.init, 'op nextpath']))
        # the three exported entry points that return nothing: shorebird_update, shorebird_start_update_thread,
        # shorebird_check_for_update behave as update(None) / check(None) with the answer dropped
        u_of = lambda kind, o: o.replace('op update - ', 'op %s ' % kind, 1)
        nores = 0
        for pk in ('empty', 'good1', 'good1pend2', 'good1boot2', 'good1bad2'):
            for kind in ('update0', 'updatet'):
                for lab in ('u1', 'u2', 'u3', 'upnone', 'uperr', 'udl2', 'uh2', 'rb1', 'u3rb2'):
                    o = al.ops[lab][0]
                    assert o.startswith('op update - ')
                    hs.append(('nores%d' % nores, [al.init] + al.seq(PFX[pk]) + [u_of(kind, o)] + al.seq(['q', 'p', 'c', 's', 'c', 'ok', 'q', 'R', 'q'])))
                    nores += 1
            for lab in ('ck2', 'crb1', 'ckerr'):
                o = al.ops[lab][0].replace('op check - ', 'op check0 ', 1)
                hs.append(('nores%d' % nores, [al.init] + al.seq(PFX[pk]) + [o] + al.seq(['q', 'p', 'c'])))
                nores += 1
        hs.append(('nores_noinit', ['op update0 err err', 'op updatet err err', 'op check0 err', al.init, 'op nextnum']))
        # the C wrappers with NULL / ill-formed UTF-8 arguments (model: CApi.cstep): each pointer argument of shorebird_init
        # proper, NULL or not UTF-8, one at a time and in pairs; NULL to the free functions; a channel that is not UTF-8
        relt = hx(REL1)
        yt = al.init.split()[3]
        specs = ['noooooo'[:6], 'nooooo', 'onoooo', 'oonooo', 'ooonoo', 'oooono', 'ooooon', 'oboooo', 'oobooo', 'ooobo' + 'o', 'oooobo', 'ooooob',
                 'ooooeo', 'onnnnn', 'obbbbb', 'oonoon', 'obooob']
        specs = sorted(set(x for x in specs if len(x) == 6 and x != 'oooooo'))
        edge_ops = ['op initbadutf8', 'op freenull', 'op updatebadch', 'op checkbadch']
        for sp in specs:
            edge_ops += ['op cinit %s %s %s' % (relt, yt, sp), 'op nextnum']
        edge_ops += ['op cinit %s %s oooooo' % (relt, yt)] + al.seq(['u1']) + ['op freenull', 'op updatebadch', 'op checkbadch', 'op nextnum']
        for sp in specs[::3]:
            edge_ops += ['op cinit %s %s %s' % (relt, yt, sp), 'op nextnum']
        edge_ops += ['op initbadutf8', 'op nextnum', 'op start', 'op updatebadch', 'op curnum']
        hs.append(('abi_edges', edge_ops))
        model, impl, ex = run_both(ctx.header(), hs, work, impl_only=not model_ok)
        extras += ex
        if model_ok:
            for (h, idx, ml, il) in diff_traces(model, impl):
                divs.append((h, idx, ml, il, dict(hs)[h], ctx.header()))
        seen = set()
        for h in impl:
            for l in impl[h]:
                seen.add(l.split(' ')[0][4:])
        # the status delivered through the C API is the documented one (C15_status_constants: 0 no update, 1 installed,
        # 2 had error, 3 bad patch, -1 error): where model and library agree on everything but the number an update call
        # returned, that call is the failing input
        for (h, idx, ml, il, ops_, hdr_) in list(divs):
            if idx >= 0 and idx < len(ops_) and ops_[idx].split()[1:2] == ['update'] and ml.split(' ', 1)[1:] == il.split(' ', 1)[1:]:
                fails.append((h, idx, 'C15: the update call returned status %s through the C API where the documented value for this outcome is %s' % (
                    il.split(' ')[0][4:], ml.split(' ')[0][4:]), ops_, hdr_))
        # shorebird_update_with_result always hands out a result struct (callers read its status without a null check)
        for h, ops_ in hs:
            for j, l in enumerate(impl.get(h, [])):
                o_ = l.split(' ')[0][4:]
                if 'NULLRESULT' in o_ or ':nomsg' in o_:
                    fails.append((h, j, 'C15: shorebird_update_with_result returned %s for `%s` (an owned result with status -1 and a message is the contract)' % (
                        'NULL' if 'NULLRESULT' in o_ else 'an error status without a message', ops_[j] if j < len(ops_) else '?'), ops_, ctx.header()))
        for code in ('-1', '0', '1', '3'):
            if code not in seen:
                fails.append(('codes', 0, 'C15: status %s was not delivered through the C API by the scenario that should produce it' % code, hs[0][1], ctx.header()))
        # ownership: every string / result struct handed out through the C API must be released with the size it was
        # allocated with (Rust's allocator contract; the system malloc does not notice).  The harness' tracking allocator
        # checks every block allocated during a C API call against its release; error texts carry an interior NUL here,
        # the one content a C string cannot represent.
        own = [('own', [al.init] + al.seq(['u1', 'p', 'uperr', 'udl2', 'uh2', 'p', 'q', 's', 'fail', 'u1', 'p', 'upnone', 'u2', 'p']) + ['op update - err err', 'op nextpath']),
               ('own_noinit', ['op update - err err', 'op nextpath', al.init, 'op update - err err', op_update(ctx, 1, dl='err'), 'op nextpath'])]
        _, oimpl, oex = run_both(['track on', 'errnul on'] + ctx.header(), own, work + 't', impl_only=True)
        nown = sum(len(v) for v in oimpl.values())
        for x in oex:
            if 'ALLOC-MISMATCH' in x:
                fails.append(('own', 0, 'C15: a string or result handed out through the C API is released with another size than it was allocated with (invalid free): ' + x, own[0][1], ['track on', 'errnul on'] + ctx.header()))
            elif 'PANIC-HOOK' in x or 'CRASH' in x:
                fails.append(('own', 0, 'C15: ' + x[:300], own[0][1], ['track on', 'errnul on'] + ctx.header()))
        if nown != sum(len([o for o in ops if o.startswith('op ')]) for _, ops in own):
            extras.append('C15 ownership run incomplete: %d results' % nown)
        f = os.path.join(work, 'vg.ops')
        os.makedirs(work, exist_ok=True)
        write_opfile(f, ctx.header(), hs[:12])
        vg = sh(['valgrind', '--error-exitcode=9', '--leak-check=no', '-q', UVH, 'replay', f, os.path.join(work, 'vgw')], timeout=600)
        if vg.returncode == 9:
            fails.append(('valgrind', 0, 'C15: memcheck reports an invalid free / access on strings or results returned by the library: ' + vg.stderr[-600:], hs[0][1], ctx.header()))
        elif vg.returncode != 0:
            extras.append('valgrind run failed rc=%d %s' % (vg.returncode, vg.stderr[-300:]))
    finally:
        ctx.cleanup()
        shutil.rmtree(work, ignore_errors=True)
        shutil.rmtree(work + 't', ignore_errors=True)
    nent = len(re.findall(r'^\s+\("', tbl, flags=re.M))
    return dict(evaluations=nent + len(syms) + 20, distinct=nent, samples=[{'exported_symbols': sorted(syms)[:6]}, {'table_rows': nent}],
                divergences=divs, monitor_fail=fails,
                rule='tables regenerated from c_api/mod.rs, updater.rs, include/updater.h and the Dart bindings (every exported prototype, repr(C) struct, SHOREBIRD_* constant, UpdateStatus variant); nm -D of the cdylib built from the current tree; every status code provoked through the C API; shorebird_update / shorebird_start_update_thread / shorebird_check_for_update from 5 lifecycle states x 9 server answers vs update(None) / check(None) of the model; scenarios under valgrind memcheck; non-trivial = table rows',
                dist={'symbols': len(syms), 'resultless_entry_point_histories': nores}, extras=extras, traces=len(hs))



# ------------------------------------------------------------------ C04 (crash / fault injection)
# (SHIM, build_shim: uvlib)


def c04_targets(ctx, al, tier):
    """(name, ops before target, target op lines (last one is the target), init tokens for recovery, kind)"""
    T = []
    states = ['empty', 'pend1', 'boot1', 'good1', 'good1pend2', 'good1boot2', 'good1boot2pend3', 'good2pend1']
    single = ['u1', 'u2', 'u3', 's', 'ok', 'fail', 'rb1', 'rb2', 'rb12', 'ck2', 'q', 'u3rb2', 'crb1', 'u1b']
    if tier == 'quick':
        states = ['pend1', 'boot1', 'good1pend2', 'good1boot2', 'good1boot2pend3']
        single = ['u2', 'u3', 's', 'ok', 'fail', 'rb1', 'rb2', 'q', 'u3rb2']
    init_toks = al.init.split()[1:]
    rv_init = op_init(rel=REL2).split()[1:]
    pres = [(stt, [al.init] + al.seq(PFX[stt])) for stt in states]
    if tier == 'thorough':
        # every 2-step and a sample of 3-step lifecycle prefixes, so that the target call starts from
        # states the named prefixes do not reach (bans, fallbacks, installs during boot, lower numbers)
        import itertools
        alpha = ['u1', 'u2', 'u3', 's', 'ok', 'fail', 'R', 'rb1']
        seqs = list(itertools.product(alpha, repeat=2))
        r3 = random.Random(7)
        seqs += r3.sample(list(itertools.product(alpha, repeat=4)), 120)
        for sq in seqs:
            pres.append(('x' + '.'.join(sq), [al.init] + al.seq(('u1', 's') + tuple(sq))))
    for stt, pre in pres:
        for t in single:
            T.append(('%s_%s' % (stt, t), pre, al.ops[t], init_toks, 'same'))
        # selection damaged, then a query falls back
        for dmg in ('dD1', 'dT2', 'dD2'):
            T.append(('%s_%s_q' % (stt, dmg), pre + al.ops[dmg], ['op nextnum'], init_toks, 'same'))
        # process restart with crash detection, and first launch of another release
        T.append(('%s_R' % stt, pre + ['op kill'], [al.init], init_toks, 'same'))
        T.append(('%s_RV' % stt, pre + ['op kill'], [op_init(rel=REL2)], rv_init, 'relchange'))
        T.append(('%s_sjgarbage_R' % stt, pre + ['op kill', 'op dmg sj garbage'], [al.init], init_toks, 'relchange'))
    return T


def c04_judge_fail(ops, tail, lines, kind, bad_before):
    """one file-system call of the last op of `ops` failed and execution continued (`lines` = the whole trace incl. tail):
    whatever is selected by the faulted call itself and afterwards, in this process and at the next launch, must be intact,
    not on the ban list of the state it is selected from, and of the current release (bad_before: unused, kept for old replay files).  Returns [(index, patch, why)]."""
    out_ = []
    sts = [parse_line(l) for l in lines]
    for j in range(len(ops) - 1, len(sts)):
        o_ = sts[j]['out']
        n = int(o_) if o_.isdigit() and o_ != '0' and (ops + tail)[j].endswith('nextnum') else None
        if n is None:
            continue
        nb = pstate(sts[j])['nb']
        art = sts[j]['arts'].get(n, '')
        why = None
        if j == len(ops) - 1:
            # the faulted call itself: the state file may be stale or torn (its write is what failed), so the answer is judged
            # against whichever record of that number is on disk before or after the call (selected or last good)
            recs = [r_ for stx in (sts[j], sts[j - 1]) for r_ in (pstate(stx)['nb'], pstate(stx)['lb'], pstate(stx)['cb']) if r_ and r_['num'] == n]
            if not any(art.startswith('F%d.' % r_['size']) for r_ in recs):
                why = 'not intact'
        elif nb is None or nb['num'] != n or not art.startswith('F%d.' % nb['size']):
            why = 'not intact'
        if why:
            pass
        elif n in pstate(sts[j])['bad']:
            # (the fault sentence of C04 does not carry the "not banned before" clause of the kill sentence: a failed write
            # of state.json legitimately ends in a reset that forgets the ban list - see DESIGN 12.13; what the theorem
            # C04_fault_safe states, and what is judged here, is the ban list of the state the patch is selected from)
            why = 'it is on the ban list of the state it is selected from'
        elif kind == 'relchange':
            why = 'a patch of another release (fault_in_reset_of_release_change)'
        if why:
            out_.append((j, n, why))
    return out_


def run_C04(pid, tier, seed, model_ok=True):
    from concurrent.futures import ThreadPoolExecutor
    build_shim()
    rnd = random.Random(seed)
    ctx = Ctx(seed=seed)
    work = os.path.join(CACHE, 'work-%s-%d' % (pid, os.getpid()))
    os.makedirs(work, exist_ok=True)
    try:
        al = gen.Alphabet(ctx)
        targets = c04_targets(ctx, al, tier)
        # with a signing key configured the artifact is READ when a selection is validated (signing::hash_file): a few
        # targets under a key, so that failing / dying at that read is compared with the model's validateM step too
        alk = gen.Alphabet(ctx, key=KEY1)
        kstates = ['pend1', 'good1pend2'] if tier == 'quick' else ['pend1', 'boot1', 'good1pend2', 'good1boot2']
        for stt in kstates:
            prek = [alk.init] + alk.seq(PFX[stt])
            for t in ('q', 's', 'rb2', 'u3'):
                targets.append(('K_%s_%s' % (stt, t), prek, alk.ops[t], alk.init.split()[1:], 'same'))
            targets.append(('K_%s_R' % stt, prek + ['op kill'], [alk.init], alk.init.split()[1:], 'same'))
        header = ctx.header()
        tail0 = ['op nextnum', 'op nextpath', 'op curnum', 'op kill', al.init, 'op nextnum', 'op nextpath', 'op curnum']
        tail = tail0
        fails, divs, extras, samples = [], [], [], []
        evals = 0
        distinct = set()
        hit_states = set()

        def state_of(line):
            return line[line.index(' sj=') + 1:line.index(' net=')]

        def one(t):
            name, pre, tops, init_toks, kind = t
            tail = [('op ' + ' '.join(init_toks)) if (x == al.init and kind == 'same') else x for x in tail0]   # restart with the target's own configuration
            res = dict(name=name, crash=[], fail=[], problems=[], model_crash=set(), model_rec={}, model_fail=set(), ops=None)
            d = os.path.join(work, name)
            os.makedirs(d, exist_ok=True)
            ops = pre + tops
            res['ops'] = ops
            cut_index = len(ops)          # 1-based index of the target op among `op` lines
            f = os.path.join(d, 'x.ops')
            # ---- model: crash set and fail set of the target op
            for mode in ('crashop', 'failop'):
                mf = os.path.join(d, mode + '.ops')
                with open(mf, 'w') as fh:
                    fh.write('\n'.join(header) + '\nhistory %s\n' % name + '\n'.join(pre + tops[:-1]) + '\n%s\n%s\n' % (mode, tops[-1]))
                if model_ok:
                    mo = subprocess.run([DRIVER, mf], capture_output=True, text=True, timeout=600)
                    if mo.returncode != 0:
                        res['problems'].append('model analysis failed: ' + mo.stderr[-300:])
                    for l in mo.stdout.splitlines():
                        if l.startswith('CRASHSET '):
                            st, rec = l[9:].split(' || ')
                            res['model_crash'].add(st)
                            res['model_rec'].setdefault(st, set()).add(rec)
                        elif l.startswith('FAILSET '):
                            res['model_fail'].add(l[8:])
            write_opfile(f, header, [(name, ops + tail)])
            # faults hit the files of the download directory too (Fault.downloadM models their system calls as steps)
            env = dict(os.environ, LD_PRELOAD=SHIM, UVH_KEEP='1', UVH_CUT_OP=str(cut_index), UVH_FAULT_SCOPE='all')
            # uncut run (reference)
            ref = subprocess.run([UVH, 'replay', f, os.path.join(d, 'ref')], capture_output=True, text=True)
            res['ref'] = [l for l in ref.stdout.splitlines() if l.startswith('out=')]
            # ---- crash at every mutating system call of the target op
            for k in range(0, 80):
                wd = os.path.join(d, 'c%d' % k)
                r = subprocess.run([UVH, 'replay', f, wd], capture_output=True, text=True, env=dict(env, SHIM_CUT=str(k)))
                if r.returncode == 0:
                    shutil.rmtree(wd, ignore_errors=True)
                    break
                if r.returncode != 137:
                    res['problems'].append('crash run k=%d ended with rc=%d %s' % (k, r.returncode, r.stderr[-200:]))
                    shutil.rmtree(wd, ignore_errors=True)
                    break
                a = subprocess.run([UVH, 'after', os.path.join(wd, 'h_' + name)] + init_toks, capture_output=True, text=True)
                lines = [l for l in a.stdout.splitlines() if l.startswith('out=')]
                if a.returncode != 0 or len(lines) != 2:
                    res['problems'].append('next launch after a kill at step %d did not complete: rc=%d %s %s' % (k, a.returncode, a.stdout[-200:], a.stderr[-200:]))
                else:
                    res['crash'].append((k, state_of(lines[0]), lines[1][4:lines[1].index(' net=')], r.stderr.strip().splitlines()[-1:] ))
                shutil.rmtree(wd, ignore_errors=True)
            # ---- one failing system call, execution continues
            for k in range(0, 80):
                wd = os.path.join(d, 'f%d' % k)
                r = subprocess.run([UVH, 'replay', f, wd], capture_output=True, text=True, env=dict(env, SHIM_FAIL=str(k), UVH_KEEP=''))
                lines = [l for l in r.stdout.splitlines() if l.startswith('out=')]
                reached = 'SHIM FAIL' in r.stderr
                shutil.rmtree(wd, ignore_errors=True)
                if r.returncode != 0 or len(lines) != len(ops) + len(tail):
                    res['problems'].append('run with failing step %d: rc=%d, %d of %d results %s' % (k, r.returncode, len(lines), len(ops) + len(tail), r.stdout[-200:]))
                    break
                if not reached:
                    break
                res['fail'].append((k, lines, [x for x in r.stderr.splitlines() if 'SHIM FAIL' in x][-1:]))
            # ---- one failing READ (open of state.json / patches_state.json / an artifact for reading), execution continues.
            # (the model's loadM / create_newM have read steps too: these runs take part in the inclusion check)
            res['rfail'] = []
            for k in range(0, 120):
                wd = os.path.join(d, 'r%d' % k)
                r = subprocess.run([UVH, 'replay', f, wd], capture_output=True, text=True, env=dict(env, SHIM_FAIL=str(k), SHIM_READS='1', UVH_KEEP=''))
                lines = [l for l in r.stdout.splitlines() if l.startswith('out=')]
                hitl = [x for x in r.stderr.splitlines() if 'SHIM FAIL' in x][-1:]
                shutil.rmtree(wd, ignore_errors=True)
                if not hitl:
                    break
                if 'read-open' not in hitl[0]:
                    continue
                if r.returncode != 0 or len(lines) != len(ops) + len(tail):
                    res['problems'].append('run with failing read %d %s: rc=%d, %d of %d results %s' % (k, hitl, r.returncode, len(lines), len(ops) + len(tail), r.stdout[-200:]))
                    break
                res['rfail'].append((k, lines, hitl))
            shutil.rmtree(d, ignore_errors=True)
            return res

        with ThreadPoolExecutor(max_workers=NPROC) as ex:
            results = list(ex.map(one, targets))
        kinds = {t[0]: t[4] for t in targets}
        nread = [0]
        for res in results:
            name = res['name']
            ops = res['ops']
            for pmsg in res['problems']:
                fails.append((name, len(ops) - 1, 'C04: ' + pmsg, ops, header))
            ref = res['ref']
            pre_state = parse_line(ref[len(ops) - 2]) if len(ref) >= len(ops) - 1 and len(ops) >= 2 else monitors.EMPTY
            bad_before = set(pstate(pre_state)['bad']) if kinds[name] == 'same' else set()
            for (k, st, rec, where) in res['crash']:
                evals += 1
                distinct.add((name, st))
                if model_ok:
                    if st not in res['model_crash']:
                        divs.append((name, len(ops) - 1, 'no model crash state equals the real one (kill at real step %d %s)' % (k, where), st, ops, header))
                    elif rec not in res['model_rec'][st]:
                        divs.append((name, len(ops) - 1, 'recovery differs after kill at step %d: model %s' % (k, sorted(res['model_rec'][st])[:1]), rec, ops, header))
                    else:
                        hit_states.add((name, st))
                # the property itself, on the implementation's recovery
                outs, rstate = rec.split(' ', 1)
                o = outs.split(',')
                cst = parse_line('out=x ' + st + ' net=')
                rst = parse_line('out=x ' + rstate + ' net=')
                if o[0] not in ('true', 'false'):
                    fails.append((name, len(ops) - 1, 'C04: next launch after kill at step %d did not initialise (%s)' % (k, outs), ops, header))
                if o[1] != '0':
                    n = int(o[1])
                    nb = pstate(rst)['nb']
                    art = rst['arts'].get(n, '')
                    why = None
                    if nb is None or nb['num'] != n or not art.startswith('F%d.' % nb['size']):
                        why = 'not intact'
                    elif n in bad_before:
                        why = 'banned before the interrupted call'
                    elif pstate(cst)['cb'] and pstate(cst)['cb']['num'] == n:
                        why = 'its own launch was in progress when the process died'
                    elif kinds[name] == 'same' and pstate(pre_state)['cb'] and pstate(pre_state)['cb']['num'] == n and \
                            any(x.split()[1] in ('failure', 'init') for x in ops[-1:]):
                        why = 'its own launch was in progress (and being reported failed) when the process died'
                    elif n in pstate(rst)['bad']:
                        why = 'it is on the ban list of the recovered state'
                    elif kinds[name] == 'relchange':
                        why = 'a patch of another release (crash_in_release_change)'
                    if why:
                        fails.append((name, len(ops) - 1, 'C04: after a kill at step %d %s the next launch selects patch %d: %s' % (k, where, n, why), ops, header))
            nread[0] += len(res.get('rfail', []))
            for (k, lines, where) in res['fail'] + [(k_, l_, w_ + ['READ']) for (k_, l_, w_) in res.get('rfail', [])]:
                evals += 1
                st = state_of(lines[len(ops) - 1])
                distinct.add((name, 'F', st))
                if model_ok and st not in res['model_fail']:
                    divs.append((name, len(ops) - 1, 'no model outcome of a failing step equals the real state (failing real step %d %s)' % (k, where), st, ops, header))
                for (j, n, why) in c04_judge_fail(ops, tail, lines, kinds[name], bad_before):
                    spec = 'faultspec mode=fail k=%d reads=%d target=%d kind=%s bad=%s' % (k, 1 if 'READ' in where else 0, len(ops), kinds[name], ','.join(str(x) for x in sorted(bad_before)) or '-')
                    fails.append((name, j, 'C04: with system call %d %s failing, patch %d is selected afterwards: %s' % (k, where, n, why), ops + tail, header + [spec]))
            if len(samples) < 6 and res['crash']:
                samples.append({'target': name, 'kill_points': len(res['crash']), 'failing_calls': len(res['fail']), 'model_crash_states': len(res['model_crash']),
                                'example': res['crash'][0][1][:160]})
        return dict(evaluations=evals, distinct=len(distinct), samples=samples, divergences=divs, monitor_fail=fails,
                    rule='for %d (state, call) targets incl. restart with crash detection, first launch of another release, unreadable state.json: the real process is killed (LD_PRELOAD shim) before each mutating system call of the call, the next launch is played; and each mutating call is made to fail with EIO once with execution continuing. Real crash/fault states must be among the model\'s (all k, all partial-deletion subsets), recoveries equal; safety judged on the implementation; non-trivial = distinct (target, abstract crash state); model crash states hit: %d' % (len(targets), len(hit_states)),
                    dist={'targets': len(targets), 'failing_reads_judged_on_the_implementation': nread[0]}, extras=extras, traces=evals)
    finally:
        ctx.cleanup()
        shutil.rmtree(work, ignore_errors=True)


C06_RULE = ('(a) every injected failure (check error, download error, junk download, bad hash, contradictory response, not-available) x2 from lifecycle states, followed by healthy updates; '
            '(b) the same library through its default reqwest callbacks against a scripted local HTTP server: refused / closed / reset / stalled connections, non-HTTP bytes, error statuses, truncated and unterminated bodies, bad chunking, '
            '50 response bodies (wrong types, missing / duplicate fields, extreme numbers, trailing data, bad UTF-8, deep nesting) each mapped to the response serde should make of it, from lifecycle states, followed by a healthy update; '
            'non-trivial = distinct (state, update-with-offer) for (a), distinct (state, server behaviour) for (b)')


C17_RULE = ('exhaustive depth-k lifecycle histories + histories with many failures before an update and restarts in between; every interleaving of an update with launch '
            'reports of another thread (download event iff installed); non-trivial = distinct (state, op) that sent or queued an event')
C14_RULE = ('second init (6 parameter variants) at every position of exhaustive depth-k histories, then requests; two threads initialising concurrently '
            'with different parameters under every order of their config-mutex acquisitions (scheduler-controlled real threads): exactly one init succeeds and '
            'its app id / channel / release are the ones later requests carry; non-trivial = distinct (state, rejected init)')


def judge_concurrent_init(ops, tr):
    """ops: [... 't0 op init A', 't1 op init B', 'order ..', 'op check - err', ...]; returns [(index into ops, message)] or None"""
    k = next(i for i, o in enumerate(ops) if o.startswith('t0 '))
    nlines = len([o for o in ops if o.startswith('op ')]) + 1
    if tr is None or len(tr) != nlines:
        return None
    res = parse_line(tr[k])['out'].split('|')
    req = [x for x in parse_line(tr[k + 1])['net'] if x.startswith('C:')]
    want = {('true', 'false'): 'C:%s.%s.%s' % (hx('app-A'), hx('chA'), hx(REL1)), ('false', 'true'): 'C:%s.%s.%s' % (hx('app-B'), hx('chB'), hx(REL2))}.get(tuple(res))
    out = []
    if want is None:
        out.append((len(ops) - 1, 'C14: two concurrent init calls returned %s: exactly one initialisation may succeed, the other must report failure' % res))
    elif req != [want]:
        out.append((len(ops) - 1, 'C14: init results %s, yet the configuration in use afterwards sends %s (expected %s)' % (res, req, want)))
    return out


C07_RULE = ('10 signature variants x 4 configured keys x lifecycle states; same-size/different-size tampering x continuations; exhaustive + random walks under a key; '
            'the model\'s base64 decoder against the library\'s engine on valid, unpadded, over-padded, stray-bit, url-safe, whitespace and non-ASCII strings; '
            'non-trivial = distinct (state, query/start with a selection)')


def fault_runs(header, name, ops, target_index, workdir, reads=True, maxk=60, scope=None):
    """Runs the history once per k with the k-th file-system call (mutating calls, and opens for reading when `reads`)
    of its op number `target_index` (1-based among op lines) failing with EIO, execution continuing.
    Returns [(k, out= lines, what failed)]."""
    build_shim()
    os.makedirs(workdir, exist_ok=True)
    f = os.path.join(workdir, name + '.ops')
    write_opfile(f, header, [(name, ops)])
    res = []
    nops = len([o for o in ops if o.startswith('op ')])
    for k in range(maxk):
        wd = os.path.join(workdir, '%s.f%d' % (name, k))
        env = dict(os.environ, LD_PRELOAD=SHIM, UVH_CUT_OP=str(target_index), SHIM_FAIL=str(k))
        if reads:
            env['SHIM_READS'] = '1'
        if scope:
            env['UVH_FAULT_SCOPE'] = scope
        r = subprocess.run([UVH, 'replay', f, wd], capture_output=True, text=True, env=env)
        shutil.rmtree(wd, ignore_errors=True)
        hitl = [x for x in r.stderr.splitlines() if 'SHIM FAIL' in x][-1:]
        if not hitl:
            break
        lines = [l for l in r.stdout.splitlines() if l.startswith('out=')]
        res.append((k, lines if (r.returncode == 0 and len(lines) == nops) else None, hitl[0] + ((' | rc=%d %s' % (r.returncode, r.stdout[-200:])) if r.returncode else '')))
    return res


def damaged_x_failing_call(a, pid, seed, key, dmgs, work):
    """patch 2 is installed, its artifact is damaged from outside, and the query / launch start that discovers it has one
    of its file-system calls (reads included) failing with EIO: patch 2 must not be handed out by that call or afterwards"""
    ctx = Ctx(seed=seed)
    try:
        al = gen.Alphabet(ctx, key=key)
        header = ctx.header()
        nf = 0
        for pk in ('empty', 'good1'):
            for dm in dmgs:
                for tgt in (['op nextnum'], ['op nextpath'], ['op start', 'op curnum']):
                    ops = [al.init] + al.seq(PFX[pk]) + [op_update(ctx, 2, signed=key is not None)] + al.seq([dm]) + tgt + ['op nextnum']
                    ti = len(ops) - len(tgt)          # 1-based index of the first op of tgt
                    name = '%sf_%s_%s_%s' % (pid.lower(), pk, dm, tgt[0].split()[1])
                    for (k, lines, where) in fault_runs(header, name, ops, ti, work):
                        nf += 1
                        if lines is None:
                            a['monitor_fail'].append((name, ti - 1, '%s: with one file-system call failing (%s) the call did not return normally' % (pid, where), ops, header))
                            continue
                        for j in range(ti - 1, len(lines)):
                            out = parse_line(lines[j])['out']
                            if out in ('2', 'path:2'):
                                a['monitor_fail'].append((name, j, '%s: patch 2 was damaged after installation (%s) and is handed out (%s) when a file-system call of the query fails: %s' % (pid, dm, out, where), ops,
                                                          header + ['faultspec mode=fail k=%d reads=1 target=%d kind=c07 bad=-' % (k, ti)]))
        a['evaluations'] += nf
        a['dist'] = dict(a.get('dist', {}))
        a['dist']['damaged_artifact_x_failing_call_runs'] = a['dist'].get('damaged_artifact_x_failing_call_runs', 0) + nf
    finally:
        ctx.cleanup()


C01_RULE = ('damage op at every position of lifecycle prefixes x continuations, exhaustive small alphabet, guided random walks with stale-file damage; '
            'a damaged artifact (deleted, truncated; modified at the same size under a key) x every single failing file-system call of the query or launch start that discovers it; '
            'non-trivial = distinct (abstract disk state, op) pairs where a query/start ran with a selected next boot patch')


def c05_judge_fault(ops, lines, ti, ref_art):
    """one file-system call of the update (op number ti, download and inflate files included) failed: if patch 2 is
    nevertheless handed out by that update or afterwards, its artifact must be the file the healthy run installs"""
    bad = []
    for j in range(ti - 1, len(lines)):
        st = parse_line(lines[j])
        if st['out'] in ('2', 'path:2') and ops[j].split()[1] in ('nextnum', 'nextpath') and st['arts'].get(2) != ref_art:
            bad.append('patch 2 is handed out (%s) at op %d but its artifact is %s, not the file whose hash was advertised (%s)' % (st['out'], j, st['arts'].get(2), ref_art))
            break
    return bad


C05_RULE = ('byte-level mutants (flip/truncate/extend at zstd and at bidiff level) of a genuine patch, wrong base, empty/junk downloads, hash-string variants, each from 4 lifecycle states followed by a genuine install; '
            'a genuine update with every single file-system call failing once, the download and inflate files under cache/ included (what is handed out afterwards is the advertised file or nothing); '
            'non-trivial = distinct (state, update-with-offer)')


def android_base_stream(a, rnd, work):
    """C05, "the bundled base binary" on Android: library/src/android.rs (compiled for Android and for tests only; source-
    included in the harness) reads libapp.so out of the APK.  Whatever the container does - stored or deflated entry, an
    entry larger than one inflater read, a split APK for this architecture next to a base.apk - the bytes handed to
    inflate as the base must be the bytes of the bundled library."""
    import zipfile, platform
    m = platform.machine()
    libdir, split = {'x86_64': ('x86_64', 'x86_64'), 'aarch64': ('arm64-v8a', 'arm64_v8a')}.get(m, (None, None))
    if libdir is None:
        return
    inner = 'lib/%s/libapp.so' % libdir
    libs = {'small': bytes(rnd.randrange(256) for _ in range(700)),
            'big_random': bytes(rnd.randrange(256) for _ in range(300000)),
            'big_regular': (b'shorebird-libapp-' * 40000)[:500000],
            'big_zero_tail': bytes(rnd.randrange(256) for _ in range(70000)) + bytes(200000),
            'empty': b''}
    n = 0
    for ln, lib in libs.items():
        for comp, cn in ((zipfile.ZIP_STORED, 'stored'), (zipfile.ZIP_DEFLATED, 'deflated')):
            for layout in ('base', 'split'):
                d = os.path.join(work, 'apk_%s_%s_%s' % (ln, cn, layout))
                os.makedirs(d, exist_ok=True)
                with zipfile.ZipFile(os.path.join(d, 'base.apk'), 'w') as z:
                    z.writestr(zipfile.ZipInfo('AndroidManifest.xml'), b'<manifest/>')
                    if layout == 'base':
                        z.writestr(zipfile.ZipInfo(inner), lib, compress_type=comp)
                if layout == 'split':
                    with zipfile.ZipFile(os.path.join(d, 'split_config.%s.apk' % split), 'w') as z:
                        z.writestr(zipfile.ZipInfo(inner), lib, compress_type=comp)
                        z.writestr(zipfile.ZipInfo('lib/other/libapp.so'), b'not this one', compress_type=comp)
                out = os.path.join(d, 'out.bin')
                r = subprocess.run([UVH, 'baselib', d, out], capture_output=True, text=True)
                n += 1
                got = open(out, 'rb').read() if os.path.exists(out) else None
                if 'baselib=ok' not in r.stdout or got != lib:
                    why = 'not read (%s)' % (r.stdout.strip() or r.stderr.strip()[-200:]) if got is None else \
                        '%d bytes, the first difference at offset %d' % (len(got), next((i for i in range(min(len(got), len(lib))) if got[i] != lib[i]), min(len(got), len(lib))))
                    a['monitor_fail'].append(('apk_%s_%s_%s' % (ln, cn, layout), 0,
                                              'C05: the base binary read from the APK (%s entry of %d bytes, %s layout) is not the bundled library: %s' % (cn, len(lib), layout, why),
                                              ['apk %s %s %s %d' % (ln, cn, layout, len(lib))], []))
                shutil.rmtree(d, ignore_errors=True)
    a['evaluations'] += n
    a['dist'] = dict(a.get('dist', {}), android_apk_base_reads=n)


def run_C05(pid, tier, seed, model_ok=True):
    a = run_lifecycle(pid, tier, seed, build_C05, [monitors.mon_C05, monitors.mon_healthy], trig_update, C05_RULE, model_ok=model_ok)
    ctx = Ctx(seed=seed)
    work = os.path.join(CACHE, 'work-%s-flt-%d' % (pid, os.getpid()))
    os.makedirs(work, exist_ok=True)
    try:
        header = [h for h in ctx.header() if h != 'dls on']
        nf = 0
        for key in (None, KEY1):
            al = gen.Alphabet(ctx, key=key)
            for pk in ('empty', 'good1', 'good1pend2'):
                ops = [al.init] + al.seq(PFX[pk]) + [op_update(ctx, 2, signed=key is not None), 'op nextnum', 'op nextpath', 'op kill', al.init, 'op nextnum', 'op nextpath']
                ti = len(ops) - 6
                name = 'c05f_%s_%s' % ('k' if key else 'n', pk)
                _, ref, _ = run_both(header, [(name, ops)], os.path.join(work, 'ref'), impl_only=True)
                if name not in ref or len(ref[name]) != len(ops):
                    a['extras'].append('C05 fault stream: no reference run for %s' % name)
                    continue
                ref_art = parse_line(ref[name][ti])['arts'].get(2)
                for (k, lines, where) in fault_runs(header, name, ops, ti, work, reads=True, maxk=80, scope='all'):
                    nf += 1
                    if lines is None:
                        a['monitor_fail'].append((name, ti - 1, 'C05: with one file-system call failing (%s) the update did not return normally' % where, ops, header))
                        continue
                    for msg in c05_judge_fault(ops, lines, ti, ref_art):
                        a['monitor_fail'].append((name, len(ops) - 1, 'C05: with %s failing, %s' % (where, msg), ops,
                                                  header + ['faultspec mode=fail k=%d reads=1 target=%d kind=c05 scope=all art=%s bad=-' % (k, ti, ref_art)]))
        a['evaluations'] += nf
        a['dist'] = dict(a.get('dist', {}), update_x_failing_call_incl_download_files=nf)
        android_base_stream(a, random.Random(seed + 5), work)
        # the same property at another SCALE: a base binary of 150 000 bytes (downloads, inflated files and artifacts
        # well beyond every buffer: 8 KiB BufReader/BufWriter, 64 KiB pipe), genuine and damaged downloads, leftovers
        ctxb = Ctx(seed=seed + 9, nums=(1, 2, 3), base_len=150000)
        try:
            rb_ = random.Random(seed + 9)
            alb = gen.Alphabet(ctxb)
            d2 = ctxb.blobs[ctxb.p['2']['dl']]
            variants = {'flip_mid': d2[:len(d2) // 2] + bytes([d2[len(d2) // 2] ^ 0x40]) + d2[len(d2) // 2 + 1:],
                        'cut_last': d2[:-1], 'cut_half': d2[:len(d2) // 2], 'plus_one': d2 + b'\x00'}
            for vn, data in variants.items():
                ctxb.add_blob('big_' + vn, data)
                ctxb.add_zdec_real('big_' + vn)
            hb = []
            for pk in ('empty', 'good1'):
                pre = [alb.init] + alb.seq(PFX[pk])
                hb.append(('big_ok_%s' % pk, pre + alb.seq(['u2', 'q', 'p', 's', 'ok', 'R', 'q', 'p'])))
                for vn in variants:
                    hb.append(('big_%s_%s' % (vn, pk), pre + [op_update(ctxb, 2, dl='@big_' + vn)] + alb.seq(['q', 'u2', 'q', 'p'])))
            headerb = ctxb.header()
            mb, ib, exb = run_both(headerb, hb, os.path.join(work, 'big'), impl_only=not model_ok)
            a['extras'] += exb
            if model_ok:
                for (h, idx, ml, il) in diff_traces(mb, ib):
                    a['divergences'].append((h, idx, ml, il, dict(hb)[h], headerb))
            for name, ops in hb:
                tr = ib.get(name)
                if tr is None or len(tr) != len(ops):
                    a['extras'].append('C05 large binaries: incomplete implementation trace for %s' % name)
                    continue
                a['evaluations'] += len(ops)
                pops, sts = [gen.parse_op(o) for o in ops], [parse_line(l) for l in tr]
                for m_ in (monitors.mon_C05, monitors.mon_healthy):
                    for (idx, msg) in m_(ctxb, pops, sts):
                        a['monitor_fail'].append((name, idx, '150 000-byte binaries: ' + msg, ops, headerb))
            a['dist'] = dict(a.get('dist', {}), large_binary_histories=len(hb))
        finally:
            ctxb.cleanup()
    finally:
        ctx.cleanup()
        shutil.rmtree(work, ignore_errors=True)
    return a


def run_C01(pid, tier, seed, model_ok=True):
    a = run_lifecycle(pid, tier, seed, build_C01, [monitors.mon_C01], trig_handout, C01_RULE, model_ok=model_ok)
    work = os.path.join(CACHE, 'work-%s-flt-%d' % (pid, os.getpid()))
    os.makedirs(work, exist_ok=True)
    try:
        # the reported PATH: the same guarantees when the directories given at init contain spaces, an apostrophe and
        # non-ASCII characters (the model does not see paths; the traces must not change)
        ctx2 = Ctx(seed=seed)
        try:
            rnd2 = random.Random(seed + 3)
            al2 = gen.Alphabet(ctx2)
            wl2 = ['q', 'p', 's', 'ok', 'fail', 'R', 'u1', 'u2', 'u3', 'rb1', 'rb2', 'c', 'dF1', 'dT2', 'dS1', 'dPg']
            hs2 = gen.random_walks(al2, wl2, [1] * len(wl2), 40 if tier == 'quick' else 600, (8, 30), rnd2, name='odd')
            header2 = ctx2.header() + ['paths odd']
            model2, impl2, ex2 = run_both(header2, hs2, os.path.join(work, 'odd'), impl_only=not model_ok)
            a['extras'] += ex2
            if model_ok:
                for (h, idx, ml, il) in diff_traces(model2, impl2):
                    a['divergences'].append((h, idx, ml, il, dict(hs2)[h], header2))
            for name, ops in hs2:
                tr = impl2.get(name)
                if tr is None or len(tr) != len(ops):
                    a['extras'].append('odd paths: incomplete implementation trace for %s' % name)
                    continue
                a['evaluations'] += len(ops)
                for (idx, msg) in monitors.mon_C01(ctx2, [gen.parse_op(o) for o in ops], [parse_line(l) for l in tr]):
                    a['monitor_fail'].append((name, idx, 'directories with spaces and non-ASCII names: ' + msg, ops, header2))
            a['dist'] = dict(a.get('dist', {}), odd_directory_names_histories=len(hs2))
        finally:
            ctx2.cleanup()
        damaged_x_failing_call(a, pid, seed, None, ('dF2', 'dT2'), work)
        damaged_x_failing_call(a, pid, seed, KEY1, ('dF2', 'dS2'), work)
    finally:
        shutil.rmtree(work, ignore_errors=True)
    return a


def run_C07(pid, tier, seed, model_ok=True):
    a = run_lifecycle(pid, tier, seed, build_C07, [lambda c, o, s: monitors.mon_C01(c, o, s)], trig_handout, C07_RULE, model_ok=model_ok)
    # which keys / signatures decode at all is decided by the MODEL now (Signing.b64_decode): tie it to the real engine
    import base64 as B
    rnd = random.Random(seed + 7)
    strs = set(['', '=', '==', '====', 'A', 'AA', 'AAA', 'AAAA', 'AA==', 'AAA=', 'AB==', 'AAB=', 'A===', 'AA=A', '=AAA', 'QUJD\n', ' QUJD', 'QUJD ', 'QU JD', 'QUJ-', 'QUJ_',
                'QUJD====', 'QQ==QQ==', 'QUJDQQ==', 'QUJDQQ', 'QUJDQ', 'é', 'QUJDé', KEY1, KEY1[:-1], KEY1 + '=', KEY1.rstrip('='), KEY2])
    for _ in range(150 if tier == 'quick' else 3000):
        raw = bytes(rnd.randrange(256) for _ in range(rnd.choice([0, 1, 2, 3, 4, 5, 31, 32, 33, 270])))
        e = B.b64encode(raw).decode()
        strs.add(e)
        m = rnd.randrange(7)
        if m == 0:
            strs.add(e.rstrip('='))
        elif m == 1 and e:
            j = rnd.randrange(len(e)); strs.add(e[:j] + rnd.choice('=-_ \n*Az09+/') + e[j + 1:])
        elif m == 2 and e:
            strs.add(e[:-1])
        elif m == 3:
            strs.add(e + rnd.choice(['=', 'A', '==', 'AA==']))
        elif m == 4 and len(e) > 4:
            j = 4 * rnd.randrange(len(e) // 4); strs.add(e[:j] + e[j + 4:])
        elif m == 5:
            strs.add(B.urlsafe_b64encode(raw).decode())
    strs = sorted(strs)
    toks = [s_.encode('utf-8').hex() or 'e' for s_ in strs]
    work = os.path.join(CACHE, 'work-%s-b64-%d' % (pid, os.getpid()))
    os.makedirs(work, exist_ok=True)
    try:
        f = os.path.join(work, 'b64.ops')
        open(f, 'w').write(''.join('b64 %s\n' % t for t in toks))
        mo = subprocess.run([DRIVER, f], capture_output=True, text=True)
        im = subprocess.run([UVH, 'b64'] + toks, capture_output=True, text=True)
        mm = dict(l.split('=', 1) for l in mo.stdout.splitlines() if l.startswith('b64:'))
        ii = dict(l.split('=', 1) for l in im.stdout.splitlines() if l.startswith('b64:'))
        nok = 0
        if len(ii) != len(set(toks)) or (model_ok and len(mm) != len(set(toks))):
            a['extras'].append('base64 cross-check incomplete: %d model / %d library answers for %d strings' % (len(mm), len(ii), len(set(toks))))
        for t, s_ in zip(toks, strs):
            k = 'b64:' + t
            if k in ii and ii[k].startswith('ok'):
                nok += 1
            if model_ok and k in mm and k in ii and mm[k] != ii[k]:
                a['divergences'].append(('b64', 0, 'model base64 decoder on %r: %s' % (s_[:60], mm[k][:80]), 'library engine: %s' % ii[k][:80], ['b64 ' + t], []))
        a['evaluations'] += len(toks)
        a['dist'] = dict(a.get('dist', {}), base64_strings=len(toks), base64_accepted_by_the_library=nok)
        # "never handed out" holds under I/O errors too: a signed patch is tampered with (same size / other size) and the
        # query or launch start that discovers it has one of its file-system calls failing
        damaged_x_failing_call(a, pid, seed, KEY1, ('dS2', 'dT2'), work)
        return a
    finally:
        shutil.rmtree(work, ignore_errors=True)


def run_C14(pid, tier, seed, model_ok=True):
    a = run_lifecycle(pid, tier, seed, build_C14, [monitors.mon_C14], trig_init2, C14_RULE, model_ok=model_ok)
    # "only the FIRST successful initialisation in a process takes effect" when two threads race: the model's init is one
    # critical section (C14_init_inert applied to whichever comes second); the implementation must not let both succeed
    import itertools
    ctx = Ctx(seed=seed)
    work = os.path.join(CACHE, 'work-%s-ci-%d' % (pid, os.getpid()))
    try:
        al = gen.Alphabet(ctx)
        header = ctx.header()
        iA = op_init(rel=REL1, app='app-A', chan='chA')
        iB = op_init(rel=REL2, app='app-B', chan='chB')
        hs = []
        orders = [''.join(o) for k in (2, 3, 4, 5) for o in itertools.product('01', repeat=k)]
        for pk in (('empty', 'good1boot2') if tier == 'quick' else ('empty', 'good1', 'good1boot2', 'good1pend2')):
            for oi, order in enumerate(orders):
                pre = [al.init] + al.seq(PFX[pk]) + ['op kill']
                hs.append(('ci_%s_%s' % (pk, order), pre + ['t0 ' + iA, 't1 ' + iB, 'order ' + ','.join(order), 'op check - err', 'op curnum', 'op nextnum']))
        _, impl, ex = run_both(header, hs, work, impl_only=True, lockcheck=True)
        ex, lw = unlocked_writes(ex, dict(hs), header)
        a['monitor_fail'] += lw
        a['extras'] += ex
        nci = 0
        for name, ops in hs:
            r = judge_concurrent_init(ops, impl.get(name))
            if r is None:
                a['extras'].append('concurrent init: incomplete implementation trace for %s' % name)
                continue
            nci += 1
            for idx, msg in r:
                a['monitor_fail'].append((name, idx, msg, ops, header))
        a['evaluations'] += nci
        a['dist'] = dict(a.get('dist', {}), concurrent_init_schedules=nci)
        a['traces'] = a.get('traces', 0) + len(impl)
        return a
    finally:
        ctx.cleanup()
        shutil.rmtree(work, ignore_errors=True)


def mk(build, mons, trig, rule, **kw):
    d = dict(mons=mons, run=lambda pid, tier, seed, model_ok=True: run_lifecycle(pid, tier, seed, build, mons, trig, rule, model_ok=model_ok))
    d.update(kw)
    return d


PROPS = {
    'C04': dict(mons=[], run=run_C04, assumptions=['a strict prefix of a pretty-printed JSON object never parses; rename is atomic; process death loses no completed system call (kill, not power loss)']),
    'C13': dict(mons=[], run=run_C13, assumptions=['panics inside dependencies (serde, zstd, ring, std thread spawn) are only exercised, never proved absent']),
    'C15': dict(mons=[], run=run_C15, assumptions=['allocator behaviour is runtime: exercised under valgrind memcheck on one scenario per run']),
    'C12': dict(mons=[], run=run_C12, assumptions=['wall-clock promptness is runtime behaviour: the check enforces a 5 s bound on the hung-connection scenarios and the structural trace properties only']),
    'C11': dict(mons=[], run=run_C11, assumptions=['interleavings at the granularity of config-mutex acquisitions (the only shared state is guarded by it); network callbacks run unlocked and touch no shared state']),
    'C16': dict(mons=[], run=run_C16,
                assumptions=['zstd compress/decompress round trip is an oracle (hypothesis of C16_end_to_end); the suffix-array match search is covered only through wf_matches of what it emits']),
    'C03': mk(build_C03, [monitors.mon_C03, monitors.mon_C01], trig_life,
              'exhaustive depth-k continuations of 7 lifecycle prefixes over {query,start,ok,fail,restart,install 1/2/3,rollbacks,check,damage} + random walks (re-install of same number, multi-rollback, junk dirs); non-trivial = distinct (state with a selection or last good patch, state-changing op)'),
    'C09': dict(mons=[monitors.mon_C09, monitors.mon_healthy], run=run_C09),
    'C10': mk(build_C10, [monitors.mon_C10, monitors.mon_C19], trig_rb,
              'rollback lists (single, multiple, duplicates, empty, unknown numbers) through check and update entry points, exhaustive depth-k from 7 lifecycle states + random walks; non-trivial = distinct (state, call carrying a rollback list)'),
    'C17': dict(mons=[monitors.mon_C17, monitors.mon_C20], run=run_C17),
    'C18': dict(mons=[monitors.mon_C18], run=run_C18),
    'C19': mk(build_C19, [monitors.mon_C19], trig_life,
              'exhaustive depth-k lifecycle histories with junk directories and release changes + random walks; directory listing after every op; non-trivial as C03'),
    'C05': dict(mons=[monitors.mon_C05, monitors.mon_healthy], run=run_C05,
                assumptions=['zstd decoder output (incl. partial output on failure) is an oracle computed by the zstd library outside the updater']),
    'C06': dict(mons=[], run=run_C06,
                assumptions=['TCP/HTTP behaviour below reqwest (kernel, hyper) is exercised against a scripted local server, not modelled; the model sees a failed request as "no response"']),
    'C07': dict(mons=[lambda c, o, s: monitors.mon_C01(c, o, s)], run=run_C07,
              assumptions=['RSA verification (ring, DER parsing included) is an oracle on bytes; base64 is modelled (Signing.v) and cross-checked; signature table built with openssl']),
    'C08': mk(build_C08, [monitors.mon_C08, monitors.mon_C02], trig_relchange,
              'every depth-k old-release history x {upgrade, downgrade} x query/update tails; non-trivial = distinct (state, init) where the old release had patches, bans or queued events'),
    'C14': dict(mons=[monitors.mon_C14], run=run_C14),
    'C20': mk(build_C20, [monitors.mon_C20], trig_request,
              'random YAML-channel/app/release strings (unicode included) x random per-call channels x interleaved calls, restarts and intruding second inits; non-trivial = distinct (state, call that sent a request)'),
    'C01': dict(mons=[monitors.mon_C01], run=run_C01,
                assumptions=['sha256/rsa are oracles (driver: real SHA-256, signature table from openssl); base64 is modelled (Signing.v)']),
    'C02': mk(build_C02, [monitors.mon_C02], trig_banned_offer,
              'failure/kill at every position x all continuations, exhaustive {s,fail,R,u1,u2,q,ok}, unconformant random walks; '
              'non-trivial = distinct (state, op) where a banned number is offered or a booting patch is failed/crash-detected'),
}
