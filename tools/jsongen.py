"""Generated patch-check response bodies as JSON *trees* (own AST, so that duplicate keys, key order and the
exact number tokens are under control), their text (what the scripted server sends) and their encoding for
the model driver (which evaluates Json.resp_of_json on the tree).

node := ('null',) | ('bool', b) | ('int', neg, magnitude) | ('float', text) | ('str', s, is_url)
      | ('arr', [node]) | ('obj', [(key, node)])
"""
import json as pyjson
from uvlib import hx

BIG = 2 ** 64


def text(n):
    k = n[0]
    if k == 'null':
        return 'null'
    if k == 'bool':
        return 'true' if n[1] else 'false'
    if k == 'int':
        return ('-' if n[1] else '') + str(n[2])
    if k == 'float':
        return n[1]
    if k == 'str':
        if len(n) > 2 and n[2]:
            return '"@@DL@@/%s"' % hx(n[1])        # the scripted server rewrites this into a URL it serves
        return pyjson.dumps(n[1])
    if k == 'arr':
        return '[' + ','.join(text(x) for x in n[1]) + ']'
    if k == 'obj':
        return '{' + ','.join(pyjson.dumps(kk) + ':' + text(v) for kk, v in n[1]) + '}'
    raise ValueError(n)


def enc(n):
    """prefix encoding read by the driver's `json` command"""
    k = n[0]
    if k == 'null':
        return ['n']
    if k == 'bool':
        return ['t' if n[1] else 'f']
    if k == 'int':
        return [('m' if n[1] else 'i') + str(n[2])]
    if k == 'float':
        return ['d']
    if k == 'str':
        return ['s' + hx(n[1])]
    if k == 'arr':
        out = ['a%d' % len(n[1])]
        for x in n[1]:
            out += enc(x)
        return out
    if k == 'obj':
        out = ['o%d' % len(n[1])]
        for kk, v in n[1]:
            out += ['s' + hx(kk)] + enc(v)
        return out
    raise ValueError(n)


def junk(rnd, depth=0):
    c = rnd.randrange(8 if depth < 3 else 5)
    if c == 0:
        return ('null',)
    if c == 1:
        return ('bool', rnd.random() < 0.5)
    if c == 2:
        return ('int', rnd.random() < 0.3, rnd.choice([0, 1, 2, 7, 2 ** 31, BIG - 1, BIG, 10 ** 30]))
    if c == 3:
        return ('float', rnd.choice(['1.5', '2.0', '1e3', '-0.0', '0.1e-7', '2E+2']))
    if c == 4:
        return ('str', rnd.choice(['', 'x', 'patch', 'stable', 'café', '中', 'a"b\\c', '\t\n']))
    if c in (5, 6):
        return ('arr', [junk(rnd, depth + 1) for _ in range(rnd.randrange(4))])
    return ('obj', [(rnd.choice(['a', 'number', 'patch', 'x y', '']), junk(rnd, depth + 1)) for _ in range(rnd.randrange(4))])


class G:
    """mostly-valid generation: a tree gets a budget of 0 (half of them), 1 or 2 faults; every choice point that could
    invalidate the body spends from it"""

    def __init__(self, rnd):
        self.rnd = rnd
        self.budget = rnd.choice([0, 0, 0, 1, 1, 2])
        self.faults = []

    def fault(self, name, p=0.35):
        if self.budget > 0 and self.rnd.random() < p:
            self.budget -= 1
            self.faults.append(name)
            return True
        return False

    def num(self, good):
        rnd = self.rnd
        if self.fault('num'):
            return rnd.choice([('int', True, good), ('int', True, 0), ('float', '%d.0' % good), ('float', '%de0' % good), ('int', False, BIG),
                               ('int', False, 10 ** 25), ('str', str(good)), ('null',), ('bool', True), ('arr', [('int', False, good)])])
        return rnd.choice([('int', False, good)] * 6 + [('int', False, 0), ('int', False, BIG - 1)])

    def string(self, good, url=False):
        if self.fault('str', 0.25):
            return self.rnd.choice([('null',), ('int', False, 5), ('bool', False), ('arr', []), ('obj', [])])
        return self.rnd.choice([('str', good, url)] * 6 + [('str', '', url)])

    def fields(self, fields, names, allow_seq=True):
        rnd = self.rnd
        fields = list(fields)
        if fields and self.fault('missing', 0.2):
            del fields[rnd.randrange(len(fields))]
        elif fields and self.fault('dup', 0.2):
            k, v = rnd.choice(fields)
            fields.insert(rnd.randrange(len(fields) + 1), (k, rnd.choice([v, junk(rnd)])))
        if rnd.random() < 0.3:
            rnd.shuffle(fields)
        for _ in range(rnd.choice([0, 0, 1, 2])):                    # unknown fields anywhere: harmless
            fields.insert(rnd.randrange(len(fields) + 1), (rnd.choice(['zz', 'size', 'Number', 'patch ', 'id']), junk(rnd)))
        return ('obj', fields)

    def patch(self, num, h, url, sig):
        rnd = self.rnd
        vals = [('number', self.num(num)), ('hash', self.string(h)), ('download_url', self.string(url, True))]
        r = rnd.random()
        if r < 0.25:
            vals.append(('hash_signature', ('null',)))
        elif r < 0.45:
            vals.append(('hash_signature', self.string(sig or 'c2ln')))
        if rnd.random() < 0.12:                                      # the positional form serde also accepts
            seq = [v for _, v in vals]
            if self.fault('seqlen', 0.3):
                seq = seq[:rnd.randrange(len(seq))] if rnd.random() < 0.5 else seq + [junk(rnd)] * (5 - len(seq))
            return ('arr', seq)
        return self.fields(vals, None)

    def resp(self, num, h, url, sig):
        rnd = self.rnd
        if self.fault('toplevel', 0.05):
            return junk(rnd)
        av = rnd.choice([('null',), ('str', 'true'), ('int', False, 1)]) if self.fault('avail', 0.15) else ('bool', rnd.random() < 0.8)
        vals = [('patch_available', av)]
        r = rnd.random()
        if r < 0.7:
            vals.append(('patch', self.patch(num, h, url, sig)))
        elif r < 0.8:
            vals.append(('patch', ('null',)))
        elif self.fault('patchjunk', 0.5):
            vals.append(('patch', junk(rnd)))
        r = rnd.random()
        if r < 0.3:
            vals.append(('rolled_back_patch_numbers', ('arr', [self.num(rnd.choice([1, 2, 3, 5])) for _ in range(rnd.randrange(4))])))
        elif r < 0.4:
            vals.append(('rolled_back_patch_numbers', ('null',)))
        elif self.fault('rbjunk', 0.3):
            vals.append(('rolled_back_patch_numbers', rnd.choice([('int', False, 1), ('obj', []), ('str', '1')])))
        if rnd.random() < 0.08 and all(k != 'x' for k, _ in vals):
            seq = [v for _, v in vals]
            if self.fault('seqlen', 0.3):
                seq = seq + [junk(rnd)] * (4 - len(seq))
            return ('arr', seq)
        return self.fields(vals, None)


def gen_resp(rnd, num, h, url, sig):
    """returns (tree, list of injected fault kinds)"""
    g = G(rnd)
    t = g.resp(num, h, url, sig)
    return t, g.faults
