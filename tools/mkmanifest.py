#!/usr/bin/env python3
# regenerates MANIFEST.json from the table below (kept in one place so it is always valid)
import json, os
ROOT = os.path.dirname(os.path.dirname(os.path.abspath(__file__)))
CLAIMS = {
 'C01': ('proof', 'Theorems C01_handout / C01_start / C01_invalid_not_reported hold for every world (any disk damage) and every call of the model; C01_records_are_issued + C01_size_is_install_size: over every history of calls and damage (artifacts, state.json, junk arbitrary; patches_state.json deleted, garbled or stale) the handed-out file has exactly the length of the inflated download that passed the hash gate when its record was installed; the model is tied to /repo by a differential run of the extracted model against the real library (C API) with damage at every position of lifecycle histories, with and without a signing key.',
         'Model is hand-written; correspondence is bounded differential testing. sha256 / RSA verification / base64 are oracles (uninterpreted in the theorems).'),
 'C02': ('proof', 'I-ban invariant for every call, ban monotonicity within a release, failure and crash detection ban the booting number, offers of a banned number answer bad-patch with no download, and C02_banned_forever over all histories within the release; correspondence on failure/kill at every position x continuations.',
         'Model hand-written; correspondence bounded. Quantifies over histories without outside damage to the two state files, as the property does.'),
 'C05': ('proof', 'C05_installed_only_if_verified (installed => inflate ok, digest equals advertised hash, recorded meta and artifact are that file), C05_rejected_download_frame, C05_failed_update_unchanged; correspondence on byte-level mutants of genuine zstd+bidiff patches, wrong base, hash-string variants through the real inflate path.',
         'zstd decoding (incl. partial output on failure) and sha256 are oracles; the bipatch reader is modelled (Codec.v) and runs on the real decompressed bytes.'),
 'C06': ('proof', 'Error frames for check failure, contradictory response and download failure, C06_failed_update_unchanged and C06_then_healthy_installs proved on the model; correspondence (a) with failures injected at each network callback from lifecycle states and (b) through the library\'s default reqwest callbacks against a scripted local HTTP server (refused / closed / reset / stalled connections, non-HTTP bytes, error statuses, truncated / unterminated / badly chunked bodies, 50 response bodies with wrong types, missing or duplicate fields, extreme numbers, trailing data, bad UTF-8), each mapped to what the model should see.',
         'The theorems are about the updater logic above the callbacks; the transport (kernel TCP, hyper, reqwest, serde text level) is exercised against the scripted server and tied to the model by correspondence, not modelled.'),
 'C07': ('proof', 'C07_reported_is_signed (signature verifies over the hash of the CURRENT bytes), C07_fallback_same, C07_bad_key_rejects; correspondence with 10 signature variants x 4 configured keys and same-size/different-size tampering.',
         'RSA (ring) and base64 are oracles: the theorems are about what the updater does with their verdict.'),
 'C08': ('proof', 'C08_release_change_init, C08_first_queries, C08_any_section_resets, C08_old_numbers_are_fresh; correspondence over every depth-k old-release history x upgrade/downgrade. The crash-interrupted first launch is decided under C04.',
         'Sequential part here; crash window under C04.'),
 'C14': ('proof', 'C14_init_inert: step w (OInit ..) = (w, false, []) for every world with a configuration (whole world equal); C14_cfg_preserved. Correspondence: second init with 6 parameter variants at every position of exhaustive histories, disk snapshot equality.',
         'Model hand-written; correspondence bounded.'),
 'C20': ('proof', 'C20_request (formula for every request of every call), C20_config_from_init (channel precedence), C20_no_leak (all histories without process end); correspondence with random unicode strings and interleaved channels, requests captured as serialised by the library.',
         'platform/arch are compile-time constants checked by the harness (linux/x86_64), not modelled.'),
 'C03': ('proof', 'C03_good_frame / C03_good_persists (last good record and artifact survive every call and every history that does not concern its number), C03_booting_persists + C03_success_promotes_intact (the promoted patch still has its artifact), C03_fallback_target, C03_unrelated_selection_kept. Under invariant I-same (one number, one record) kept by consistent installs. Correspondence: exhaustive depth-k continuations of 7 lifecycle prefixes + random walks, model vs real library, zero tolerance on state divergence.',
         'Hypotheses visible in the statements: release-stable disk, no outside damage to that artifact / the state files, installs consistent with records of the same number (one content per patch number).'),
 'C09': ('proof', 'C09_install_selects, C09_selection_frame, C09_selection_persists (all histories), C09_selected_is_reported, C09_already_installed. Correspondence as C03 incl. lower-numbered installs and installs during boot.',
         'When a key is configured, install_selects assumes the served signature verifies (otherwise C07 rightly discards the patch).'),
 'C10': ('proof', 'C10_rollback_now_check / _update (any list: order, duplicates, unknown numbers), C10_fallback_target, C10_gone_frame and C10_sticks (every history without an install of x), C10_gone_not_reported. Correspondence: rollback lists through both entry points from 7 lifecycle states.',
         'Model hand-written; correspondence bounded.'),
 'C17': ('proof', 'C17_success_event (iff), C17_failure_queues_one, C17_crash_detection_queues_one, C17_update_flushes (3 oldest, in order, before the check; only a download event after; iff installed), C17_update_empties_queue, C17_payload, C17_quiet_calls / C17_quiet_calls_keep_queue (queries, launch start/success, checks and restarts neither queue, drop nor send events, success excepted). Correspondence: fallback-chain histories and stored queues of 0..6 events; report-callback log order and payload on exhaustive lifecycle histories.',
         'Event timestamps ignored; asynchronous event threads are joined by the harness before the trace line is taken.'),
 'C18': ('proof', 'C18_start_sets_current, C18_current_reported, C18_current_frame / C18_current_persists (booting, then promoted), C18_no_spurious_restart_required, C18_after_restart. Correspondence: current/next queries interleaved in exhaustive lifecycle histories.',
         'Rollback of the running patch and a second launch start in one process are outside the statement (as the property scopes them).'),
 'C19': ('proof', 'C19_after_success, C19_failed, C19_crash_detected, C19_rolled_back, C19_superseded, C19_release_change as one-step post-conditions on the model; correspondence: directory listing after every op of exhaustive lifecycle histories incl. junk directories and release changes.',
         'Fault-free semantics (deletions that fail are covered under C04).'),
 'C16': ('proof', 'C16_varint_u64 / C16_varint_i64 (all usize / i64 values), C16_roundtrip (bidiff Translator+Writer then bipatch Reader reproduce new for ANY well-formed match list, all sizes < 2^63), C16_any_buffer_schedule / C16_streamed_roundtrip (bipatch::Reader::read as a state machine pulled with ANY sequence of non-empty buffer sizes and any scratch size equals the one-shot semantics, error for error), C16_hash_gate, C16_end_to_end (library installs what the tool built, given a lossless compressor). Correspondence per (base,new) pair: the tool\'s real patch installs through the library and the artifact equals new; the model writer\'s bytes equal the real bidiff stream; wf_matches holds on the matches bidiff emits; model reader on the real stream gives new; model Reader state machine vs the real bipatch Reader under 6-7 buffer-size schedules on genuine, truncated and bit-flipped streams.',
         'zstd round trip is a hypothesis of C16_end_to_end; the suffix-array matcher is only required to emit well-formed matches (checked on every generated pair, not proved); the pipe between the zstd thread and the Reader only ever feeds read_exact / byte reads, so its chunking is not modelled.'),
 'C11': ('proof', 'Calls are programs of critical sections (Blocks.v); C11_update_is_its_blocks / C11_check_is_its_blocks (refinement to the sequential calls); for EVERY number of threads, call lists and schedules: C11_any_schedule_safe (release-stable disk + I-ban), C11_banned_stays_banned, C11_install_block_respects_ban, C11_query_intact, C11_last_good_survives. Correspondence: real threads under a scheduler that decides every acquisition of the config mutex and every update try_lock (verif-hooks sync points) vs the model executing the same block order.',
         'Interleavings at lock-acquisition granularity: all shared state is guarded by the config mutex; network callbacks run unlocked on thread-local data. Memory-model effects below that granularity are outside the model.'),
 'C12': ('proof', 'PARTIAL (structural half). C12_static_lock_discipline: over the call-site table regenerated from library/src on every run, no call made inside a config-lock closure by the thread holding the lock is, or can reach through any call chain on that thread, a network callback, a config-lock acquisition or the update-lock acquisition (covers paths no schedule exercises). C12_call_trace_wf: for every call from every world the calling thread never re-enters the config mutex, runs every network callback with it released, tries the update mutex only with it released, and holds nothing on return; C12_second_update_refused; C12_step_decreases_work / C12_block_advances (no call waits while holding a lock, every call terminates, no waiting cycle). Correspondence: the real per-call lock/network action trace (verif-hooks sync events + thread-local lock depth read inside the network callbacks) equals the model trace on every call of exhaustive histories; hung-connection scenarios with a stalled patch check and a second thread issuing queries, reports, a check and a second update.',
         'Wall-clock promptness is runtime behaviour: only a 5 s bound in the hung-connection scenarios is enforced. OS mutex fairness is assumed. The call-site translator is lexical (closure spans, callback aliases bound from network_hooks, names ending in _fn/_hook); calls through other indirections are only seen by the runtime trace check.'),
 'C13': ('proof', 'PARTIAL by nature. C13_sites_are_the_ledger (the explicit panic sites / unsafe blocks / thread spawns of the current non-test sources, regenerated by the translator, equal the audited ledger with a guard per site) and C13_total_and_in_domain (every call of the model returns a value of its documented domain from every world). Exercised, not proved: malformed JSON/YAML/fs layouts, extreme response values, random call orders with a panic hook on every thread and exit-status monitoring.',
         'Panics inside dependencies (serde, zstd, ring, reqwest, std thread spawn) cannot be modelled; the JSON/YAML text level is abstracted (JGarbage).'),
 'C15': ('proof', 'PARTIAL. Over tables regenerated from the Rust sources, the generated header and the Dart bindings on every run: C15_status_constants, C15_status_discriminants, C15_model_status_codes, C15_signatures, C15_structs, C15_layouts (LP64/ILP32/LLP64), C15_dart_handles_all_statuses, plus a small ownership ledger model. Checked outside the proof: nm -D of the cdylib, every status provoked through the C API, one scenario under valgrind memcheck.',
         'Translator is regex-level and fails loudly on unknown shapes; real allocator behaviour is runtime (valgrind), not proved.'),
 'C04': ('proof', 'Fault-monad model (theories/Fault.v: every operation as a sequence of mutating micro-steps with three semantics selected by a plan). C04_crash_states + C04_next_launch_safe: a process death before ANY system call of ANY call (or of the restart init) of the running release leaves a disk from which the next launch selects nothing, or an intact patch that was not banned before and whose launch was not in progress; C04_fault_safe: under ANY plan (death or one failing call, execution continuing) everything selected afterwards, in-process and after restart, is intact and not banned; C04_release_change_safe: under ANY plan the first launch of another release never lets this process or the next launch hand out a patch. Correspondence: LD_PRELOAD shim kills the real process before each mutating syscall of each target call, or fails it with EIO once; every real crash/fault state must be among the model states (all k, all partial-deletion subsets) and recoveries must agree.',
         'Assumes: a strict prefix of a pretty-printed JSON object never parses; rename is atomic; kill loses no completed system call (not power loss). The monadic model is tied to the code by the crash-state inclusion check (not by proof) and to the pure model by running both on every target.'),
}
NA = {}
def main():
    checks = []
    for pid in sorted(CLAIMS):
        cat, text, note = CLAIMS[pid]
        checks.append({
            'property_id': pid,
            'quick_cmd': 'python3 tools/vcheck.py %s --tier quick' % pid,
            'thorough_cmd': 'python3 tools/vcheck.py %s --tier thorough' % pid,
            'evidence_file': 'evidence/%s.json' % pid,
            'replay_cmd_template': 'python3 tools/vcheck.py %s --replay {path}' % pid,
            'engine': 'coq-model+uvh',
            'level_claimed': {'category': cat, 'text': text, 'design_ref': 'DESIGN.md section 7 (%s)' % pid},
            'level_note': note,
            'technique': 'machine-checked proof in Coq 8.16.1 over a hand-written Gallina model + correspondence check (extracted model vs real library on the same histories)',
        })
    allp = ['C%02d' % i for i in range(1, 21)]
    na = [{'property_id': p, 'reason': NA.get(p, 'not yet claimed: check under construction in this round (planned as proof; see DESIGN.md section 7)')} for p in allp if p not in CLAIMS]
    m = {
        'version': 1,
        'setup_cmd': 'tools/setup',
        'hooks': {
            'guard': 'verif-hooks',
            'enable': 'cargo feature verif-hooks on the updater crate (harness/Cargo.toml: updater = { path = "/repo/library", features = ["verif-hooks"] })',
            'baseline_off_cmd': 'cd /repo && cargo test --workspace --no-fail-fast --offline',
            'source_commits': ['ce3fd0d', 'd7b058d'],
            'add_only': True,
        },
        'engines': [{'name': 'coq-model+uvh', 'path': 'coq/ harness/ tools/', 'serves_properties': sorted(CLAIMS),
                     'kind_free_text': 'Coq development (model + theorems), OCaml-extracted model driver, Rust replay harness over the real library, Python orchestrator'}],
        'checks': checks,
        'not_applicable': na,
        'notes': 'See DESIGN.md. Fix commits in /repo: 3762a13 fc4ac03 cd5eccc b8c08a7 8efc1f4 (known_findings.txt).',
    }
    json.dump(m, open(os.path.join(ROOT, 'MANIFEST.json'), 'w'), indent=1)
if __name__ == '__main__':
    main()
