#!/bin/bash
# seedsweep.sh [seed-dir ...] — re-applies every confirmed seeded change to /repo, runs the quick check of the
# property it breaks, restores /repo, and reports which are (still) detected.  Never leaves /repo modified.
cd /verif
DIRS=${@:-seeded/s*/}
trap 'git -C /repo checkout -- . 2>/dev/null' EXIT
for d in $DIRS; do
  id=$(basename $d)
  prop=$(python3 -c "import json,sys; m=json.load(open('$d/meta.json')); print((m.get('breaks') or [m.get('property')])[0])")
  if ! git -C /repo apply $PWD/$d/patch.diff 2>/dev/null; then echo "$id $prop DOES-NOT-APPLY"; continue; fi
  out=$(python3 tools/vcheck.py $prop 2>&1)
  git -C /repo checkout -- .
  n=$(echo "$out" | grep -c "^VIOLATION")
  nf=$(echo "$out" | grep "^VIOLATION" | grep -vc "no-failing-input-found")
  echo "$id $prop violations=$n with_replay=$nf $(echo "$out" | tail -1 | cut -c1-120)"
done
git -C /repo status --short | head -3
