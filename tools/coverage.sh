#!/bin/bash
# coverage.sh — which lines of library/src do the correspondence streams execute?  Builds the harness with
# -C instrument-coverage (nightly + its llvm-tools), runs the quick tier of every property with it, and prints
# the per-file summary and the never-executed functions.  A guide for the generators, not a check.
set -e
cd /verif
BIN=$(rustc +nightly --print sysroot)/lib/rustlib/x86_64-unknown-linux-gnu/bin
COV=/verif/.cache/cov; rm -rf $COV; mkdir -p $COV
(cd harness && CARGO_NET_OFFLINE=true CARGO_TARGET_DIR=/verif/.cache/cov-target RUSTFLAGS="-C instrument-coverage" cargo +nightly build --offline 2>&1 | tail -1)
export UV_UVH=/verif/.cache/cov-target/debug/uvh
export LLVM_PROFILE_FILE="$COV/p-%p-%8m.profraw"
for p in ${@:-C01 C02 C03 C04 C05 C06 C07 C08 C09 C10 C11 C12 C13 C14 C15 C16 C17 C18 C19 C20}; do
  python3 tools/vcheck.py $p 2>&1 | tail -1
done
$BIN/llvm-profdata merge -sparse $COV/*.profraw -o $COV/all.profdata
$BIN/llvm-cov report $UV_UVH -instr-profile=$COV/all.profdata --sources /repo/library/src 2>/dev/null | tee $COV/report.txt | tail -25
$BIN/llvm-cov export $UV_UVH -instr-profile=$COV/all.profdata --sources /repo/library/src -format=lcov 2>/dev/null > $COV/all.lcov
python3 - <<'PY'
import re
cur=None; fn={}
for l in open('/verif/.cache/cov/all.lcov'):
    l=l.strip()
    if l.startswith('SF:'): cur=l[3:]
    elif l.startswith('FNDA:'):
        c,n=l[5:].split(',',1)
        fn[(cur,n)]=fn.get((cur,n),0)+int(c)
print('never executed functions (non-test):')
for (f,n),c in sorted(fn.items()):
    if c==0 and 'test' not in n.lower():
        print(' ', f.replace('/repo/library/src/',''), n[:120])
PY
rm -f $COV/*.profraw
