(* C03 — fallback reaches the last good patch, which the updater never destroys. *)
From UV Require Import Base Codec Model PMLemmas Inv Ban Handout Calls Frame Frames2 Frames3 Frames4.

(* one call: the last good patch and its artifact survive every call other than: success of a
   different number, failure/crash of it, a rollback naming it, an install of its own number (or an
   install inconsistent with the records on disk), damage to it (lb_undisturbed, Frames3.v) *)
Theorem C03_good_frame :
  forall sha sigok zdec base (r : string) (key : option string) (w : world) (o : op) (m : meta),
    within r w o -> keyed key w o -> stable r (w_disk w) ->
    SelD sha sigok SLB key (w_disk w) m -> lb_undisturbed zdec base m w o ->
    SelD sha sigok SLB key (w_disk (stepw sha sigok zdec base w o)) m.
Proof. exact LB_frame. Qed.
Print Assumptions C03_good_frame.

Theorem C03_good_persists :
  forall sha sigok zdec base (r : string) (key : option string) (m : meta) (ops : list op) (w : world),
    InRel r w -> SelD sha sigok SLB key (w_disk w) m ->
    along sha sigok zdec base
      (fun w o => within r w o /\ keyed key w o /\ lb_undisturbed zdec base m w o) w ops ->
    SelD sha sigok SLB key (w_disk (final sha sigok zdec base w ops)) m.
Proof. exact last_good_persists. Qed.
Print Assumptions C03_good_persists.

(* the patch being booted keeps its artifact while other patches are installed, checked or rolled
   back, and the success report promotes it with the artifact intact *)
Theorem C03_booting_persists :
  forall sha sigok zdec base (r : string) (key : option string) (m : meta) (ops : list op) (w : world),
    InRel r w -> SelD sha sigok SCB key (w_disk w) m ->
    along sha sigok zdec base
      (fun w o => within r w o /\ keyed key w o /\ cb_undisturbed zdec base m w o) w ops ->
    SelD sha sigok SCB key (w_disk (final sha sigok zdec base w ops)) m.
Proof. exact booting_persists. Qed.
Print Assumptions C03_booting_persists.

Theorem C03_success_promotes_intact :
  forall sha sigok (c : cfg) (d : disk) (m : meta),
    stable (c_rel c) d -> SelD sha sigok SCB (c_key c) d m ->
    SelD sha sigok SLB (c_key c) (fst (cs_success c d)) m.
Proof. exact cs_success_promotes. Qed.
Print Assumptions C03_success_promotes_intact.

(* whenever the selection is the number being dropped (failed, crashed, rolled back, invalid), the
   new selection is the last good patch if it is another number and intact, else nothing *)
Theorem C03_fallback_target :
  forall sha sigok (key : option string) (d : disk) (s : pstate) (b : N),
    numeq (nb s) b = true ->
    nb (snd (fall_back sha sigok key d s b)) =
    match lb s with
    | Some l => if negb (N.eqb (m_num l) b) && validate sha sigok key (del_art d b) l then Some l else None
    | None => None
    end.
Proof. exact fall_back_target. Qed.
Print Assumptions C03_fallback_target.

(* and a selection that is not the dropped number is kept *)
Theorem C03_unrelated_selection_kept :
  forall sha sigok (key : option string) (d : disk) (s : pstate) (b : N) (x : meta),
    nb s = Some x -> m_num x <> b -> nb (snd (fall_back sha sigok key d s b)) = Some x.
Proof. exact fall_back_nb_kept. Qed.
Print Assumptions C03_unrelated_selection_kept.
