(* C03 — fallback reaches the last good patch, which the updater never destroys. *)
From UV Require Import Base Codec Model PMLemmas Inv Ban Handout Calls Frame Frames2 Frames3 Frames4.

(* one call: the last good patch and its artifact survive every call other than: success of a
   different number, failure/crash of it, a rollback naming it, an install of its own number (or an
   install inconsistent with the records on disk), damage to it (lb_undisturbed, Frames3.v) *)
Theorem C03_good_frame :
  forall sha sigok zdec base (r : string) (key : option string) (w : world) (o : op) (m : meta),
    within r w o -> keyed key w o -> stable r (w_disk w) ->
    SelD sha sigok SLB key (w_disk w) m -> lb_undisturbed zdec base m w o ->
    SelD sha sigok SLB key (w_disk (stepw sha sigok zdec base w o)) m.
Proof. exact LB_frame. Qed.
Print Assumptions C03_good_frame.

Theorem C03_good_persists :
  forall sha sigok zdec base (r : string) (key : option string) (m : meta) (ops : list op) (w : world),
    InRel r w -> SelD sha sigok SLB key (w_disk w) m ->
    along sha sigok zdec base
      (fun w o => within r w o /\ keyed key w o /\ lb_undisturbed zdec base m w o) w ops ->
    SelD sha sigok SLB key (w_disk (final sha sigok zdec base w ops)) m.
Proof. exact last_good_persists. Qed.
Print Assumptions C03_good_persists.

(* the patch being booted keeps its artifact while other patches are installed, checked or rolled
   back, and the success report promotes it with the artifact intact *)
Theorem C03_booting_persists :
  forall sha sigok zdec base (r : string) (key : option string) (m : meta) (ops : list op) (w : world),
    InRel r w -> SelD sha sigok SCB key (w_disk w) m ->
    along sha sigok zdec base
      (fun w o => within r w o /\ keyed key w o /\ cb_undisturbed zdec base m w o) w ops ->
    SelD sha sigok SCB key (w_disk (final sha sigok zdec base w ops)) m.
Proof. exact booting_persists. Qed.
Print Assumptions C03_booting_persists.

Theorem C03_success_promotes_intact :
  forall sha sigok (c : cfg) (d : disk) (m : meta),
    stable (c_rel c) d -> SelD sha sigok SCB (c_key c) d m ->
    SelD sha sigok SLB (c_key c) (fst (cs_success c d)) m.
Proof. exact cs_success_promotes. Qed.
Print Assumptions C03_success_promotes_intact.

(* whenever the selection is the number being dropped (failed, crashed, rolled back, invalid), the
   new selection is the last good patch if it is another number and intact, else nothing *)
Theorem C03_fallback_target :
  forall sha sigok (key : option string) (d : disk) (s : pstate) (b : N),
    numeq (nb s) b = true ->
    nb (snd (fall_back sha sigok key d s b)) =
    match lb s with
    | Some l => if negb (N.eqb (m_num l) b) && validate sha sigok key (del_art d b) l then Some l else None
    | None => None
    end.
Proof. exact fall_back_target. Qed.
Print Assumptions C03_fallback_target.

(* and a selection that is not the dropped number is kept *)
Theorem C03_unrelated_selection_kept :
  forall sha sigok (key : option string) (d : disk) (s : pstate) (b : N) (x : meta),
    nb s = Some x -> m_num x <> b -> nb (snd (fall_back sha sigok key d s b)) = Some x.
Proof. exact fall_back_nb_kept. Qed.
Print Assumptions C03_unrelated_selection_kept.

(* ---------- refinement to the abstract lifecycle machine (theories/Spec.v) ----------
   Spec.v is the specification of the lifecycle in one page: selected / last good / booting numbers, the ban
   list, and which numbers have a bootable artifact.  Through the relation Rc (same numbers, same ban list, one
   record per number, "validates on this disk" = "has an artifact" for every recorded patch) every lifecycle
   call of the model IS the corresponding transition of that machine and returns what it returns - from any
   related state, hence along every history.  The fallback rule of C03 (and C09, C10, C18, C19) is read off
   a_fall_back / a_query / a_success / a_failure / a_install. *)
From UV Require Import Spec SpecRefine SpecCalls.

Theorem C03_calls_refine_the_abstract_machine :
  forall sha sigok zdec base (w : world) (c : cfg) (a : ast) (o : op),
    w_cfg w = Some c -> lifecycle o = true -> Rc sha sigok c (w_disk w) a ->
    op_install_ok sha sigok zdec base c (w_disk w) o ->
    let '(w', x, _) := step sha sigok zdec base w o in
    w_cfg w' = Some c /\
    Rc sha sigok c (w_disk w') (fst (a_world_step a o (op_verified sha zdec base o))) /\
    x = snd (a_world_step a o (op_verified sha zdec base o)).
Proof. exact step_refines. Qed.
Print Assumptions C03_calls_refine_the_abstract_machine.

(* a restart is "the patch that was booting, if any, has failed" *)
Theorem C03_restart_refines :
  forall sha sigok zdec base (w : world) (c : cfg) (a : ast) relv y,
    cfg_of relv y = Some c -> Rc sha sigok c (w_disk w) a ->
    let w1 := fst (fst (step sha sigok zdec base w OKill)) in
    let '(w2, x, _) := step sha sigok zdec base w1 (OInit relv y true) in
    w_cfg w2 = Some c /\ Rc sha sigok c (w_disk w2) (a_failure a) /\ x = RBool true.
Proof. exact restart_refines. Qed.
Print Assumptions C03_restart_refines.

(* a disk of another release, or with an unreadable state.json, is the empty abstract state *)
Theorem C03_other_release_is_empty :
  forall sha sigok (c : cfg) (d : disk) has,
    ~ stable (c_rel c) d ->
    Rc sha sigok c d {| a_sel := None; a_good := None; a_boot := None; a_ban := []; a_has := has |}.
Proof. exact Rc_release_change. Qed.
Print Assumptions C03_other_release_is_empty.

(* the PatchManager-level statement over whole histories of its operations *)
Theorem C03_patch_manager_history_refines :
  forall sha sigok key ops d s a,
    R sha sigok key d s a -> ops_ok sha sigok key (d, s) ops ->
    R sha sigok key (fst (fst (pm_run sha sigok key (d, s) ops))) (snd (fst (pm_run sha sigok key (d, s) ops)))
      (fst (a_run a ops)) /\
    snd (pm_run sha sigok key (d, s) ops) = snd (a_run a ops).
Proof. intros. apply pm_run_refines; assumption. Qed.
Print Assumptions C03_patch_manager_history_refines.

(* non-vacuity and a reading aid: the D1 history on the abstract machine - 1 good, 2 pending, 3 installed: 2 is
   reclaimed, 1 kept; 3 fails: fall back to 1 *)
Example C03_abstract_example :
  let a0 := {| a_sel := None; a_good := None; a_boot := None; a_ban := []; a_has := fun _ => false |} in
  let a1 := a_success (a_start (a_install a0 1)) in
  let a2 := a_install (a_install a1 2) 3 in
  let a3 := a_failure (a_start a2) in
  (a_sel a2, a_good a2, a_has a2 1, a_has a2 2, a_has a2 3) = (Some 3, Some 1, true, false, true) /\
  (a_sel a3, a_good a3, a_ban a3, a_has a3 3) = (Some 1, Some 1, [3], false).
Proof. vm_compute. split; reflexivity. Qed.
