(* C07 — with a signing key, only correctly signed content boots. *)
From UV Require Import Base Codec Model PMLemmas Inv Ban Handout Calls.

(* a reported patch carries a signature that verifies, under the configured key, over the SHA-256 of
   the artifact's CURRENT bytes (so same-size tampering is caught) *)
Theorem C07_reported_is_signed :
  forall sha sigok zdec base (w : world) (o : op) (w' : world) (x : out) (log : list netobs) (n : N),
    step sha sigok zdec base w o = (w', x, log) -> reports o x n ->
    exists c, w_cfg w' = Some c /\
      forall k, c_key c = Some k ->
        exists m b s, nb (load_p (w_disk w')) = Some m /\ m_num m = n /\
                      arts (w_disk w') n = Some (AFile b) /\ m_sig m = Some s /\
                      sigok k (hex_of_bytes (sha b)) s = true.
Proof.
  intros sha sigok zdec base w o w' x log n H1 H2.
  destruct (step_handout sha sigok zdec base w o w' x log n H1 H2) as [c [Hc (m & b & A & B & C & D & E)]].
  exists c. split; auto. intros k Hk. destruct (E k Hk) as [s [S1 S2]]. exists m, b, s. auto.
Qed.
Print Assumptions C07_reported_is_signed.

(* the fallback taken for a signature failure is literally the one for any invalid patch *)
Theorem C07_fallback_same :
  forall sha sigok (c : cfg) (d : disk) (m : meta),
    nb (load_p (norm c d)) = Some m ->
    validate sha sigok (c_key c) (norm c d) m = false ->
    snd (cs_next sha sigok c d) <> Some (m_num m) /\
    snd (cs_next sha sigok c d) =
      onum (match lb (load_p (norm c d)) with
            | Some l => if negb (N.eqb (m_num l) (m_num m)) &&
                           validate sha sigok (c_key c) (del_art (norm c d) (m_num m)) l
                        then Some l else None
            | None => None
            end).
Proof. exact cs_next_invalid_not_reported. Qed.
Print Assumptions C07_fallback_same.

(* a key under which nothing verifies (e.g. not base64 / not a key) rejects every patch *)
Theorem C07_bad_key_rejects :
  forall sha sigok (c : cfg) (d : disk) (k : string),
    c_key c = Some k -> (forall m s, sigok k m s = false) -> snd (cs_next sha sigok c d) = None.
Proof. exact bad_key_rejects. Qed.
Print Assumptions C07_bad_key_rejects.

(* ---------- the base64 layer of check_signature modelled (Signing.v) ----------
   With the oracle narrowed to the RSA verifier on BYTES, "signature not base64" and "unparsable key" are
   theorems about the model of cache/signing.rs, not assumptions about an opaque check. *)
From UV Require Import Signing.

Theorem C07_key_not_base64_rejects_every_patch :
  forall sha (rsa : bytes -> string -> bytes -> bool) (c : cfg) (d : disk) (k : string),
    c_key c = Some k -> b64_decode k = None ->
    snd (cs_next sha (check_signature rsa) c d) = None.
Proof.
  intros sha rsa c d k Hk Hd. apply (bad_key_rejects sha (check_signature rsa) c d k Hk).
  intros m s. apply key_not_base64_rejects_everything. exact Hd.
Qed.
Print Assumptions C07_key_not_base64_rejects_every_patch.

Theorem C07_signature_not_base64_rejected :
  forall (rsa : bytes -> string -> bytes -> bool) key msg sg,
    b64_decode sg = None -> check_signature rsa key msg sg = false.
Proof. exact signature_not_base64_rejected. Qed.
Print Assumptions C07_signature_not_base64_rejected.

Theorem C07_accepted_means_rsa_verified :
  forall (rsa : bytes -> string -> bytes -> bool) key msg sg,
    check_signature rsa key msg sg = true ->
    exists kb sb, b64_decode key = Some kb /\ b64_decode sg = Some sb /\ rsa kb msg sb = true.
Proof. exact accepted_means_verified. Qed.
Print Assumptions C07_accepted_means_rsa_verified.

(* the decoder accepts exactly what the same engine's encoder writes, and reads it back *)
Theorem C07_base64_roundtrip :
  forall l : bytes, wf_bytes l -> b64_decode (b64_encode l) = Some l.
Proof. exact b64_decode_encode. Qed.
Print Assumptions C07_base64_roundtrip.
