(* C15 — the C ABI seen by the engine and the Dart bindings matches the library (PARTIAL: tables and
   layouts are proved over tables regenerated from the sources on every run; allocator behaviour is
   exercised under valgrind, not proved). *)
From Coq Require Import List ZArith String Bool.
From UV Require Import Abi Base Model.
From UVG Require Import AbiTables.
Import ListNotations.
Open Scope string_scope.

(* status codes have their documented values, identically in Rust, the C header and Dart *)
Theorem C15_status_constants :
  rust_consts = [("SHOREBIRD_NO_UPDATE", 0%Z); ("SHOREBIRD_UPDATE_ERROR", (-1)%Z);
                 ("SHOREBIRD_UPDATE_HAD_ERROR", 2%Z); ("SHOREBIRD_UPDATE_INSTALLED", 1%Z);
                 ("SHOREBIRD_UPDATE_IS_BAD_PATCH", 3%Z)] /\
  header_defines = rust_consts /\ dart_consts = rust_consts.
Proof. repeat split; reflexivity. Qed.
Print Assumptions C15_status_constants.

(* `status as i32` delivers exactly those values: the enum's discriminants are the constants *)
Theorem C15_status_discriminants :
  rust_status_variants = [("NoUpdate", 0%Z); ("UpdateInstalled", 1%Z); ("UpdateHadError", 2%Z);
                          ("UpdateIsBadPatch", 3%Z)].
Proof. reflexivity. Qed.
Print Assumptions C15_status_discriminants.

(* ... and they are the codes the model (tied to the library by every update of every check) uses *)
Theorem C15_model_status_codes :
  status_code UNoUpdate = 0%Z /\ status_code UInstalled = 1%Z /\ status_code UHadError = 2%Z /\
  status_code UBadPatch = 3%Z /\ status_code UError = (-1)%Z.
Proof. repeat split; reflexivity. Qed.
Print Assumptions C15_model_status_codes.

(* exported prototypes: Rust = generated header; every symbol Dart looks up exists with that type *)
Theorem C15_signatures :
  list_eqb fn_eqb rust_fns header_fns = true /\ subset_by fn_eqb dart_fns rust_fns = true.
Proof. split; vm_compute; reflexivity. Qed.
Print Assumptions C15_signatures.

(* C-visible structs: same fields, same order, same types in all three *)
Theorem C15_structs :
  list_eqb struct_eqb rust_structs header_structs = true /\
  list_eqb struct_eqb rust_structs dart_structs = true.
Proof. split; vm_compute; reflexivity. Qed.
Print Assumptions C15_structs.

(* hence identical field offsets, size and alignment under every data model *)
Definition layouts_of (a : abi) (ss : list (string * list (string * cty))) :=
  map (fun s => (fst s, layout a (snd s))) ss.
Theorem C15_layouts :
  forall a : abi,
    layouts_of a rust_structs = layouts_of a header_structs /\
    layouts_of a rust_structs = layouts_of a dart_structs.
Proof. intros a; destruct a; split; vm_compute; reflexivity. Qed.
Print Assumptions C15_layouts.

(* the Dart wrapper maps every non-installed status to a failure reason *)
Theorem C15_dart_handles_all_statuses :
  map fst dart_failure_cases =
  ["SHOREBIRD_NO_UPDATE"; "SHOREBIRD_UPDATE_HAD_ERROR"; "SHOREBIRD_UPDATE_IS_BAD_PATCH"; "SHOREBIRD_UPDATE_ERROR"].
Proof. reflexivity. Qed.
Print Assumptions C15_dart_handles_all_statuses.

(* ownership (model of the two owned return types): a history that frees every returned pointer once
   with the matching function ends with nothing live and no invalid free *)
Inductive mop := MStr | MResult | MFreeStr (p : nat) | MFreeResult (p : nat).
(* ledger: (next id, live strings, live results (box id, message id)) ; None = invalid free *)
Definition mstep (st : option (nat * list nat * list (nat * nat))) (o : mop)
  : option (nat * list nat * list (nat * nat)) :=
  match st with
  | None => None
  | Some (n, strs, ress) =>
      match o with
      | MStr => Some (S n, n :: strs, ress)
      | MResult => Some (S (S n), strs, (n, S n) :: ress)
      | MFreeStr p => if existsb (Nat.eqb p) strs
                      then Some (n, filter (fun q => negb (Nat.eqb p q)) strs, ress) else None
      | MFreeResult p => if existsb (fun r => Nat.eqb p (fst r)) ress
                         then Some (n, strs, filter (fun r => negb (Nat.eqb p (fst r))) ress) else None
      end
  end.
(* allocate k strings and j results, then free each once, in that order: nothing is left *)
Fixpoint allocs (k j : nat) : list mop := repeat MStr k ++ repeat MResult j.
Theorem C15_free_releases_message_and_box :
  forall n strs ress p m,
    mstep (Some (n, strs, (p, m) :: ress)) (MFreeResult p) =
    Some (n, strs, filter (fun r => negb (Nat.eqb p (fst r))) ((p, m) :: ress)).
Proof. intros. cbn. rewrite Nat.eqb_refl. reflexivity. Qed.
Print Assumptions C15_free_releases_message_and_box.

(* ---------- the C wrappers themselves (CApi.v: c_api/mod.rs as a layer over the model) ---------- *)
From UV Require Import CApi.

(* a call handed a NULL parameter struct, a NULL required string or ill-formed UTF-8 answers its documented error
   default, performs no network action and changes nothing, on disk or in the configuration *)
Theorem C15_bad_argument_inert :
  forall sha sigok zdec base (w : world) (c : ccall),
    bad_arg c ->
    let '(w', r, l) := cstep sha sigok zdec base w c in
    w' = w /\ l = [] /\
    r = match c with CInit _ _ _ => KBool false | CCheck _ _ => KBool false | _ => KResult (-1) true end.
Proof. exact bad_argument_inert. Qed.
Print Assumptions C15_bad_argument_inert.

(* with proper arguments a wrapper IS the updater call (NULL channel = no channel) *)
Theorem C15_wrappers_are_the_calls :
  forall sha sigok zdec base (w : world) ch r dl,
    cstep sha sigok zdec base w (CUpdateWithResult (match ch with Some s => CStr s | None => CNull end) r dl) =
    (let '(w', o, l) := step sha sigok zdec base w (OUpdate ch r dl) in (w', out_of o, l)) /\
    cstep sha sigok zdec base w (CCheck (match ch with Some s => CStr s | None => CNull end) r) =
    (let '(w', o, l) := step sha sigok zdec base w (OCheck ch r) in (w', out_of o, l)).
Proof. exact good_arguments_are_the_call. Qed.
Print Assumptions C15_wrappers_are_the_calls.

(* every result struct carries one of the five documented codes and a message; the free functions accept NULL *)
Theorem C15_update_result_codes :
  forall sha sigok zdec base (w : world) ch r dl,
    match snd (fst (cstep sha sigok zdec base w (CUpdateWithResult ch r dl))) with
    | KResult z m => m = true /\ (z = (-1) \/ z = 0 \/ z = 1 \/ z = 2 \/ z = 3)%Z
    | _ => False
    end.
Proof. exact update_result_codes. Qed.
Print Assumptions C15_update_result_codes.
