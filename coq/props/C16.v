(* C16 — every patch the packaging tool produces inflates back to the new binary. *)
From UV Require Import Base Codec Model PMLemmas Inv Ban Handout Calls CodecProofs Chunked Bsdiff BsdiffProofs BsdiffSafe.

(* integer-encoding: what the writer emits is what the reader decodes, for every usize / i64 *)
Theorem C16_varint_u64 :
  forall (n : N) (r : bytes), n < two64 -> dec_u (enc_u n ++ r) = VOk n r.
Proof. exact varint_u64. Qed.
Print Assumptions C16_varint_u64.

Theorem C16_varint_i64 :
  forall (z : Z) (r : bytes), (- two63 <= z < two63)%Z -> dec_s (enc_s z ++ r) = VOk z r.
Proof. exact varint_i64. Qed.
Print Assumptions C16_varint_i64.

(* bidiff Translator + enc::Writer, then bipatch Reader: for ANY well-formed match list (matches tile
   the new file, add ranges lie inside the old file, first add range starts at 0) — whatever the
   suffix-array search found — applying the written patch to [old] yields [new] byte for byte *)
Theorem C16_roundtrip :
  forall (old new : bytes) (ms : list bmatch),
    wf_bytes old -> wf_bytes new ->
    (Z.of_N (blen old) < two63)%Z -> (Z.of_N (blen new) < two63)%Z ->
    wf_matches old new ms = true ->
    apply_patch old (simple_diff old new ms) = Some new.
Proof. exact roundtrip. Qed.
Print Assumptions C16_roundtrip.

(* The library does not apply the patch in one piece: std::io::copy pulls it through
   bipatch::Reader::read with buffers of its own choosing, and the Reader moves add blocks through a
   4096-byte scratch buffer.  For EVERY sequence of non-empty buffer sizes and every scratch size the
   streamed result is the one-shot result, error for error (target sizes crossing any internal buffer
   size included) *)
Theorem C16_any_buffer_schedule :
  forall (old : bytes) (cap : N) (sizes : nat -> N),
    0 < cap -> (forall j, 0 < sizes j) ->
    forall patch : bytes, apply_patch_chunked cap sizes old patch = apply_patch old patch.
Proof. exact chunked_is_oneshot. Qed.
Print Assumptions C16_any_buffer_schedule.

Theorem C16_streamed_roundtrip :
  forall (old new : bytes) (ms : list bmatch) (cap : N) (sizes : nat -> N),
    wf_bytes old -> wf_bytes new ->
    (Z.of_N (blen old) < two63)%Z -> (Z.of_N (blen new) < two63)%Z ->
    wf_matches old new ms = true ->
    0 < cap -> (forall j, 0 < sizes j) ->
    apply_patch_chunked cap sizes old (simple_diff old new ms) = Some new.
Proof.
  intros old new ms cap sizes Wo Wn Bo Bn Hwf Hc Hs.
  rewrite chunked_is_oneshot by assumption. apply roundtrip; assumption.
Qed.
Print Assumptions C16_streamed_roundtrip.

(* non-vacuity: a two-record patch streamed through 1-byte buffers with a 2-byte scratch *)
Example C16_chunked_example :
  apply_patch_chunked 2 (fun _ => 1) [10; 20; 30; 40; 50]
    (header ++ [3; 1; 1; 1; 2; 7; 8; 0] ++ [2; 0; 0; 1; 9; 0])
  = Some [11; 21; 31; 7; 8; 40; 50; 9].
Proof. vm_compute. reflexivity. Qed.

(* the hash the tool prints (hex of SHA-256 of the new file) passes the library's hash gate *)
Theorem C16_hash_gate :
  forall (sha : bytes -> bytes) (new : bytes),
    wf_bytes (sha new) -> hash_ok sha new (hex_of_bytes (sha new)) = true.
Proof.
  intros sha new W. unfold hash_ok. rewrite unhex_hex by exact W. apply bytes_eqb_refl.
Qed.
Print Assumptions C16_hash_gate.

(* end to end: given a lossless compressor (zdec (zenc x) = x), the library installs what the tool built *)
Theorem C16_end_to_end :
  forall sha sigok zdec (zenc : bytes -> bytes) (base new : bytes) (ms : list bmatch)
         (c : cfg) (d : disk) ch (rs : resp) (p : patch),
    (forall x, zdec (zenc x) = x) ->
    wf_bytes base -> wf_bytes new -> wf_bytes (sha new) ->
    (Z.of_N (blen base) < two63)%Z -> (Z.of_N (blen new) < two63)%Z ->
    wf_matches base new ms = true ->
    stable (c_rel c) d -> settled sha sigok (c_key c) d ->
    r_rb rs = None -> r_avail rs = true -> r_patch rs = Some p ->
    p_hash p = hex_of_bytes (sha new) ->
    ~ In (p_num p) (bad (load_p d)) -> onum (nb (load_p d)) <> Some (p_num p) ->
    snd (fst (do_update sha sigok zdec base c d ch (Some rs) (Some (zenc (simple_diff base new ms))))) = UInstalled.
Proof.
  intros sha sigok zdec zenc base new ms c d ch rs p Hz Wb Wn Ws Bb Bn Hwf S St Er Ea Ep Eh Hb Hn.
  apply (healthy_update_installs sha sigok zdec base c d ch rs p _ new); auto.
  - unfold inflate. rewrite Hz. apply roundtrip; auto.
  - rewrite Eh. apply C16_hash_gate. exact Ws.
Qed.
Print Assumptions C16_end_to_end.

(* ---------- the scan loop of bidiff (BsdiffIterator), with the suffix-array matcher as an oracle ----------
   Whatever `longest_substring_match` answers at each scan position — right or wrong, longest or not — as
   long as the match it reports lies inside the two buffers, the Matches the loop emits are well formed.
   So the hypothesis [wf_matches] of the round-trip theorems is discharged for the tool's own scan loop. *)
Theorem C16_scan_loop_emits_wf_matches :
  forall (old new : bytes) (lsm : N -> N * N),
    lsm_bounded old new lsm ->
    forall ms : list bmatch, bsdiff old new lsm = Ok ms -> wf_matches old new ms = true.
Proof. exact bsdiff_wf. Qed.
Print Assumptions C16_scan_loop_emits_wf_matches.

(* the loop ends: |new| + 2 turns of the outer loop are always enough *)
Theorem C16_scan_loop_terminates :
  forall (old new : bytes) (lsm : N -> N * N),
    lsm_bounded old new lsm -> bsdiff old new lsm <> OutOfFuel.
Proof. exact bsdiff_terminates. Qed.
Print Assumptions C16_scan_loop_terminates.

(* tool -> library, with no assumption on the match list: scan loop, Translator, Writer, then the
   streamed Reader with any buffer schedule *)
Theorem C16_tool_roundtrip :
  forall (old new : bytes) (lsm : N -> N * N) (ms : list bmatch) (cap : N) (sizes : nat -> N),
    wf_bytes old -> wf_bytes new ->
    (Z.of_N (blen old) < two63)%Z -> (Z.of_N (blen new) < two63)%Z ->
    lsm_bounded old new lsm ->
    bsdiff old new lsm = Ok ms ->
    0 < cap -> (forall j, 0 < sizes j) ->
    apply_patch_chunked cap sizes old (simple_diff old new ms) = Some new.
Proof.
  intros old new lsm ms cap sizes Wo Wn Bo Bn Hl Hb Hc Hs.
  apply C16_streamed_roundtrip; auto. eapply bsdiff_wf; eauto.
Qed.
Print Assumptions C16_tool_roundtrip.

(* non-vacuity: a matcher that always answers "no match" and one that finds a real match *)
Example C16_scan_loop_example_nomatch :
  bsdiff [1; 2; 3] [7; 8] (fun _ => (0, 0)) =
  Ok [{| add_old_start := 0; add_new_start := 0; add_length := 0; copy_end := 2 |}].
Proof. vm_compute. reflexivity. Qed.
Example C16_scan_loop_example_match :
  exists ms, bsdiff [1;2;3;4;5;6;7;8;9;10;11;12] [9;9;1;2;3;4;5;6;7;8;9;10;11;12]
                    (fun sc => if sc <? 2 then (0, 0) else (sc - 2, 14 - sc)) = Ok ms
             /\ 1 < N.of_nat (List.length ms) /\ wf_matches [1;2;3;4;5;6;7;8;9;10;11;12] [9;9;1;2;3;4;5;6;7;8;9;10;11;12] ms = true.
Proof. eexists. vm_compute. repeat split. Qed.

(* the scan loop never indexes obuf / nbuf out of range and never underflows a usize subtraction: the
   instrumented twin of the loop (BsdiffSafe.v) checks every unguarded index expression and every subtraction,
   and under the matcher's bound all checks succeed - with the two theorems above: on any input the tool's scan
   loop terminates without an index panic and emits a well-formed match list (the remaining way to abort,
   `oldscore -= 1` on zero, needs a matcher that misses an existing one-byte match) *)
Theorem C16_scan_loop_index_safe :
  forall (old new : bytes) (lsm : N -> N * N),
    lsm_bounded old new lsm -> outer_ok old new lsm (S (S (N.to_nat (nlen new)))) bs0 = true.
Proof. exact bsdiff_index_safe. Qed.
Print Assumptions C16_scan_loop_index_safe.
