(* C16 — every patch the packaging tool produces inflates back to the new binary. *)
From UV Require Import Base Codec Model PMLemmas Inv Ban Handout Calls CodecProofs Chunked.

(* integer-encoding: what the writer emits is what the reader decodes, for every usize / i64 *)
Theorem C16_varint_u64 :
  forall (n : N) (r : bytes), n < two64 -> dec_u (enc_u n ++ r) = VOk n r.
Proof. exact varint_u64. Qed.
Print Assumptions C16_varint_u64.

Theorem C16_varint_i64 :
  forall (z : Z) (r : bytes), (- two63 <= z < two63)%Z -> dec_s (enc_s z ++ r) = VOk z r.
Proof. exact varint_i64. Qed.
Print Assumptions C16_varint_i64.

(* bidiff Translator + enc::Writer, then bipatch Reader: for ANY well-formed match list (matches tile
   the new file, add ranges lie inside the old file, first add range starts at 0) — whatever the
   suffix-array search found — applying the written patch to [old] yields [new] byte for byte *)
Theorem C16_roundtrip :
  forall (old new : bytes) (ms : list bmatch),
    wf_bytes old -> wf_bytes new ->
    (Z.of_N (blen old) < two63)%Z -> (Z.of_N (blen new) < two63)%Z ->
    wf_matches old new ms = true ->
    apply_patch old (simple_diff old new ms) = Some new.
Proof. exact roundtrip. Qed.
Print Assumptions C16_roundtrip.

(* The library does not apply the patch in one piece: std::io::copy pulls it through
   bipatch::Reader::read with buffers of its own choosing, and the Reader moves add blocks through a
   4096-byte scratch buffer.  For EVERY sequence of non-empty buffer sizes and every scratch size the
   streamed result is the one-shot result, error for error (target sizes crossing any internal buffer
   size included) *)
Theorem C16_any_buffer_schedule :
  forall (old : bytes) (cap : N) (sizes : nat -> N),
    0 < cap -> (forall j, 0 < sizes j) ->
    forall patch : bytes, apply_patch_chunked cap sizes old patch = apply_patch old patch.
Proof. exact chunked_is_oneshot. Qed.
Print Assumptions C16_any_buffer_schedule.

Theorem C16_streamed_roundtrip :
  forall (old new : bytes) (ms : list bmatch) (cap : N) (sizes : nat -> N),
    wf_bytes old -> wf_bytes new ->
    (Z.of_N (blen old) < two63)%Z -> (Z.of_N (blen new) < two63)%Z ->
    wf_matches old new ms = true ->
    0 < cap -> (forall j, 0 < sizes j) ->
    apply_patch_chunked cap sizes old (simple_diff old new ms) = Some new.
Proof.
  intros old new ms cap sizes Wo Wn Bo Bn Hwf Hc Hs.
  rewrite chunked_is_oneshot by assumption. apply roundtrip; assumption.
Qed.
Print Assumptions C16_streamed_roundtrip.

(* non-vacuity: a two-record patch streamed through 1-byte buffers with a 2-byte scratch *)
Example C16_chunked_example :
  apply_patch_chunked 2 (fun _ => 1) [10; 20; 30; 40; 50]
    (header ++ [3; 1; 1; 1; 2; 7; 8; 0] ++ [2; 0; 0; 1; 9; 0])
  = Some [11; 21; 31; 7; 8; 40; 50; 9].
Proof. vm_compute. reflexivity. Qed.

(* the hash the tool prints (hex of SHA-256 of the new file) passes the library's hash gate *)
Theorem C16_hash_gate :
  forall (sha : bytes -> bytes) (new : bytes),
    wf_bytes (sha new) -> hash_ok sha new (hex_of_bytes (sha new)) = true.
Proof.
  intros sha new W. unfold hash_ok. rewrite unhex_hex by exact W. apply bytes_eqb_refl.
Qed.
Print Assumptions C16_hash_gate.

(* end to end: given a lossless compressor (zdec (zenc x) = x), the library installs what the tool built *)
Theorem C16_end_to_end :
  forall sha sigok zdec (zenc : bytes -> bytes) (base new : bytes) (ms : list bmatch)
         (c : cfg) (d : disk) ch (rs : resp) (p : patch),
    (forall x, zdec (zenc x) = x) ->
    wf_bytes base -> wf_bytes new -> wf_bytes (sha new) ->
    (Z.of_N (blen base) < two63)%Z -> (Z.of_N (blen new) < two63)%Z ->
    wf_matches base new ms = true ->
    stable (c_rel c) d -> settled sha sigok (c_key c) d ->
    r_rb rs = None -> r_avail rs = true -> r_patch rs = Some p ->
    p_hash p = hex_of_bytes (sha new) ->
    ~ In (p_num p) (bad (load_p d)) -> onum (nb (load_p d)) <> Some (p_num p) ->
    snd (fst (do_update sha sigok zdec base c d ch (Some rs) (Some (zenc (simple_diff base new ms))))) = UInstalled.
Proof.
  intros sha sigok zdec zenc base new ms c d ch rs p Hz Wb Wn Ws Bb Bn Hwf S St Er Ea Ep Eh Hb Hn.
  apply (healthy_update_installs sha sigok zdec base c d ch rs p _ new); auto.
  - unfold inflate. rewrite Hz. apply roundtrip; auto.
  - rewrite Eh. apply C16_hash_gate. exact Ws.
Qed.
Print Assumptions C16_end_to_end.
