(* C16 — every patch the packaging tool produces inflates back to the new binary. *)
From UV Require Import Base Codec Model PMLemmas Inv Ban Handout Calls CodecProofs.

(* integer-encoding: what the writer emits is what the reader decodes, for every usize / i64 *)
Theorem C16_varint_u64 :
  forall (n : N) (r : bytes), n < two64 -> dec_u (enc_u n ++ r) = VOk n r.
Proof. exact varint_u64. Qed.
Print Assumptions C16_varint_u64.

Theorem C16_varint_i64 :
  forall (z : Z) (r : bytes), (- two63 <= z < two63)%Z -> dec_s (enc_s z ++ r) = VOk z r.
Proof. exact varint_i64. Qed.
Print Assumptions C16_varint_i64.

(* bidiff Translator + enc::Writer, then bipatch Reader: for ANY well-formed match list (matches tile
   the new file, add ranges lie inside the old file, first add range starts at 0) — whatever the
   suffix-array search found — applying the written patch to [old] yields [new] byte for byte *)
Theorem C16_roundtrip :
  forall (old new : bytes) (ms : list bmatch),
    wf_bytes old -> wf_bytes new ->
    (Z.of_N (blen old) < two63)%Z -> (Z.of_N (blen new) < two63)%Z ->
    wf_matches old new ms = true ->
    apply_patch old (simple_diff old new ms) = Some new.
Proof. exact roundtrip. Qed.
Print Assumptions C16_roundtrip.

(* the hash the tool prints (hex of SHA-256 of the new file) passes the library's hash gate *)
Theorem C16_hash_gate :
  forall (sha : bytes -> bytes) (new : bytes),
    wf_bytes (sha new) -> hash_ok sha new (hex_of_bytes (sha new)) = true.
Proof.
  intros sha new W. unfold hash_ok. rewrite unhex_hex by exact W. apply bytes_eqb_refl.
Qed.
Print Assumptions C16_hash_gate.

(* end to end: given a lossless compressor (zdec (zenc x) = x), the library installs what the tool built *)
Theorem C16_end_to_end :
  forall sha sigok zdec (zenc : bytes -> bytes) (base new : bytes) (ms : list bmatch)
         (c : cfg) (d : disk) ch (rs : resp) (p : patch),
    (forall x, zdec (zenc x) = x) ->
    wf_bytes base -> wf_bytes new -> wf_bytes (sha new) ->
    (Z.of_N (blen base) < two63)%Z -> (Z.of_N (blen new) < two63)%Z ->
    wf_matches base new ms = true ->
    stable (c_rel c) d -> settled sha sigok (c_key c) d ->
    r_rb rs = None -> r_avail rs = true -> r_patch rs = Some p ->
    p_hash p = hex_of_bytes (sha new) ->
    ~ In (p_num p) (bad (load_p d)) -> onum (nb (load_p d)) <> Some (p_num p) ->
    snd (fst (do_update sha sigok zdec base c d ch (Some rs) (Some (zenc (simple_diff base new ms))))) = UInstalled.
Proof.
  intros sha sigok zdec zenc base new ms c d ch rs p Hz Wb Wn Ws Bb Bn Hwf S St Er Ea Ep Eh Hb Hn.
  apply (healthy_update_installs sha sigok zdec base c d ch rs p _ new); auto.
  - unfold inflate. rewrite Hz. apply roundtrip; auto.
  - rewrite Eh. apply C16_hash_gate. exact Ws.
Qed.
Print Assumptions C16_end_to_end.
