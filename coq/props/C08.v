(* C08 — patch state never crosses release versions. *)
From UV Require Import Base Codec Model PMLemmas Inv Ban Handout Calls.

(* first init under another release (or with unreadable state.json): everything is discarded *)
Theorem C08_release_change_init :
  forall sha sigok zdec base (d : disk) (relv : string) (y : yaml_in) (c : cfg),
    cfg_of relv y = Some c -> other_release relv d ->
    step sha sigok zdec base {| w_disk := d; w_cfg := None |} (OInit relv y true) =
    ({| w_disk := fresh_disk relv; w_cfg := Some c |}, RBool true, []).
Proof. exact release_change_init. Qed.
Print Assumptions C08_release_change_init.

(* ... so the first queries report no current and no next patch, no artifact, no event, no ban *)
Theorem C08_first_queries :
  forall sha sigok (c : cfg),
    cs_current c (fresh_disk (c_rel c)) = (fresh_disk (c_rel c), None) /\
    cs_next sha sigok c (fresh_disk (c_rel c)) = (fresh_disk (c_rel c), None) /\
    (forall k, arts (fresh_disk (c_rel c)) k = None) /\
    load_p (fresh_disk (c_rel c)) = pempty /\
    evq (load_s c (fresh_disk (c_rel c))) = [].
Proof.
  intros sha sigok c. destruct (fresh_queries sha sigok c) as [A B].
  repeat split; auto.
Qed.
Print Assumptions C08_first_queries.

(* every critical section of every later call discards the old release's state too (a query issued
   before any init cannot happen, but a torn first launch can: see C04) *)
Theorem C08_any_section_resets :
  forall (c : cfg) (d : disk), other_release (c_rel c) d -> norm c d = fresh_disk (c_rel c).
Proof. exact norm_other. Qed.
Print Assumptions C08_any_section_resets.

(* numbers banned or installed under the old release are fresh again: a healthy offer installs *)
Theorem C08_old_numbers_are_fresh :
  forall sha sigok zdec base (c : cfg) ch (rs : resp) (p : patch) bdl out,
    r_rb rs = None -> r_avail rs = true -> r_patch rs = Some p ->
    inflate zdec base bdl = Some out -> hash_ok sha out (p_hash p) = true ->
    snd (fst (do_update sha sigok zdec base c (fresh_disk (c_rel c)) ch (Some rs) (Some bdl))) = UInstalled.
Proof.
  intros sha sigok zdec base c ch rs p bdl out H1 H2 H3 H4 H5.
  apply (healthy_update_installs sha sigok zdec base c (fresh_disk (c_rel c)) ch rs p bdl out);
    auto; first [ exact I | (eexists; split; reflexivity) | discriminate | (intros []) ].
Qed.
Print Assumptions C08_old_numbers_are_fresh.

(* ---------- the same at the level of the BYTES of state.json (JsonSj.v) ----------
   Whatever state.json holds - a text that is not a readable state (cut short, emptied, garbled, a member missing or
   repeated, an unknown event type) or a readable state recorded for another release - the first init of this release
   discards everything. *)
From UV Require Import Json JsonText JsonState JsonSj.
Theorem C08_release_change_by_file_content :
  forall sha sigok zdec base (d : disk) (bytes : Base.bytes) (relv : string) (y : yaml_in) (c : cfg),
    cfg_of relv y = Some c ->
    sj d = sj_of_file bytes ->
    (sj_of_file bytes = JGarbage \/ exists s, sj_of_file bytes = JOk s /\ rel s <> relv) ->
    step sha sigok zdec base {| w_disk := d; w_cfg := None |} (OInit relv y true) =
    ({| w_disk := fresh_disk relv; w_cfg := Some c |}, RBool true, []).
Proof.
  intros sha sigok zdec base d bytes relv y c Hc Hsj H.
  apply release_change_init; [exact Hc|]. unfold other_release. rewrite Hsj.
  destruct H as [-> | (s & -> & Hne)]; intros s' E; [discriminate|]. injection E as <-. exact Hne.
Qed.
Print Assumptions C08_release_change_by_file_content.
