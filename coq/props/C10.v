(* C10 — a server rollback is honoured and sticks. *)
From UV Require Import Base Codec Model PMLemmas Inv Ban Handout Calls Frame Frames2 Frames3 Frames4.

(* right after a check / update whose response lists x (anywhere, any multiplicity, installed or
   not): x's artifact is gone and x is not the selection *)
Theorem C10_rollback_now_check :
  forall sha sigok (c : cfg) (d : disk) ch (rs : resp) (l : list N) (x : N),
    r_rb rs = Some l -> In x l -> goneD (fst (fst (do_check sha sigok c d ch (Some rs)))) x.
Proof. exact rollback_now_check. Qed.
Print Assumptions C10_rollback_now_check.

Theorem C10_rollback_now_update :
  forall sha sigok zdec base (c : cfg) (d : disk) ch (rs : resp) dl (l : list N) (x : N),
    r_rb rs = Some l -> In x l ->
    (snd (fst (do_update sha sigok zdec base c d ch (Some rs) dl)) = UInstalled -> ~ installs (Some rs) x) ->
    goneD (fst (fst (do_update sha sigok zdec base c d ch (Some rs) dl))) x.
Proof. exact rollback_now_update. Qed.
Print Assumptions C10_rollback_now_update.

(* if x was the selection, what is selected instead is the fallback target of C03 *)
Theorem C10_fallback_target :
  forall sha sigok (key : option string) (d : disk) (s : pstate) (b : N),
    numeq (nb s) b = true ->
    nb (snd (fall_back sha sigok key d s b)) =
    match lb s with
    | Some l => if negb (N.eqb (m_num l) b) && validate sha sigok key (del_art d b) l then Some l else None
    | None => None
    end.
Proof. exact fall_back_target. Qed.
Print Assumptions C10_fallback_target.

(* it sticks: every call other than an update that installs x (or outside damage re-creating it)
   leaves x gone — restarts, release changes, further rollbacks included *)
Theorem C10_gone_frame :
  forall sha sigok zdec base (w : world) (o : op) (x : N),
    goneD (w_disk w) x -> gone_undisturbed sha sigok zdec base x w o ->
    goneD (w_disk (stepw sha sigok zdec base w o)) x.
Proof. exact gone_frame. Qed.
Print Assumptions C10_gone_frame.

Theorem C10_sticks :
  forall sha sigok zdec base (x : N) (ops : list op) (w : world),
    goneD (w_disk w) x -> along sha sigok zdec base (gone_undisturbed sha sigok zdec base x) w ops ->
    goneD (w_disk (final sha sigok zdec base w ops)) x.
Proof. exact gone_persists. Qed.
Print Assumptions C10_sticks.

Theorem C10_gone_not_reported :
  forall sha sigok (c : cfg) (d : disk) (x : N), goneD d x -> snd (cs_next sha sigok c d) <> Some x.
Proof. exact gone_not_reported. Qed.
Print Assumptions C10_gone_not_reported.
