(* C04 — placeholder until the fault-monad theorems land (see below). *)
