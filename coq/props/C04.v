(* C04 — process death or an I/O error at any point leaves a safe state. *)
From UV Require Import Base Codec Model PMLemmas Inv Ban Handout Calls Fault FaultProofs.

(* First half, calls of the running release.  For every good state of release r, every call o (and
   the restart's own init), every k and every partial-deletion choice sub: the disk left by a process
   death before the k-th mutating system call satisfies SB (if the next launch keeps the state at
   all, a parsable patches_state.json satisfies I-ban and still bans everything banned before) ... *)
Theorem C04_crash_states :
  forall sha sigok zdec base (c : cfg) (d0 : disk) (o : op) (k : nat) (sub : N -> N),
    stable (c_rel c) d0 -> IbanD d0 ->
    let d' := disk_of (callM sha sigok zdec base c o (CrashAt k sub) 0%nat d0) in
    let d'' := disk_of (initM sha sigok c (CrashAt k sub) 0%nat d0) in
    SB (c_rel c) (bad (load_p d0)) d' /\ SB (c_rel c) (bad (load_p d0)) d''.
Proof. exact crash_safe. Qed.
Print Assumptions C04_crash_states.

(* ... and from ANY such disk the next launch (init with crash detection, then the query) selects no
   patch, or one that is intact (exists, recorded size, signed if a key is configured), was not
   banned before the interrupted call, and whose own launch was not in progress *)
Theorem C04_next_launch_safe :
  forall sha sigok (c : cfg) (bad0 : list N) (d : disk),
    SB (c_rel c) bad0 d ->
    match snd (next_launch sha sigok c d) with
    | None => True
    | Some n =>
        intact sha sigok (c_key c) (fst (next_launch sha sigok c d)) n /\ ~ In n bad0 /\
        (forall m, cb (load_p (norm c d)) = Some m -> m_num m <> n)
    end.
Proof. exact next_launch_safe. Qed.
Print Assumptions C04_next_launch_safe.

(* Second half.  Under ANY plan — death at any step or any single failing system call with execution
   continuing — of any call from any state whose patches_state.json satisfies I-ban: the call returns
   (the model is total), and whatever is selected afterwards, in this process and at the next launch,
   is intact and not on the ban list *)
Theorem C04_fault_safe :
  forall sha sigok zdec base (c : cfg) (d0 : disk) (o : op) (pl : plan),
    PJI d0 ->
    let d' := disk_of (callM sha sigok zdec base c o pl 0%nat d0) in
    IbanD d' /\
    (forall d2 n, cs_next sha sigok c d' = (d2, Some n) ->
                  intact sha sigok (c_key c) d2 n /\ ~ In n (bad (load_p d2))) /\
    (forall d2 n, next_launch sha sigok c d' = (d2, Some n) ->
                  intact sha sigok (c_key c) d2 n /\ ~ In n (bad (load_p d2))).
Proof. exact fault_safe. Qed.
Print Assumptions C04_fault_safe.

(* First launch of another release (or with an unreadable state.json), under ANY plan: neither this
   process nor the next launch hands out a patch — no state of the old release is ever selectable *)
Theorem C04_release_change_safe :
  forall sha sigok (c : cfg) (d : disk) (pl : plan),
    ~ stable (c_rel c) d ->
    let d' := disk_of (initM sha sigok c pl 0%nat d) in
    snd (cs_next sha sigok c d') = None /\ snd (next_launch sha sigok c d') = None.
Proof. exact release_change_safe. Qed.
Print Assumptions C04_release_change_safe.

(* The fault-monad model run without faults IS the pure model of the lifecycle theorems (and of the
   correspondence runs): every call, and the first call of a process, leave exactly the pure disk *)
From UV Require Import FaultRefine.
Theorem C04_nofault_is_pure_model :
  forall sha sigok zdec base (c : cfg) (o : op) (d : disk),
    (forall r y p, o <> OInit r y p) -> o <> OKill -> (forall g, o <> ODamage g) ->
    NFd (callM sha sigok zdec base c o) d
        (w_disk (fst (fst (step sha sigok zdec base {| w_disk := d; w_cfg := Some c |} o)))).
Proof. exact call_refines. Qed.
Print Assumptions C04_nofault_is_pure_model.

Theorem C04_nofault_init_is_pure_model :
  forall sha sigok (c : cfg) (d : disk),
    NFd (initM sha sigok c) d (cs_init_recover sha sigok c d).
Proof. exact init_refines. Qed.
Print Assumptions C04_nofault_init_is_pure_model.

(* ---------- torn writes of patches_state.json (JsonTorn.v) ----------
   Fault.write_pj leaves JGarbage when the process dies or a write fails in the middle of disk_io::write.  With the
   text-level reader in the model this is no longer an assumption about JSON: if the complete text reads as a state,
   begins with the opening brace and ends with the closing one (what to_writer_pretty writes; the harness checks that shape on every file
   the library writes), then every strict prefix of it is garbage for the reader. *)
From UV Require Import Json JsonText JsonTextProofs JsonState JsonStateProofs JsonTorn JsonStateExist.
Theorem C04_torn_state_file_is_garbage :
  forall (P p r : bytes) s,
    pstate_of_body P = Some s -> P = (p ++ r)%list -> r <> [] ->
    (exists x, skip_ws P = (123 :: x)%N) -> (exists y, P = (y ++ [125%N])%list) ->
    pj_of_file p = JGarbage.
Proof. exact torn_state_file_is_garbage. Qed.
Print Assumptions C04_torn_state_file_is_garbage.

(* (and such texts exist for every state the model can hold) *)
Theorem C04_every_state_has_such_a_file :
  forall s, pstate_in_range s -> pstate_utf8 s ->
    exists P, pstate_of_body P = Some s /\ (exists x, skip_ws P = (123 :: x)%N) /\ (exists y, P = (y ++ [125%N])%list).
Proof. exact state_has_a_file. Qed.
Print Assumptions C04_every_state_has_such_a_file.

(* ---------- torn writes of state.json (JsonSj.v, JsonSjWidth.v) ----------
   The same for the other state file: with state.json read at the text level by the model (JsonSj.sj_of_file: the derived
   readers of SerializedState, of PatchEvent for every queued event, and EventType's own), a save of state.json that is
   cut short anywhere - the process dies, or a write fails, inside disk_io::write - leaves a file the next load cannot
   read, which load_or_new_on_error answers by discarding everything. *)
From UV Require Import JsonSj JsonSjProofs JsonSjWidth.
Theorem C04_torn_state_json_is_garbage :
  forall (P p r : bytes) s,
    sj_of_file P = JOk s -> P = (p ++ r)%list -> r <> [] ->
    (exists x, skip_ws P = (123 :: x)%N) -> (exists y, P = (y ++ [125%N])%list) ->
    sj_of_file p = JGarbage.
Proof. exact torn_state_json. Qed.
Print Assumptions C04_torn_state_json_is_garbage.

(* the vector of queued events is read by a reader with room for as many events as the text has bytes; ANY room that is
   at least that reads the same thing: the model's reader is the reader with unbounded room (serde's Vec visitor) *)
Theorem C04_state_json_reader_room_is_irrelevant :
  forall (n : nat) (l : bytes), (List.length l <= n)%nat -> sj_of_file_n n l = sj_of_file l.
Proof. exact sj_of_file_width. Qed.
Print Assumptions C04_state_json_reader_room_is_irrelevant.

(* what is read is exactly a sentence of the state file's grammar whose tree the derived readers accept - nothing else
   (not JSON, a missing or repeated member, a vector that is not an array, an unknown event type) is a readable state *)
Theorem C04_state_json_language :
  forall n l s,
    fstate_of_body_n n l = Some s <->
    exists w b w' t, WS w /\ GS (sstate_schema n) t b /\ WS w' /\ l = (w ++ b ++ w')%list /\ fstate_of_json t = Some s.
Proof. exact fstate_of_body_iff. Qed.
Print Assumptions C04_state_json_language.

(* (and such texts exist for every release version and every queue the model can hold: the theorem above is not vacuous) *)
From UV Require Import JsonTextExist JsonSjExist.
Theorem C04_every_state_json_has_such_a_file :
  forall r q,
    utf8_valid (bytes_of r) = true -> Forall fevent_in_range q -> Forall fevent_utf8 q ->
    exists P, sj_of_file P = JOk {| rel := r; evq := map event_of_fevent q |} /\
              (exists x, skip_ws P = (123 :: x)%N) /\ (exists y, P = (y ++ [125%N])%list).
Proof. exact sj_state_has_a_file. Qed.
Print Assumptions C04_every_state_json_has_such_a_file.

(* ---------- and for the very bytes the library writes (JsonWrite.v: serde_json::to_writer_pretty of the derived
   Serialize, as a function) ---------- 
   [w_pstate s] / [w_fstate r q] are the texts disk_io::write produces; the harness checks on every run that each state
   file the library wrote is a fixed point of read-then-write (pj_canonical / sj_canonical).  Cut anywhere, they are
   unreadable - no hypothesis on the shape of the text is left. *)
From UV Require Import JsonStateProofs JsonStateExist JsonWrite JsonWriteProofs.
Theorem C04_torn_written_patches_state_is_garbage :
  forall s p r, pstate_in_range s -> pstate_utf8 s -> w_pstate s = (p ++ r)%list -> r <> [] -> pj_of_file p = JGarbage.
Proof. exact torn_written_pstate. Qed.
Print Assumptions C04_torn_written_patches_state_is_garbage.

Theorem C04_torn_written_state_json_is_garbage :
  forall rl q p r,
    utf8_valid (bytes_of rl) = true -> Forall fevent_in_range q -> Forall fevent_utf8 q ->
    w_fstate rl q = (p ++ r)%list -> r <> [] -> sj_of_file p = JGarbage.
Proof. exact torn_written_sstate. Qed.
Print Assumptions C04_torn_written_state_json_is_garbage.
