(* C17 — install, failure and download events are sent at the promised moments, once. *)
From UV Require Import Base Codec Model PMLemmas Inv Ban Handout Calls Events.

Theorem C17_success_event :
  forall (c : cfg) (d : disk),
    snd (cs_success c d) =
    match cb (load_p (norm c d)) with
    | Some b => if numeq (lb (load_p (norm c d))) (m_num b) then []
                else [NEvent (mk_event c EvInstallSuccess (m_num b) MsgNone)]
    | None => []
    end.
Proof. exact success_event. Qed.
Print Assumptions C17_success_event.

Theorem C17_failure_queues_one :
  forall sha sigok (c : cfg) (d : disk) (b : meta),
    cb (load_p (norm c d)) = Some b ->
    evq_of c (fst (cs_failure sha sigok c d)) =
    evq_of c (norm c d) ++ [mk_event c EvInstallFailure (m_num b) MsgEngine].
Proof. exact failure_queues_one. Qed.
Print Assumptions C17_failure_queues_one.

Theorem C17_crash_detection_queues_one :
  forall sha sigok (c : cfg) (d : disk) (b : meta),
    cb (load_p (norm c d)) = Some b ->
    evq_of c (cs_init_recover sha sigok c d) =
    evq_of c (norm c d) ++ [mk_event c EvInstallFailure (m_num b) MsgInit].
Proof. exact crash_detection_queues_one. Qed.
Print Assumptions C17_crash_detection_queues_one.

(* an update sends the three oldest queued events, oldest first, then the check request; any later
   event is the single download event of a successful install *)
Theorem C17_update_flushes :
  forall sha sigok zdec base (c : cfg) (d : disk) ch r dl,
    exists rest,
      snd (do_update sha sigok zdec base c d ch r dl) =
        map NEvent (firstn 3 (evq_of c (norm c d))) ++ NCheck (mk_request c ch) :: rest /\
      (forall e, In (NEvent e) rest ->
                 e = mk_event c EvDownload (e_num e) MsgNone /\
                 snd (fst (do_update sha sigok zdec base c d ch r dl)) = UInstalled) /\
      (snd (fst (do_update sha sigok zdec base c d ch r dl)) = UInstalled ->
       exists p, In (NEvent (mk_event c EvDownload p MsgNone)) rest /\
                 onum (nb (load_p (fst (fst (do_update sha sigok zdec base c d ch r dl))))) = Some p).
Proof. exact update_flushes. Qed.
Print Assumptions C17_update_flushes.

Theorem C17_update_empties_queue :
  forall sha sigok zdec base (c : cfg) (d : disk) ch r dl,
    evq_of c (fst (fst (do_update sha sigok zdec base c d ch r dl))) = [].
Proof. exact update_empties_queue. Qed.
Print Assumptions C17_update_empties_queue.

(* "and never otherwise": queries, launch start and success reports, checks, auto-update queries and
   restarts leave state.json as it was (or as a fresh file, if it belonged to another release), and none
   of them but a launch-success report sends an event *)
Theorem C17_quiet_calls :
  forall sha sigok zdec base (w : world) (o : op) (c : cfg),
    w_cfg w = Some c -> quiet o ->
    (sj (w_disk (fst (fst (step sha sigok zdec base w o)))) = sj (w_disk w) \/
     sj (w_disk (fst (fst (step sha sigok zdec base w o)))) = sj (norm c (w_disk w))) /\
    (forall e, In (NEvent e) (snd (step sha sigok zdec base w o)) -> o = OSuccess).
Proof. exact quiet_calls. Qed.
Print Assumptions C17_quiet_calls.

Theorem C17_quiet_calls_keep_queue :
  forall sha sigok zdec base (w : world) (o : op) (c : cfg),
    w_cfg w = Some c -> stable (c_rel c) (w_disk w) -> quiet o ->
    evq_of c (w_disk (fst (fst (step sha sigok zdec base w o)))) = evq_of c (w_disk w).
Proof. exact quiet_calls_keep_queue. Qed.
Print Assumptions C17_quiet_calls_keep_queue.

(* every event built by the library carries the configured app id and release version *)
Theorem C17_payload :
  forall (c : cfg) (k : evkind) (n : N) (m : evmsg),
    e_app (mk_event c k n m) = c_app c /\ e_rel (mk_event c k n m) = c_rel c /\
    e_num (mk_event c k n m) = n /\ e_kind (mk_event c k n m) = k.
Proof. intros. repeat split. Qed.
Print Assumptions C17_payload.

(* tie to the current sources: the wire names of the three event types *)
From UVG Require Import Consts.
Theorem C17_event_names_from_source :
  gen_event_type_names =
    [("PatchDownload", "__patch_download__"); ("PatchInstallFailure", "__patch_install_failure__");
     ("PatchInstallSuccess", "__patch_install__")]%string /\
  gen_events_url_suffix = "/api/v1/patches/events"%string.
Proof. split; reflexivity. Qed.
Print Assumptions C17_event_names_from_source.

(* ---------- the queue on disk (JsonSj.v): what is saved is what a later process reads ----------
   Every text that spells the tree of a release version and a list of events - in any white space, escape form and
   member order the grammar allows - is read back as exactly that release and those events, in order. *)
From UV Require Import Json JsonText JsonTextProofs JsonSj JsonSjProofs.
Theorem C17_saved_queue_is_read_back :
  forall n r q w b w',
    Forall fevent_in_range q -> GS (sstate_schema n) (json_of_fstate r q) b -> WS w -> WS w' ->
    sj_of_file_n n (w ++ b ++ w')%list = JOk {| rel := r; evq := map event_of_fevent q |}.
Proof. exact spelled_state_is_read. Qed.
Print Assumptions C17_saved_queue_is_read_back.

(* ... and every event of the model has such a spelling: written with any architecture, platform and timestamp, it is the
   same event when read (the messages of the two failure events are told apart by their text) *)
Theorem C17_event_survives_the_file :
  forall a p ts (q : list event),
    Forall msg_canonical q -> map event_of_fevent (map (fun e => fevent_of_event a p (ts e) e) q) = q.
Proof. exact queue_is_read_back. Qed.
Print Assumptions C17_event_survives_the_file.

(* tie to the current sources: the reader of state.json knows the event types by the wire names events.rs gives them *)
Theorem C17_reader_knows_the_wire_names :
  map (fun k => (as_evkind (JStr (evkind_str k)))) [EvDownload; EvInstallFailure; EvInstallSuccess] =
    [Some EvDownload; Some EvInstallFailure; Some EvInstallSuccess] /\
  map evkind_str [EvDownload; EvInstallFailure; EvInstallSuccess] = map snd gen_event_type_names.
Proof. split; reflexivity. Qed.
Print Assumptions C17_reader_knows_the_wire_names.

(* the text the library writes for a release and a queue (JsonWrite.w_fstate) is read back as that release and that
   queue: a queued event survives the restart as written *)
From UV Require Import JsonTextExist JsonSjExist JsonWrite JsonWriteProofs.
Theorem C17_written_queue_is_read_back :
  forall r q,
    utf8_valid (bytes_of r) = true -> Forall fevent_in_range q -> Forall fevent_utf8 q ->
    sj_of_file (w_fstate r q) = JOk {| rel := r; evq := map event_of_fevent q |}.
Proof. exact written_sstate_is_read_back. Qed.
Print Assumptions C17_written_queue_is_read_back.
