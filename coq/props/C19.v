(* C19 — superseded, failed and rolled-back artifacts are reclaimed. *)
From UV Require Import Base Codec Model PMLemmas Inv Ban Handout Calls Frame Frames2 Frames3 Frames4.

Theorem C19_after_success :
  forall (c : cfg) (d : disk) (b : meta) (k : N),
    cb (load_p (norm c d)) = Some b -> N.lt k (m_num b) ->
    arts (fst (cs_success c d)) k <> None -> numeq (nb (load_p (fst (cs_success c d)))) k = true.
Proof. exact success_reclaims. Qed.
Print Assumptions C19_after_success.

Theorem C19_failed :
  forall sha sigok (c : cfg) (d : disk) (b : meta),
    cb (load_p (norm c d)) = Some b -> arts (fst (cs_failure sha sigok c d)) (m_num b) = None.
Proof. exact failure_reclaims. Qed.
Print Assumptions C19_failed.

Theorem C19_crash_detected :
  forall sha sigok (c : cfg) (d : disk) (b : meta),
    cb (load_p (norm c d)) = Some b -> arts (cs_init_recover sha sigok c d) (m_num b) = None.
Proof. exact crash_detection_reclaims. Qed.
Print Assumptions C19_crash_detected.

Theorem C19_rolled_back :
  forall sha sigok (c : cfg) (d : disk) (l : list N) (x : N),
    In x l -> arts (cs_rollback sha sigok c d l) x = None.
Proof. intros sha sigok c d l x H. exact (proj1 (cs_rollback_makes_goneD sha sigok c d l x H)). Qed.
Print Assumptions C19_rolled_back.

(* a never-booted pending patch replaced by another install while an earlier patch is last good is
   removed at that install, and the last good patch's artifact is untouched *)
Theorem C19_superseded :
  forall (c : cfg) (d : disk) (p : patch) (out : bytes) (x l : meta),
    stable (c_rel c) d -> ~ In (p_num p) (bad (load_p d)) ->
    nb (load_p d) = Some x -> lb (load_p d) = Some l ->
    m_num l <> m_num x -> m_num x <> p_num p -> numeq (cb (load_p d)) (m_num x) = false ->
    arts (fst (cs_install c d p out)) (m_num x) = None /\
    arts (fst (cs_install c d p out)) (m_num l) =
      (if N.eqb (m_num l) (p_num p) then Some (AFile out) else arts d (m_num l)).
Proof. exact install_reclaims_superseded. Qed.
Print Assumptions C19_superseded.

Theorem C19_release_change :
  forall (c : cfg) (d : disk) (k : N), other_release (c_rel c) d -> arts (norm c d) k = None.
Proof. exact release_change_reclaims. Qed.
Print Assumptions C19_release_change.
