(* C14 — repeated initialisation is inert. *)
From UV Require Import Base Codec Model PMLemmas Inv Ban Handout Calls.

(* the whole world — disk included, booting record included — is unchanged; the call reports failure *)
Theorem C14_init_inert :
  forall sha sigok zdec base (w : world) (c : cfg) (relv : string) (y : yaml_in) (p : bool),
    w_cfg w = Some c -> step sha sigok zdec base w (OInit relv y p) = (w, RBool false, []).
Proof. exact init_inert. Qed.
Print Assumptions C14_init_inert.

(* the configuration in use never changes while the process lives *)
Theorem C14_cfg_preserved :
  forall sha sigok zdec base (w : world) (o : op) (c : cfg),
    w_cfg w = Some c -> o <> OKill -> w_cfg (fst (fst (step sha sigok zdec base w o))) = Some c.
Proof. exact cfg_preserved. Qed.
Print Assumptions C14_cfg_preserved.
