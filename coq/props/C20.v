(* C20 — requests identify exactly this app, release and the selected channel. *)
From UV Require Import Base Codec Model PMLemmas Inv Ban Handout Calls.

Theorem C20_request :
  forall sha sigok zdec base (w : world) (o : op) (c : cfg) (q : request),
    w_cfg w = Some c -> In (NCheck q) (snd (step sha sigok zdec base w o)) ->
    exists ch, chan_of o = Some ch /\
               q = {| q_app := c_app c;
                      q_chan := match ch with Some x => x | None => c_chan c end;
                      q_rel := c_rel c |}.
Proof. exact request_formula. Qed.
Print Assumptions C20_request.

Theorem C20_config_from_init :
  forall (relv app : string) (chan key : option string) (auto : option bool) (c : cfg),
    cfg_of relv (YOk app chan key auto) = Some c ->
    c_app c = app /\ c_rel c = relv /\ c_key c = key /\
    c_chan c = match chan with Some x => x | None => "stable"%string end.
Proof. exact cfg_channel. Qed.
Print Assumptions C20_config_from_init.

(* a channel passed to one call never leaks into later calls *)
Theorem C20_no_leak :
  forall sha sigok zdec base (c : cfg) (ops : list op) (w : world),
    w_cfg w = Some c -> ~ In OKill ops -> all_requests_ok sha sigok zdec base c w ops.
Proof. exact requests_never_leak. Qed.
Print Assumptions C20_no_leak.

(* tie to the current sources (gen/Consts.v is regenerated from /repo on every run): the default
   channel, the request's fields (as a set: listed in alphabetical order) and where each one is taken from *)
From UVG Require Import Consts.
Theorem C20_constants_from_source :
  default_channel = gen_default_channel /\
  gen_request_fields = ["app_id"; "arch"; "channel"; "platform"; "release_version"]%string /\
  gen_request_sources =
    [("app_id", "config.app_id"); ("arch", "current_arch"); ("channel", "config.channel");
     ("platform", "current_platform"); ("release_version", "config.release_version")]%string /\
  gen_check_url_suffix = "/api/v1/patches/check"%string.
Proof. repeat split; reflexivity. Qed.
Print Assumptions C20_constants_from_source.
