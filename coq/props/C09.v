(* C09 — an installed patch stays selected until something happens to that patch. *)
From UV Require Import Base Codec Model PMLemmas Inv Ban Handout Calls Frame Frames2 Frames3 Frames4.

(* after "installed", the offered number is the stored selection and (when the served signature
   verifies, or no key is configured) the very next query reports it *)
Theorem C09_install_selects :
  forall sha sigok zdec base (c : cfg) (d : disk) ch r dl d' log,
    stable (c_rel c) d ->
    do_update sha sigok zdec base c d ch r dl = (d', UInstalled, log) ->
    exists rs p bdl out,
      r = Some rs /\ r_patch rs = Some p /\ dl = Some bdl /\ inflate zdec base bdl = Some out /\
      nb (load_p d') = Some (new_meta p out) /\
      (sig_verifies sha sigok c p out -> cs_next sha sigok c d' = (d', Some (p_num p))).
Proof. exact install_selects. Qed.
Print Assumptions C09_install_selects.

(* one call: a selected patch with an intact artifact stays selected, artifact intact, through
   every call that is not: a failed/crashed boot of it, a rollback naming it, an update that
   installs, or damage to it (nb_undisturbed, theories/Frames3.v) *)
Theorem C09_selection_frame :
  forall sha sigok zdec base (r : string) (key : option string) (w : world) (o : op) (m : meta),
    within r w o -> keyed key w o -> stable r (w_disk w) ->
    SelD sha sigok SNB key (w_disk w) m -> nb_undisturbed sha sigok zdec base m w o ->
    SelD sha sigok SNB key (w_disk (stepw sha sigok zdec base w o)) m.
Proof. exact NB_frame. Qed.
Print Assumptions C09_selection_frame.

(* every history: restarts, reports for other patches, checks, rollbacks of other numbers, failed
   and no-op updates, second inits ... *)
Theorem C09_selection_persists :
  forall sha sigok zdec base (r : string) (key : option string) (m : meta) (ops : list op) (w : world),
    InRel r w -> SelD sha sigok SNB key (w_disk w) m ->
    along sha sigok zdec base
      (fun w o => within r w o /\ keyed key w o /\ nb_undisturbed sha sigok zdec base m w o) w ops ->
    SelD sha sigok SNB key (w_disk (final sha sigok zdec base w ops)) m.
Proof. exact selection_persists. Qed.
Print Assumptions C09_selection_persists.

(* ... and in such a state every query reports it, leaving the disk untouched *)
Theorem C09_selected_is_reported :
  forall sha sigok (c : cfg) (d : disk) (m : meta),
    stable (c_rel c) d -> SelD sha sigok SNB (c_key c) d m ->
    cs_next sha sigok c d = (d, Some (m_num m)).
Proof. exact selected_is_reported. Qed.
Print Assumptions C09_selected_is_reported.

(* offering the selected number again answers "no update" without any download *)
Theorem C09_already_installed :
  forall sha sigok zdec base (c : cfg) (d : disk) ch (rs : resp) (p : patch) dl (m : meta),
    stable (c_rel c) d -> SelD sha sigok SNB (c_key c) d m -> ~ In (m_num m) (bad (load_p d)) ->
    r_avail rs = true -> r_patch rs = Some p -> p_num p = m_num m -> not_listed (m_num m) rs ->
    snd (fst (do_update sha sigok zdec base c d ch (Some rs) dl)) = UNoUpdate /\
    no_download (snd (do_update sha sigok zdec base c d ch (Some rs) dl)) /\
    SelD sha sigok SNB (c_key c) (fst (fst (do_update sha sigok zdec base c d ch (Some rs) dl))) m.
Proof. exact already_installed. Qed.
Print Assumptions C09_already_installed.

(* ---------- the same, read off the abstract machine (theories/Spec.v, SpecProps.v) ----------
   These are statements about Spec.v alone; C03_calls_refine_the_abstract_machine (props/C03.v) carries them to the
   model's calls.  They double as a review of the one-page spec. *)
From UV Require Import Spec SpecProps.

(* C09: an install selects the new patch; falling back from (rolling back, failing) ANOTHER number keeps the selection;
   without outside damage the selection always has its artifact, so a query answers it and changes nothing *)
Theorem C09_abstract_install_selects : forall a n, a_sel (a_install a n) = Some n.
Proof. exact install_selects. Qed.
Print Assumptions C09_abstract_install_selects.
Theorem C09_abstract_other_number_keeps_selection :
  forall a x n, a_sel a = Some n -> x <> n -> a_sel (a_fall_back a x) = Some n.
Proof. exact fall_back_other_keeps_selection. Qed.
Print Assumptions C09_abstract_other_number_keeps_selection.
Theorem C09_abstract_query_is_the_selection : forall a, A_sel_has a -> a_query a = (a, a_sel a).
Proof. exact query_is_the_selection. Qed.
Print Assumptions C09_abstract_query_is_the_selection.
Theorem C09_abstract_selection_has_artifact_invariant :
  forall a, A_sel_has a ->
    (forall x, A_sel_has (a_fall_back a x)) /\ (forall l, A_sel_has (a_rollback a l)) /\ A_sel_has (a_start a) /\
    A_sel_has (a_success a) /\ A_sel_has (a_failure a) /\ (forall n, A_sel_has (a_install a n)).
Proof.
  intros a H.
  exact (conj (fun x => A_sel_has_fall_back a x H) (conj (fun l => A_sel_has_rollback l a H)
        (conj (A_sel_has_start a H) (conj (A_sel_has_success a H) (conj (A_sel_has_failure a H)
        (fun n => A_sel_has_install a n)))))).
Qed.
Print Assumptions C09_abstract_selection_has_artifact_invariant.

(* C02 on the abstract machine: a banned number is neither selected, nor last good, nor booting - an invariant of
   every transition (an install only happens for a number that is not banned) *)
Theorem C09_abstract_ban_invariant :
  forall a, A_ban a ->
    (forall x, A_ban (a_fall_back a x)) /\ (forall l, A_ban (a_rollback a l)) /\ A_ban (fst (a_query a)) /\
    A_ban (a_start a) /\ A_ban (a_success a) /\ A_ban (a_failure a) /\
    (forall n, ~ In n (a_ban a) -> A_ban (a_install a n)).
Proof.
  intros a H.
  exact (conj (fun x => A_ban_fall_back a x H) (conj (fun l => A_ban_rollback l a H) (conj (A_ban_query a H)
        (conj (A_ban_start a H) (conj (A_ban_success a H) (conj (A_ban_failure a H)
        (fun n Hn => A_ban_install a n H Hn))))))).
Qed.
Print Assumptions C09_abstract_ban_invariant.

(* C10 / C03: falling back from x removes x (not selected, artifact gone) and, if x was the selection, selects the last
   good patch when that is another number with its artifact, nothing otherwise *)
Theorem C09_abstract_fall_back_removes :
  forall a x, a_sel (a_fall_back a x) <> Some x /\ a_has (a_fall_back a x) x = false.
Proof. exact fall_back_removes. Qed.
Print Assumptions C09_abstract_fall_back_removes.
Theorem C09_abstract_fall_back_target :
  forall a x, a_sel a = Some x ->
    a_sel (a_fall_back a x) =
    match a_good a with Some g => if negb (N.eqb g x) && a_has a g then Some g else None | None => None end.
Proof. exact fall_back_target. Qed.
Print Assumptions C09_abstract_fall_back_target.

(* C18: launch start makes the handed-out patch current, success keeps it, a fall back from any number leaves what is
   running alone *)
Theorem C09_abstract_current :
  (forall a n, A_sel_has a -> a_sel a = Some n -> SpecProps.a_current (a_start a) = Some n) /\
  (forall a b, a_boot a = Some b -> SpecProps.a_current (a_success a) = Some b) /\
  (forall a x, a_boot (a_fall_back a x) = a_boot a).
Proof. exact (conj start_sets_current (conj success_keeps_current fall_back_keeps_boot)). Qed.
Print Assumptions C09_abstract_current.
