(* C09 — an installed patch stays selected until something happens to that patch. *)
From UV Require Import Base Codec Model PMLemmas Inv Ban Handout Calls Frame Frames2 Frames3 Frames4.

(* after "installed", the offered number is the stored selection and (when the served signature
   verifies, or no key is configured) the very next query reports it *)
Theorem C09_install_selects :
  forall sha sigok zdec base (c : cfg) (d : disk) ch r dl d' log,
    stable (c_rel c) d ->
    do_update sha sigok zdec base c d ch r dl = (d', UInstalled, log) ->
    exists rs p bdl out,
      r = Some rs /\ r_patch rs = Some p /\ dl = Some bdl /\ inflate zdec base bdl = Some out /\
      nb (load_p d') = Some (new_meta p out) /\
      (sig_verifies sha sigok c p out -> cs_next sha sigok c d' = (d', Some (p_num p))).
Proof. exact install_selects. Qed.
Print Assumptions C09_install_selects.

(* one call: a selected patch with an intact artifact stays selected, artifact intact, through
   every call that is not: a failed/crashed boot of it, a rollback naming it, an update that
   installs, or damage to it (nb_undisturbed, theories/Frames3.v) *)
Theorem C09_selection_frame :
  forall sha sigok zdec base (r : string) (key : option string) (w : world) (o : op) (m : meta),
    within r w o -> keyed key w o -> stable r (w_disk w) ->
    SelD sha sigok SNB key (w_disk w) m -> nb_undisturbed sha sigok zdec base m w o ->
    SelD sha sigok SNB key (w_disk (stepw sha sigok zdec base w o)) m.
Proof. exact NB_frame. Qed.
Print Assumptions C09_selection_frame.

(* every history: restarts, reports for other patches, checks, rollbacks of other numbers, failed
   and no-op updates, second inits ... *)
Theorem C09_selection_persists :
  forall sha sigok zdec base (r : string) (key : option string) (m : meta) (ops : list op) (w : world),
    InRel r w -> SelD sha sigok SNB key (w_disk w) m ->
    along sha sigok zdec base
      (fun w o => within r w o /\ keyed key w o /\ nb_undisturbed sha sigok zdec base m w o) w ops ->
    SelD sha sigok SNB key (w_disk (final sha sigok zdec base w ops)) m.
Proof. exact selection_persists. Qed.
Print Assumptions C09_selection_persists.

(* ... and in such a state every query reports it, leaving the disk untouched *)
Theorem C09_selected_is_reported :
  forall sha sigok (c : cfg) (d : disk) (m : meta),
    stable (c_rel c) d -> SelD sha sigok SNB (c_key c) d m ->
    cs_next sha sigok c d = (d, Some (m_num m)).
Proof. exact selected_is_reported. Qed.
Print Assumptions C09_selected_is_reported.

(* offering the selected number again answers "no update" without any download *)
Theorem C09_already_installed :
  forall sha sigok zdec base (c : cfg) (d : disk) ch (rs : resp) (p : patch) dl (m : meta),
    stable (c_rel c) d -> SelD sha sigok SNB (c_key c) d m -> ~ In (m_num m) (bad (load_p d)) ->
    r_avail rs = true -> r_patch rs = Some p -> p_num p = m_num m -> not_listed (m_num m) rs ->
    snd (fst (do_update sha sigok zdec base c d ch (Some rs) dl)) = UNoUpdate /\
    no_download (snd (do_update sha sigok zdec base c d ch (Some rs) dl)) /\
    SelD sha sigok SNB (c_key c) (fst (fst (do_update sha sigok zdec base c d ch (Some rs) dl))) m.
Proof. exact already_installed. Qed.
Print Assumptions C09_already_installed.
