(* C02 — a patch that failed to boot is never booted or installed again. *)
From UV Require Import Base Codec Model PMLemmas Inv Ban Handout.

(* I-ban is preserved by every call from every world; only outside damage to patches_state.json
   could break it. *)
Theorem C02_ban_invariant :
  forall sha sigok zdec base (w : world) (o : op),
    ~ pj_damage o -> IbanD (w_disk w) ->
    IbanD (w_disk (fst (fst (step sha sigok zdec base w o)))).
Proof. exact step_IbanD. Qed.
Print Assumptions C02_ban_invariant.

(* Within a release and without state-file damage the ban list only grows, across restarts. *)
Theorem C02_ban_monotone :
  forall sha sigok zdec base (r : string) (w : world) (o : op),
    within r w o -> stable r (w_disk w) ->
    BM r (w_disk w) (w_disk (fst (fst (step sha sigok zdec base w o)))) /\
    (forall c, w_cfg (fst (fst (step sha sigok zdec base w o))) = Some c -> c_rel c = r).
Proof. exact step_BM. Qed.
Print Assumptions C02_ban_monotone.

(* A reported failure and a crash detected at init both ban the booting patch. *)
Theorem C02_failure_bans :
  forall sha sigok (c : cfg) (d : disk) (m : meta),
    cb (load_p (norm c d)) = Some m ->
    In (m_num m) (bad (load_p (fst (cs_failure sha sigok c d)))).
Proof. exact failure_bans. Qed.
Print Assumptions C02_failure_bans.

Theorem C02_crash_detection_bans :
  forall sha sigok (c : cfg) (d : disk) (m : meta),
    cb (load_p (norm c d)) = Some m ->
    In (m_num m) (bad (load_p (cs_init_recover sha sigok c d))).
Proof. exact crash_detection_bans. Qed.
Print Assumptions C02_crash_detection_bans.

(* An update offered a banned number answers "bad patch", downloads nothing, keeps the ban. *)
Theorem C02_update_offer_of_banned :
  forall sha sigok zdec base (c : cfg) (d : disk) ch (rs : resp) (p : patch) dl,
    stable (c_rel c) d -> In (p_num p) (bad (load_p d)) ->
    r_avail rs = true -> r_patch rs = Some p ->
    let '(d', st, log) := do_update sha sigok zdec base c d ch (Some rs) dl in
    st = UBadPatch /\ no_download log /\ In (p_num p) (bad (load_p d')).
Proof. exact update_offer_of_banned. Qed.
Print Assumptions C02_update_offer_of_banned.

Theorem C02_check_offer_of_banned :
  forall sha sigok (c : cfg) (d : disk) ch (rs : resp) (p : patch),
    stable (c_rel c) d -> In (p_num p) (bad (load_p d)) -> r_patch rs = Some p ->
    snd (fst (do_check sha sigok c d ch (Some rs))) = false.
Proof. exact check_offer_of_banned. Qed.
Print Assumptions C02_check_offer_of_banned.

(* For every history within the release (any calls, any restarts, any artifact damage, no state-file
   damage): once n is banned, no call ever reports n, downloads n or installs n again. *)
Theorem C02_banned_forever :
  forall sha sigok zdec base (r : string) (n : N) (ops : list op) (w : world),
    Banned r n w -> all_within sha sigok zdec base r w ops ->
    all_respect sha sigok zdec base n w ops.
Proof. exact banned_forever. Qed.
Print Assumptions C02_banned_forever.

(* non-vacuity: a reachable banned world *)
Definition ex_sha (b : bytes) : bytes := b.
Definition ex_sigok (_ _ _ : string) : bool := true.
Definition ex_cfg : cfg := {| c_app := "a"; c_rel := "1"; c_chan := "stable"; c_key := None; c_auto := true |}.
Definition ex_meta : meta := {| m_num := 7; m_size := 2; m_hash := "h"; m_sig := None |}.
Definition ex_disk : disk :=
  {| sj := JOk {| rel := "1"; evq := [] |};
     pj := JOk {| lb := None; nb := Some ex_meta; cb := Some ex_meta; bad := [] |};
     arts := fun k => if N.eqb k 7 then Some (AFile [1; 2]) else None; junk := false |}.
Definition ex_w := fst (fst (step ex_sha ex_sigok ex_sha [] {| w_disk := ex_disk; w_cfg := Some ex_cfg |} OFailure)).
Example C02_nonvacuous : Banned "1" 7 ex_w.
Proof.
  unfold Banned. split; [eexists; split; vm_compute; reflexivity|].
  split; [|split; [vm_compute; auto|]].
  - intros k Hk. vm_compute in Hk. destruct Hk as [<-|[]]. vm_compute. auto.
  - intros c E. vm_compute in E. injection E as <-. reflexivity.
Qed.
