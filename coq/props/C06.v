(* C06 — network failure or malformed traffic never harms what is installed (logic half; the
   transport half is exercised by the harness, see DESIGN.md). *)
From UV Require Import Base Codec Model PMLemmas Inv Ban Handout Calls.

Theorem C06_check_failure_frame :
  forall sha sigok zdec base (c : cfg) (d : disk) ch dl,
    do_update sha sigok zdec base c d ch None dl =
    (cs_clear_events c (norm c d), UError,
     map NEvent (firstn 3 (evq (load_s c (norm c d)))) ++ [NCheck (mk_request c ch)]).
Proof. exact check_failure_frame. Qed.
Print Assumptions C06_check_failure_frame.

Theorem C06_contradictory_response_frame :
  forall sha sigok zdec base (c : cfg) (d : disk) ch (rs : resp) dl,
    r_avail rs = true -> r_patch rs = None ->
    fst (do_update sha sigok zdec base c d ch (Some rs) dl) = (after_rollbacks sha sigok c d rs, UError).
Proof. exact contradictory_response_frame. Qed.
Print Assumptions C06_contradictory_response_frame.

Theorem C06_download_failure_frame :
  forall sha sigok zdec base (c : cfg) (d : disk) ch (rs : resp) (p : patch),
    r_avail rs = true -> r_patch rs = Some p ->
    fst (fst (do_update sha sigok zdec base c d ch (Some rs) None)) =
      fst (should_install sha sigok c (after_rollbacks sha sigok c d rs) (p_num p)) /\
    snd (fst (do_update sha sigok zdec base c d ch (Some rs) None)) <> UInstalled.
Proof. exact download_failure_frame. Qed.
Print Assumptions C06_download_failure_frame.

Theorem C06_failed_update_unchanged :
  forall sha sigok zdec base (c : cfg) (d : disk) ch (rs : resp) dl,
    stable (c_rel c) d -> settled sha sigok (c_key c) d -> r_rb rs = None ->
    snd (fst (do_update sha sigok zdec base c d ch (Some rs) dl)) <> UInstalled ->
    let d' := fst (fst (do_update sha sigok zdec base c d ch (Some rs) dl)) in
    load_p d' = load_p d /\ arts d' = arts d.
Proof. exact failed_update_unchanged. Qed.
Print Assumptions C06_failed_update_unchanged.

Theorem C06_then_healthy_installs :
  forall sha sigok zdec base (c : cfg) (d : disk) ch (rs : resp) (p : patch) bdl out,
    stable (c_rel c) d -> settled sha sigok (c_key c) d ->
    r_rb rs = None -> r_avail rs = true -> r_patch rs = Some p ->
    ~ In (p_num p) (bad (load_p d)) -> onum (nb (load_p d)) <> Some (p_num p) ->
    inflate zdec base bdl = Some out -> hash_ok sha out (p_hash p) = true ->
    snd (fst (do_update sha sigok zdec base c d ch (Some rs) (Some bdl))) = UInstalled.
Proof. exact healthy_update_installs. Qed.
Print Assumptions C06_then_healthy_installs.

(* ---------- what the library reads from a response body (Json.v: serde's derived Deserialize for
   PatchCheckResponse / Patch over the body's JSON tree) ---------- *)
From UV Require Import Json JsonProofs.

(* the request as the updater sees it: no answer, an answer whose body is not JSON ([None] tree), or a tree *)
Definition response_read (body : option (option json)) : option resp :=
  match body with
  | Some (Some j) => resp_of_json j
  | _ => None
  end.

(* every body the library cannot read as a response — not an object/array, a required field missing, a
   wrong type anywhere in a known field, a number that is not a usize, a known field given twice — is a
   failed patch check: error status, no download, nothing changed but the flushed event queue *)
Theorem C06_unreadable_body_is_failed_check :
  forall sha sigok zdec base (c : cfg) (d : disk) ch dl (body : option (option json)),
    response_read body = None ->
    do_update sha sigok zdec base c d ch (response_read body) dl =
    (cs_clear_events c (norm c d), UError,
     map NEvent (firstn 3 (evq (load_s c (norm c d)))) ++ [NCheck (mk_request c ch)]).
Proof. intros. rewrite H. apply check_failure_frame. Qed.
Print Assumptions C06_unreadable_body_is_failed_check.

Theorem C06_body_missing_required_field :
  forall l, (forall v, ~ In ("patch_available"%string, v) l) -> resp_of_json (JObj l) = None.
Proof. exact missing_patch_available_rejected. Qed.
Print Assumptions C06_body_missing_required_field.

Theorem C06_body_duplicate_field :
  forall l1 k v1 l2 v2 l3, known k = true ->
    resp_of_json (JObj (l1 ++ (k, v1) :: l2 ++ (k, v2) :: l3)) = None.
Proof. exact duplicate_field_rejected. Qed.
Print Assumptions C06_body_duplicate_field.

Theorem C06_body_unknown_field_ignored :
  forall l1 k v l2, known k = false ->
    resp_of_json (JObj (l1 ++ (k, v) :: l2)) = resp_of_json (JObj (l1 ++ l2)).
Proof. exact unknown_field_ignored. Qed.
Print Assumptions C06_body_unknown_field_ignored.

Theorem C06_body_patch_numbers_are_usize :
  forall j n, as_usize j = Some n <-> j = JNum (JInt false n) /\ n < two64.
Proof. exact usize_exactly. Qed.
Print Assumptions C06_body_patch_numbers_are_usize.

(* what a well-behaved server serialises is read back exactly *)
Theorem C06_body_roundtrip :
  forall r, resp_in_range r -> resp_of_json (json_of_resp r) = Some r.
Proof. exact resp_roundtrip. Qed.
Print Assumptions C06_body_roundtrip.

(* non-vacuity: a contradictory body (patch_available without patch) is READ, and rejected later by
   update (C06_contradictory_response_frame); a float patch number is not read at all *)
Example C06_body_examples :
  resp_of_json (JObj [("patch_available"%string, JBool true)]) =
    Some {| r_avail := true; r_patch := None; r_rb := None |} /\
  resp_of_json (JObj [("patch_available"%string, JBool true);
                      ("patch"%string, JObj [("number"%string, JNum JFloat); ("hash"%string, JStr "");
                                             ("download_url"%string, JStr "")])]) = None /\
  resp_of_json (JArr [JBool false; JNull; JArr [JNum (JInt false 3)]]) =
    Some {| r_avail := false; r_patch := None; r_rb := Some [3] |}.
Proof. vm_compute. repeat split. Qed.
