(* C06 — network failure or malformed traffic never harms what is installed (logic half; the
   transport half is exercised by the harness, see DESIGN.md). *)
From UV Require Import Base Codec Model PMLemmas Inv Ban Handout Calls.

Theorem C06_check_failure_frame :
  forall sha sigok zdec base (c : cfg) (d : disk) ch dl,
    do_update sha sigok zdec base c d ch None dl =
    (cs_clear_events c (norm c d), UError,
     map NEvent (firstn 3 (evq (load_s c (norm c d)))) ++ [NCheck (mk_request c ch)]).
Proof. exact check_failure_frame. Qed.
Print Assumptions C06_check_failure_frame.

Theorem C06_contradictory_response_frame :
  forall sha sigok zdec base (c : cfg) (d : disk) ch (rs : resp) dl,
    r_avail rs = true -> r_patch rs = None ->
    fst (do_update sha sigok zdec base c d ch (Some rs) dl) = (after_rollbacks sha sigok c d rs, UError).
Proof. exact contradictory_response_frame. Qed.
Print Assumptions C06_contradictory_response_frame.

Theorem C06_download_failure_frame :
  forall sha sigok zdec base (c : cfg) (d : disk) ch (rs : resp) (p : patch),
    r_avail rs = true -> r_patch rs = Some p ->
    fst (fst (do_update sha sigok zdec base c d ch (Some rs) None)) =
      fst (should_install sha sigok c (after_rollbacks sha sigok c d rs) (p_num p)) /\
    snd (fst (do_update sha sigok zdec base c d ch (Some rs) None)) <> UInstalled.
Proof. exact download_failure_frame. Qed.
Print Assumptions C06_download_failure_frame.

Theorem C06_failed_update_unchanged :
  forall sha sigok zdec base (c : cfg) (d : disk) ch (rs : resp) dl,
    stable (c_rel c) d -> settled sha sigok (c_key c) d -> r_rb rs = None ->
    snd (fst (do_update sha sigok zdec base c d ch (Some rs) dl)) <> UInstalled ->
    let d' := fst (fst (do_update sha sigok zdec base c d ch (Some rs) dl)) in
    load_p d' = load_p d /\ arts d' = arts d.
Proof. exact failed_update_unchanged. Qed.
Print Assumptions C06_failed_update_unchanged.

Theorem C06_then_healthy_installs :
  forall sha sigok zdec base (c : cfg) (d : disk) ch (rs : resp) (p : patch) bdl out,
    stable (c_rel c) d -> settled sha sigok (c_key c) d ->
    r_rb rs = None -> r_avail rs = true -> r_patch rs = Some p ->
    ~ In (p_num p) (bad (load_p d)) -> onum (nb (load_p d)) <> Some (p_num p) ->
    inflate zdec base bdl = Some out -> hash_ok sha out (p_hash p) = true ->
    snd (fst (do_update sha sigok zdec base c d ch (Some rs) (Some bdl))) = UInstalled.
Proof. exact healthy_update_installs. Qed.
Print Assumptions C06_then_healthy_installs.

(* ---------- what the library reads from a response body (Json.v: serde's derived Deserialize for
   PatchCheckResponse / Patch over the body's JSON tree) ---------- *)
From UV Require Import Json JsonProofs.

(* the request as the updater sees it: no answer, an answer whose body is not JSON ([None] tree), or a tree *)
Definition response_read (body : option (option json)) : option resp :=
  match body with
  | Some (Some j) => resp_of_json j
  | _ => None
  end.

(* every body the library cannot read as a response — not an object/array, a required field missing, a
   wrong type anywhere in a known field, a number that is not a usize, a known field given twice — is a
   failed patch check: error status, no download, nothing changed but the flushed event queue *)
Theorem C06_unreadable_body_is_failed_check :
  forall sha sigok zdec base (c : cfg) (d : disk) ch dl (body : option (option json)),
    response_read body = None ->
    do_update sha sigok zdec base c d ch (response_read body) dl =
    (cs_clear_events c (norm c d), UError,
     map NEvent (firstn 3 (evq (load_s c (norm c d)))) ++ [NCheck (mk_request c ch)]).
Proof. intros. rewrite H. apply check_failure_frame. Qed.
Print Assumptions C06_unreadable_body_is_failed_check.

Theorem C06_body_missing_required_field :
  forall l, (forall v, ~ In ("patch_available"%string, v) l) -> resp_of_json (JObj l) = None.
Proof. exact missing_patch_available_rejected. Qed.
Print Assumptions C06_body_missing_required_field.

Theorem C06_body_duplicate_field :
  forall l1 k v1 l2 v2 l3, known k = true ->
    resp_of_json (JObj (l1 ++ (k, v1) :: l2 ++ (k, v2) :: l3)) = None.
Proof. exact duplicate_field_rejected. Qed.
Print Assumptions C06_body_duplicate_field.

Theorem C06_body_unknown_field_ignored :
  forall l1 k v l2, known k = false ->
    resp_of_json (JObj (l1 ++ (k, v) :: l2)) = resp_of_json (JObj (l1 ++ l2)).
Proof. exact unknown_field_ignored. Qed.
Print Assumptions C06_body_unknown_field_ignored.

Theorem C06_body_patch_numbers_are_usize :
  forall j n, as_usize j = Some n <-> j = JNum (JInt false n) /\ n < two64.
Proof. exact usize_exactly. Qed.
Print Assumptions C06_body_patch_numbers_are_usize.

(* what a well-behaved server serialises is read back exactly *)
Theorem C06_body_roundtrip :
  forall r, resp_in_range r -> resp_of_json (json_of_resp r) = Some r.
Proof. exact resp_roundtrip. Qed.
Print Assumptions C06_body_roundtrip.

(* non-vacuity: a contradictory body (patch_available without patch) is READ, and rejected later by
   update (C06_contradictory_response_frame); a float patch number is not read at all *)
Example C06_body_examples :
  resp_of_json (JObj [("patch_available"%string, JBool true)]) =
    Some {| r_avail := true; r_patch := None; r_rb := None |} /\
  resp_of_json (JObj [("patch_available"%string, JBool true);
                      ("patch"%string, JObj [("number"%string, JNum JFloat); ("hash"%string, JStr "");
                                             ("download_url"%string, JStr "")])]) = None /\
  resp_of_json (JArr [JBool false; JNull; JArr [JNum (JInt false 3)]]) =
    Some {| r_avail := false; r_patch := None; r_rb := Some [3] |}.
Proof. vm_compute. repeat split. Qed.

(* ---------- the text of a response body (JsonText.v) ---------- *)
From UV Require Import Base Codec Model Json JsonProofs JsonText JsonTextProofs JsonTextSound JsonTextExist.

(* the strict reader (serde_json's parse at a typed position) reads EVERY sentence of the JSON grammar - any white
   space, any escape form including surrogate pairs, any digit string - and returns the tree it denotes *)
Theorem C06_text_strict_reader_reads_every_sentence :
  forall t b, G t b -> forall w rest fuel, WS w -> ok_rest rest -> (List.length b < fuel)%nat ->
    parse_value fuel (w ++ b ++ rest) = Some (t, rest).
Proof. exact strict_reader_reads_every_sentence. Qed.
Print Assumptions C06_text_strict_reader_reads_every_sentence.

(* ... and nothing else: a body is accepted by the strict reader exactly when it is white space, one sentence of the
   grammar, white space - anything that is not JSON is rejected *)
Theorem C06_text_strict_reader_language :
  forall l t, parse_json l = Some t <-> exists w b w', WS w /\ G t b /\ WS w' /\ l = w ++ b ++ w'.
Proof. exact parse_json_iff. Qed.
Print Assumptions C06_text_strict_reader_language.

(* the scanner used for the value of an unknown key accepts every sentence of the same grammar with UNCHECKED string
   contents (lone surrogates, ill-formed UTF-8), at any nesting depth *)
Theorem C06_text_scanner_skips_every_sentence :
  forall b, L b -> forall w rest fuel, WS w -> ok_rest rest -> (List.length b < fuel)%nat ->
    ignore_value fuel (w ++ b ++ rest) = Some rest.
Proof. exact scanner_skips_every_sentence. Qed.
Print Assumptions C06_text_scanner_skips_every_sentence.

(* a whole response body: members in any order, white space anywhere, known members read by their type (the patch
   object by its own schema), unknown members holding any lenient sentence: what the library makes of the BYTES is
   what Json.resp_of_json makes of the tree they denote *)
Theorem C06_text_body_is_its_tree :
  forall t b w w', GS resp_schema t b -> WS w -> WS w' -> resp_of_body (w ++ b ++ w') = resp_of_json t.
Proof. exact resp_of_body_complete. Qed.
Print Assumptions C06_text_body_is_its_tree.

(* ... and ONLY those: the library reads a patch-check answer out of a body exactly when the body is white space, a
   sentence of the response schema, white space, and the tree it denotes is one resp_of_json accepts.  Every other
   body - not JSON, JSON with a defect where the struct reads, bytes after the value, a byte-order mark - is a failed
   check (with C06_unreadable_body_is_failed_check: an error status and an untouched state) *)
Theorem C06_text_accepted_bodies_are_exactly_the_schema_sentences :
  forall l r, resp_of_body l = Some r <->
    exists w b w' t, WS w /\ GS resp_schema t b /\ WS w' /\ l = w ++ b ++ w' /\ resp_of_json t = Some r.
Proof. exact resp_of_body_iff. Qed.
Print Assumptions C06_text_accepted_bodies_are_exactly_the_schema_sentences.

(* ... so a well-formed answer is read back exactly, however it is spelled *)
Theorem C06_text_wellformed_answer_read_exactly :
  forall r b w w', resp_in_range r -> GS resp_schema (json_of_resp r) b -> WS w -> WS w' ->
    resp_of_body (w ++ b ++ w') = Some r.
Proof.
  intros r b w w' Hr g Hw Hw'. rewrite (resp_of_body_complete _ _ _ _ g Hw Hw'). apply resp_roundtrip. exact Hr.
Qed.
Print Assumptions C06_text_wellformed_answer_read_exactly.

(* (the grammar is inhabited: every in-range answer whose strings are text HAS a body the library reads as that answer) *)
Theorem C06_text_every_answer_has_a_body :
  forall r, resp_in_range r -> resp_utf8 r -> exists b, resp_of_body b = Some r.
Proof. exact every_answer_has_a_body. Qed.
Print Assumptions C06_text_every_answer_has_a_body.

(* ... and an unknown member, whatever lenient JSON it holds, changes nothing *)
Theorem C06_text_unknown_member_changes_nothing :
  forall l1 k l2 b w w', known k = false -> GS resp_schema (JObj (l1 ++ (k, JNull) :: l2)) b -> WS w -> WS w' ->
    resp_of_body (w ++ b ++ w') = resp_of_json (JObj (l1 ++ l2)).
Proof.
  intros l1 k l2 b w w' Hk g Hw Hw'. rewrite (resp_of_body_complete _ _ _ _ g Hw Hw'). apply unknown_field_ignored. exact Hk.
Qed.
Print Assumptions C06_text_unknown_member_changes_nothing.

(* the places where the two readers differ, and a few non-sentences, evaluated (tests of the definitions, not theorems
   about all inputs): lone surrogate / ill-formed UTF-8 under an unknown key are fine, under a known key or in a key of
   the struct they are errors; trailing bytes, a byte-order mark, a trailing comma are errors *)
Definition bs (s : string) : bytes := map N_of_ascii (list_ascii_of_string s).
Example C06_text_examples :
  resp_of_body (bs "{""patch_available"":false,""x"":""\ud800""}") = Some {| r_avail := false; r_patch := None; r_rb := None |} /\
  resp_of_body (bs "{""patch_available"":false,""x"":[[[{""k"":""" ++ [255] ++ bs """}]]]}") = Some {| r_avail := false; r_patch := None; r_rb := None |} /\
  resp_of_body (bs "{""patch_available"":false,""\ud800"":1}") = None /\
  resp_of_body (bs "{""patch_available"":true,""patch"":{""number"":2,""hash"":""\ud800"",""download_url"":""u""}}") = None /\
  resp_of_body (bs " { ""patch"" : { ""download_url"":""u"", ""hash"" : ""a😀"" , ""number"" : 2 } , ""patch_available"" : true } ")
    = Some {| r_avail := true; r_patch := Some {| p_num := 2; p_hash := str_of (97 :: utf8_enc 128512); p_url := "u"; p_sig := None |}; r_rb := None |} /\
  resp_of_body (bs "{""patch_available"":false} x") = None /\
  resp_of_body ([239; 187; 191] ++ bs "{""patch_available"":false}") = None /\
  resp_of_body (bs "{""patch_available"":false,}") = None /\
  resp_of_body (bs "{""patch_available"":false,""rolled_back_patch_numbers"":[1,02]}") = None /\
  resp_of_body [] = None.
Proof. vm_compute. repeat split. Qed.

(* a body cut short anywhere - the connection closed early, a Content-Length that lies - is a failed check: no strict
   prefix of an accepted object body is accepted *)
From UV Require Import JsonTorn.
Theorem C06_text_truncated_body_is_rejected :
  forall (P p r : bytes) a,
    resp_of_body P = Some a -> P = (p ++ r)%list -> r <> [] ->
    (exists x, skip_ws P = (123 :: x)%N) -> (exists y, P = (y ++ [125%N])%list) ->
    resp_of_body p = None.
Proof. exact truncated_body_is_rejected. Qed.
Print Assumptions C06_text_truncated_body_is_rejected.
