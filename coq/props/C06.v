(* C06 — network failure or malformed traffic never harms what is installed (logic half; the
   transport half is exercised by the harness, see DESIGN.md). *)
From UV Require Import Base Codec Model PMLemmas Inv Ban Handout Calls.

Theorem C06_check_failure_frame :
  forall sha sigok zdec base (c : cfg) (d : disk) ch dl,
    do_update sha sigok zdec base c d ch None dl =
    (cs_clear_events c (norm c d), UError,
     map NEvent (firstn 3 (evq (load_s c (norm c d)))) ++ [NCheck (mk_request c ch)]).
Proof. exact check_failure_frame. Qed.
Print Assumptions C06_check_failure_frame.

Theorem C06_contradictory_response_frame :
  forall sha sigok zdec base (c : cfg) (d : disk) ch (rs : resp) dl,
    r_avail rs = true -> r_patch rs = None ->
    fst (do_update sha sigok zdec base c d ch (Some rs) dl) = (after_rollbacks sha sigok c d rs, UError).
Proof. exact contradictory_response_frame. Qed.
Print Assumptions C06_contradictory_response_frame.

Theorem C06_download_failure_frame :
  forall sha sigok zdec base (c : cfg) (d : disk) ch (rs : resp) (p : patch),
    r_avail rs = true -> r_patch rs = Some p ->
    fst (fst (do_update sha sigok zdec base c d ch (Some rs) None)) =
      fst (should_install sha sigok c (after_rollbacks sha sigok c d rs) (p_num p)) /\
    snd (fst (do_update sha sigok zdec base c d ch (Some rs) None)) <> UInstalled.
Proof. exact download_failure_frame. Qed.
Print Assumptions C06_download_failure_frame.

Theorem C06_failed_update_unchanged :
  forall sha sigok zdec base (c : cfg) (d : disk) ch (rs : resp) dl,
    stable (c_rel c) d -> settled sha sigok (c_key c) d -> r_rb rs = None ->
    snd (fst (do_update sha sigok zdec base c d ch (Some rs) dl)) <> UInstalled ->
    let d' := fst (fst (do_update sha sigok zdec base c d ch (Some rs) dl)) in
    load_p d' = load_p d /\ arts d' = arts d.
Proof. exact failed_update_unchanged. Qed.
Print Assumptions C06_failed_update_unchanged.

Theorem C06_then_healthy_installs :
  forall sha sigok zdec base (c : cfg) (d : disk) ch (rs : resp) (p : patch) bdl out,
    stable (c_rel c) d -> settled sha sigok (c_key c) d ->
    r_rb rs = None -> r_avail rs = true -> r_patch rs = Some p ->
    ~ In (p_num p) (bad (load_p d)) -> onum (nb (load_p d)) <> Some (p_num p) ->
    inflate zdec base bdl = Some out -> hash_ok sha out (p_hash p) = true ->
    snd (fst (do_update sha sigok zdec base c d ch (Some rs) (Some bdl))) = UInstalled.
Proof. exact healthy_update_installs. Qed.
Print Assumptions C06_then_healthy_installs.
