(* C18 — the reported current patch tracks what is actually running. *)
From UV Require Import Base Codec Model PMLemmas Inv Ban Handout Calls Frame Frames2 Frames3 Frames4.

(* launch start turns the validated selection into the booting record *)
Theorem C18_start_sets_current :
  forall sha sigok (c : cfg) (d : disk) (m : meta),
    stable (c_rel c) d -> SelD sha sigok SNB (c_key c) d m ->
    Current sha sigok (c_key c) (cs_start sha sigok c d) m.
Proof. intros. left. apply cs_start_sets_CB; auto. Qed.
Print Assumptions C18_start_sets_current.

(* while it is "current" the current-patch query reports it *)
Theorem C18_current_reported :
  forall sha sigok (c : cfg) (d : disk) (m : meta),
    stable (c_rel c) d -> Current sha sigok (c_key c) d m -> snd (cs_current c d) = Some (m_num m).
Proof. exact current_reported. Qed.
Print Assumptions C18_current_reported.

(* and it stays current through success reports, queries, checks, installs and rollbacks of other
   patches: everything except a second launch start, a failure report, a new process, a rollback
   naming it or damage to it (cur_undisturbed, Frames4.v) *)
Theorem C18_current_frame :
  forall sha sigok zdec base (r : string) (key : option string) (w : world) (o : op) (m : meta),
    within r w o -> keyed key w o -> stable r (w_disk w) ->
    Current sha sigok key (w_disk w) m -> cur_undisturbed zdec base m w o ->
    Current sha sigok key (w_disk (stepw sha sigok zdec base w o)) m.
Proof. exact Current_frame. Qed.
Print Assumptions C18_current_frame.

Theorem C18_current_persists :
  forall sha sigok zdec base (r : string) (key : option string) (m : meta) (ops : list op) (w : world),
    InRel r w -> Current sha sigok key (w_disk w) m ->
    along sha sigok zdec base
      (fun w o => within r w o /\ keyed key w o /\ cur_undisturbed zdec base m w o) w ops ->
    Current sha sigok key (w_disk (final sha sigok zdec base w ops)) m.
Proof. exact current_persists. Qed.
Print Assumptions C18_current_persists.

(* "restart required" is not raised spuriously: with no install in between, next = current (C09) *)
Theorem C18_no_spurious_restart_required :
  forall sha sigok zdec base (r : string) (key : option string) (m : meta) (ops : list op) (w : world),
    InRel r w -> SelD sha sigok SNB key (w_disk w) m ->
    along sha sigok zdec base
      (fun w o => within r w o /\ keyed key w o /\ nb_undisturbed sha sigok zdec base m w o) w ops ->
    SelD sha sigok SNB key (w_disk (final sha sigok zdec base w ops)) m.
Proof. exact selection_persists. Qed.
Print Assumptions C18_no_spurious_restart_required.

(* after a restart, before the next launch start, current = last good *)
Theorem C18_after_restart :
  forall (c : cfg) (d : disk),
    cbD (norm c d) = None -> snd (cs_current c d) = onum (lb (load_p (norm c d))).
Proof. exact current_after_restart. Qed.
Print Assumptions C18_after_restart.

(* 'restart required' is derived in the Dart layer (shorebird_updater_io.dart) from the two numbers the
   library reports; the source text of that derivation is regenerated from the Dart file on every run
   (gen/AbiTables.v): in both places it is "a next patch exists and its number differs from the current
   one", and a reported number is a patch exactly when it is positive (0 = none, as the C API promises).
   With C18_no_spurious_restart_required and C09_install_selects this is the sentence "becomes true
   exactly when a different patch has been installed for the next launch". *)
From UVG Require Import AbiTables.
Theorem C18_dart_restart_required_formula :
  dart_restart_required_exprs =
    ["next != null && current?.number != next.number"%string;
     "next != null && current?.number != next.number"%string] /\
  dart_patch_of_number_exprs = ["patchNumber > 0 ? Patch(number: patchNumber) : null"%string].
Proof. split; reflexivity. Qed.
Print Assumptions C18_dart_restart_required_formula.

(* the same formula over the model's outputs: with next = n and current = c as reported numbers *)
Definition restart_required (cur next : N) : bool := negb (N.eqb next 0) && negb (N.eqb cur next).
Theorem C18_restart_required_iff_different_selection :
  forall cur next, restart_required cur next = true <-> next <> 0 /\ cur <> next.
Proof.
  intros cur next. unfold restart_required. rewrite Bool.andb_true_iff, !Bool.negb_true_iff, !N.eqb_neq. tauto.
Qed.
Print Assumptions C18_restart_required_iff_different_selection.
