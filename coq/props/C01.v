(* C01 — only an intact, verified patch is ever handed out for boot.  Statements only; proofs are
   in theories/Handout.v.  No hypothesis on the world: any disk content (damage included). *)
From UV Require Import Base Codec Model PMLemmas Inv Ban Handout Frame Frames2 Prov.

(* Whatever a query reports (number or path), from ANY world: the reported number is the stored
   selection, its artifact file exists with exactly the recorded size and, under a signing key,
   carries a signature that verifies over the hash of the file's current bytes. *)
Theorem C01_handout :
  forall sha sigok zdec base (w : world) (o : op) (w' : world) (x : out) (log : list netobs) (n : N),
    step sha sigok zdec base w o = (w', x, log) ->
    reports o x n ->
    exists c, w_cfg w' = Some c /\
      exists m b,
        nb (load_p (w_disk w')) = Some m /\ m_num m = n /\
        arts (w_disk w') n = Some (AFile b) /\ blen b = m_size m /\
        (forall k, c_key c = Some k ->
                   exists s, m_sig m = Some s /\ sigok k (hex_of_bytes (sha b)) s = true).
Proof. exact step_handout. Qed.
Print Assumptions C01_handout.

(* Launch start hands the engine exactly such a patch, or leaves the booting record untouched. *)
Theorem C01_start :
  forall sha sigok (c : cfg) (d : disk),
    match snd (cs_next sha sigok c d) with
    | Some n => cb (load_p (cs_start sha sigok c d)) = nb (load_p (cs_start sha sigok c d)) /\
                intact sha sigok (c_key c) (cs_start sha sigok c d) n
    | None => cb (load_p (cs_start sha sigok c d)) = cb (load_p (norm c d))
    end.
Proof. exact cs_start_intact. Qed.
Print Assumptions C01_start.

(* A stored selection that is missing, resized or not signed is never the number reported; what is
   reported instead is the last booted patch if that one is intact, else nothing. *)
Theorem C01_invalid_not_reported :
  forall sha sigok (c : cfg) (d : disk) (m : meta),
    nb (load_p (norm c d)) = Some m ->
    validate sha sigok (c_key c) (norm c d) m = false ->
    snd (cs_next sha sigok c d) <> Some (m_num m) /\
    snd (cs_next sha sigok c d) =
      onum (match lb (load_p (norm c d)) with
            | Some l => if negb (N.eqb (m_num l) (m_num m)) &&
                           validate sha sigok (c_key c) (del_art (norm c d) (m_num m)) l
                        then Some l else None
            | None => None
            end).
Proof. exact cs_next_invalid_not_reported. Qed.
Print Assumptions C01_invalid_not_reported.

(* "exactly the size it had when the patch passed hash verification at install time": from a disk
   whose records were all issued by verified installs (the empty disk is one), after ANY history of
   calls and damage -- artifacts, state.json and junk arbitrarily damaged; patches_state.json
   deleted, garbled, or replaced by a stale copy -- the file a query hands out has exactly the
   length of the inflated download that passed the hash gate when its record was installed. *)
Theorem C01_size_is_install_size :
  forall sha sigok zdec base (w0 : world) (ops : list op) (o : op) (w' : world) (x : out)
         (log : list netobs) (n : N),
    AllOk sha zdec base (w_disk w0) -> Forall (ok_op sha zdec base) ops ->
    step sha sigok zdec base (fst (run sha sigok zdec base w0 ops)) o = (w', x, log) ->
    reports o x n ->
    exists m b bdl out,
      nb (load_p (w_disk w')) = Some m /\ m_num m = n /\
      arts (w_disk w') n = Some (AFile b) /\
      inflate zdec base bdl = Some out /\ hash_ok sha out (m_hash m) = true /\ blen b = blen out.
Proof. exact handout_size_provenance. Qed.
Print Assumptions C01_size_is_install_size.

(* the invariant behind it, for every step and every history *)
Theorem C01_records_are_issued :
  forall sha sigok zdec base (w : world) (ops : list op),
    Forall (ok_op sha zdec base) ops -> AllOk sha zdec base (w_disk w) ->
    AllOk sha zdec base (w_disk (fst (run sha sigok zdec base w ops))).
Proof. intros. apply run_prov; assumption. Qed.
Print Assumptions C01_records_are_issued.

(* the premises are met by the empty disk, and a stale copy of an earlier file is admissible *)
Example C01_fresh_is_ok : forall sha zdec base r, AllOk sha zdec base (fresh_disk r).
Proof. exact AllOk_fresh. Qed.
Example C01_stale_is_ok :
  forall sha zdec base d, AllOk sha zdec base d -> ok_op sha zdec base (ODamage (DSetPj (JOk (load_p d)))).
Proof. exact stale_is_ok. Qed.

(* non-vacuity: a concrete world in which a patch is reported, and one where damage suppresses it *)
Definition ex_sha (b : bytes) : bytes := b.
Definition ex_sigok (_ _ _ : string) : bool := true.
Definition ex_cfg : cfg := {| c_app := "a"; c_rel := "1"; c_chan := "stable"; c_key := None; c_auto := true |}.
Definition ex_meta : meta := {| m_num := 7; m_size := 2; m_hash := "h"; m_sig := None |}.
Definition ex_disk (b : bytes) : disk :=
  {| sj := JOk {| rel := "1"; evq := [] |};
     pj := JOk {| lb := None; nb := Some ex_meta; cb := None; bad := [] |};
     arts := fun k => if N.eqb k 7 then Some (AFile b) else None; junk := false |}.
Example C01_nonvacuous_reported :
  snd (fst (step ex_sha ex_sigok ex_sha [] {| w_disk := ex_disk [1; 2]; w_cfg := Some ex_cfg |} ONextNum)) = RNum 7.
Proof. vm_compute. reflexivity. Qed.
Example C01_nonvacuous_truncated :
  snd (fst (step ex_sha ex_sigok ex_sha [] {| w_disk := ex_disk [1]; w_cfg := Some ex_cfg |} ONextPath)) = RPath None.
Proof. vm_compute. reflexivity. Qed.
