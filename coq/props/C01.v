(* C01 — only an intact, verified patch is ever handed out for boot.  Statements only; proofs are
   in theories/Handout.v.  No hypothesis on the world: any disk content (damage included). *)
From UV Require Import Base Codec Model PMLemmas Inv Ban Handout.

(* Whatever a query reports (number or path), from ANY world: the reported number is the stored
   selection, its artifact file exists with exactly the recorded size and, under a signing key,
   carries a signature that verifies over the hash of the file's current bytes. *)
Theorem C01_handout :
  forall sha sigok zdec base (w : world) (o : op) (w' : world) (x : out) (log : list netobs) (n : N),
    step sha sigok zdec base w o = (w', x, log) ->
    reports o x n ->
    exists c, w_cfg w' = Some c /\
      exists m b,
        nb (load_p (w_disk w')) = Some m /\ m_num m = n /\
        arts (w_disk w') n = Some (AFile b) /\ blen b = m_size m /\
        (forall k, c_key c = Some k ->
                   exists s, m_sig m = Some s /\ sigok k (hex_of_bytes (sha b)) s = true).
Proof. exact step_handout. Qed.
Print Assumptions C01_handout.

(* Launch start hands the engine exactly such a patch, or leaves the booting record untouched. *)
Theorem C01_start :
  forall sha sigok (c : cfg) (d : disk),
    match snd (cs_next sha sigok c d) with
    | Some n => cb (load_p (cs_start sha sigok c d)) = nb (load_p (cs_start sha sigok c d)) /\
                intact sha sigok (c_key c) (cs_start sha sigok c d) n
    | None => cb (load_p (cs_start sha sigok c d)) = cb (load_p (norm c d))
    end.
Proof. exact cs_start_intact. Qed.
Print Assumptions C01_start.

(* A stored selection that is missing, resized or not signed is never the number reported; what is
   reported instead is the last booted patch if that one is intact, else nothing. *)
Theorem C01_invalid_not_reported :
  forall sha sigok (c : cfg) (d : disk) (m : meta),
    nb (load_p (norm c d)) = Some m ->
    validate sha sigok (c_key c) (norm c d) m = false ->
    snd (cs_next sha sigok c d) <> Some (m_num m) /\
    snd (cs_next sha sigok c d) =
      onum (match lb (load_p (norm c d)) with
            | Some l => if negb (N.eqb (m_num l) (m_num m)) &&
                           validate sha sigok (c_key c) (del_art (norm c d) (m_num m)) l
                        then Some l else None
            | None => None
            end).
Proof. exact cs_next_invalid_not_reported. Qed.
Print Assumptions C01_invalid_not_reported.

(* non-vacuity: a concrete world in which a patch is reported, and one where damage suppresses it *)
Definition ex_sha (b : bytes) : bytes := b.
Definition ex_sigok (_ _ _ : string) : bool := true.
Definition ex_cfg : cfg := {| c_app := "a"; c_rel := "1"; c_chan := "stable"; c_key := None; c_auto := true |}.
Definition ex_meta : meta := {| m_num := 7; m_size := 2; m_hash := "h"; m_sig := None |}.
Definition ex_disk (b : bytes) : disk :=
  {| sj := JOk {| rel := "1"; evq := [] |};
     pj := JOk {| lb := None; nb := Some ex_meta; cb := None; bad := [] |};
     arts := fun k => if N.eqb k 7 then Some (AFile b) else None; junk := false |}.
Example C01_nonvacuous_reported :
  snd (fst (step ex_sha ex_sigok ex_sha [] {| w_disk := ex_disk [1; 2]; w_cfg := Some ex_cfg |} ONextNum)) = RNum 7.
Proof. vm_compute. reflexivity. Qed.
Example C01_nonvacuous_truncated :
  snd (fst (step ex_sha ex_sigok ex_sha [] {| w_disk := ex_disk [1]; w_cfg := Some ex_cfg |} ONextPath)) = RPath None.
Proof. vm_compute. reflexivity. Qed.
