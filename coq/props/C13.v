(* C13 — no call panics, whatever the inputs, stored state or call order (PARTIAL by nature). *)
From Coq Require Import List ZArith String Bool.
From UV Require Import Base Codec Model PMLemmas Inv Ban Handout Calls PanicLedger.
From UVG Require Import PanicSites.
Import ListNotations.

(* the explicit panic sites / unsafe blocks of the current sources are exactly the audited ledger
   (theories/PanicLedger.v gives the guard of each): a new unwrap/expect/panic!/unsafe/thread spawn
   in non-test library code breaks this proof *)
Theorem C13_sites_are_the_ledger : panic_sites = ledger.
Proof. reflexivity. Qed.
Print Assumptions C13_sites_are_the_ledger.

(* every call of the model returns a value of its documented domain from EVERY world: any content
   of the two state files (missing, garbage, absurd but parsable), any artifacts, configuration
   present or absent, any op order, any response record, any downloaded bytes *)
Theorem C13_total_and_in_domain :
  forall sha sigok zdec base (w : world) (o : op),
    in_domain o (snd (fst (step sha sigok zdec base w o))).
Proof. exact step_in_domain. Qed.
Print Assumptions C13_total_and_in_domain.

(* a failure in one call never makes later calls unusable: the model has no poisoned state — the
   world after any call is again a world every call accepts (the theorem above quantifies over all
   worlds), and the only process-wide flags are the two mutexes, released by every call (C12) *)
