(* C11 — lifecycle guarantees survive every interleaving with a concurrent update. *)
From UV Require Import Base Codec Model PMLemmas Inv Ban Handout Calls Frame Frames2 Frames3 Blocks.

(* calls are programs of critical sections; run back to back they ARE the sequential calls *)
Theorem C11_update_is_its_blocks :
  forall sha sigok zdec base (c : cfg) (d : disk) ch r dl,
    run_stage sha sigok zdec base 9 c (GUpd ch r dl [] UTry) d [] =
    conv (do_update sha sigok zdec base c d ch r dl).
Proof. exact update_blocks_refine. Qed.
Print Assumptions C11_update_is_its_blocks.

Theorem C11_check_is_its_blocks :
  forall sha sigok zdec base (c : cfg) (d : disk) ch r,
    run_stage sha sigok zdec base 5 c (GChk ch r CCfg) d [] = conv_c (do_check sha sigok c d ch r).
Proof. exact check_blocks_refine. Qed.
Print Assumptions C11_check_is_its_blocks.

(* for EVERY number of threads, EVERY call sequences on them, EVERY schedule of their critical
   sections: the disk stays a state of the running release and I-ban holds throughout *)
Theorem C11_any_schedule_safe :
  forall sha sigok zdec base (c : cfg) (order : list nat) (ts : list thread) (d : disk) (busy : option nat) (log : list netobs),
    Safe (c_rel c) d -> Safe (c_rel c) (snd (fst (sched sha sigok zdec base c ts d busy order log))).
Proof. exact any_schedule_safe. Qed.
Print Assumptions C11_any_schedule_safe.

(* no interleaving lets an update install, or leave selected, a number whose failure was recorded *)
Theorem C11_banned_stays_banned :
  forall sha sigok zdec base (c : cfg) (n : N) (order : list nat) (ts : list thread) (d : disk) (busy : option nat) (log : list netobs),
    Safe (c_rel c) d -> In n (bad (load_p d)) ->
    let d' := snd (fst (sched sha sigok zdec base c ts d busy order log)) in
    In n (bad (load_p d')) /\ numeq (nb (load_p d')) n = false.
Proof. exact any_schedule_keeps_ban. Qed.
Print Assumptions C11_banned_stays_banned.

Theorem C11_install_block_respects_ban :
  forall sha sigok zdec base (c : cfg) ch r dl log (p : patch) (out : bytes) (d : disk),
    In (p_num p) (bad (load_p (norm c d))) ->
    block sha sigok zdec base c (GUpd ch r dl log (UIns p out)) d = (GDone (RStatus 3), norm c d, []).
Proof. exact install_block_respects_ban. Qed.
Print Assumptions C11_install_block_respects_ban.

(* whatever a query block reports, wherever it falls in an interleaving, is intact (C01) *)
Theorem C11_query_intact :
  forall sha sigok zdec base (c : cfg) (o : op) (d d' : disk) (x : out) (l : list netobs) (n : N),
    block sha sigok zdec base c (GOne o) d = (GDone x, d', l) -> reports o x n ->
    intact sha sigok (c_key c) d' n.
Proof. exact block_query_intact. Qed.
Print Assumptions C11_query_intact.

(* no interleaving loses the last good patch: it survives every schedule whose blocks do not
   concern its number (block_ok_lb, Blocks.v) *)
Theorem C11_last_good_survives :
  forall sha sigok zdec base (c : cfg) (m : meta) (order : list nat) (ts : list thread) (d : disk) (busy : option nat) (log : list netobs),
    stable (c_rel c) d -> SelD sha sigok SLB (c_key c) d m ->
    sched_all sha sigok zdec base (block_ok_lb m) c ts d busy order ->
    SelD sha sigok SLB (c_key c) (snd (fst (sched sha sigok zdec base c ts d busy order log))) m.
Proof. exact any_schedule_keeps_last_good. Qed.
Print Assumptions C11_last_good_survives.
