(* C12 — calls never wait on the network; updates never pile up or deadlock (structural half). *)
From UV Require Import Base Codec Model PMLemmas Inv Ban Handout Calls Frame Frames2 Frames3 Blocks.

(* For every call, from every world (initialised or not) and with any server behaviour, the calling
   thread's action trace is well formed: the config mutex is never re-entered, every network
   callback runs with the config mutex released, the update mutex is tried only with the config
   mutex released, and both are released when the call returns.  (wf_go, Blocks.v) *)
Theorem C12_call_trace_wf :
  forall sha sigok zdec base (w : world) (o : op),
    wf_go 0 false (world_actions sha sigok zdec base w o) = Some (0%nat, false).
Proof. exact world_actions_wf. Qed.
Print Assumptions C12_call_trace_wf.

(* a second update requested while one is running returns at once with the error status: it takes
   no lock, touches no state and performs no network I/O *)
Theorem C12_second_update_refused :
  forall sha sigok zdec base (c : cfg) (i : nat) (t : thread) (d : disk) (j : nat),
    is_try (t_stage t) = true ->
    thread_step_b sha sigok zdec base c i t d (Some j) = (refuse_update t, d, [], Some j) /\
    exists rest, t_outs (refuse_update t) = t_outs t ++ [RStatus (-1)] /\ rest = t_todo t.
Proof. exact second_update_refused. Qed.
Print Assumptions C12_second_update_refused.

(* progress: whichever unfinished thread is scheduled can take its step (the step function is
   total) and strictly reduces its remaining work; a thread holds the config mutex only inside one
   block and asks for no other lock there, so no waiting cycle exists and every fair schedule ends *)
Theorem C12_step_decreases_work :
  forall sha sigok zdec base (c : cfg) (i : nat) (t : thread) (d : disk) (busy : option nat),
    thread_done t = false ->
    (work (fst (fst (fst (thread_step_b sha sigok zdec base c i t d busy)))) < work t)%nat.
Proof. exact step_decreases_work. Qed.
Print Assumptions C12_step_decreases_work.

(* each block advances its call: no call loops inside the library *)
Theorem C12_block_advances :
  forall sha sigok zdec base (c : cfg) (g : stage) (d : disk),
    g <> GDone (match g with GDone x => x | _ => RUnit end) ->
    (rank (fst (fst (block sha sigok zdec base c g d))) < rank g)%nat.
Proof. exact block_rank. Qed.
Print Assumptions C12_block_advances.
