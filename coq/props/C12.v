(* C12 — calls never wait on the network; updates never pile up or deadlock (structural half). *)
From UV Require Import Base Codec Model PMLemmas Inv Ban Handout Calls Frame Frames2 Frames3 Blocks.

(* For every call, from every world (initialised or not) and with any server behaviour, the calling
   thread's action trace is well formed: the config mutex is never re-entered, every network
   callback runs with the config mutex released, the update mutex is tried only with the config
   mutex released, and both are released when the call returns.  (wf_go, Blocks.v) *)
Theorem C12_call_trace_wf :
  forall sha sigok zdec base (w : world) (o : op),
    wf_go 0 false (world_actions sha sigok zdec base w o) = Some (0%nat, false).
Proof. exact world_actions_wf. Qed.
Print Assumptions C12_call_trace_wf.

(* a second update requested while one is running returns at once with the error status: it takes
   no lock, touches no state and performs no network I/O *)
Theorem C12_second_update_refused :
  forall sha sigok zdec base (c : cfg) (i : nat) (t : thread) (d : disk) (j : nat),
    is_try (t_stage t) = true ->
    thread_step_b sha sigok zdec base c i t d (Some j) = (refuse_update t, d, [], Some j) /\
    exists rest, t_outs (refuse_update t) = t_outs t ++ [RStatus (-1)] /\ rest = t_todo t.
Proof. exact second_update_refused. Qed.
Print Assumptions C12_second_update_refused.

(* progress: whichever unfinished thread is scheduled can take its step (the step function is
   total) and strictly reduces its remaining work; a thread holds the config mutex only inside one
   block and asks for no other lock there, so no waiting cycle exists and every fair schedule ends *)
Theorem C12_step_decreases_work :
  forall sha sigok zdec base (c : cfg) (i : nat) (t : thread) (d : disk) (busy : option nat),
    thread_done t = false ->
    (work (fst (fst (fst (thread_step_b sha sigok zdec base c i t d busy)))) < work t)%nat.
Proof. exact step_decreases_work. Qed.
Print Assumptions C12_step_decreases_work.

(* each block advances its call: no call loops inside the library *)
Theorem C12_block_advances :
  forall sha sigok zdec base (c : cfg) (g : stage) (d : disk),
    g <> GDone (match g with GDone x => x | _ => RUnit end) ->
    (rank (fst (fst (block sha sigok zdec base c g d))) < rank g)%nat.
Proof. exact block_rank. Qed.
Print Assumptions C12_block_advances.

(* Static half, regenerated from library/src on every run (gen/LockSites.v: every call in every
   non-test function, with whether it sits lexically inside a with_config / with_state / with_mut_state
   closure, inside the with_updater_thread_lock closure, inside a thread::spawn closure).
   For EVERY call made inside a config-lock closure by the thread holding the lock: it is not a network
   callback and cannot reach one through any chain of calls on that thread; it does not take the config
   lock again and cannot reach a function that does; it does not take the update lock and cannot reach a
   function that does.  This covers code paths no test or schedule exercises. *)
From UV Require Import LockOrder.
From UVG Require Import LockSites.
Theorem C12_static_lock_discipline :
  forall s, In s gen_calls -> cs_cfg s = true -> cs_spawn s = false ->
    (is_net (cs_callee s) = false /\ ~ Reaches gen_calls is_net (cs_callee s)) /\
    (mem (cs_callee s) lockers = false /\ ~ Reaches gen_calls (fun c => mem c lockers) (cs_callee s)) /\
    (String.eqb upd_locker (cs_callee s) = false /\ ~ Reaches gen_calls (String.eqb upd_locker) (cs_callee s)).
Proof. apply (lock_discipline_spec gen_calls gen_fns). vm_compute. reflexivity. Qed.
Print Assumptions C12_static_lock_discipline.

(* non-vacuity: the table does contain calls under the lock, network calls and lock acquisitions *)
Example C12_static_nonvacuous :
  existsb cs_cfg gen_calls = true /\ existsb (fun s => is_net (cs_callee s)) gen_calls = true /\
  existsb (fun s => mem (cs_callee s) lockers) gen_calls = true /\
  existsb (fun s => String.eqb upd_locker (cs_callee s)) gen_calls = true.
Proof. vm_compute. repeat split. Qed.

(* ---------- the two mutexes made explicit (LockSem.v): any number of threads, any calls, any schedule ----------
   Each thread issues any sequence of calls, each call from whatever world it finds; its lock/network actions
   are those the model computes (the traces compared with the real library's hook trace on every run).  The
   config mutex blocks, the update mutex is only tried.  After ANY schedule prefix:
   (1) if some thread still has work, some thread can take a step - no deadlock, whatever the order of calls;
   (2) the remaining work can be completed in at most [sys_work] further steps - every step consumes an action,
       so no schedule runs for ever and nobody waits behind a thread that is itself waiting. *)
From UV Require Import LockSem LockSemProofs LockSemLink.
Theorem C12_no_deadlock_any_schedule :
  forall sha sigok zdec base (threads : list (list (world * op))) (order : list nat),
    let s := run_sched (system_of sha sigok zdec base threads) order in
    ((exists i t, nth_error (LockSem.threads s) i = Some t /\ th_done t = false) ->
     exists i, sys_step s i <> None) /\
    (exists rest, (List.length rest <= sys_work s)%nat /\ all_done (run_sched s rest)).
Proof. exact no_deadlock_any_schedule. Qed.
Print Assumptions C12_no_deadlock_any_schedule.

(* a try-lock on the update mutex never waits: busy or not, the step is enabled and the caller moves on at
   once - into the update body if it got the mutex, past it ("already in progress") if not *)
Theorem C12_try_never_blocks :
  forall i t body r co uo,
    inside t = None -> rest t = IUpd body :: r ->
    exists t', th_step i t co uo = Some (t', co, match uo with None => Some i | Some k => Some k end) /\
               rest t' = r /\
               inside t' = match uo with None => Some body | Some _ => None end.
Proof. exact try_never_blocks. Qed.
Print Assumptions C12_try_never_blocks.

(* non-vacuity: an update racing a query and a launch report; the query thread wants the config mutex while the
   updater holds it and is passed over (a skipped pick), then everything completes *)
Example C12_lock_example :
  let upd := [IUpd [AAcq; ARel; ANet; AAcq; ARel]] in
  let qry := [IAct AAcq; IAct ARel] in
  let s1 := run_sched (init_sys [upd; qry; upd]) [0; 0; 1; 2]%nat in
  cfg_owner s1 = Some 0%nat /\ upd_owner s1 = Some 0%nat /\
  sys_step s1 1%nat = None /\                      (* the query waits for the config mutex ... *)
  sys_step s1 0%nat <> None /\                     (* ... whose holder can go on *)
  forallb th_done (LockSem.threads (run_sched s1 [0; 1; 1; 0; 0; 0; 0; 2]%nat)) = true.
Proof. cbv zeta. vm_compute. repeat split; discriminate. Qed.
