(* C05 — nothing is installed unless the inflated download matches its hash. *)
From UV Require Import Base Codec Model PMLemmas Inv Ban Handout Calls.

(* "installed" only if applying the downloaded bytes to the base produced a file whose SHA-256 is the
   advertised one; the selection then records exactly that file and the artifact is byte-identical *)
Theorem C05_installed_only_if_verified :
  forall sha sigok zdec base (c : cfg) (d : disk) ch r dl d' log,
    do_update sha sigok zdec base c d ch r dl = (d', UInstalled, log) ->
    exists rs p bdl out,
      r = Some rs /\ r_avail rs = true /\ r_patch rs = Some p /\ dl = Some bdl /\
      apply_patch base (zdec bdl) = Some out /\
      (exists e, unhex (p_hash p) = Some e /\ bytes_eqb (sha out) e = true) /\
      nb (load_p d') = Some {| m_num := p_num p; m_size := blen out; m_hash := p_hash p; m_sig := p_sig p |} /\
      arts d' (p_num p) = Some (AFile out).
Proof.
  intros sha sigok zdec base c d ch r dl d' log H.
  destruct (installed_only_if_verified sha sigok zdec base c d ch r dl d' log H)
    as (rs & p & bdl & out & H1 & H2 & H3 & H4 & H5 & H6 & H7 & H8).
  exists rs, p, bdl, out. repeat split; auto.
  unfold hash_ok in H6. destruct (unhex (p_hash p)) as [e|]; [|discriminate]. exists e. auto.
Qed.
Print Assumptions C05_installed_only_if_verified.

(* every other download leaves exactly the disk a failed download leaves, same status, never installed *)
Theorem C05_rejected_download_frame :
  forall sha sigok zdec base (c : cfg) (d : disk) ch (rs : resp) (bdl : bytes) (p : patch),
    r_patch rs = Some p ->
    inflate zdec base bdl = None \/
      (exists out, inflate zdec base bdl = Some out /\ hash_ok sha out (p_hash p) = false) ->
    fst (fst (do_update sha sigok zdec base c d ch (Some rs) (Some bdl))) =
      fst (fst (do_update sha sigok zdec base c d ch (Some rs) None)) /\
    snd (fst (do_update sha sigok zdec base c d ch (Some rs) (Some bdl))) =
      snd (fst (do_update sha sigok zdec base c d ch (Some rs) None)) /\
    snd (fst (do_update sha sigok zdec base c d ch (Some rs) (Some bdl))) <> UInstalled.
Proof. exact rejected_download_frame. Qed.
Print Assumptions C05_rejected_download_frame.

(* ... and with no rollback listed, a settled state is left exactly as it was: same LB/NB/CB/ban list,
   same artifacts *)
Theorem C05_failed_update_unchanged :
  forall sha sigok zdec base (c : cfg) (d : disk) ch (rs : resp) dl,
    stable (c_rel c) d -> settled sha sigok (c_key c) d -> r_rb rs = None ->
    snd (fst (do_update sha sigok zdec base c d ch (Some rs) dl)) <> UInstalled ->
    let d' := fst (fst (do_update sha sigok zdec base c d ch (Some rs) dl)) in
    load_p d' = load_p d /\ arts d' = arts d.
Proof. exact failed_update_unchanged. Qed.
Print Assumptions C05_failed_update_unchanged.
