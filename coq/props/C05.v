(* C05 — nothing is installed unless the inflated download matches its hash. *)
From UV Require Import Base Codec Model PMLemmas Inv Ban Handout Calls.

(* "installed" only if applying the downloaded bytes to the base produced a file whose SHA-256 is the
   advertised one; the selection then records exactly that file and the artifact is byte-identical *)
Theorem C05_installed_only_if_verified :
  forall sha sigok zdec base (c : cfg) (d : disk) ch r dl d' log,
    do_update sha sigok zdec base c d ch r dl = (d', UInstalled, log) ->
    exists rs p bdl out,
      r = Some rs /\ r_avail rs = true /\ r_patch rs = Some p /\ dl = Some bdl /\
      apply_patch base (zdec bdl) = Some out /\
      (exists e, unhex (p_hash p) = Some e /\ bytes_eqb (sha out) e = true) /\
      nb (load_p d') = Some {| m_num := p_num p; m_size := blen out; m_hash := p_hash p; m_sig := p_sig p |} /\
      arts d' (p_num p) = Some (AFile out).
Proof.
  intros sha sigok zdec base c d ch r dl d' log H.
  destruct (installed_only_if_verified sha sigok zdec base c d ch r dl d' log H)
    as (rs & p & bdl & out & H1 & H2 & H3 & H4 & H5 & H6 & H7 & H8).
  exists rs, p, bdl, out. repeat split; auto.
  unfold hash_ok in H6. destruct (unhex (p_hash p)) as [e|]; [|discriminate]. exists e. auto.
Qed.
Print Assumptions C05_installed_only_if_verified.

(* every other download leaves exactly the disk a failed download leaves, same status, never installed *)
Theorem C05_rejected_download_frame :
  forall sha sigok zdec base (c : cfg) (d : disk) ch (rs : resp) (bdl : bytes) (p : patch),
    r_patch rs = Some p ->
    inflate zdec base bdl = None \/
      (exists out, inflate zdec base bdl = Some out /\ hash_ok sha out (p_hash p) = false) ->
    fst (fst (do_update sha sigok zdec base c d ch (Some rs) (Some bdl))) =
      fst (fst (do_update sha sigok zdec base c d ch (Some rs) None)) /\
    snd (fst (do_update sha sigok zdec base c d ch (Some rs) (Some bdl))) =
      snd (fst (do_update sha sigok zdec base c d ch (Some rs) None)) /\
    snd (fst (do_update sha sigok zdec base c d ch (Some rs) (Some bdl))) <> UInstalled.
Proof. exact rejected_download_frame. Qed.
Print Assumptions C05_rejected_download_frame.

(* ... and with no rollback listed, a settled state is left exactly as it was: same LB/NB/CB/ban list,
   same artifacts *)
Theorem C05_failed_update_unchanged :
  forall sha sigok zdec base (c : cfg) (d : disk) ch (rs : resp) dl,
    stable (c_rel c) d -> settled sha sigok (c_key c) d -> r_rb rs = None ->
    snd (fst (do_update sha sigok zdec base c d ch (Some rs) dl)) <> UInstalled ->
    let d' := fst (fst (do_update sha sigok zdec base c d ch (Some rs) dl)) in
    load_p d' = load_p d /\ arts d' = arts d.
Proof. exact failed_update_unchanged. Qed.
Print Assumptions C05_failed_update_unchanged.

(* ---------- the download directory (Downloads.v) ----------
   downloads/<n> and downloads/<n>.full are never deleted by the library, so every update runs on top of
   what earlier attempts (of this or an older release) left behind.  In the model the directory is an
   output only: *)
From UV Require Import Downloads.

(* whatever is lying in downloads/, a call does the same thing: same result, same network actions, same
   patch state and artifacts (the model-side statement of "File::create truncates and the download is
   always rewritten"; the correspondence check compares the directory after every op with leftovers of
   other lengths present) *)
Theorem C05_leftovers_never_read :
  forall sha sigok zdec base (w : world) (L L' : dls) (o : op),
    let '(wl1, r1, log1) := step2 sha sigok zdec base (w, L) o in
    let '(wl2, r2, log2) := step2 sha sigok zdec base (w, L') o in
    fst wl1 = fst wl2 /\ r1 = r2 /\ log1 = log2 /\ fst wl1 = fst (fst (step sha sigok zdec base w o)).
Proof.
  intros sha sigok zdec base w L L' o. unfold step2. cbn [fst snd].
  destruct (step sha sigok zdec base w o) as [[w' r] log]. cbn. auto.
Qed.
Print Assumptions C05_leftovers_never_read.

(* after an update that reached the download: downloads/<n> holds exactly the body the server sent
   (no stale tail), and <n>.full is gone iff the patch was installed (add_patch renamed it into place);
   a rejected output is left behind in full, a failed inflate leaves some prefix *)
Theorem C05_download_dir_after_update :
  forall sha sigok zdec base (w : world) (L : dls) ch (rs : resp) (body : bytes) (p : patch) c w' r log L',
    w_cfg w = Some c -> r_patch rs = Some p ->
    step2 sha sigok zdec base (w, L) (OUpdate ch (Some rs) (Some body)) = ((w', L'), r, log) ->
    existsb is_download log = true ->
    dl_file L' (p_num p) = Some body /\
    (forall k, k <> p_num p -> dl_file L' k = dl_file L k /\ dl_full L' k = dl_full L k) /\
    match inflate zdec base body with
    | None => dl_full L' (p_num p) = Some FPartial
    | Some outb => dl_full L' (p_num p) = match r with RStatus 1 => None | _ => Some (FBytes outb) end
    end.
Proof.
  intros sha sigok zdec base w L ch rs body p c w' r log L' Hc Hp H Hd.
  unfold step2 in H. cbn [fst snd] in H.
  destruct (step sha sigok zdec base w (OUpdate ch (Some rs) (Some body))) as [[w1 r1] log1] eqn:E.
  inversion H; subst; clear H.
  unfold dl_step. rewrite Hc, Hp, Hd.
  assert (Hne : forall k, k <> p_num p -> (k =? p_num p) = false) by (intros; apply N.eqb_neq; auto).
  destruct (inflate zdec base body) as [outb|].
  - repeat split.
    + destruct r as [| | | |z]; try (destruct z as [|[| |]|]); cbn; rewrite N.eqb_refl; reflexivity.
    + destruct r as [| | | |z]; try (destruct z as [|[| |]|]); cbn; rewrite (Hne k H); reflexivity.
    + destruct r as [| | | |z]; try (destruct z as [|[| |]|]); cbn; rewrite (Hne k H); reflexivity.
    + destruct r as [| | | |z]; try (destruct z as [|[| |]|]); cbn; rewrite N.eqb_refl; reflexivity.
  - repeat split; cbn; try rewrite N.eqb_refl; try rewrite (Hne k H); reflexivity.
Qed.
Print Assumptions C05_download_dir_after_update.

(* an update that never reached the download (refused, failed check, banned or already-installed offer,
   failed download request) and every other call leave the directory untouched *)
Theorem C05_download_dir_untouched :
  forall sha sigok zdec base (w : world) (L : dls) (o : op) wl r log,
    step2 sha sigok zdec base (w, L) o = (wl, r, log) ->
    existsb is_download log = false -> snd wl = L.
Proof.
  intros sha sigok zdec base w L o wl r log H Hd. unfold step2 in H. cbn [fst snd] in H.
  destruct (step sha sigok zdec base w o) as [[w1 r1] log1]. inversion H; subst; clear H. cbn [snd].
  unfold dl_step. destruct o; try reflexivity.
  destruct r0 as [rs|]; [|reflexivity]. destruct dl as [body|]; [|reflexivity].
  destruct (w_cfg w); [|reflexivity]. destruct (r_patch rs); [|reflexivity]. rewrite Hd. reflexivity.
Qed.
Print Assumptions C05_download_dir_untouched.

(* The same "only if" with faults, the files of the download directory included (Fault.v: download_to_path, inflate
   and check_hash as system-call steps).  For EVERY plan - no fault, process death anywhere, any single failing system
   call - an update that returns 'installed' has moved into place exactly the file check_hash read back from
   <n>.full: the inflated output, or what was left of it if the write at the BufWriter's drop failed silently; the
   SHA-256 of THAT file is the advertised one, and patches_state.json names it with its length (or is garbage, in
   which case nothing is selected).  A gate on the bytes "intended for disk" does not satisfy this statement. *)
From UV Require Import Fault FaultDownload.
Theorem C05_installed_is_the_verified_file_under_faults :
  forall sha sigok zdec base (c : cfg) r dl (pl : plan) c0 (d0 : disk) c1 d1,
    do_updateM sha sigok zdec base c r dl pl c0 d0 = (Ret UInstalled, c1, d1) ->
    exists rs p bdl out fileb,
      r = Some rs /\ r_patch rs = Some p /\ dl = Some bdl /\ inflate zdec base bdl = Some out /\
      (fileb = out \/ fileb = flushed_prefix out) /\
      hash_ok sha fileb (p_hash p) = true /\
      arts d1 (p_num p) = Some (AFile fileb) /\
      (pj d1 = JGarbage \/
       exists s, pj d1 = JOk s /\
         nb s = Some {| m_num := p_num p; m_size := blen fileb; m_hash := p_hash p; m_sig := p_sig p |} /\
         ~ In (p_num p) (bad s)).
Proof. exact installed_is_the_verified_file. Qed.
Print Assumptions C05_installed_is_the_verified_file_under_faults.

(* a fault in the download directory never touches the persisted state: whatever download_to_path + inflate return
   or wherever they die, the disk is the one they started from *)
Theorem C05_download_steps_leave_the_state_alone :
  forall zdec base bdl (pl : plan) c0 (d0 : disk) o c1 d1,
    downloadM zdec base bdl pl c0 d0 = (o, c1, d1) -> d1 = d0.
Proof. exact download_any. Qed.
Print Assumptions C05_download_steps_leave_the_state_alone.
