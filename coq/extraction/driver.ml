(* driver.ml — runs the extracted model on op files and prints canonical trace lines.
   Trusted glue: parsing, printing, conversions, SHA-256 (cross-checked against openssl/hashlib
   by tools/selftest), oracle tables carried by the op file. *)
open Model

(* ---------- conversions ---------- *)
let rec pos_of_int (i : int) : positive =
  if i = 1 then XH
  else if i land 1 = 0 then XO (pos_of_int (i lsr 1))
  else XI (pos_of_int (i lsr 1))
let n_of_int (i : int) : n = if i = 0 then N0 else Npos (pos_of_int i)
let rec int_of_pos = function
  | XH -> 1
  | XO p -> 2 * int_of_pos p
  | XI p -> 2 * int_of_pos p + 1
let int_of_n = function N0 -> 0 | Npos p -> int_of_pos p
let int_of_z = function Z0 -> 0 | Zpos p -> int_of_pos p | Zneg p -> - (int_of_pos p)
let z_of_int i = if i = 0 then Z0 else if i > 0 then Zpos (pos_of_int i) else Zneg (pos_of_int (-i))

(* arbitrary-size decimal strings <-> N (patch numbers up to 2^64-1 do not fit OCaml int) *)
let n_of_decimal (s : Stdlib.String.t) : n =
  let ten = n_of_int 10 in
  let acc = ref N0 in
  Stdlib.String.iter (fun c ->
      let dgt = Char.code c - 48 in
      if dgt < 0 || dgt > 9 then failwith ("bad number " ^ s);
      acc := N.add (N.mul !acc ten) (n_of_int dgt)) s;
  !acc
let decimal_of_n (x : n) : Stdlib.String.t =
  let ten = n_of_int 10 in
  if x = N0 then "0" else begin
    let b = Buffer.create 20 in
    let rec go x acc =
      if x = N0 then acc
      else go (N.div x ten) (Char.chr (48 + int_of_n (N.modulo x ten)) :: acc) in
    List.iter (Buffer.add_char b) (go x []);
    Buffer.contents b
  end

let ascii_of_char (c : char) : ascii =
  let i = Char.code c in
  let b k = (i lsr k) land 1 = 1 in
  Ascii (b 0, b 1, b 2, b 3, b 4, b 5, b 6, b 7)
let char_of_ascii (Ascii (a0, a1, a2, a3, a4, a5, a6, a7)) : char =
  let v k b = if b then 1 lsl k else 0 in
  Char.chr (v 0 a0 + v 1 a1 + v 2 a2 + v 3 a3 + v 4 a4 + v 5 a5 + v 6 a6 + v 7 a7)
let cstring_of (s : Stdlib.String.t) : string =
  let r = ref EmptyString in
  for i = Stdlib.String.length s - 1 downto 0 do r := String (ascii_of_char s.[i], !r) done;
  !r
let ostring_of (s : string) : Stdlib.String.t =
  let b = Buffer.create 16 in
  let rec go = function EmptyString -> () | String (a, r) -> Buffer.add_char b (char_of_ascii a); go r in
  go s; Buffer.contents b

let bytes_of_ostring (s : Stdlib.String.t) : bytes =
  let r = ref [] in
  for i = Stdlib.String.length s - 1 downto 0 do r := n_of_int (Char.code s.[i]) :: !r done;
  !r
let ostring_of_bytes (b : bytes) : Stdlib.String.t =
  let buf = Buffer.create 64 in
  List.iter (fun x -> Buffer.add_char buf (Char.chr (int_of_n x land 255))) b;
  Buffer.contents buf

let hexval c = match c with
  | '0'..'9' -> Char.code c - 48 | 'a'..'f' -> Char.code c - 87 | 'A'..'F' -> Char.code c - 55
  | _ -> failwith "bad hex"
let unhex_o (s : Stdlib.String.t) : Stdlib.String.t =
  let n = Stdlib.String.length s / 2 in
  Stdlib.String.init n (fun i -> Char.chr (hexval s.[2*i] * 16 + hexval s.[2*i+1]))
let hex_o (s : Stdlib.String.t) : Stdlib.String.t =
  let b = Buffer.create (2 * Stdlib.String.length s) in
  Stdlib.String.iter (fun c -> Buffer.add_string b (Printf.sprintf "%02x" (Char.code c))) s;
  Buffer.contents b

(* ---------- SHA-256 (native ints, 32-bit masking) ---------- *)
let k256 = [|
  0x428a2f98;0x71374491;0xb5c0fbcf;0xe9b5dba5;0x3956c25b;0x59f111f1;0x923f82a4;0xab1c5ed5;
  0xd807aa98;0x12835b01;0x243185be;0x550c7dc3;0x72be5d74;0x80deb1fe;0x9bdc06a7;0xc19bf174;
  0xe49b69c1;0xefbe4786;0x0fc19dc6;0x240ca1cc;0x2de92c6f;0x4a7484aa;0x5cb0a9dc;0x76f988da;
  0x983e5152;0xa831c66d;0xb00327c8;0xbf597fc7;0xc6e00bf3;0xd5a79147;0x06ca6351;0x14292967;
  0x27b70a85;0x2e1b2138;0x4d2c6dfc;0x53380d13;0x650a7354;0x766a0abb;0x81c2c92e;0x92722c85;
  0xa2bfe8a1;0xa81a664b;0xc24b8b70;0xc76c51a3;0xd192e819;0xd6990624;0xf40e3585;0x106aa070;
  0x19a4c116;0x1e376c08;0x2748774c;0x34b0bcb5;0x391c0cb3;0x4ed8aa4a;0x5b9cca4f;0x682e6ff3;
  0x748f82ee;0x78a5636f;0x84c87814;0x8cc70208;0x90befffa;0xa4506ceb;0xbef9a3f7;0xc67178f2 |]
let sha256_o (msg : Stdlib.String.t) : Stdlib.String.t =
  let m32 = 0xffffffff in
  let rotr x n = ((x lsr n) lor (x lsl (32 - n))) land m32 in
  let len = Stdlib.String.length msg in
  let padlen = let r = (len + 9) mod 64 in if r = 0 then 0 else 64 - r in
  let total = len + 9 + padlen in
  let buf = Stdlib.Bytes.make total '\000' in
  Stdlib.Bytes.blit_string msg 0 buf 0 len;
  Stdlib.Bytes.set buf len '\x80';
  let bits = len * 8 in
  for i = 0 to 7 do
    Stdlib.Bytes.set buf (total - 1 - i) (Char.chr ((bits lsr (8 * i)) land 255))
  done;
  let h = [| 0x6a09e667;0xbb67ae85;0x3c6ef372;0xa54ff53a;0x510e527f;0x9b05688c;0x1f83d9ab;0x5be0cd19 |] in
  let w = Array.make 64 0 in
  for blk = 0 to total / 64 - 1 do
    for t = 0 to 15 do
      let o = blk * 64 + t * 4 in
      let g i = Char.code (Stdlib.Bytes.get buf (o + i)) in
      w.(t) <- (g 0 lsl 24) lor (g 1 lsl 16) lor (g 2 lsl 8) lor g 3
    done;
    for t = 16 to 63 do
      let s0 = rotr w.(t-15) 7 lxor rotr w.(t-15) 18 lxor (w.(t-15) lsr 3) in
      let s1 = rotr w.(t-2) 17 lxor rotr w.(t-2) 19 lxor (w.(t-2) lsr 10) in
      w.(t) <- (w.(t-16) + s0 + w.(t-7) + s1) land m32
    done;
    let a = ref h.(0) and b = ref h.(1) and c = ref h.(2) and d = ref h.(3)
    and e = ref h.(4) and f = ref h.(5) and g = ref h.(6) and hh = ref h.(7) in
    for t = 0 to 63 do
      let s1 = rotr !e 6 lxor rotr !e 11 lxor rotr !e 25 in
      let ch = (!e land !f) lxor ((lnot !e) land m32 land !g) in
      let t1 = (!hh + s1 + ch + k256.(t) + w.(t)) land m32 in
      let s0 = rotr !a 2 lxor rotr !a 13 lxor rotr !a 22 in
      let mj = (!a land !b) lxor (!a land !c) lxor (!b land !c) in
      let t2 = (s0 + mj) land m32 in
      hh := !g; g := !f; f := !e; e := (!d + t1) land m32;
      d := !c; c := !b; b := !a; a := (t1 + t2) land m32
    done;
    h.(0) <- (h.(0) + !a) land m32; h.(1) <- (h.(1) + !b) land m32;
    h.(2) <- (h.(2) + !c) land m32; h.(3) <- (h.(3) + !d) land m32;
    h.(4) <- (h.(4) + !e) land m32; h.(5) <- (h.(5) + !f) land m32;
    h.(6) <- (h.(6) + !g) land m32; h.(7) <- (h.(7) + !hh) land m32
  done;
  let out = Buffer.create 32 in
  Array.iter (fun x -> for i = 3 downto 0 do Buffer.add_char out (Char.chr ((x lsr (8*i)) land 255)) done) h;
  Buffer.contents out

(* FNV-1a 32-bit content tag, printed by both sides *)
let fnv (s : Stdlib.String.t) : int =
  let h = ref 0x811c9dc5 in
  Stdlib.String.iter (fun c -> h := ((!h lxor Char.code c) * 0x01000193) land 0xffffffff) s;
  !h

(* ---------- oracle tables ---------- *)
let blobs : (Stdlib.String.t, Stdlib.String.t) Hashtbl.t = Hashtbl.create 64
let zdec_tbl : (Stdlib.String.t, Stdlib.String.t) Hashtbl.t = Hashtbl.create 64
let sig_tbl : (Stdlib.String.t * Stdlib.String.t * Stdlib.String.t, unit) Hashtbl.t = Hashtbl.create 64
let base_blob = ref ""
let universe : (Stdlib.String.t, n) Hashtbl.t = Hashtbl.create 16
let oracle_miss = ref 0

let sha (b : bytes) : bytes = bytes_of_ostring (sha256_o (ostring_of_bytes b))
(* the RSA verifier on BYTES is the oracle: its table is filled from the `sig` lines (key, message, signature as
   base64 text, produced with openssl) decoded by the MODEL's base64 decoder; everything above it - which keys and
   signatures decode at all - is computed by the model (Signing.check_signature) *)
let rsa_tbl : (Stdlib.String.t * Stdlib.String.t * Stdlib.String.t, unit) Hashtbl.t = Hashtbl.create 64
let rsa_oracle (kb : n list) (m : string) (sb : n list) : bool =
  Hashtbl.mem rsa_tbl (ostring_of_bytes kb, ostring_of m, ostring_of_bytes sb)
let sigok (k : string) (m : string) (s : string) : bool = check_signature rsa_oracle k m s
let add_sig (k : Stdlib.String.t) (m : Stdlib.String.t) (s : Stdlib.String.t) =
  Hashtbl.replace sig_tbl (k, m, s) ();
  match b64_decode (cstring_of k), b64_decode (cstring_of s) with
  | Some kb, Some sb -> Hashtbl.replace rsa_tbl (ostring_of_bytes kb, m, ostring_of_bytes sb) ()
  | _, _ -> ()
let zdec (b : bytes) : bytes =
  let k = ostring_of_bytes b in
  match Hashtbl.find_opt zdec_tbl k with
  | Some r -> bytes_of_ostring r
  | None -> incr oracle_miss; []

(* ---------- parsing ---------- *)
let str_tok (t : Stdlib.String.t) : Stdlib.String.t =   (* hex-encoded, "e" = empty *)
  if t = "e" then "" else unhex_o t
let ostr_tok t = if t = "-" then None else Some (cstring_of (str_tok t))
let blob_tok t =
  if Stdlib.String.length t > 0 && t.[0] = '@' then
    (try Hashtbl.find blobs (Stdlib.String.sub t 1 (Stdlib.String.length t - 1))
     with Not_found -> failwith ("unknown blob " ^ t))
  else failwith ("blob expected: " ^ t)
let num_tok t = Hashtbl.replace universe t (n_of_decimal t); n_of_decimal t
let bool_tok t = (t = "t")
let split c s = Stdlib.String.split_on_char c s

let parse_resp toks =
  match toks with
  | "err" :: rest -> (None, rest)
  | a :: p :: rb :: rest ->
      let avail = bool_tok (List.nth (split '=' a) 1) in
      let pv = List.nth (split '=' p) 1 in
      let patch =
        if pv = "-" then None
        else match split ':' pv with
          | [n; h; u; s] ->
              Some { p_num = num_tok n; p_hash = cstring_of (str_tok h);
                     p_url = cstring_of (str_tok u); p_sig = ostr_tok s }
          | _ -> failwith "bad patch" in
      let rv = List.nth (split '=' rb) 1 in
      let rbl =
        if rv = "-" then None
        else if rv = "e" then Some []
        else Some (List.map num_tok (split ';' rv)) in
      (Some { r_avail = avail; r_patch = patch; r_rb = rbl }, rest)
  | _ -> failwith "bad resp"

let parse_matches (t : Stdlib.String.t) : bmatch list =
  if t = "-" then [] else
    List.map (fun m -> match split '.' m with
        | [a; b; c; d] -> { add_old_start = n_of_decimal a; add_new_start = n_of_decimal b;
                            add_length = n_of_decimal c; copy_end = n_of_decimal d }
        | _ -> failwith "bad match") (split ',' t)

(* snapshots for stale-file damage: state files after each op index *)
let snaps_pj : (int, pstate jfile) Hashtbl.t = Hashtbl.create 64
let snaps_sj : (int, sstate jfile) Hashtbl.t = Hashtbl.create 64

let unrep = ref false
let host_arch = (try Sys.getenv "UV_ARCH" with Not_found -> "x86_64")
let rec nat_of_int_pre i = if i <= 0 then O else S (nat_of_int_pre (i - 1))
let parse_op (toks : Stdlib.String.t list) : op =
  match toks with
  | ["init"; r; y; p] ->
      let yaml =
        if y = "bad" then YBad
        else match split ':' y with
          | ["ok"; app; chan; key; auto] ->
              YOk (cstring_of (str_tok app), ostr_tok chan, ostr_tok key,
                   (if auto = "-" then None else Some (bool_tok auto)))
          | _ -> failwith "bad yaml" in
      OInit (cstring_of (str_tok r), yaml, bool_tok p)
  | ["kill"] -> OKill
  | ["nextnum"] -> ONextNum | ["nextpath"] -> ONextPath | ["curnum"] -> OCurNum
  | ["start"] -> OStart | ["success"] -> OSuccess | ["failure"] -> OFailure | ["auto"] -> OAuto
  | "check" :: ch :: rest ->
      let (r, _) = parse_resp rest in OCheck (ostr_tok ch, r)
  | "update" :: ch :: rest ->
      let (r, rest') = parse_resp rest in
      let dl = match rest' with
        | ["err"] -> None
        | [b] -> Some (bytes_of_ostring (blob_tok b))
        | _ -> failwith "bad dl" in
      OUpdate (ostr_tok ch, r, dl)
  | ["dmg"; "delfile"; n] -> ODamage (DDelArtFile (num_tok n))
  | ["dmg"; "deldir"; n] -> ODamage (DDelArtDir (num_tok n))
  | ["dmg"; "setart"; n; b] -> ODamage (DSetArt (num_tok n, bytes_of_ostring (blob_tok b)))
  | ["dmg"; "junk"] -> ODamage DJunk
  | ["dmg"; "junkh"] -> ODamage DJunk      (* the same stray entry under a hidden name, not empty *)
  | ["dmg"; "rawpj"; b] ->
      (* arbitrary bytes written to patches_state.json: the model reads them itself (JsonState.pj_of_file) *)
      ODamage (DSetPj (pj_of_file (bytes_of_ostring (blob_tok b))))
  | ["dmg"; "pj"; "missing"] -> ODamage (DSetPj JMissing)
  | ["dmg"; "pj"; "garbage"] -> ODamage (DSetPj JGarbage)
  | ["dmg"; "pj"; k] -> ODamage (DSetPj (try Hashtbl.find snaps_pj (int_of_string k) with Not_found -> JMissing))
  | ["dmg"; "sjq"; rel; evs] ->
      let ev t = match Stdlib.String.split_on_char '.' t with
        | [k; n; app; r; m] ->
            { e_kind = (match k with "S" -> EvInstallSuccess | "F" -> EvInstallFailure | _ -> EvDownload);
              e_num = num_tok n; e_app = cstring_of (str_tok app); e_rel = cstring_of (str_tok r);
              e_msg = (match m with "i" -> MsgInit | "e" -> MsgEngine | _ -> MsgNone) }
        | _ -> failwith ("bad event token " ^ t) in
      let l = List.filter (fun x -> x <> "" && x <> "-") (Stdlib.String.split_on_char ',' evs) in
      ODamage (DSetSj (JOk { rel = cstring_of (str_tok rel); evq = List.map ev l }))
  | ["dmg"; "rawsj"; b] ->
      (* arbitrary bytes written to state.json: the model reads them itself (JsonSj.sj_of_file).  Read a second time
         with a wider vector reader: the width must not matter (the proofs fix a width, JsonSjProofs.v).  An event of
         another platform / architecture is re-sent as the file has it; the model's event does not carry those two
         fields, so such a history is marked and left out of the comparison (counted by the differ). *)
      let bytes = bytes_of_ostring (blob_tok b) in
      let n = List.length bytes in
      let r = sj_of_file bytes in
      if sj_of_file_n (nat_of_int_pre (n + 9)) bytes <> r then print_endline "WIDTH-MISMATCH sj_of_file";
      (match fstate_of_body_n (nat_of_int_pre n) bytes with
       | Some (_, q) ->
           if List.exists (fun e -> ostring_of e.fe_platform <> "linux" || ostring_of e.fe_arch <> host_arch) q then unrep := true
       | None -> ());
      ODamage (DSetSj r)
  | ["dmg"; "sj"; "missing"] -> ODamage (DSetSj JMissing)
  | ["dmg"; "sj"; "garbage"] -> ODamage (DSetSj JGarbage)
  | ["dmg"; "sj"; k] -> ODamage (DSetSj (try Hashtbl.find snaps_sj (int_of_string k) with Not_found -> JMissing))
  | _ -> failwith ("bad op: " ^ Stdlib.String.concat " " toks)

(* ---------- printing ---------- *)
let hx (s : string) = let o = ostring_of s in if o = "" then "e" else hex_o o
let ohx = function None -> "-" | Some s -> hx s
let pr_meta (m : meta) =
  Printf.sprintf "%s.%s.%s.%s" (decimal_of_n m.m_num) (decimal_of_n m.m_size) (hx m.m_hash) (ohx m.m_sig)
let pr_ometa = function None -> "-" | Some m -> pr_meta m
let pr_kind = function EvInstallSuccess -> "S" | EvInstallFailure -> "F" | EvDownload -> "D"
let pr_msg = function MsgNone -> "n" | MsgInit -> "i" | MsgEngine -> "e" | MsgOther s -> "?" ^ hx s
let pr_event (e : event) =
  Printf.sprintf "%s.%s.%s.%s.%s" (pr_kind e.e_kind) (decimal_of_n e.e_num) (hx e.e_app) (hx e.e_rel) (pr_msg e.e_msg)
let cmp_dec a b =
  let la = Stdlib.String.length a and lb = Stdlib.String.length b in
  if la <> lb then compare la lb else compare a b
let pr_pj = function
  | JMissing -> "M" | JGarbage -> "G"
  | JOk s ->
      let bad = List.sort cmp_dec (List.map decimal_of_n s.bad) in
      Printf.sprintf "%s/%s/%s/[%s]" (pr_ometa s.lb) (pr_ometa s.nb) (pr_ometa s.cb)
        (Stdlib.String.concat "," bad)
let pr_sj = function
  | JMissing -> "M" | JGarbage -> "G"
  | JOk s -> Printf.sprintf "%s/[%s]" (hx s.rel) (Stdlib.String.concat "," (List.map pr_event s.evq))
let pr_arts (d : disk) =
  let keys = Hashtbl.fold (fun k v acc -> (k, v) :: acc) universe [] in
  let keys = List.sort (fun (a, _) (b, _) -> cmp_dec a b) keys in
  let items = List.filter_map (fun (k, v) ->
      match d.arts v with
      | None -> None
      | Some ADir -> Some (k ^ ":D")
      | Some (AFile b) ->
          let s = ostring_of_bytes b in
          Some (Printf.sprintf "%s:F%d.%08x" k (Stdlib.String.length s) (fnv s))) keys in
  Stdlib.String.concat "," items
let pr_out = function
  | RBool b -> if b then "true" else "false"
  | RNum x -> decimal_of_n x
  | RPath None -> "null"
  | RPath (Some x) -> "path:" ^ decimal_of_n x
  | RUnit -> "unit"
  | RStatus z -> string_of_int (int_of_z z)
let pr_net = function
  | NEvent e -> "E:" ^ pr_event e
  | NCheck q -> Printf.sprintf "C:%s.%s.%s" (hx q.q_app) (hx q.q_chan) (hx q.q_rel)
  | NDownload u -> "D:" ^ hx u
let pr_line (o : out) (w : world) (l : netobs list) =
  let d = w.w_disk in
  Printf.sprintf "out=%s sj=%s pj=%s arts=%s junk=%d net=%s%s" (pr_out o) (pr_sj d.sj) (pr_pj d.pj)
    (pr_arts d) (if d.junk then 1 else 0) (Stdlib.String.concat ";" (List.map pr_net l)) (if !unrep then " UNREP" else "")

let pr_reading (tag : Stdlib.String.t) (name : Stdlib.String.t) (r : resp option) =
  match r with
  | None -> Printf.printf "%s:%s=err\n" tag name
  | Some r ->
      let p = (match r.r_patch with
          | None -> "-"
          | Some p -> Printf.sprintf "%s:%s:%s:%s" (decimal_of_n p.p_num) (hx p.p_hash) (hx p.p_url) (ohx p.p_sig)) in
      let rb = (match r.r_rb with
          | None -> "-" | Some [] -> "e"
          | Some l -> Stdlib.String.concat ";" (List.map decimal_of_n l)) in
      Printf.printf "%s:%s=a=%s p=%s rb=%s\n" tag name (if r.r_avail then "t" else "f") p rb

let rec nat_of_int i = if i <= 0 then O else S (nat_of_int (i - 1))
let analyse : [ `None | `Crash | `Fail ] ref = ref `None
let last_init : op option ref = ref None

let abs_state (d : disk) =
  Printf.sprintf "sj=%s pj=%s arts=%s junk=%d" (pr_sj d.sj) (pr_pj d.pj) (pr_arts d) (if d.junk then 1 else 0)

(* all functions universe -> {0,1,2} (entries outside the universe: 0) *)
let all_subs () : (n -> n) list =
  let keys = Hashtbl.fold (fun _ v acc -> v :: acc) universe [] in
  let rec go = function
    | [] -> [[]]
    | k :: r -> let rest = go r in
      List.concat_map (fun a -> List.map (fun t -> (k, a) :: t) rest) [0; 1; 2] in
  List.map (fun asg -> (fun (x : n) -> match List.assoc_opt x asg with Some v -> n_of_int v | None -> N0)) (go keys)

let recovery (d : disk) : Stdlib.String.t =
  match !last_init with
  | None -> "noinit"
  | Some io ->
      let sh = sha and so = sigok and zd = zdec and b = bytes_of_ostring !base_blob in
      let w0 = { w_disk = d; w_cfg = None } in
      let outs = ref [] in
      let wr = ref w0 in
      List.iter (fun o -> let ((w', x), _) = step sh so zd b !wr o in wr := w'; outs := pr_out x :: !outs)
        [io; ONextNum; ONextPath; OCurNum];
      Stdlib.String.concat "," (List.rev !outs) ^ " " ^ abs_state !wr.w_disk

let fault_analysis kind (w : world) (o : op) =
  let b = bytes_of_ostring !base_blob in
  let m = match o, w.w_cfg with
    | OInit (relv, y, _), None ->
        (match Model.cfg_of relv y with Some c -> Some (initM sha sigok c) | None -> None)
    | _, Some c -> Some (callM sha sigok zdec b c o)
    | _, None -> None in
  match m with
  | None -> ()
  | Some m ->
      let seen = Hashtbl.create 64 in
      let subs = all_subs () in
      let k = ref 0 in
      let go_on = ref true in
      while !go_on && !k < 90 do
        let reached = ref false in
        List.iter (fun sub ->
            let pl = (match kind with `Crash -> CrashAt (nat_of_int !k, sub) | _ -> FailAt (nat_of_int !k, sub)) in
            let (oc, d') = run_plan m pl w.w_disk in
            (match kind, oc with
             | `Crash, Died ->
                 reached := true;
                 let line = "CRASHSET " ^ abs_state d' ^ " || " ^ recovery d' in
                 if not (Hashtbl.mem seen line) then (Hashtbl.add seen line (); print_endline line)
             | `Crash, _ -> ()
             | _, _ ->
                 (* a FailAt plan beyond the last step behaves like NoFault: detect by comparing *)
                 let (_, dn) = run_plan m NoFault w.w_disk in
                 let line = "FAILSET " ^ abs_state d' in
                 if abs_state dn <> abs_state d' || !k < 60 then reached := true;
                 if not (Hashtbl.mem seen line) then (Hashtbl.add seen line (); print_endline line))) subs;
        (match kind with
         | `Crash -> if not !reached then go_on := false
         | _ -> if !k >= 50 then go_on := false);
        incr k
      done

let sched_ops : (int, op list) Hashtbl.t = Hashtbl.create 4
let tracing = ref false
let dls_on = ref false
let cur_dls = ref dls0
let pr_dls (l : dls) =
  let keys = Hashtbl.fold (fun k v acc -> (k, v) :: acc) universe [] in
  let keys = List.sort (fun (a, _) (b, _) -> cmp_dec a b) keys in
  let tag b = let s = ostring_of_bytes b in Printf.sprintf "F%d.%08x" (Stdlib.String.length s) (fnv s) in
  let items = List.concat_map (fun (k, v) ->
      (match l.dl_file v with None -> [] | Some b -> [k ^ ":" ^ tag b]) @
      (match l.dl_full v with None -> [] | Some (FBytes b) -> [k ^ "f:" ^ tag b] | Some FPartial -> [k ^ "f:?"])) keys in
  Stdlib.String.concat "," items

(* ---------- main loop: one file may contain many histories ---------- *)
let () =
  let w = ref world0 in
  let idx = ref 0 in
  let ic = if Array.length Sys.argv > 1 then open_in Sys.argv.(1) else stdin in
  (try
     while true do
       let line = input_line ic in
       let toks = List.filter (fun s -> s <> "") (split ' ' (Stdlib.String.trim line)) in
       match toks with
       | [] -> ()
       | t :: _ when t.[0] = '#' -> ()
       | ["history"; name] ->
           w := world0; idx := 0; cur_dls := dls0; unrep := false;
           Hashtbl.reset snaps_pj; Hashtbl.reset snaps_sj; Hashtbl.reset universe;
           Printf.printf "history %s\n" name
       | ["blob"; name; hex] -> Hashtbl.replace blobs name (if hex = "e" then "" else unhex_o hex)
       | ["zdec"; a; b] -> Hashtbl.replace zdec_tbl (blob_tok a) (blob_tok b)
       | ["sig"; k; m; s] -> add_sig (str_tok k) (str_tok m) (str_tok s)
       | ["b64"; t] ->
           (match b64_decode (cstring_of (str_tok t)) with
            | None -> Printf.printf "b64:%s=err\n" t
            | Some b -> Printf.printf "b64:%s=ok:%s\n" t (let o = ostring_of_bytes b in if o = "" then "e" else hex_o o))
       | ["base"; b] -> base_blob := blob_tok b
       | ["num"; n] -> ignore (num_tok n)
       | ["trace"; "on"] -> tracing := true
       | ["dls"; v] -> dls_on := (v = "on")
       | ["errnul"; _] | ["track"; _] -> ()
       | "faultspec" :: _ -> ()
       | "paths" :: _ -> ()
       | ["stall"; _] -> ()
       | ["rawfiles"; _] -> ()
       | t :: "op" :: rest when Stdlib.String.length t = 2 && t.[0] = 't' ->
           let i = Char.code t.[1] - 48 in
           let o = parse_op rest in
           let cur = try Hashtbl.find sched_ops i with Not_found -> [] in
           Hashtbl.replace sched_ops i (cur @ [o])
       | ["order"; ord] ->
           let order = List.map (fun x -> nat_of_int (int_of_string x))
               (List.filter (fun x -> x <> "") (split ',' ord)) in
           let nthreads = 1 + Hashtbl.fold (fun k _ m -> max k m) sched_ops (-1) in
           let ts = List.init nthreads (fun i -> mk_thread (try Hashtbl.find sched_ops i with Not_found -> [])) in
           Hashtbl.reset sched_ops;
           (match !w.w_cfg with
            | None -> print_endline "out=NOCFG"
            | Some c ->
                let ((ts', d'), l) = sched sha sigok zdec (bytes_of_ostring !base_blob) c ts !w.w_disk None order [] in
                let w' = { w_disk = d'; w_cfg = Some c } in
                w := w';
                incr idx;
                Hashtbl.replace snaps_pj !idx w'.w_disk.pj;
                Hashtbl.replace snaps_sj !idx w'.w_disk.sj;
                let outs = Stdlib.String.concat "|" (List.map (fun t ->
                    Stdlib.String.concat "," (List.map pr_out t.t_outs)) ts') in
                let net = List.sort compare (List.map pr_net l) in
                let d = w'.w_disk in
                Printf.printf "out=%s sj=%s pj=%s arts=%s junk=%d net=%s\n" outs (pr_sj d.sj) (pr_pj d.pj)
                  (pr_arts d) (if d.junk then 1 else 0) (Stdlib.String.concat ";" net))
       | ["crashop"] -> analyse := `Crash
       | ["failop"] -> analyse := `Fail
       | "op" :: (("cinit" | "initbadutf8" | "freenull" | "updatebadch" | "checkbadch") as k) :: rest ->
           (* C-level edge cases: the wrappers of c_api/mod.rs (CApi.cstep) with NULL / ill-formed UTF-8 arguments *)
           let b = bytes_of_ostring !base_blob in
           let cst c = let ((w', x), l) = cstep sha sigok zdec b !w c in (w := w'; (x, l)) in
           let pr_c = function
             | KBool v -> if v then "true" else "false"
             | KNum x -> decimal_of_n x
             | KPath None -> "null" | KPath (Some x) -> "path:" ^ decimal_of_n x
             | KUnit -> "unit"
             | KResult (z, m) -> string_of_int (int_of_z z) ^ (if m then "" else ":nomsg") in
           let cs_of c good = (match c with 'n' -> CNull | 'b' -> CBadUtf8 | _ -> CStr good) in
           let e = cstring_of "" in
           let (outs, l) = (match k, rest with
             | "cinit", [r; y; spec] ->
                 let yaml = (match parse_op ["init"; r; y; "t"] with OInit (_, yv, _) -> yv | _ -> YBad) in
                 let paths = (match spec.[4] with 'e' -> [] | c -> [cs_of c e]) in
                 let ps = if spec.[0] = 'n' then None
                   else Some { cp_rel = cs_of spec.[1] (cstring_of (str_tok r)); cp_storage = cs_of spec.[2] e;
                               cp_cache = cs_of spec.[3] e; cp_paths = paths } in
                 let c = CInit (ps, cs_of spec.[5] e, yaml) in
                 (match c with CInit _ -> last_init := Some (parse_op ["init"; r; y; (if spec = "oooooo" then "t" else "f")]) | _ -> ());
                 let (x, l) = cst c in (pr_c x, l)
             | "initbadutf8", [] ->
                 let y = YOk (cstring_of "x", None, None, None) in
                 let mk rel = Some { cp_rel = rel; cp_storage = CStr e; cp_cache = CStr e; cp_paths = [CStr e] } in
                 let (a, _) = cst (CInit (mk CBadUtf8, CStr e, y)) in
                 let (b', _) = cst (CInit (None, CStr e, y)) in
                 (pr_c a ^ "," ^ pr_c b', [])
             | "freenull", [] ->
                 let _ = cst (CFreeString true) in let (x, l) = cst (CFreeUpdateResult true) in (pr_c x, l)
             | "updatebadch", [] -> let (x, l) = cst (CUpdateWithResult (CBadUtf8, None, None)) in (pr_c x, l)
             | "checkbadch", [] -> let (x, l) = cst (CCheck (CBadUtf8, None)) in (pr_c x, l)
             | _ -> failwith ("bad C-level op: " ^ line)) in
           incr idx;
           Hashtbl.replace snaps_pj !idx !w.w_disk.pj;
           Hashtbl.replace snaps_sj !idx !w.w_disk.sj;
           let d = !w.w_disk in
           let line = Printf.sprintf "out=%s sj=%s pj=%s arts=%s junk=%d net=%s" outs (pr_sj d.sj) (pr_pj d.pj)
               (pr_arts d) (if d.junk then 1 else 0) (Stdlib.String.concat ";" (List.map pr_net l)) in
           print_endline (if !dls_on then line ^ " dls=" ^ pr_dls !cur_dls else line)
       | "op" :: rest ->
           (* the three result-less entry points of the C API are the same calls with the answer dropped:
              shorebird_update() / shorebird_start_update_thread() = update(None), shorebird_check_for_update() = check(None) *)
           let (rest, drop_out) = (match rest with
             | ("update0" | "updatet") :: r -> ("update" :: "-" :: r, true)
             | "check0" :: r -> ("check" :: "-" :: r, false)
             | _ -> (rest, false)) in
           let o = parse_op rest in
           (match o with OInit _ -> last_init := Some o | _ -> ());
           if !analyse <> `None then begin
             fault_analysis !analyse !w o;
             analyse := `None
           end;
           let acts = if !tracing then world_actions sha sigok zdec (bytes_of_ostring !base_blob) !w o else [] in
           let ((w', x), l) = step sha sigok zdec (bytes_of_ostring !base_blob) !w o in
           cur_dls := dl_step zdec (bytes_of_ostring !base_blob) !w o x l !cur_dls;
           let x = if drop_out then RUnit else x in
           w := w';
           incr idx;
           Hashtbl.replace snaps_pj !idx w'.w_disk.pj;
           Hashtbl.replace snaps_sj !idx w'.w_disk.sj;
           if !tracing then begin
             let tok = function AcqCfg -> ["A"] | RelCfg -> ["R"] | Net _ -> ["N"] | TryUpd true -> ["T1"]
                                | TryUpd false -> ["T0"] | RelUpd -> ["U"] | Spawn -> [] in
             let a = (match o with OKill | ODamage _ -> "-"
                                 | _ -> Stdlib.String.concat "," (List.concat_map tok acts)) in
             print_endline (pr_line x w' l ^ " act=" ^ a)
           end else if !dls_on then
           print_endline (pr_line x w' l ^ " dls=" ^ pr_dls !cur_dls)
           else
           print_endline (pr_line x w' l)
       | ["applypatch"; o; p] ->
           (match apply_patch (bytes_of_ostring (blob_tok o)) (bytes_of_ostring (blob_tok p)) with
            | None -> print_endline "apply=err"
            | Some b -> let s = ostring_of_bytes b in
              Printf.printf "apply=ok:%d.%s\n" (Stdlib.String.length s) (hex_o (sha256_o s)))
       | ["chunked"; spec; o; p] ->
           (* the Reader driven with the cyclic buffer-size schedule [spec], scratch buffer 4096 *)
           let sz = Array.of_list (List.map int_of_string (Stdlib.String.split_on_char ',' spec)) in
           let rec int_of_nat = function O -> 0 | S m -> 1 + int_of_nat m in
           let sizes (i : nat) = n_of_int sz.((int_of_nat i - 1) mod Array.length sz) in
           (match apply_patch_chunked (n_of_int 4096) sizes (bytes_of_ostring (blob_tok o)) (bytes_of_ostring (blob_tok p)) with
            | None -> Printf.printf "chunked:%s:%s=err\n" p spec
            | Some b -> let s = ostring_of_bytes b in
              Printf.printf "chunked:%s:%s=ok:%d.%s\n" p spec (Stdlib.String.length s) (hex_o (sha256_o s)))
       | ["sha"; b] -> print_endline ("sha=" ^ hex_o (sha256_o (blob_tok b)))
       | ["wfm"; o; nw; ms] ->
           let b = wf_matches (bytes_of_ostring (blob_tok o)) (bytes_of_ostring (blob_tok nw)) (parse_matches ms) in
           print_endline (if b then "wfm=true" else "wfm=false")
       | ["bsdiff"; o; nw; tbl] ->
           (* the model's scan loop with the real matcher's answers as the oracle table *)
           let t = Array.of_list (if tbl = "-" then [] else List.map (fun m -> match split '.' m with
               | [a; b] -> (n_of_decimal a, n_of_decimal b) | _ -> failwith "bad lsm") (split ',' tbl)) in
           let lsm (sc : n) = let i = int_of_string (decimal_of_n sc) in
             if i < Array.length t then t.(i) else (incr oracle_miss; (N0, N0)) in
           (match bsdiff (bytes_of_ostring (blob_tok o)) (bytes_of_ostring (blob_tok nw)) lsm with
            | Ok ms -> print_endline ("bsdiff=" ^ (if ms = [] then "-" else Stdlib.String.concat "," (List.map (fun m ->
                Printf.sprintf "%s.%s.%s.%s" (decimal_of_n m.add_old_start) (decimal_of_n m.add_new_start)
                  (decimal_of_n m.add_length) (decimal_of_n m.copy_end)) ms)))
            | Underflow -> print_endline "bsdiff=underflow"
            | OutOfFuel -> print_endline "bsdiff=outoffuel")
       | ["json"; name; tree] ->
           (* what the model reads from a response body whose JSON tree is [tree] (prefix encoding, tools/jsongen.py) *)
           let toks = ref (split ',' tree) in
           let next () = match !toks with t :: r -> toks := r; t | [] -> failwith "json: short" in
           let tl t = Stdlib.String.sub t 1 (Stdlib.String.length t - 1) in
           let rec node () : json =
             let t = next () in
             match t.[0] with
             | 'n' -> JNull | 't' -> JBool true | 'f' -> JBool false
             | 'i' -> JNum (JInt (false, n_of_decimal (tl t)))
             | 'm' -> JNum (JInt (true, n_of_decimal (tl t)))
             | 'd' -> JNum JFloat
             | 's' -> JStr (cstring_of (str_tok (if tl t = "" then "e" else tl t)))
             | 'a' -> let k = int_of_string (tl t) in JArr (List.init k (fun _ -> node ()))
             | 'o' -> let k = int_of_string (tl t) in
                 JObj (List.init k (fun _ ->
                     let kt = next () in
                     let key = cstring_of (str_tok (if tl kt = "" then "e" else tl kt)) in
                     let v = node () in (key, v)))
             | _ -> failwith ("json: bad token " ^ t) in
           let j = node () in
           pr_reading "json" name (resp_of_json j)
       | ["coqx"; kind; name; body] ->
           (* the same reading as a Coq term: tools write  Example x : <reader> <bytes> = <term>. Proof. vm_compute. reflexivity. Qed.
              and coqc decides whether the extracted code and the kernel agree on this input *)
           let b = if body = "e" then [] else bytes_of_ostring (unhex_o body) in
           let cn x = decimal_of_n x ^ "%N" in
           let cbytes (o : Stdlib.String.t) =
             "[" ^ Stdlib.String.concat "; " (List.init (Stdlib.String.length o) (fun i -> string_of_int (Char.code o.[i]) ^ "%N")) ^ "]" in
           let cs (x : string) = "(str_of " ^ cbytes (ostring_of x) ^ ")" in
           let copt f = function None -> "None" | Some x -> "(Some " ^ f x ^ ")" in
           let clist f l = "[" ^ Stdlib.String.concat "; " (List.map f l) ^ "]" in
           let cmeta (m : meta) = Printf.sprintf "{| m_num := %s; m_size := %s; m_hash := %s; m_sig := %s |}" (cn m.m_num) (cn m.m_size) (cs m.m_hash) (copt cs m.m_sig) in
           let cpatch (p : patch) = Printf.sprintf "{| p_num := %s; p_hash := %s; p_url := %s; p_sig := %s |}" (cn p.p_num) (cs p.p_hash) (cs p.p_url) (copt cs p.p_sig) in
           let ckind = function EvInstallSuccess -> "EvInstallSuccess" | EvInstallFailure -> "EvInstallFailure" | EvDownload -> "EvDownload" in
           let cmsg = function MsgNone -> "MsgNone" | MsgInit -> "MsgInit" | MsgEngine -> "MsgEngine" | MsgOther x -> "(MsgOther " ^ cs x ^ ")" in
           let cev (e : event) = Printf.sprintf "{| e_kind := %s; e_num := %s; e_app := %s; e_rel := %s; e_msg := %s |}" (ckind e.e_kind) (cn e.e_num) (cs e.e_app) (cs e.e_rel) (cmsg e.e_msg) in
           let cjf f = function JMissing -> "JMissing" | JGarbage -> "JGarbage" | JOk x -> "(JOk " ^ f x ^ ")" in
           let term = (match kind with
             | "resp" -> "resp_of_body " ^ cbytes (ostring_of_bytes b) ^ " = " ^
                         copt (fun (r : resp) -> Printf.sprintf "{| r_avail := %s; r_patch := %s; r_rb := %s |}" (if r.r_avail then "true" else "false") (copt cpatch r.r_patch) (copt (clist cn) r.r_rb)) (resp_of_body b)
             | "pj" -> "pj_of_file " ^ cbytes (ostring_of_bytes b) ^ " = " ^
                       cjf (fun (s : pstate) -> Printf.sprintf "{| lb := %s; nb := %s; cb := %s; bad := %s |}" (copt cmeta s.lb) (copt cmeta s.nb) (copt cmeta s.cb) (clist cn s.bad)) (pj_of_file b)
             | "sj" -> "sj_of_file " ^ cbytes (ostring_of_bytes b) ^ " = " ^
                       cjf (fun (s : sstate) -> Printf.sprintf "{| rel := %s; evq := %s |}" (cs s.rel) (clist cev s.evq)) (sj_of_file b)
             | "b64" -> "b64_decode " ^ cs (cstring_of (ostring_of_bytes b)) ^ " = " ^
                        copt (fun x -> cbytes (ostring_of_bytes x)) (b64_decode (cstring_of (ostring_of_bytes b)))
             | _ -> failwith "coqx kind") in
           Printf.printf "coqx:%s:%s\n" name term
       | ["canon"; kind; name; body] ->
           (* a state file the library wrote must be a fixed point of read-then-write: JsonWrite.w_pstate / w_fstate (the
              model of serde_json::to_writer_pretty) applied to what the model reads from it gives the same bytes *)
           let b = if body = "e" then [] else bytes_of_ostring (unhex_o body) in
           let (ok, want) = (match kind with
             | "pj" -> (pj_canonical b, (match pstate_of_body b with Some s -> ostring_of_bytes (w_pstate s) | None -> ""))
             | "sj" -> (sj_canonical b, (match fstate_of_body_n (nat_of_int_pre (List.length b)) b with
                                         | Some (r, q) -> ostring_of_bytes (w_fstate r q) | None -> ""))
             | _ -> failwith "canon kind") in
           if ok then Printf.printf "canon:%s=ok\n" name
           else Printf.printf "canon:%s=DIFF:%s\n" name (if want = "" then "e" else hex_o want)
       | ["jsonbody"; name; body] ->
           (* what the model reads from the BYTES of a response body (JsonText.resp_of_body: serde_json's strict reader
              at the struct's fields, its scanner at unknown keys, then the derived Deserialize) *)
           let b = if body = "e" then [] else bytes_of_ostring (unhex_o body) in
           pr_reading "jsonbody" name (resp_of_body b)
       | ["sdiff"; o; nw; ms] ->
           let p = simple_diff (bytes_of_ostring (blob_tok o)) (bytes_of_ostring (blob_tok nw)) (parse_matches ms) in
           let s = ostring_of_bytes p in
           Printf.printf "sdiff=%d.%s\n" (Stdlib.String.length s) (hex_o (sha256_o s))
       | ["varint"; "u"; x] ->
           let v = n_of_decimal x in
           (match dec_u (enc_u v) with
            | VOk (y, []) -> Printf.printf "varint=%s:%s\n" (hex_o (ostring_of_bytes (enc_u v))) (decimal_of_n y)
            | _ -> print_endline "varint=err")
       | _ -> failwith ("bad line: " ^ line)
     done
   with End_of_file -> ());
  if !oracle_miss > 0 then Printf.printf "ORACLE-MISS %d\n" !oracle_miss
