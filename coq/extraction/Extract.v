(* Extraction of the executable model.  ExtrOcamlBasic only: bool/option/unit/list/prod/sumbool
   map to OCaml's; N, positive, Z, nat, ascii, string stay the Coq inductives. *)
From Coq Require Extraction.
From Coq Require Import ExtrOcamlBasic.
From UV Require Import Base Codec Model Blocks Fault Bsdiff Downloads Json JsonText JsonState JsonSj JsonWrite CApi Signing.
Extraction "extraction/model.ml" Model.step Model.world0 Model.run Codec.apply_patch Codec.apply_patch_chunked Codec.simple_diff
  Codec.wf_matches Codec.enc_u Codec.dec_u Codec.enc_s Codec.dec_s Base.hex_of_bytes Base.unhex Blocks.sched Blocks.mk_thread Blocks.thread_done Blocks.thread_step Blocks.world_actions Fault.callM Fault.initM Fault.run_plan Bsdiff.bsdiff Downloads.dl_step Downloads.dls0 Json.resp_of_json JsonText.resp_of_body JsonState.pj_of_file JsonSj.sj_of_file JsonSj.sj_of_file_n JsonSj.fstate_of_body_n JsonState.pstate_of_body JsonWrite.pj_canonical JsonWrite.sj_canonical JsonWrite.w_pstate JsonWrite.w_fstate JsonText.parse_json CApi.cstep Signing.check_signature Signing.b64_decode.
