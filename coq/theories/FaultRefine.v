(* FaultRefine.v — with no fault injected, the monadic operations of Fault.v compute exactly the
   pure operations of Model.v (so the crash/fault theorems speak about the same model the lifecycle
   theorems and the correspondence runs are about). *)
From UV Require Import Base Codec Model PMLemmas Inv Fault.
Arguments N.eqb : simpl never.
Arguments N.ltb : simpl never.

(* m, run without faults from d, returns a and leaves d' (whatever the step counter) *)
Definition NF {A} (m : M A) (d : disk) (a : A) (d' : disk) : Prop :=
  forall c, exists c', m NoFault c d = (Ret a, c', d').
(* ... or fails logically (no I/O error is possible without faults) leaving d' *)
Definition NFerr {A} (m : M A) (d : disk) (d' : disk) : Prop :=
  forall c, exists c', m NoFault c d = (Err, c', d').

Lemma NF_ret {A} (a : A) d : NF (ret a) d a d.
Proof. intros c. exists c. reflexivity. Qed.

Lemma NF_get d : NF get d d d.
Proof. intros c. exists c. reflexivity. Qed.

Lemma NF_bind {A B} (m : M A) (f : A -> M B) d a d1 b d2 :
  NF m d a d1 -> NF (f a) d1 b d2 -> NF (bind m f) d b d2.
Proof.
  intros H1 H2 c. destruct (H1 c) as [c1 E1]. destruct (H2 c1) as [c2 E2].
  exists c2. unfold bind. rewrite E1. exact E2.
Qed.

Lemma NF_bind_err {A B} (m : M A) (f : A -> M B) d a d1 d2 :
  NF m d a d1 -> NFerr (f a) d1 d2 -> NFerr (bind m f) d d2.
Proof.
  intros H1 H2 c. destruct (H1 c) as [c1 E1]. destruct (H2 c1) as [c2 E2].
  exists c2. unfold bind. rewrite E1. exact E2.
Qed.

Lemma NF_ignore {A} (m : M A) d a d1 : NF m d a d1 -> NF (ignore_err m) d tt d1.
Proof. intros H c. destruct (H c) as [c1 E]. exists c1. unfold ignore_err. rewrite E. reflexivity. Qed.

Lemma NF_ignore_err {A} (m : M A) d d1 : NFerr m d d1 -> NF (ignore_err m) d tt d1.
Proof. intros H c. destruct (H c) as [c1 E]. exists c1. unfold ignore_err. rewrite E. reflexivity. Qed.

Lemma NF_attempt {A} (m : M A) d a d1 : NF m d a d1 -> NF (attempt m) d true d1.
Proof. intros H c. destruct (H c) as [c1 E]. exists c1. unfold attempt. rewrite E. reflexivity. Qed.

Lemma NF_attempt_err {A} (m : M A) d d1 : NFerr m d d1 -> NF (attempt m) d false d1.
Proof. intros H c. destruct (H c) as [c1 E]. exists c1. unfold attempt. rewrite E. reflexivity. Qed.

Lemma NF_mut f g d : NF (mut f g) d tt (f d).
Proof. intros c. exists (S c). reflexivity. Qed.

Lemma NF_mut_swallow f g d : NF (mut_swallow f g) d tt (f d).
Proof. intros c. exists (S c). reflexivity. Qed.

Lemma NF_rd d : NF rd d true d.
Proof. intros c. exists (S c). reflexivity. Qed.

Lemma NFerr_fail {A} d : NFerr (@fail A) d d.
Proof. intros c. exists c. reflexivity. Qed.

Lemma NF_write_pj s d : NF (write_pj s) d tt (save_p d s).
Proof.
  unfold write_pj. eapply NF_bind; [apply NF_mut|].
  replace (save_p d s) with (set_pj (set_pj d JGarbage) (JOk s)) by reflexivity. apply NF_mut_swallow.
Qed.

Lemma NF_write_sj s d : NF (write_sj s) d tt (set_sj d (JOk s)).
Proof.
  unfold write_sj. eapply NF_bind; [apply NF_mut|].
  replace (set_sj d (JOk s)) with (set_sj (set_sj d JGarbage) (JOk s)) by reflexivity. apply NF_mut_swallow.
Qed.

Lemma NF_touch f d : NF (touch f) d tt (f d).
Proof. intros c. exists c. reflexivity. Qed.

Lemma NF_rm_art n d : NF (rm_art n) d tt (del_art d n).
Proof.
  unfold rm_art. eapply NF_bind; [apply NF_get|].
  destruct (arts d n) as [[|b]|] eqn:E.
  - apply NF_mut.
  - eapply NF_bind; apply NF_mut.
  - apply NF_touch.
Qed.

Section Refine.
Variable sha : bytes -> bytes.
Variable sigok : string -> string -> string -> bool.
Variable zdec : bytes -> bytes.
Variable base : bytes.

Lemma NF_validate key m d : NF (validateM sha sigok key m) d (validate sha sigok key d m) d.
Proof.
  unfold validateM. eapply NF_bind; [apply NF_get|].
  destruct key as [k|]; [|apply NF_ret]. destruct (arts d (m_num m)) as [[|bb]|] eqn:Ea; try apply NF_ret.
  destruct (m_sig m) eqn:Es; [|apply NF_ret]. destruct (N.eqb (blen bb) (m_size m)) eqn:El.
  - eapply NF_bind; [apply NF_rd|]. cbn [andb]. apply NF_ret.
  - replace (validate sha sigok (Some k) d m) with false; [apply NF_ret|].
    unfold validate. rewrite Ea, El. reflexivity.
Qed.

Lemma NF_fall_back key s b d :
  NF (fall_backM sha sigok key s b) d (snd (fall_back sha sigok key d s b), true) (fst (fall_back sha sigok key d s b)).
Proof.
  unfold fall_backM, fall_back.
  eapply NF_bind; [eapply NF_ignore, NF_rm_art|].
  destruct (lb s) as [l|].
  - destruct (negb (N.eqb (m_num l) b)) eqn:En; cbn [andb].
    + eapply NF_bind; [apply NF_validate|].
      destruct (validate sha sigok key (del_art d b) l).
      * eapply NF_bind; [eapply NF_attempt, NF_write_pj|]. apply NF_ret.
      * eapply NF_bind; [eapply NF_ignore, NF_rm_art|].
        eapply NF_bind; [eapply NF_attempt, NF_write_pj|]. apply NF_ret.
    + eapply NF_bind; [apply NF_ret|]. cbn iota.
      eapply NF_bind; [eapply NF_ignore, NF_rm_art|].
      eapply NF_bind; [eapply NF_attempt, NF_write_pj|]. apply NF_ret.
  - eapply NF_bind; [eapply NF_attempt, NF_write_pj|]. apply NF_ret.
Qed.

Lemma NF_next_boot key s d :
  let '(d', s', r) := next_boot sha sigok key d s in NF (next_bootM sha sigok key s) d (s', r) d'.
Proof.
  unfold next_bootM, next_boot. destruct (nb s) as [m|]; [|apply NF_ret].
  destruct (validate sha sigok key d m) eqn:E.
  - eapply NF_bind; [apply NF_validate|]. rewrite E. apply NF_ret.
  - pose proof (NF_fall_back key s (m_num m) d) as H.
    destruct (fall_back sha sigok key d s (m_num m)) as [d1 s1]. cbn in H.
    eapply NF_bind; [apply NF_validate|]. rewrite E. eapply NF_bind; [exact H|]. apply NF_ret.
Qed.

Lemma NF_boot_failure key s n d :
  NF (boot_failureM sha sigok key s n) d (snd (boot_failure sha sigok key d s n), true) (fst (boot_failure sha sigok key d s n)).
Proof. unfold boot_failureM, boot_failure. apply NF_fall_back. Qed.

Lemma NF_add_patch s n b h sg d :
  NF (add_patchM s n b h sg) d (snd (add_patch d s n b h sg)) (fst (add_patch d s n b h sg)).
Proof.
  unfold add_patchM, add_patch. eapply NF_bind; [apply NF_get|].
  assert (Hm : forall d0, NF (atomic (fun _ => put_art d n b)) d0 tt (put_art d n b)) by (intros; apply NF_mut).
  assert (Rest : forall d0,
    NF (bind (atomic (fun _ => put_art d n b)) (fun _ =>
          bind (match nb s, lb s with
                | Some x, Some l =>
                    if negb (N.eqb (m_num l) (m_num x)) && negb (N.eqb (m_num x) n) && negb (numeq (cb s) (m_num x))
                    then ignore_err (rm_art (m_num x)) else ret tt
                | _, _ => ret tt
                end) (fun _ =>
          bind (write_pj {| lb := lb s; nb := Some {| m_num := n; m_size := blen b; m_hash := h; m_sig := sg |}; cb := cb s; bad := bad s |})
               (fun _ => ret {| lb := lb s; nb := Some {| m_num := n; m_size := blen b; m_hash := h; m_sig := sg |}; cb := cb s; bad := bad s |}))))
       d0
       (snd (add_patch d s n b h sg)) (fst (add_patch d s n b h sg))).
  { intros d0. unfold add_patch. eapply NF_bind; [apply Hm|].
    destruct (nb s) as [x|]; [destruct (lb s) as [l|]|].
    - destruct (negb (N.eqb (m_num l) (m_num x)) && negb (N.eqb (m_num x) n) && negb (numeq (cb s) (m_num x))).
      + eapply NF_bind; [eapply NF_ignore, NF_rm_art|]. eapply NF_bind; [apply NF_write_pj|]. apply NF_ret.
      + eapply NF_bind; [apply NF_ret|]. eapply NF_bind; [apply NF_write_pj|]. apply NF_ret.
    - eapply NF_bind; [apply NF_ret|]. eapply NF_bind; [apply NF_write_pj|]. apply NF_ret.
    - eapply NF_bind; [apply NF_ret|]. eapply NF_bind; [apply NF_write_pj|]. apply NF_ret. }
  destruct (arts d n).
  - eapply NF_bind; [apply NF_ret|]. apply Rest.
  - eapply NF_bind; [apply NF_mut|]. apply Rest.
Qed.

(* load: under the running release the disk is read as is; otherwise it is reset to the fresh disk *)
Lemma NF_create_new r d : NF (create_newM r) d tt (fresh_disk r).
Proof.
  unfold create_newM. eapply NF_bind; [apply NF_rd|].
  eapply NF_bind.
  { eapply NF_attempt. eapply NF_bind; [apply NF_write_pj|]. apply NF_mut. }
  cbn iota. eapply NF_ignore.
  replace (fresh_disk r) with
    (set_sj (set_junk (set_arts (save_p d pempty) (fun _ => None)) false) (JOk {| rel := r; evq := [] |})) by reflexivity.
  apply NF_write_sj.
Qed.

Lemma NF_load c d :
  NF (loadM c) d (load_s c (norm c d), load_p (norm c d)) (norm c d).
Proof.
  unfold loadM, norm. eapply NF_bind; [apply NF_rd|]. eapply NF_bind; [apply NF_get|]. cbn iota.
  destruct (sj d) as [| |s] eqn:E.
  - eapply NF_bind; [apply NF_create_new|]. apply NF_ret.
  - eapply NF_bind; [apply NF_create_new|]. apply NF_ret.
  - eapply NF_bind; [apply NF_rd|]. cbn iota. destruct (String.eqb (rel s) (c_rel c)) eqn:Er.
    + unfold load_s. rewrite E. apply NF_ret.
    + eapply NF_bind; [apply NF_create_new|]. apply NF_ret.
Qed.

Lemma NF_cs_next c d : NF (cs_nextM sha sigok c) d (snd (cs_next sha sigok c d)) (fst (cs_next sha sigok c d)).
Proof.
  unfold cs_nextM, cs_next. eapply NF_bind; [apply NF_load|]. cbn [snd].
  pose proof (NF_next_boot (c_key c) (load_p (norm c d)) (norm c d)) as H.
  destruct (next_boot sha sigok (c_key c) (norm c d) (load_p (norm c d))) as [[d1 s1] r].
  eapply NF_bind; [exact H|]. apply NF_ret.
Qed.

Lemma NF_cs_current c d : NF (cs_currentM c) d (snd (cs_current c d)) (fst (cs_current c d)).
Proof. unfold cs_currentM, cs_current. eapply NF_bind; [apply NF_load|]. apply NF_ret. Qed.

Lemma NF_cs_start c d : NF (cs_startM sha sigok c) d tt (cs_start sha sigok c d).
Proof.
  unfold cs_startM, cs_start. eapply NF_bind; [apply NF_load|]. cbn [snd].
  pose proof (NF_next_boot (c_key c) (load_p (norm c d)) (norm c d)) as H.
  destruct (next_boot sha sigok (c_key c) (norm c d) (load_p (norm c d))) as [[d1 s1] r].
  eapply NF_bind; [exact H|]. cbn [fst snd]. destruct r; [apply NF_write_pj|apply NF_ret].
Qed.

Lemma NF_cs_success c d : NF (cs_successM c) d (snd (cs_success c d)) (fst (cs_success c d)).
Proof.
  unfold cs_successM, cs_success. eapply NF_bind; [apply NF_load|]. cbn [snd].
  destruct (cb (load_p (norm c d))) as [b|] eqn:E; [|apply NF_ret].
  unfold boot_success. rewrite E. cbn [fst snd].
  eapply NF_bind; [unfold sweepM; eapply NF_ignore, NF_mut|].
  eapply NF_bind; [apply NF_write_pj|]. apply NF_ret.
Qed.


(* disk-only refinement for calls that may end in a (logical) error *)
Definition NFd {A} (m : M A) (d d' : disk) : Prop :=
  forall c, exists o c', m NoFault c d = (o, c', d') /\ o <> Died.

Lemma NF_NFd {A} (m : M A) d a d' : NF m d a d' -> NFd m d d'.
Proof. intros H c. destruct (H c) as [c' E]. exists (Ret a), c'. split; [exact E|discriminate]. Qed.
Lemma NFerr_NFd {A} (m : M A) d d' : NFerr m d d' -> NFd m d d'.
Proof. intros H c. destruct (H c) as [c' E]. exists Err, c'. split; [exact E|discriminate]. Qed.

Lemma NFd_bind {A B} (m : M A) (f : A -> M B) d a d1 d2 :
  NF m d a d1 -> NFd (f a) d1 d2 -> NFd (bind m f) d d2.
Proof.
  intros H1 H2 c. destruct (H1 c) as [c1 E1]. destruct (H2 c1) as (o & c2 & E2 & Ho).
  exists o, c2. unfold bind. rewrite E1. auto.
Qed.

Lemma NFd_ignore {A} (m : M A) d d' : NFd m d d' -> NF (ignore_err m) d tt d'.
Proof.
  intros H c. destruct (H c) as (o & c' & E & Ho). exists c'. unfold ignore_err. rewrite E.
  destruct o; congruence.
Qed.

Lemma load_s_sj c d1 d2 : sj d1 = sj d2 -> load_s c d1 = load_s c d2.
Proof. unfold load_s. intros ->. reflexivity. Qed.

Lemma NF_cs_failure c d : NFd (cs_failureM sha sigok c) d (fst (cs_failure sha sigok c d)).
Proof.
  unfold cs_failureM, cs_failure. eapply NFd_bind; [apply NF_load|]. cbn [fst snd].
  destruct (cb (load_p (norm c d))) as [b|]; [|apply NFerr_NFd, NFerr_fail].
  pose proof (NF_boot_failure (c_key c) (load_p (norm c d)) (m_num b) (norm c d)) as H.
  pose proof (boot_failure_sj sha sigok (c_key c) (norm c d) (load_p (norm c d)) (m_num b)) as Hs.
  destruct (boot_failure sha sigok (c_key c) (norm c d) (load_p (norm c d)) (m_num b)) as [d1 s1]. cbn [fst snd] in *.
  eapply NFd_bind; [eapply NF_ignore, H|]. apply NF_NFd with (a := tt).
  unfold queue_event. rewrite (load_s_sj c d1 (norm c d) Hs). apply NF_write_sj.
Qed.

Lemma NF_cs_init_recover c d : NFd (cs_init_recoverM sha sigok c) d (cs_init_recover sha sigok c d).
Proof.
  unfold cs_init_recoverM, cs_init_recover. eapply NFd_bind; [apply NF_load|]. cbn [fst snd].
  destruct (cb (load_p (norm c d))) as [b|]; [|apply NF_NFd with (a := tt), NF_ret].
  pose proof (NF_boot_failure (c_key c) (load_p (norm c d)) (m_num b) (norm c d)) as H.
  pose proof (boot_failure_sj sha sigok (c_key c) (norm c d) (load_p (norm c d)) (m_num b)) as Hs.
  destruct (boot_failure sha sigok (c_key c) (norm c d) (load_p (norm c d)) (m_num b)) as [d1 s1]. cbn [fst snd] in *.
  eapply NFd_bind; [exact H|]. cbn [snd]. apply NF_NFd with (a := tt).
  unfold queue_event. rewrite (load_s_sj c d1 (norm c d) Hs). apply NF_write_sj.
Qed.

Lemma NF_rollback_loop key l : forall s d,
  NF (rollback_loopM sha sigok key s l) d (snd (rollback_loop sha sigok key d s l)) (fst (rollback_loop sha sigok key d s l)).
Proof.
  induction l as [|n l IH]; intros s d; cbn [rollback_loopM rollback_loop]; [apply NF_ret|].
  pose proof (NF_fall_back key s n d) as H.
  destruct (fall_back sha sigok key d s n) as [d1 s1]. cbn [fst snd] in *.
  eapply NF_bind; [exact H|]. cbn [fst snd]. apply IH.
Qed.

Lemma NF_cs_rollback c l d : NF (cs_rollbackM sha sigok c l) d tt (cs_rollback sha sigok c d l).
Proof.
  unfold cs_rollbackM, cs_rollback. eapply NF_bind; [apply NF_load|]. cbn [snd].
  eapply NF_bind; [apply NF_rollback_loop|]. apply NF_ret.
Qed.

Lemma NF_cs_is_bad c n d : NF (cs_is_badM c n) d (snd (cs_is_bad c d n)) (fst (cs_is_bad c d n)).
Proof. unfold cs_is_badM, cs_is_bad. eapply NF_bind; [apply NF_load|]. apply NF_ret. Qed.

Lemma NF_cs_copy c d : NF (cs_copy_eventsM c) d (snd (cs_copy_events c d)) (fst (cs_copy_events c d)).
Proof. unfold cs_copy_eventsM, cs_copy_events. eapply NF_bind; [apply NF_load|]. apply NF_ret. Qed.

Lemma NF_cs_clear c d : NF (cs_clear_eventsM c) d tt (cs_clear_events c d).
Proof.
  unfold cs_clear_eventsM, cs_clear_events. eapply NF_bind; [apply NF_load|]. cbn [fst].
  eapply NF_ignore. apply NF_write_sj.
Qed.

Lemma NF_cs_install c p b d : NF (cs_installM c p b) d (snd (cs_install c d p b)) (fst (cs_install c d p b)).
Proof.
  unfold cs_installM, cs_install. eapply NF_bind; [apply NF_load|]. cbn [snd].
  destruct (inb (p_num p) (bad (load_p (norm c d)))); [apply NF_ret|].
  pose proof (NF_add_patch (load_p (norm c d)) (p_num p) b (p_hash p) (p_sig p) (norm c d)) as H.
  destruct (add_patch (norm c d) (load_p (norm c d)) (p_num p) b (p_hash p) (p_sig p)) as [d1 s1]. cbn [fst snd] in *.
  eapply NF_bind; [exact H|]. apply NF_ret.
Qed.

Lemma NF_should_install c n d :
  NF (should_installM sha sigok c n) d (snd (should_install sha sigok c d n)) (fst (should_install sha sigok c d n)).
Proof.
  unfold should_installM, should_install.
  pose proof (NF_cs_is_bad c n d) as H1. destruct (cs_is_bad c d n) as [d1 b]. cbn [fst snd] in *.
  eapply NF_bind; [exact H1|]. destruct b; [apply NF_ret|].
  pose proof (NF_cs_next c d1) as H2. destruct (cs_next sha sigok c d1) as [d2 r]. cbn [fst snd] in *.
  eapply NF_bind; [exact H2|]. destruct r as [k|]; [destruct (N.eqb k n)|]; apply NF_ret.
Qed.

Lemma NF_do_check c ch r d : NFd (do_checkM sha sigok c r) d (fst (fst (do_check sha sigok c d ch r))).
Proof.
  unfold do_checkM, do_check. destruct r as [rs|]; [|apply NFerr_NFd, NFerr_fail].
  destruct (r_rb rs) as [l|].
  - eapply NFd_bind; [apply NF_cs_rollback|].
    destruct (r_patch rs) as [p|]; [|apply NF_NFd with (a := false), NF_ret].
    pose proof (NF_should_install c (p_num p) (cs_rollback sha sigok c d l)) as H.
    destruct (should_install sha sigok c (cs_rollback sha sigok c d l) (p_num p)) as [d2 sh]. cbn [fst snd] in *.
    eapply NFd_bind; [exact H|]. eapply NF_NFd, NF_ret.
  - eapply NFd_bind; [apply NF_ret|].
    destruct (r_patch rs) as [p|]; [|apply NF_NFd with (a := false), NF_ret].
    pose proof (NF_should_install c (p_num p) d) as H.
    destruct (should_install sha sigok c d (p_num p)) as [d2 sh]. cbn [fst snd] in *.
    eapply NFd_bind; [exact H|]. eapply NF_NFd, NF_ret.
Qed.

Lemma NFerr_bind {A B} (m : M A) (f : A -> M B) d d1 : NFerr m d d1 -> NFerr (bind m f) d d1.
Proof. intros H c. destruct (H c) as [c1 E]. exists c1. unfold bind. rewrite E. reflexivity. Qed.

(* the download directory without faults: <n>.full holds the inflated bytes, the disk is untouched *)
Lemma NF_dstep d : NF dstep d tt d.
Proof. unfold dstep. apply NF_mut. Qed.

Lemma NF_download_some bdl out d : inflate zdec base bdl = Some out -> NF (downloadM zdec base bdl) d out d.
Proof.
  intros E. unfold downloadM. rewrite E.
  eapply NF_bind; [apply NF_dstep|]. eapply NF_bind; [apply NF_dstep|].
  eapply NF_bind; [apply NF_dstep|]. eapply NF_bind; [apply NF_dstep|].
  eapply NF_bind. { instantiate (1 := d). instantiate (1 := tt). destruct (8192 <=? blen out); [apply NF_dstep|apply NF_ret]. }
  eapply NF_bind; [apply NF_rd|]. cbn iota. apply NF_ret.
Qed.

Lemma NF_download_none bdl d : inflate zdec base bdl = None -> NFerr (downloadM zdec base bdl) d d.
Proof.
  intros E. unfold downloadM. rewrite E.
  eapply NF_bind_err; [apply NF_dstep|]. eapply NF_bind_err; [apply NF_dstep|].
  eapply NF_bind_err; [apply NF_dstep|]. eapply NF_bind_err; [apply NF_dstep|]. apply NFerr_fail.
Qed.

Lemma NF_do_update c ch r dl d :
  NFd (do_updateM sha sigok zdec base c r dl) d (fst (fst (do_update sha sigok zdec base c d ch r dl))).
Proof.
  unfold do_updateM, do_update.
  pose proof (NF_cs_copy c d) as H0. destruct (cs_copy_events c d) as [d0 evs]. cbn [fst snd] in *.
  eapply NFd_bind; [exact H0|]. eapply NFd_bind; [apply NF_cs_clear|].
  destruct r as [rs|]; [|apply NFerr_NFd, NFerr_fail].
  assert (Rest : forall d2,
    NFd (if negb (r_avail rs) then ret UNoUpdate
         else match r_patch rs with
              | None => fail
              | Some p =>
                  sh <- should_installM sha sigok c (p_num p);;
                  match sh with
                  | ShBad => ret UBadPatch
                  | ShAlready => ret UNoUpdate
                  | ShOk => match dl with
                            | None => fail
                            | Some bdl => fileb <- downloadM zdec base bdl ;;
                                          if hash_ok sha fileb (p_hash p) then cs_installM c p fileb else fail
                            end
                  end
              end) d2
        (fst (fst (if negb (r_avail rs) then (d2, UNoUpdate, map NEvent evs ++ [NCheck (mk_request c ch)])
                   else match r_patch rs with
                        | None => (d2, UError, map NEvent evs ++ [NCheck (mk_request c ch)])
                        | Some p =>
                            let '(d3, sh) := should_install sha sigok c d2 (p_num p) in
                            match sh with
                            | ShBad => (d3, UBadPatch, map NEvent evs ++ [NCheck (mk_request c ch)])
                            | ShAlready => (d3, UNoUpdate, map NEvent evs ++ [NCheck (mk_request c ch)])
                            | ShOk =>
                                let log := (map NEvent evs ++ [NCheck (mk_request c ch)]) ++ [NDownload (p_url p)] in
                                match dl with
                                | None => (d3, UError, log)
                                | Some bytes_dl =>
                                    match inflate zdec base bytes_dl with
                                    | None => (d3, UError, log)
                                    | Some out =>
                                        if hash_ok sha out (p_hash p)
                                        then let '(d4, st) := cs_install c d3 p out in
                                             (d4, st, match st with
                                                      | UInstalled => log ++ [NEvent (mk_event c EvDownload (p_num p) MsgNone)]
                                                      | _ => log end)
                                        else (d3, UError, log)
                                    end
                                end
                            end
                        end)))).
  { intros d2. destruct (negb (r_avail rs)); [eapply NF_NFd, NF_ret|].
    destruct (r_patch rs) as [p|]; [|apply NFerr_NFd, NFerr_fail].
    pose proof (NF_should_install c (p_num p) d2) as H.
    destruct (should_install sha sigok c d2 (p_num p)) as [d3 sh]. cbn [fst snd] in *.
    eapply NFd_bind; [exact H|].
    destruct sh; try (eapply NF_NFd, NF_ret).
    destruct dl as [bdl|]; [|apply NFerr_NFd, NFerr_fail].
    destruct (inflate zdec base bdl) as [out|] eqn:Einf.
    2:{ apply NFerr_NFd, NFerr_bind, NF_download_none. exact Einf. }
    eapply NFd_bind; [apply NF_download_some; exact Einf|].
    destruct (hash_ok sha out (p_hash p)); [|apply NFerr_NFd, NFerr_fail].
    pose proof (NF_cs_install c p out d3) as H4.
    destruct (cs_install c d3 p out) as [d4 st]. cbn [fst snd] in *. eapply NF_NFd. exact H4. }
  destruct (r_rb rs) as [l|].
  - eapply NFd_bind; [apply NF_cs_rollback|]. apply Rest.
  - eapply NFd_bind; [apply NF_ret|]. apply Rest.
Qed.

Definition NFany {A} (m : M A) (d d' : disk) : Prop :=
  forall c, exists a c', m NoFault c d = (Ret a, c', d').

Lemma NFd_attempt {A} (m : M A) d d' : NFd m d d' -> NFany (attempt m) d d'.
Proof.
  intros H c. destruct (H c) as (o & c' & E & Ho). unfold attempt. rewrite E.
  destruct o; [exists true|exists false|congruence]; exists c'; reflexivity.
Qed.

Lemma NFany_bind {A B} (m : M A) (f : A -> M B) d d1 d2 :
  NFany m d d1 -> (forall a, NFd (f a) d1 d2) -> NFd (bind m f) d d2.
Proof.
  intros H1 H2 c. destruct (H1 c) as (a & c1 & E1). destruct (H2 a c1) as (o & c2 & E2 & Ho).
  exists o, c2. unfold bind. rewrite E1. auto.
Qed.

(* the whole call: without faults the monadic call leaves exactly the disk the pure step leaves *)
Theorem call_refines c o d :
  (forall r y p, o <> OInit r y p) -> o <> OKill -> (forall g, o <> ODamage g) ->
  NFd (callM sha sigok zdec base c o) d
      (w_disk (fst (fst (step sha sigok zdec base {| w_disk := d; w_cfg := Some c |} o)))).
Proof.
  intros Hi Hk Hd. unfold callM. destruct o; cbn [step w_cfg w_disk];
    try (exfalso; eapply Hi; reflexivity); try (exfalso; apply Hk; reflexivity);
    try (exfalso; eapply Hd; reflexivity).
  - pose proof (NF_cs_next c d) as H. destruct (cs_next sha sigok c d) as [d1 r]. cbn [fst snd w_disk] in *.
    eapply NFd_bind; [exact H|]. eapply NF_NFd, NF_ret.
  - pose proof (NF_cs_next c d) as H. destruct (cs_next sha sigok c d) as [d1 r]. cbn [fst snd w_disk] in *.
    eapply NFd_bind; [exact H|]. eapply NF_NFd, NF_ret.
  - pose proof (NF_cs_current c d) as H. destruct (cs_current c d) as [d1 r]. cbn [fst snd w_disk] in *.
    eapply NFd_bind; [exact H|]. eapply NF_NFd, NF_ret.
  - cbn [fst snd w_disk]. eapply NFd_bind; [eapply NF_ignore, NF_cs_start|]. eapply NF_NFd, NF_ret.
  - pose proof (NF_cs_success c d) as H. destruct (cs_success c d) as [d1 l]. cbn [fst snd w_disk] in *.
    eapply NFd_bind; [eapply NF_ignore, H|]. eapply NF_NFd, NF_ret.
  - pose proof (NF_cs_failure c d) as H. destruct (cs_failure sha sigok c d) as [d1 l]. cbn [fst snd w_disk] in *.
    eapply NFd_bind; [eapply NFd_ignore, H|]. eapply NF_NFd, NF_ret.
  - cbn [fst snd w_disk]. eapply NF_NFd, NF_ret.
  - pose proof (NF_do_check c ch r d) as H. destruct (do_check sha sigok c d ch r) as [[d1 b] l]. cbn [fst snd w_disk] in *.
    eapply NFany_bind; [eapply NFd_attempt, H|]. intros a. eapply NF_NFd, NF_ret.
  - pose proof (NF_do_update c ch r dl d) as H. destruct (do_update sha sigok zdec base c d ch r dl) as [[d1 u] l]. cbn [fst snd w_disk] in *.
    eapply NFany_bind; [eapply NFd_attempt, H|]. intros a. eapply NF_NFd, NF_ret.
Qed.

(* and the first call of a process *)
Theorem init_refines c d :
  NFd (initM sha sigok c) d (cs_init_recover sha sigok c d).
Proof.
  unfold initM. eapply NFany_bind; [eapply NFd_attempt, NF_cs_init_recover|]. intros a. eapply NF_NFd, NF_ret.
Qed.

End Refine.
