(* Frames4.v — install selects (C09), already-installed offers (C09), rollbacks stick (C10),
   current patch (C18). *)
From UV Require Import Base Codec Model PMLemmas Inv Ban Handout Calls Frame Frames2 Frames3.
Arguments N.eqb : simpl never.
Arguments N.ltb : simpl never.

Section Frames4.
Variable sha : bytes -> bytes.
Variable sigok : string -> string -> string -> bool.
Variable zdec : bytes -> bytes.
Variable base : bytes.

Notation validate := (validate sha sigok).
Notation next_boot := (next_boot sha sigok).
Notation rollback_loop := (rollback_loop sha sigok).
Notation cs_next := (cs_next sha sigok).
Notation cs_start := (cs_start sha sigok).
Notation cs_failure := (cs_failure sha sigok).
Notation cs_init_recover := (cs_init_recover sha sigok).
Notation cs_rollback := (cs_rollback sha sigok).
Notation should_install := (should_install sha sigok).
Notation do_check := (do_check sha sigok).
Notation do_update := (do_update sha sigok zdec base).
Notation step := (step sha sigok zdec base).
Notation stepw := (stepw sha sigok zdec base).
Notation final := (final sha sigok zdec base).
Notation along := (along sha sigok zdec base).
Notation inflate := (inflate zdec base).
Notation hash_ok := (hash_ok sha).
Notation SelD := (SelD sha sigok).
Notation Isame := Frame.Isame.

(* ---------- C09: an install selects the patch ---------- *)
Definition sig_verifies (c : cfg) (p : patch) (out : bytes) : Prop :=
  forall k, c_key c = Some k ->
            exists s, p_sig p = Some s /\ sigok k (hex_of_bytes (sha out)) s = true.

Theorem install_selects c d ch r dl d' log :
  stable (c_rel c) d ->
  do_update c d ch r dl = (d', UInstalled, log) ->
  exists rs p bdl out,
    r = Some rs /\ r_patch rs = Some p /\ dl = Some bdl /\ inflate bdl = Some out /\
    nb (load_p d') = Some (new_meta p out) /\
    (sig_verifies c p out -> cs_next c d' = (d', Some (p_num p))).
Proof.
  intros S H.
  destruct (installed_only_if_verified sha sigok zdec base c d ch r dl d' log H)
    as (rs & p & bdl & out & H1 & H2 & H3 & H4 & H5 & H6 & H7 & H8).
  exists rs, p, bdl, out. repeat split; auto.
  intros Hs.
  assert (S' : stable (c_rel c) d').
  { pose proof (do_update_BM sha sigok zdec base c d ch r dl S) as B. rewrite H in B. exact (proj1 B). }
  unfold Model.cs_next. rewrite (norm_id c d' S').
  assert (V : validate (c_key c) d' (new_meta p out) = true).
  { unfold Model.validate. cbn [m_num new_meta]. rewrite H8. cbn [m_size new_meta]. rewrite N.eqb_refl. cbn.
    destruct (c_key c) as [k|] eqn:Ek; auto. destruct (Hs k Ek) as [s [E1 E2]].
    cbn [m_sig]. rewrite E1. exact E2. }
  rewrite (next_boot_valid sha sigok (c_key c) d' (load_p d') (new_meta p out) H7 V). reflexivity.
Qed.

(* offering the selected number again: "no update", nothing is downloaded *)
Theorem already_installed c d ch rs p dl m :
  stable (c_rel c) d -> SelD SNB (c_key c) d m -> ~ In (m_num m) (bad (load_p d)) ->
  r_avail rs = true -> r_patch rs = Some p -> p_num p = m_num m -> not_listed (m_num m) rs ->
  snd (fst (do_update c d ch (Some rs) dl)) = UNoUpdate /\
  no_download (snd (do_update c d ch (Some rs) dl)) /\
  SelD SNB (c_key c) (fst (fst (do_update c d ch (Some rs) dl))) m.
Proof.
  intros S H Hb Ea Ep En Hl. unfold Model.do_update. cbn [cs_copy_events]. rewrite (norm_id c d S).
  rewrite Ea, Ep. cbn [negb].
  set (d1 := cs_clear_events c d).
  assert (S1 : stable (c_rel c) d1) by (apply (cs_clear_events_BM c d S)).
  assert (H1 : SelD SNB (c_key c) d1 m) by (apply cs_clear_events_SelD; auto).
  assert (B1 : bad (load_p d1) = bad (load_p d)).
  { unfold d1, Model.cs_clear_events. rewrite (norm_id c d S). reflexivity. }
  set (d2 := match r_rb rs with Some l => cs_rollback c d1 l | None => d1 end).
  unfold not_listed in Hl.
  assert (H2 : stable (c_rel c) d2 /\ SelD SNB (c_key c) d2 m /\ bad (load_p d2) = bad (load_p d)).
  { unfold d2. destruct (r_rb rs) as [l|]; [|auto].
    split; [apply (cs_rollback_BM sha sigok c d1 l S1)|].
    split; [apply cs_rollback_SelD; auto|].
    rewrite (cs_rollback_bad sha sigok c d1 l), (norm_id c d1 S1). exact B1. }
  destruct H2 as (S2 & H2 & B2).
  unfold Model.should_install. cbn [cs_is_bad]. rewrite (norm_id c d2 S2).
  assert (Eb : inb (p_num p) (bad (load_p d2)) = false).
  { rewrite B2, En. destruct (inb (m_num m) (bad (load_p d))) eqn:E; auto. apply inb_In in E. contradiction. }
  rewrite Eb. rewrite (cs_next_NB_unchanged sha sigok c d2 m S2 H2). rewrite En, N.eqb_refl.
  cbn [fst snd]. split; [reflexivity|]. split; [apply no_download_events|exact H2].
Qed.

(* ---------- C10: rolled-back numbers are gone and stay gone ---------- *)
Definition gone_undisturbed (x : N) (w : world) (o : op) : Prop :=
  match o with
  | OUpdate _ r _ => snd (fst (step w o)) = RStatus 1 -> ~ installs r x
  | ODamage (DSetArt n _) => n <> x
  | ODamage (DSetPj _) => False
  | _ => True
  end.

Local Opaque Model.cs_next Model.cs_start Model.cs_success Model.cs_failure Model.cs_init_recover
      Model.cs_rollback Model.should_install Model.cs_install Model.cs_copy_events
      Model.cs_clear_events Model.inflate Model.hash_ok Model.do_check Model.do_update
      Model.cs_current.

Lemma cs_current_goneD c d x : goneD d x -> goneD (fst (cs_current c d)) x.
Proof.
  Local Transparent Model.cs_current. intros H. unfold Model.cs_current. cbn. apply goneD_norm, H.
  Local Opaque Model.cs_current.
Qed.

Theorem gone_frame w o x :
  goneD (w_disk w) x -> gone_undisturbed x w o -> goneD (w_disk (stepw w o)) x.
Proof.
  intros H Hu. unfold Frames3.stepw. destruct w as [d cf]. cbn [w_disk] in *.
  destruct o as [relv y pk| | | | | | | | |ch rr|ch rr dl|g]; cbn.
  - destruct (cfg_of relv y) as [c|]; cbn; auto. destruct pk; cbn; auto.
    destruct cf; cbn; auto. apply cs_init_recover_goneD; auto.
  - exact H.
  - destruct cf as [c|]; cbn; auto.
    pose proof (cs_next_goneD sha sigok c d x H) as H1. destruct (cs_next c d). exact H1.
  - destruct cf as [c|]; cbn; auto.
    pose proof (cs_next_goneD sha sigok c d x H) as H1. destruct (cs_next c d). exact H1.
  - destruct cf as [c|]; cbn; auto.
    pose proof (cs_current_goneD c d x H) as H1. destruct (cs_current c d). exact H1.
  - destruct cf as [c|]; cbn; auto. apply cs_start_goneD; auto.
  - destruct cf as [c|]; cbn; auto.
    pose proof (cs_success_goneD c d x H) as H1. destruct (Model.cs_success c d). exact H1.
  - destruct cf as [c|]; cbn; auto.
    pose proof (cs_failure_goneD sha sigok c d x H) as H1. destruct (cs_failure c d). exact H1.
  - destruct cf as [c|]; cbn; auto.
  - destruct cf as [c|]; cbn; auto.
    pose proof (do_check_goneD sha sigok c d ch rr x H) as H1.
    destruct (do_check c d ch rr) as [[? ?] ?]. exact H1.
  - destruct cf as [c|]; cbn; auto. cbn in Hu.
    pose proof (do_update_goneD_aux sha sigok zdec base c d ch rr dl x (or_introl H)) as H1.
    destruct (do_update c d ch rr dl) as [[d1 u] l1]. cbn in *. apply H1.
    intros ->. apply Hu. reflexivity.
  - destruct g; cbn in *; try contradiction.
    + destruct (arts d n) eqn:E; auto. destruct H as [Ha Hn]. split; auto. cbn.
      unfold upd_art. destruct (N.eqb_spec x n); [subst; congruence|exact Ha].
    + destruct H as [Ha Hn]. split; auto. cbn. unfold upd_art. destruct (N.eqb x n); auto.
    + destruct H as [Ha Hn]. split; auto. cbn. rewrite upd_art_other; auto.
    + exact H.
    + exact H.
Qed.

Theorem rollback_now_check c d ch rs l x :
  r_rb rs = Some l -> In x l -> goneD (fst (fst (do_check c d ch (Some rs)))) x.
Proof. apply do_check_makes_goneD. Qed.

Theorem rollback_now_update c d ch rs dl l x :
  r_rb rs = Some l -> In x l ->
  (snd (fst (do_update c d ch (Some rs) dl)) = UInstalled -> ~ installs (Some rs) x) ->
  goneD (fst (fst (do_update c d ch (Some rs) dl))) x.
Proof.
  intros El Hin Hx. apply do_update_goneD_aux; auto. right. exists rs, l. auto.
Qed.

Theorem gone_persists x ops : forall w,
  goneD (w_disk w) x -> along (gone_undisturbed x) w ops -> goneD (w_disk (final w ops)) x.
Proof.
  intros w H HA.
  apply (along_inv sha sigok zdec base (fun w => goneD (w_disk w) x) (gone_undisturbed x)); auto.
  intros w0 o Hq Hp. apply gone_frame; auto.
Qed.

(* a gone number is never reported *)
Theorem gone_not_reported c d x : goneD d x -> snd (cs_next c d) <> Some x.
Proof.
  intros H E. pose proof (cs_next_goneD sha sigok c d x H) as [Ha _].
  destruct (cs_next c d) as [d1 r] eqn:E1. cbn in *. subst r.
  destruct (cs_next_intact sha sigok c d d1 x E1) as (m & b & _ & _ & A & _). congruence.
Qed.

(* ---------- C18: the current patch ---------- *)
Local Transparent Model.cs_next Model.cs_rollback Model.should_install Model.cs_clear_events
      Model.cs_install Model.cs_copy_events.

Definition cbD (d : disk) : option meta := cb (load_p d).

Lemma cs_next_cb c d : stable (c_rel c) d -> cbD (fst (cs_next c d)) = cbD d.
Proof.
  intros S. unfold Model.cs_next, cbD. rewrite (norm_id c d S).
  pose proof (next_boot_cb sha sigok (c_key c) d (load_p d)) as H.
  destruct (next_boot (c_key c) d (load_p d)) as [[d1 s1] r] eqn:E. cbn in *.
  rewrite (next_boot_load _ _ _ _ _ _ _ E). exact H.
Qed.

Lemma cs_rollback_cb c d l : stable (c_rel c) d -> cbD (cs_rollback c d l) = cbD d.
Proof.
  intros S. unfold Model.cs_rollback, cbD. rewrite (norm_id c d S).
  destruct l as [|x l]; auto. rewrite rollback_loop_load by discriminate. apply rollback_loop_cb.
Qed.

Lemma should_install_cb c d n : stable (c_rel c) d -> cbD (fst (should_install c d n)) = cbD d.
Proof.
  intros S. unfold Model.should_install. cbn. rewrite (norm_id c d S).
  destruct (inb n (bad (load_p d))); cbn; auto.
  pose proof (cs_next_cb c d S) as H1. destruct (cs_next c d) as [d2 r]. cbn in *.
  destruct r as [k|]; [destruct (N.eqb k n)|]; exact H1.
Qed.

Lemma cs_clear_events_cb c d : stable (c_rel c) d -> cbD (cs_clear_events c d) = cbD d.
Proof. intros S. unfold Model.cs_clear_events. rewrite (norm_id c d S). reflexivity. Qed.

Lemma cs_install_cb c d p out : stable (c_rel c) d -> cbD (fst (cs_install c d p out)) = cbD d.
Proof.
  intros S. unfold Model.cs_install. rewrite (norm_id c d S).
  destruct (inb (p_num p) (bad (load_p d))); cbn; auto.
Qed.

Local Opaque Model.cs_next Model.cs_rollback Model.should_install Model.cs_clear_events
      Model.cs_install.

Local Transparent Model.do_check Model.do_update.

Lemma do_check_cb c d ch r : stable (c_rel c) d -> cbD (fst (fst (do_check c d ch r))) = cbD d.
Proof.
  intros S. unfold Model.do_check. destruct r as [rs|]; cbn [fst]; auto.
  set (d1 := match r_rb rs with Some l => cs_rollback c d l | None => d end).
  assert (H1 : stable (c_rel c) d1 /\ cbD d1 = cbD d).
  { unfold d1. destruct (r_rb rs) as [l|]; [|auto].
    split; [apply (cs_rollback_BM sha sigok c d l S)|apply cs_rollback_cb; auto]. }
  destruct H1 as [S1 H1]. destruct (r_patch rs) as [p|]; cbn [fst]; auto.
  pose proof (should_install_cb c d1 (p_num p) S1) as H2.
  destruct (should_install c d1 (p_num p)). cbn in *. congruence.
Qed.

Lemma do_update_cb c d ch r dl : stable (c_rel c) d -> cbD (fst (fst (do_update c d ch r dl))) = cbD d.
Proof.
  intros S. unfold Model.do_update. cbn [cs_copy_events]. rewrite (norm_id c d S).
  set (d1 := cs_clear_events c d).
  assert (S1 : stable (c_rel c) d1) by (apply (cs_clear_events_BM c d S)).
  assert (H1 : cbD d1 = cbD d) by (apply cs_clear_events_cb; auto).
  destruct r as [rs|]; cbn [fst]; auto.
  set (d2 := match r_rb rs with Some l => cs_rollback c d1 l | None => d1 end).
  assert (H2 : stable (c_rel c) d2 /\ cbD d2 = cbD d).
  { unfold d2. destruct (r_rb rs) as [l|]; [|auto].
    split; [apply (cs_rollback_BM sha sigok c d1 l S1)|rewrite cs_rollback_cb; auto]. }
  destruct H2 as [S2 H2].
  destruct (negb (r_avail rs)); cbn [fst]; auto.
  destruct (r_patch rs) as [p|]; cbn [fst]; auto.
  pose proof (should_install_cb c d2 (p_num p) S2) as H3.
  pose proof (should_install_BM sha sigok c d2 (p_num p) S2) as B3.
  destruct (should_install c d2 (p_num p)) as [d3 sh]. cbn in H3, B3.
  assert (H3' : cbD d3 = cbD d) by congruence.
  destruct sh; cbn [fst]; auto.
  destruct dl as [bdl|]; cbn [fst]; auto.
  destruct (inflate bdl) as [out|]; cbn [fst]; auto.
  destruct (hash_ok out (p_hash p)); cbn [fst]; auto.
  pose proof (cs_install_cb c d3 p out (proj1 B3)) as H4.
  destruct (cs_install c d3 p out) as [d4 st]. cbn in *. congruence.
Qed.

Local Opaque Model.do_check Model.do_update.

(* the patch handed to the engine for this launch: booting with its artifact intact, or already
   promoted to last good with nothing booting *)
Definition Current (key : option string) (d : disk) (m : meta) : Prop :=
  SelD SCB key d m \/ (cbD d = None /\ SelD SLB key d m).

Definition cur_undisturbed (m : meta) (w : world) (o : op) : Prop :=
  art_damage_other (m_num m) o /\
  match o with
  | OStart | OFailure => False
  | OInit _ _ _ => w_cfg w <> None
  | OCheck _ (Some rs) => not_listed (m_num m) rs
  | OUpdate _ r dl => (forall rs, r = Some rs -> not_listed (m_num m) rs) /\
                      install_ok zdec base m (w_disk w) r dl
  | _ => True
  end.

Local Transparent Model.cs_current Model.cs_success.

Theorem current_reported c d m :
  stable (c_rel c) d -> Current (c_key c) d m -> snd (cs_current c d) = Some (m_num m).
Proof.
  intros S H. unfold Model.cs_current. cbn. rewrite (norm_id c d S).
  destruct H as [(_ & G & _)|[Hc (_ & G & _)]]; cbn in G.
  - rewrite G. reflexivity.
  - unfold cbD in Hc. rewrite Hc, G. reflexivity.
Qed.

Lemma cs_success_noop c d : stable (c_rel c) d -> cbD d = None -> fst (Model.cs_success c d) = d.
Proof. intros S H. unfold Model.cs_success. rewrite (norm_id c d S). unfold cbD in H. rewrite H. reflexivity. Qed.

Lemma cs_success_clears_cb c d : stable (c_rel c) d -> cbD (fst (Model.cs_success c d)) = None.
Proof.
  intros S. unfold Model.cs_success, cbD. rewrite (norm_id c d S).
  destruct (cb (load_p d)) as [b|] eqn:E; cbn; auto. unfold boot_success. rewrite E. reflexivity.
Qed.

Local Opaque Model.cs_current Model.cs_success.

Theorem Current_frame r key w o m :
  within r w o -> keyed key w o -> stable r (w_disk w) ->
  Current key (w_disk w) m -> cur_undisturbed m w o ->
  Current key (w_disk (stepw w o)) m.
Proof.
  intros Hw Hk S [H|[Hc H]] [Hd Hu].
  - (* still booting *)
    destruct o as [relv y pk| | | | | | | | |ch rr|ch rr dl|g]; try contradiction;
      try (left; apply (CB_frame sha sigok zdec base r key); auto; split; auto; fail).
    (* success: promoted *)
    unfold Frames3.stepw. destruct w as [d cf]. destruct Hw as [Hcr _]. destruct Hk as [Hkk _].
    cbn [w_disk w_cfg] in *. cbn.
    destruct cf as [c|]; cbn; [|left; exact H].
    right. rewrite <- (Hcr c eq_refl) in S. rewrite <- (Hkk c eq_refl) in *.
    pose proof (cs_success_promotes sha sigok c d m S H) as H1.
    pose proof (cs_success_clears_cb c d S) as H2.
    destruct (Model.cs_success c d). cbn in *. auto.
  - (* promoted, nothing booting *)
    right.
    assert (Hcb : cbD (w_disk (stepw w o)) = None).
    { unfold Frames3.stepw. destruct w as [d cf]. destruct Hw as [Hcr Hwo].
      cbn [w_disk w_cfg] in *.
      destruct o as [relv y pk| | | | | | | | |ch rr|ch rr dl|g]; try contradiction; cbn.
      - destruct (cfg_of relv y) as [c|]; cbn; auto. destruct pk; cbn; auto.
        destruct cf; cbn; auto. exfalso. apply Hu. reflexivity.
      - exact Hc.
      - destruct cf as [c|]; cbn; auto. rewrite <- (Hcr c eq_refl) in S.
        pose proof (cs_next_cb c d S) as E. destruct (cs_next c d). cbn in *. congruence.
      - destruct cf as [c|]; cbn; auto. rewrite <- (Hcr c eq_refl) in S.
        pose proof (cs_next_cb c d S) as E. destruct (cs_next c d). cbn in *. congruence.
      - destruct cf as [c|]; cbn; auto. rewrite <- (Hcr c eq_refl) in S.
        pose proof (cs_current_disk c d S) as E. destruct (cs_current c d). cbn in *. subst. exact Hc.
      - destruct cf as [c|]; cbn; auto. rewrite <- (Hcr c eq_refl) in S.
        pose proof (cs_success_clears_cb c d S) as E. destruct (Model.cs_success c d). exact E.
      - destruct cf as [c|]; cbn; auto.
      - destruct cf as [c|]; cbn; auto. rewrite <- (Hcr c eq_refl) in S.
        pose proof (do_check_cb c d ch rr S) as E. destruct (do_check c d ch rr) as [[? ?] ?]. cbn in *. congruence.
      - destruct cf as [c|]; cbn; auto. rewrite <- (Hcr c eq_refl) in S.
        pose proof (do_update_cb c d ch rr dl S) as E. destruct (do_update c d ch rr dl) as [[? ?] ?]. cbn in *. congruence.
      - destruct g; cbn in *; auto; try contradiction. destruct (arts d n); auto. }
    split; [exact Hcb|].
    apply (LB_frame sha sigok zdec base r key); auto. split; auto.
    destruct o as [relv y pk| | | | | | | | |ch rr|ch rr dl|g]; try contradiction; auto.
    all: intros; unfold cbD in Hc; congruence.
Qed.

Theorem current_persists r key m ops : forall w,
  InRel r w -> Current key (w_disk w) m ->
  along (fun w o => within r w o /\ keyed key w o /\ cur_undisturbed m w o) w ops ->
  Current key (w_disk (final w ops)) m.
Proof.
  intros w HR HS HA.
  apply (along_inv sha sigok zdec base (fun w => InRel r w /\ Current key (w_disk w) m)
                   (fun w o => within r w o /\ keyed key w o /\ cur_undisturbed m w o)); auto.
  intros w0 o [[S C] H] (Hw & Hk & Hu). split.
  - apply InRel_step; auto. split; auto.
  - eapply Current_frame; eauto.
Qed.

(* after a restart (and before the next launch start) the current patch is the last good patch *)
Theorem current_after_restart c d :
  cbD (norm c d) = None -> snd (cs_current c d) = onum (lb (load_p (norm c d))).
Proof.
  Local Transparent Model.cs_current. intros H. unfold Model.cs_current. cbn. unfold cbD in H. rewrite H. reflexivity.
Qed.

End Frames4.
