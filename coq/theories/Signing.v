(* Signing.v — cache/signing.rs::check_signature with its base64 layer modelled: the configured public key and
   the served signature are base64 text (BASE64_STANDARD of the base64 crate: standard alphabet, padding
   required and canonical, no stray trailing bits); only what they decode to reaches the RSA verifier, which
   stays an oracle [rsa : key bytes -> message -> signature bytes -> bool].  So "signature not base64" and
   "unparsable key" are theorems here, not properties of an opaque oracle. *)
From UV Require Import Base.
From Coq Require Import ZifyN ZifyBool.
Arguments N.add : simpl never.
Arguments N.mul : simpl never.
Arguments N.div : simpl never.
Arguments N.modulo : simpl never.
Arguments N.ltb : simpl never.
Arguments N.leb : simpl never.
Arguments N.eqb : simpl never.

(* value of a symbol of the standard alphabet *)
Definition b64_val (c : ascii) : option N :=
  let n := N_of_ascii c in
  if (65 <=? n) && (n <=? 90) then Some (n - 65)
  else if (97 <=? n) && (n <=? 122) then Some (n - 71)
  else if (48 <=? n) && (n <=? 57) then Some (n + 4)
  else if n =? 43 then Some 62
  else if n =? 47 then Some 63
  else None.

Definition is_pad (c : ascii) : bool := N_of_ascii c =? 61.

Definition three (a b c d : N) : bytes :=
  [a * 4 + b / 16; (b mod 16) * 16 + c / 4; (c mod 4) * 64 + d].

(* groups of four characters; '=' only as the last one or two characters of the last group, and then the bits
   that do not belong to a byte must be zero (DecodePaddingMode::RequireCanonical, no trailing bits) *)
Fixpoint b64_groups (l : list ascii) : option bytes :=
  match l with
  | [] => Some []
  | a :: b :: c :: d :: rest =>
      match rest with
      | [] =>
          match b64_val a, b64_val b with
          | Some x, Some y =>
              if is_pad d then
                if is_pad c then (if y mod 16 =? 0 then Some [x * 4 + y / 16] else None)
                else match b64_val c with
                     | Some z => if z mod 4 =? 0 then Some [x * 4 + y / 16; (y mod 16) * 16 + z / 4] else None
                     | None => None
                     end
              else match b64_val c, b64_val d with
                   | Some z, Some w => Some (three x y z w)
                   | _, _ => None
                   end
          | _, _ => None
          end
      | _ =>
          match b64_val a, b64_val b, b64_val c, b64_val d, b64_groups rest with
          | Some x, Some y, Some z, Some w, Some t => Some (three x y z w ++ t)
          | _, _, _, _, _ => None
          end
      end
  | _ => None
  end.

Definition b64_decode (s : string) : option bytes := b64_groups (list_ascii_of_string s).

(* the encoder of the same engine (what `openssl base64 -A` / the Shorebird CLI produce) *)
Definition b64_char (n : N) : ascii :=
  if n <? 26 then ascii_of_N (65 + n)
  else if n <? 52 then ascii_of_N (71 + n)
  else if n <? 62 then ascii_of_N (n - 4)
  else if n =? 62 then ascii_of_N 43 else ascii_of_N 47.
Definition pad_char : ascii := ascii_of_N 61.

Fixpoint b64_enc (l : bytes) : list ascii :=
  match l with
  | [] => []
  | [x] => [b64_char (x / 4); b64_char ((x mod 4) * 16); pad_char; pad_char]
  | [x; y] => [b64_char (x / 4); b64_char ((x mod 4) * 16 + y / 16); b64_char ((y mod 16) * 4); pad_char]
  | x :: y :: z :: rest =>
      b64_char (x / 4) :: b64_char ((x mod 4) * 16 + y / 16) :: b64_char ((y mod 16) * 4 + z / 64)
        :: b64_char (z mod 64) :: b64_enc rest
  end.
Definition b64_encode (l : bytes) : string := string_of_list_ascii (b64_enc l).

Section Sig.
(* ring::signature::UnparsedPublicKey::verify with RSA_PKCS1_2048_8192_SHA256 (DER parsing included): an oracle *)
Variable rsa : bytes -> string -> bytes -> bool.

(* check_signature(message, signature, public_key).is_ok() *)
Definition check_signature (key msg sg : string) : bool :=
  match b64_decode key with
  | None => false                         (* "Failed to decode public_key" *)
  | Some kb =>
      match b64_decode sg with
      | None => false                     (* "Failed to decode signature" *)
      | Some sb => rsa kb msg sb
      end
  end.

Theorem key_not_base64_rejects_everything key :
  b64_decode key = None -> forall msg sg, check_signature key msg sg = false.
Proof. intros H msg sg. unfold check_signature. rewrite H. reflexivity. Qed.

Theorem signature_not_base64_rejected key msg sg :
  b64_decode sg = None -> check_signature key msg sg = false.
Proof. intros H. unfold check_signature. rewrite H. destruct (b64_decode key); reflexivity. Qed.

Theorem accepted_means_verified key msg sg :
  check_signature key msg sg = true ->
  exists kb sb, b64_decode key = Some kb /\ b64_decode sg = Some sb /\ rsa kb msg sb = true.
Proof.
  unfold check_signature. destruct (b64_decode key) as [kb|]; [|discriminate].
  destruct (b64_decode sg) as [sb|]; [|discriminate]. intros H. eauto.
Qed.
End Sig.

(* ---------- facts about the base64 layer ---------- *)
(* any length that is not a multiple of four is rejected (padding is required) *)
Lemma b64_groups_len l t : b64_groups l = Some t -> (List.length l mod 4 = 0)%nat.
Proof.
  revert t. induction l as [l IH] using (well_founded_induction (Wf_nat.well_founded_ltof _ (@List.length ascii))).
  intros t H. destruct l as [|a [|b [|c [|d rest]]]]; try discriminate; [reflexivity|].
  cbn [b64_groups] in H. destruct rest as [|e rest'].
  - reflexivity.
  - destruct (b64_val a), (b64_val b), (b64_val c), (b64_val d); try discriminate.
    destruct (b64_groups (e :: rest')) as [t'|] eqn:E; [|discriminate].
    assert (Hlt : Wf_nat.ltof _ (@List.length ascii) (e :: rest') (a :: b :: c :: d :: e :: rest')).
    { unfold Wf_nat.ltof. cbn. lia. }
    specialize (IH _ Hlt _ E). cbn [List.length] in *.
    replace (S (S (S (S (S (List.length rest')))))) with (S (List.length rest') + 1 * 4)%nat by lia.
    rewrite Nat.mod_add by lia. exact IH.
Qed.

Lemma b64_val_char n : n < 64 -> b64_val (b64_char n) = Some n.
Proof.
  intros H.
  assert (Hall : forallb (fun k => match b64_val (b64_char k) with Some v => v =? k | None => false end)
                         (map N.of_nat (seq 0 64)) = true) by (vm_compute; reflexivity).
  rewrite forallb_forall in Hall.
  assert (Hin : In n (map N.of_nat (seq 0 64))).
  { apply in_map_iff. exists (N.to_nat n). split; [lia|]. apply in_seq. lia. }
  specialize (Hall n Hin). destruct (b64_val (b64_char n)) as [v|]; [|discriminate].
  f_equal. lia.
Qed.

Lemma b64_char_not_pad n : n < 64 -> is_pad (b64_char n) = false.
Proof.
  intros H.
  assert (Hall : forallb (fun k => negb (is_pad (b64_char k))) (map N.of_nat (seq 0 64)) = true) by (vm_compute; reflexivity).
  rewrite forallb_forall in Hall.
  assert (Hin : In n (map N.of_nat (seq 0 64))).
  { apply in_map_iff. exists (N.to_nat n). split; [lia|]. apply in_seq. lia. }
  specialize (Hall n Hin). apply Bool.negb_true_iff in Hall. exact Hall.
Qed.

(* ---------- what the encoder writes, the decoder reads back ---------- *)
Ltac Zify.zify_post_hook ::= Z.div_mod_to_equations.

Lemma three_ok x y z : x < 256 -> y < 256 -> z < 256 ->
  three (x / 4) ((x mod 4) * 16 + y / 16) ((y mod 16) * 4 + z / 64) (z mod 64) = [x; y; z].
Proof. intros Hx Hy Hz. unfold three. repeat f_equal; lia. Qed.

Lemma bytes_ind3 (P : bytes -> Prop) :
  P [] -> (forall x, P [x]) -> (forall x y, P [x; y]) ->
  (forall x y z r, P r -> P (x :: y :: z :: r)) -> forall l, P l.
Proof.
  intros H0 H1 H2 H3.
  fix IH 1. intros [|x [|y [|z r]]]; [exact H0|apply H1|apply H2|apply H3; apply IH].
Qed.

Lemma is_pad_pad : is_pad pad_char = true.
Proof. reflexivity. Qed.

Lemma b64_enc_nonempty x r : b64_enc (x :: r) <> [].
Proof. destruct r as [|y [|z r]]; discriminate. Qed.

Theorem b64_roundtrip l : wf_bytes l -> b64_groups (b64_enc l) = Some l.
Proof.
  induction l as [|x|x y|x y z r IH] using bytes_ind3; intros W.
  - reflexivity.
  - inversion W as [|? ? Hx _]; subst. cbn [b64_enc b64_groups].
    rewrite !b64_val_char by lia. rewrite !is_pad_pad.
    assert (E : ((x mod 4 * 16) mod 16 =? 0) = true) by lia. rewrite E. repeat f_equal. lia.
  - inversion W as [|? ? Hx W1]; subst. inversion W1 as [|? ? Hy _]; subst. cbn [b64_enc b64_groups].
    rewrite !b64_val_char by lia. rewrite is_pad_pad. rewrite b64_char_not_pad by lia.
    assert (E : ((y mod 16 * 4) mod 4 =? 0) = true) by lia. rewrite E. repeat f_equal; lia.
  - inversion W as [|? ? Hx W1]; subst. inversion W1 as [|? ? Hy W2]; subst. inversion W2 as [|? ? Hz W3]; subst.
    specialize (IH W3). cbn [b64_enc b64_groups].
    rewrite !b64_val_char by lia.
    destruct r as [|r0 r'].
    + cbn [b64_enc]. rewrite b64_char_not_pad by lia. rewrite three_ok by assumption. reflexivity.
    + destruct (b64_enc (r0 :: r')) as [|e rest] eqn:Ee; [exfalso; eapply b64_enc_nonempty; exact Ee|].
      rewrite IH. rewrite three_ok by assumption. reflexivity.
Qed.

Theorem b64_decode_encode l : wf_bytes l -> b64_decode (b64_encode l) = Some l.
Proof.
  intros W. unfold b64_decode, b64_encode. rewrite list_ascii_of_string_of_list_ascii. apply b64_roundtrip. exact W.
Qed.

(* the three shapes the property names: not base64 at all, missing padding, stray bits *)
Example b64_rejects :
  b64_decode "not base64!" = None /\ b64_decode "QUJD" = Some [65; 66; 67] /\
  b64_decode "QUI" = None /\ b64_decode "QUI=" = Some [65; 66] /\ b64_decode "QUJ=" = None /\
  b64_decode "QQ==" = Some [65] /\ b64_decode "QR==" = None /\ b64_decode "" = Some [] /\
  b64_decode "QQ=A" = None /\ b64_decode "Q===" = None.
Proof. vm_compute. repeat split. Qed.
