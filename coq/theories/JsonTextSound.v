(* JsonTextSound.v — the converse of JsonTextProofs: whatever the strict reader accepts IS a sentence of the grammar
   (optional white space, then a sentence denoting the returned tree, then the unread rest).  With completeness:
   the reader's language is exactly the grammar; a body that is not JSON is rejected. *)
From UV Require Import Base Codec Model Json JsonText JsonTextProofs.
From Coq Require Import ZifyN ZifyBool ZifyNat Lia.
Local Open Scope N_scope.
Arguments N.add : simpl never.
Arguments N.mul : simpl never.
Arguments N.sub : simpl never.
Arguments N.div : simpl never.
Arguments N.modulo : simpl never.
Arguments N.eqb : simpl never.
Arguments N.ltb : simpl never.
Arguments N.leb : simpl never.

Lemma skip_ws_split l : exists w, WS w /\ l = w ++ skip_ws l /\ starts_nonws (skip_ws l).
Proof.
  induction l as [|c r IH].
  - exists []. cbn. repeat split. constructor.
  - cbn [skip_ws]. destruct (is_ws c) eqn:E.
    + destruct IH as (w & Hw & El & Hs). exists (c :: w). split; [constructor; assumption|]. split; [cbn; congruence|exact Hs].
    + exists []. split; [constructor|]. split; [reflexivity|]. cbn. exact E.
Qed.

Lemma lit_sound w : forall l r, lit w l = Some r -> l = w ++ r.
Proof.
  induction w as [|x w IH]; intros l r H; cbn [lit] in H.
  - injection H as ->. reflexivity.
  - destruct l as [|c l']; [discriminate|]. destruct (N.eqb_spec c x) as [->|]; [|discriminate].
    cbn [app]. f_equal. apply IH. exact H.
Qed.

Lemma digits_sound l : forall acc cnt v cnt' rest, digits l acc cnt = (v, cnt', rest) ->
  exists ds, l = ds ++ rest /\ AllDig ds /\ v = val_from acc ds /\ cnt' = cnt + N.of_nat (List.length ds) /\ nondigit_start rest.
Proof.
  induction l as [|c r IH]; intros acc cnt v cnt' rest H; cbn [digits] in H.
  - injection H as <- <- <-. exists []. cbn. repeat split; try constructor. lia.
  - destruct (is_digit c) eqn:E.
    + apply IH in H. destruct H as (ds & -> & Hd & -> & -> & Hn). exists (c :: ds). cbn [app List.length val_from fold_left].
      repeat split; try assumption; try (constructor; assumption). lia.
    + injection H as <- <- <-. exists []. cbn. repeat split; try constructor; try assumption. lia.
Qed.

Lemma hex4_sound l n r : hex4 l = Some (n, r) -> exists a b c d, l = a :: b :: c :: d :: r /\ hex4 [a; b; c; d] = Some (n, []).
Proof.
  unfold hex4. destruct l as [|a [|b [|c [|d r']]]]; try discriminate.
  destruct (hexv a) eqn:Ea, (hexv b) eqn:Eb, (hexv c) eqn:Ec, (hexv d) eqn:Ed; try discriminate.
  intros H. injection H as <- <-. exists a, b, c, d. split; [reflexivity|]. rewrite Ea, Eb, Ec, Ed. reflexivity.
Qed.

Lemma str_body_sound f : forall l acc s rest, str_body f true l acc = Some (s, rest) ->
  exists ts ds, l = ts ++ 34 :: rest /\ Body ts ds /\ s = rev acc ++ ds.
Proof.
  induction f as [|f IH]; intros l acc s rest H; [discriminate|]. cbn [str_body] in H.
  destruct l as [|c r]; [discriminate|].
  destruct (N.eqb_spec c 34) as [->|N34].
  - injection H as <- <-. exists [], []. cbn. repeat split; [constructor|]. rewrite app_nil_r. reflexivity.
  - destruct (N.eqb_spec c 92) as [->|N92].
    + destruct r as [|e r1]; [discriminate|].
      destruct (N.eqb_spec e 117) as [->|N117].
      * destruct (hex4 r1) as [[n r2]|] eqn:Eh; [|discriminate].
        destruct (hex4_sound _ _ _ Eh) as (a & b & c & d & -> & Eh4).
        destruct (is_low_surrogate n) eqn:El; [discriminate|].
        destruct (is_high_surrogate n) eqn:Ehi.
        -- destruct r2 as [|x [|y r3]]; try discriminate.
           destruct ((x =? 92) && (y =? 117))%bool eqn:Exy; [|discriminate].
           assert (x = 92 /\ y = 117) as [-> ->] by lia.
           destruct (hex4 r3) as [[n2 r4]|] eqn:Eh2; [|discriminate].
           destruct (hex4_sound _ _ _ Eh2) as (a2 & b2 & c2 & d2 & -> & Eh42).
           destruct (is_low_surrogate n2) eqn:El2; [|discriminate].
           apply IH in H. destruct H as (ts & ds & -> & Hb & ->).
           exists ([92; 117; a; b; c; d; 92; 117; a2; b2; c2; d2] ++ ts), (utf8_enc (65536 + (n - 55296) * 1024 + (n2 - 56320)) ++ ds).
           split; [reflexivity|]. split.
           ++ constructor; [|exact Hb]. econstructor; eassumption.
           ++ rewrite rev_app_distr, rev_involutive, <- app_assoc. reflexivity.
        -- apply IH in H. destruct H as (ts & ds & -> & Hb & ->).
           exists ([92; 117; a; b; c; d] ++ ts), (utf8_enc n ++ ds).
           split; [reflexivity|]. split.
           ++ constructor; [|exact Hb]. econstructor; eassumption.
           ++ rewrite rev_app_distr, rev_involutive, <- app_assoc. reflexivity.
      * destruct (simple_escape e) as [b|] eqn:Ee; [|discriminate].
        apply IH in H. destruct H as (ts & ds & -> & Hb & ->).
        exists ([92; e] ++ ts), ([b] ++ ds). split; [reflexivity|]. split.
        -- constructor; [|exact Hb]. constructor; assumption.
        -- cbn [rev app]. rewrite <- app_assoc. reflexivity.
    + destruct (c <? 32) eqn:E32; [discriminate|].
      apply IH in H. destruct H as (ts & ds & -> & Hb & ->).
      exists ([c] ++ ts), ([c] ++ ds). split; [reflexivity|]. split.
      * constructor; [|exact Hb]. constructor; [lia|assumption|assumption].
      * cbn [rev app]. rewrite <- app_assoc. reflexivity.
Qed.

Lemma parse_string_sound f r s rest : parse_string f r = Some (s, rest) ->
  exists b, 34 :: r = b ++ rest /\ Gstr s b.
Proof.
  unfold parse_string. destruct (str_body f true r []) as [[s' r']|] eqn:E; [|discriminate].
  destruct (utf8_valid s') eqn:Ev; [|discriminate]. intros H. injection H as <- <-.
  apply str_body_sound in E. destruct E as (ts & ds & -> & Hb & ->). cbn [rev app] in *.
  exists (34 :: ts ++ [34]). split; [cbn [app]; rewrite <- app_assoc; reflexivity|].
  exists ts. repeat split; assumption.
Qed.

(* ---------- numbers ---------- *)
Lemma frac_exp_sound neg v l n rest : frac_exp neg v l = Some (n, rest) ->
  exists fr isf ex ise, l = fr ++ ex ++ rest /\ Frac fr isf /\ Expo ex ise /\
    n = (if ise then JFloat else classify isf neg v).
Proof.
  unfold frac_exp. intros H.
  assert (Hexp : forall isf l2, (match l2 with
            | c :: r =>
                if (c =? 101) || (c =? 69) then
                  let r1 := match r with s :: r' => if (s =? 43) || (s =? 45) then r' else r | [] => [] end in
                  let '(_, cnt, r2) := digits r1 0 0 in if cnt =? 0 then None else Some (JFloat, r2)
                else Some (classify isf neg v, l2)
            | [] => Some (classify isf neg v, [])
            end) = Some (n, rest) ->
            exists ex ise, l2 = ex ++ rest /\ Expo ex ise /\ n = (if ise then JFloat else classify isf neg v)).
  { intros isf l2 H2. destruct l2 as [|c r].
    - injection H2 as <- <-. exists [], false. repeat split. constructor.
    - destruct ((c =? 101) || (c =? 69))%bool eqn:Ec.
      + cbv zeta in H2.
        assert (Hk : forall sg r1, (sg = [] \/ sg = [43] \/ sg = [45]) -> r = sg ++ r1 ->
                  (let '(_, cnt, r2) := digits r1 0 0 in if cnt =? 0 then None else Some (JFloat, r2)) = Some (n, rest) ->
                  exists ex ise, c :: r = ex ++ rest /\ Expo ex ise /\ n = (if ise then JFloat else classify isf neg v)).
        { intros sg r1 Hsg -> H3. destruct (digits r1 0 0) as [[v0 cnt] r2] eqn:Ed. cbv beta iota in H3.
          destruct (cnt =? 0) eqn:E0; [discriminate|]. injection H3 as <- <-.
          apply digits_sound in Ed. destruct Ed as (ds & -> & Hd & _ & Hc & _).
          assert (Hne : ds <> []) by (intros ->; cbn in Hc; lia).
          exists (c :: sg ++ ds), true. split; [cbn [app]; rewrite <- app_assoc; reflexivity|]. split; [|reflexivity].
          constructor; [lia|exact Hsg|exact Hne|exact Hd]. }
        destruct r as [|s r'].
        * apply (Hk [] []); auto.
        * destruct ((s =? 43) || (s =? 45))%bool eqn:Es.
          -- assert (s = 43 \/ s = 45) as [-> | ->] by lia; [apply (Hk [43] r')|apply (Hk [45] r')]; auto.
          -- apply (Hk [] (s :: r')); auto.
      + injection H2 as <- <-. exists [], false. repeat split. constructor. }
  destruct l as [|c r].
  - apply (Hexp false []) in H. destruct H as (ex & ise & E & He & ->).
    exists [], false, ex, ise. repeat split; [exact E|constructor|exact He].
  - destruct (N.eqb_spec c 46) as [->|N46].
    + destruct (digits r 0 0) as [[v0 cnt] r'] eqn:Ed. cbv beta iota in H.
      destruct (cnt =? 0) eqn:E0; [discriminate|].
      apply digits_sound in Ed. destruct Ed as (ds & -> & Hd & _ & Hc & _).
      assert (Hne : ds <> []) by (intros ->; cbn in Hc; lia).
      apply (Hexp true r') in H. destruct H as (ex & ise & -> & He & ->).
      exists (46 :: ds), true, ex, ise. split; [reflexivity|].
      split; [constructor; assumption|]. split; [exact He|reflexivity].
    + apply (Hexp false (c :: r)) in H. destruct H as (ex & ise & E & He & ->).
      exists [], false, ex, ise. repeat split; [exact E|constructor|exact He].
Qed.

Lemma parse_number_sound l n rest : parse_number l = Some (n, rest) -> exists b, l = b ++ rest /\ Gnum n b.
Proof.
  unfold parse_number. intros H.
  assert (Hmain : forall neg l1,
     match l1 with
     | [] => None
     | c :: r =>
         if c =? 48 then match r with d :: _ => if is_digit d then None else frac_exp neg 0 r | [] => frac_exp neg 0 r end
         else if is_digit c then let '(v0, _, r') := digits l1 0 0 in frac_exp neg v0 r'
         else None
     end = Some (n, rest) ->
     exists ip v fr isf ex ise, l1 = ip ++ fr ++ ex ++ rest /\ IntPart ip v /\ Frac fr isf /\ Expo ex ise /\
        n = (if ise then JFloat else classify isf neg v)).
  { intros neg l1 H1. destruct l1 as [|c r]; [discriminate|].
    destruct (N.eqb_spec c 48) as [->|N48].
    - assert (Hf : frac_exp neg 0 r = Some (n, rest)).
      { destruct r as [|d r']; [exact H1|]. destruct (is_digit d); [discriminate|exact H1]. }
      apply frac_exp_sound in Hf. destruct Hf as (fr & isf & ex & ise & -> & Hfr & Hex & ->).
      exists [48], 0, fr, isf, ex, ise. repeat split; try assumption. constructor.
    - destruct (is_digit c) eqn:Ed; [|discriminate].
      destruct (digits (c :: r) 0 0) as [[v0 cnt] r'] eqn:Edg. cbv beta iota in H1.
      apply digits_sound in Edg. destruct Edg as (ds & El & Hd & -> & _ & Hnd).
      destruct ds as [|d0 ds'].
      + exfalso. cbn [app] in El. subst r'. cbn in Hnd. congruence.
      + cbn [app] in El. injection El as <- ->. inversion Hd as [|? ? Hd0 Hds]; subst.
        apply frac_exp_sound in H1. destruct H1 as (fr & isf & ex & ise & -> & Hfr & Hex & ->).
        exists (c :: ds'), (val_from 0 (c :: ds')), fr, isf, ex, ise.
        split; [reflexivity|]. repeat split; try assumption.
        constructor; assumption. }
  destruct l as [|c r].
  - apply (Hmain false []) in H. destruct H as (ip & v & fr & isf & ex & ise & E & Hip & _).
    destruct Hip; discriminate.
  - destruct (N.eqb_spec c 45) as [->|N45].
    + apply (Hmain true r) in H. destruct H as (ip & v & fr & isf & ex & ise & -> & Hip & Hfr & Hex & ->).
      exists (45 :: ip ++ fr ++ ex). split; [cbn [app]; rewrite <- !app_assoc; reflexivity|].
      exists true, ip, v, fr, isf, ex, ise. repeat split; try assumption.
    + apply (Hmain false (c :: r)) in H. destruct H as (ip & v & fr & isf & ex & ise & -> & Hip & Hfr & Hex & ->).
      exists (ip ++ fr ++ ex). split; [rewrite <- !app_assoc; reflexivity|].
      exists false, ip, v, fr, isf, ex, ise. repeat split; try assumption.
Qed.

(* ---------- values ---------- *)
Lemma WS_app a b : WS a -> WS b -> WS (a ++ b).
Proof. intros Ha Hb. apply Forall_app. split; assumption. Qed.

Ltac norm_app := repeat (rewrite <- app_assoc || (progress (cbn [app]))).

Theorem strict_reader_sound : forall fuel,
  (forall l t rest, parse_value fuel l = Some (t, rest) -> exists w b, WS w /\ G t b /\ l = w ++ b ++ rest) /\
  (forall l acc t rest, parse_elems fuel l acc = Some (t, rest) ->
     exists w b l', WS w /\ GE l' b /\ l = w ++ b ++ rest /\ t = JArr (rev acc ++ l')) /\
  (forall l acc t rest, parse_members fuel l acc = Some (t, rest) ->
     exists w b l', WS w /\ GM l' b /\ l = w ++ b ++ rest /\ t = JObj (rev acc ++ l')).
Proof.
  induction fuel as [|f IH]; [repeat split; intros; discriminate|].
  destruct IH as (IHv & IHe & IHm).
  split; [|split].
  - (* parse_value *)
    intros l t rest H. cbn [parse_value] in H.
    destruct (skip_ws_split l) as (w & Hw & El & Hs). destruct (skip_ws l) as [|c r] eqn:Esk; [discriminate|].
    exists w. rewrite El. clear El.
    destruct (N.eqb_spec c 110) as [->|N1].
    { destruct (lit [117; 108; 108] r) as [r'|] eqn:E; [|discriminate]. injection H as <- <-.
      apply lit_sound in E. subst r. exists [110; 117; 108; 108]. repeat split; [assumption|constructor]. }
    destruct (N.eqb_spec c 116) as [->|N2].
    { destruct (lit [114; 117; 101] r) as [r'|] eqn:E; [|discriminate]. injection H as <- <-.
      apply lit_sound in E. subst r. exists [116; 114; 117; 101]. repeat split; [assumption|constructor]. }
    destruct (N.eqb_spec c 102) as [->|N3].
    { destruct (lit [97; 108; 115; 101] r) as [r'|] eqn:E; [|discriminate]. injection H as <- <-.
      apply lit_sound in E. subst r. exists [102; 97; 108; 115; 101]. repeat split; [assumption|constructor]. }
    destruct (N.eqb_spec c 34) as [->|N4].
    { destruct (parse_string (S f) r) as [[s r']|] eqn:E; [|discriminate]. injection H as <- <-.
      apply parse_string_sound in E. destruct E as (b & E & Hg). exists b. rewrite E.
      repeat split; [assumption|constructor; exact Hg]. }
    destruct ((c =? 45) || is_digit c)%bool eqn:E5.
    { destruct (parse_number (c :: r)) as [[n r']|] eqn:E; [|discriminate]. injection H as <- <-.
      apply parse_number_sound in E. destruct E as (b & E & Hg). exists b. rewrite E.
      repeat split; [assumption|constructor; exact Hg]. }
    destruct (N.eqb_spec c 91) as [->|N6].
    { destruct (skip_ws_split r) as (w0 & Hw0 & Er & Hs0). destruct (skip_ws r) as [|d r'] eqn:Esk0; [discriminate|].
      destruct (N.eqb_spec d 93) as [->|N93].
      - injection H as <- <-. exists (91 :: w0 ++ [93]). split; [assumption|]. split; [constructor; assumption|].
        rewrite Er. cbn [app]. rewrite <- app_assoc. reflexivity.
      - apply IHe in H. destruct H as (w1 & b & l' & Hw1 & Hge & E & ->). cbn [rev app].
        exists (91 :: (w0 ++ w1) ++ b). split; [assumption|]. split; [constructor; [apply WS_app; assumption|exact Hge]|].
        rewrite Er, E. cbn [app]. rewrite <- !app_assoc. reflexivity. }
    destruct (N.eqb_spec c 123) as [->|N7]; [|discriminate].
    destruct (skip_ws_split r) as (w0 & Hw0 & Er & Hs0). destruct (skip_ws r) as [|d r'] eqn:Esk0; [discriminate|].
    destruct (N.eqb_spec d 125) as [->|N125].
    + injection H as <- <-. exists (123 :: w0 ++ [125]). split; [assumption|]. split; [constructor; assumption|].
      rewrite Er. cbn [app]. rewrite <- app_assoc. reflexivity.
    + apply IHm in H. destruct H as (w1 & b & l' & Hw1 & Hgm & E & ->). cbn [rev app].
      exists (123 :: (w0 ++ w1) ++ b). split; [assumption|]. split; [constructor; [apply WS_app; assumption|exact Hgm]|].
      rewrite Er, E. cbn [app]. rewrite <- !app_assoc. reflexivity.
  - (* parse_elems *)
    intros l acc t rest H. cbn [parse_elems] in H.
    destruct (parse_value f l) as [[v r]|] eqn:Ev; [|discriminate].
    apply IHv in Ev. destruct Ev as (w & b & Hw & Hg & ->).
    destruct (skip_ws_split r) as (w2 & Hw2 & Er & Hs2). destruct (skip_ws r) as [|c r'] eqn:Esk; [discriminate|].
    destruct (N.eqb_spec c 44) as [->|N44].
    + apply IHe in H. destruct H as (w1 & b' & l' & Hw1 & Hge & -> & ->).
      exists w, (b ++ w2 ++ 44 :: w1 ++ b'), (v :: l'). split; [assumption|]. split; [constructor; assumption|]. split.
      * rewrite Er. rewrite <- !app_assoc. cbn [app]. rewrite <- !app_assoc. reflexivity.
      * cbn [rev]. rewrite <- app_assoc. reflexivity.
    + destruct (N.eqb_spec c 93) as [->|N93]; [|discriminate]. injection H as <- <-.
      exists w, (b ++ w2 ++ [93]), [v]. split; [assumption|]. split; [constructor; assumption|]. split.
      * rewrite Er. rewrite <- !app_assoc. reflexivity.
      * reflexivity.
  - (* parse_members *)
    intros l acc t rest H. cbn [parse_members] in H.
    destruct (skip_ws_split l) as (w & Hw & El & Hs). destruct (skip_ws l) as [|c r] eqn:Esk; [discriminate|].
    destruct (N.eqb_spec c 34) as [->|N34]; [|discriminate].
    destruct (parse_string (S f) r) as [[k r1]|] eqn:Ek; [|discriminate].
    apply parse_string_sound in Ek. destruct Ek as (kb & Ekb & Hk).
    destruct (skip_ws_split r1) as (w2 & Hw2 & Er1 & Hs2). destruct (skip_ws r1) as [|d r2] eqn:Esk1; [discriminate|].
    destruct (N.eqb_spec d 58) as [->|N58]; [|discriminate].
    destruct (parse_value f r2) as [[v r3]|] eqn:Ev; [|discriminate].
    apply IHv in Ev. destruct Ev as (w3 & b & Hw3 & Hg & ->).
    destruct (skip_ws_split r3) as (w4 & Hw4 & Er3 & Hs4). destruct (skip_ws r3) as [|e r4] eqn:Esk3; [discriminate|].
    destruct (N.eqb_spec e 44) as [->|N44].
    + apply IHm in H. destruct H as (w1 & b' & l' & Hw1 & Hgm & -> & ->).
      exists w, (kb ++ w2 ++ 58 :: w3 ++ b ++ w4 ++ 44 :: w1 ++ b'), ((str_of k, v) :: l').
      split; [assumption|]. split; [constructor; assumption|]. split.
      * rewrite El. change (34 :: r) with ([] ++ 34 :: r). rewrite Ekb, Er1, Er3. norm_app. reflexivity.
      * cbn [rev]. rewrite <- app_assoc. reflexivity.
    + destruct (N.eqb_spec e 125) as [->|N125]; [|discriminate]. injection H as <- <-.
      exists w, (kb ++ w2 ++ 58 :: w3 ++ b ++ w4 ++ [125]), [(str_of k, v)].
      split; [assumption|]. split; [constructor; assumption|]. split.
      * rewrite El. change (34 :: r) with ([] ++ 34 :: r). rewrite Ekb, Er1, Er3. norm_app. reflexivity.
      * reflexivity.
Qed.

(* a whole body accepted by the strict reader is: white space, a sentence denoting the tree, white space *)
Theorem parse_json_sound l t : parse_json l = Some t -> exists w b w', WS w /\ G t b /\ WS w' /\ l = w ++ b ++ w'.
Proof.
  unfold parse_json. destruct (parse_value (fuel_for l) l) as [[t' r]|] eqn:E; [|discriminate].
  destruct (skip_ws_split r) as (w' & Hw' & Er & _). destruct (skip_ws r) as [|c r'] eqn:Es; [|discriminate].
  intros H. injection H as <-. rewrite app_nil_r in Er. subst r.
  apply (proj1 (strict_reader_sound _)) in E. destruct E as (w & b & Hw & Hg & ->).
  exists w, b, w'. repeat split; assumption.
Qed.

(* the language of the strict reader is exactly the grammar *)
Theorem parse_json_iff l t :
  parse_json l = Some t <-> exists w b w', WS w /\ G t b /\ WS w' /\ l = w ++ b ++ w'.
Proof.
  split; [apply parse_json_sound|]. intros (w & b & w' & Hw & Hg & Hw' & ->). apply parse_json_complete; assumption.
Qed.

(* ---------- the scanner accepts only lenient sentences ---------- *)
Lemma str_body_lsound f : forall l acc s rest, str_body f false l acc = Some (s, rest) ->
  exists ts, l = ts ++ 34 :: rest /\ LBody ts.
Proof.
  induction f as [|f IH]; intros l acc s rest H; [discriminate|]. cbn [str_body] in H.
  destruct l as [|c r]; [discriminate|].
  destruct (N.eqb_spec c 34) as [->|N34].
  - injection H as _ <-. exists []. split; [reflexivity|constructor].
  - destruct (N.eqb_spec c 92) as [->|N92].
    + destruct r as [|e r1]; [discriminate|].
      destruct (N.eqb_spec e 117) as [->|N117].
      * destruct (hex4 r1) as [[n r2]|] eqn:Eh; [|discriminate].
        destruct (hex4_sound _ _ _ Eh) as (a & b & c & d & -> & Eh4).
        apply IH in H. destruct H as (ts & -> & Hb).
        exists ([92; 117; a; b; c; d] ++ ts). split; [reflexivity|]. constructor; [econstructor; eassumption|exact Hb].
      * destruct (simple_escape e) as [b|] eqn:Ee; [|discriminate].
        apply IH in H. destruct H as (ts & -> & Hb).
        exists ([92; e] ++ ts). split; [reflexivity|]. constructor; [econstructor; eassumption|exact Hb].
    + destruct (c <? 32) eqn:E32; [discriminate|].
      apply IH in H. destruct H as (ts & -> & Hb).
      exists ([c] ++ ts). split; [reflexivity|]. constructor; [constructor; [lia|assumption|assumption]|exact Hb].
Qed.

Lemma skip_string_sound f r rest : skip_string f r = Some rest -> exists b, 34 :: r = b ++ rest /\ Lstr b.
Proof.
  unfold skip_string. destruct (str_body f false r []) as [[s r']|] eqn:E; [|discriminate].
  intros H. injection H as <-. apply str_body_lsound in E. destruct E as (ts & -> & Hb).
  exists (34 :: ts ++ [34]). split; [cbn [app]; rewrite <- app_assoc; reflexivity|]. exists ts. split; [reflexivity|exact Hb].
Qed.

Theorem scanner_sound : forall fuel,
  (forall l rest, ignore_value fuel l = Some rest -> exists w b, WS w /\ L b /\ l = w ++ b ++ rest) /\
  (forall l rest, ignore_elems fuel l = Some rest -> exists w b, WS w /\ LE b /\ l = w ++ b ++ rest) /\
  (forall l rest, ignore_members fuel l = Some rest -> exists w b, WS w /\ LM b /\ l = w ++ b ++ rest).
Proof.
  induction fuel as [|f IH]; [repeat split; intros; discriminate|].
  destruct IH as (IHv & IHe & IHm).
  split; [|split].
  - intros l rest H. cbn [ignore_value] in H.
    destruct (skip_ws_split l) as (w & Hw & El & Hs). destruct (skip_ws l) as [|c r] eqn:Esk; [discriminate|].
    exists w. rewrite El. clear El.
    destruct (N.eqb_spec c 110) as [->|N1].
    { apply lit_sound in H. subst r. exists [110; 117; 108; 108]. repeat split; [assumption|constructor]. }
    destruct (N.eqb_spec c 116) as [->|N2].
    { apply lit_sound in H. subst r. exists [116; 114; 117; 101]. repeat split; [assumption|constructor]. }
    destruct (N.eqb_spec c 102) as [->|N3].
    { apply lit_sound in H. subst r. exists [102; 97; 108; 115; 101]. repeat split; [assumption|constructor]. }
    destruct (N.eqb_spec c 34) as [->|N4].
    { apply skip_string_sound in H. destruct H as (b & E & Hg). exists b. rewrite E.
      repeat split; [assumption|constructor; exact Hg]. }
    destruct ((c =? 45) || is_digit c)%bool eqn:E5.
    { destruct (parse_number (c :: r)) as [[n r']|] eqn:E; [|discriminate]. injection H as <-.
      apply parse_number_sound in E. destruct E as (b & E & Hg). exists b. rewrite E.
      repeat split; [assumption|econstructor; exact Hg]. }
    destruct (N.eqb_spec c 91) as [->|N6].
    { destruct (skip_ws_split r) as (w0 & Hw0 & Er & Hs0). destruct (skip_ws r) as [|d r'] eqn:Esk0; [discriminate|].
      destruct (N.eqb_spec d 93) as [->|N93].
      - injection H as <-. exists (91 :: w0 ++ [93]). split; [assumption|]. split; [constructor; assumption|].
        rewrite Er. norm_app. reflexivity.
      - apply IHe in H. destruct H as (w1 & b & Hw1 & Hge & E).
        exists (91 :: (w0 ++ w1) ++ b). split; [assumption|]. split; [constructor; [apply WS_app; assumption|exact Hge]|].
        rewrite Er, E. norm_app. reflexivity. }
    destruct (N.eqb_spec c 123) as [->|N7]; [|discriminate].
    destruct (skip_ws_split r) as (w0 & Hw0 & Er & Hs0). destruct (skip_ws r) as [|d r'] eqn:Esk0; [discriminate|].
    destruct (N.eqb_spec d 125) as [->|N125].
    + injection H as <-. exists (123 :: w0 ++ [125]). split; [assumption|]. split; [constructor; assumption|].
      rewrite Er. norm_app. reflexivity.
    + apply IHm in H. destruct H as (w1 & b & Hw1 & Hgm & E).
      exists (123 :: (w0 ++ w1) ++ b). split; [assumption|]. split; [constructor; [apply WS_app; assumption|exact Hgm]|].
      rewrite Er, E. norm_app. reflexivity.
  - intros l rest H. cbn [ignore_elems] in H.
    destruct (ignore_value f l) as [r|] eqn:Ev; [|discriminate].
    apply IHv in Ev. destruct Ev as (w & b & Hw & Hg & ->).
    destruct (skip_ws_split r) as (w2 & Hw2 & Er & Hs2). destruct (skip_ws r) as [|c r'] eqn:Esk; [discriminate|].
    destruct (N.eqb_spec c 44) as [->|N44].
    + apply IHe in H. destruct H as (w1 & b' & Hw1 & Hge & ->).
      exists w, (b ++ w2 ++ 44 :: w1 ++ b'). split; [assumption|]. split; [constructor; assumption|].
      rewrite Er. norm_app. reflexivity.
    + destruct (N.eqb_spec c 93) as [->|N93]; [|discriminate]. injection H as <-.
      exists w, (b ++ w2 ++ [93]). split; [assumption|]. split; [constructor; assumption|].
      rewrite Er. norm_app. reflexivity.
  - intros l rest H. cbn [ignore_members] in H.
    destruct (skip_ws_split l) as (w & Hw & El & Hs). destruct (skip_ws l) as [|c r] eqn:Esk; [discriminate|].
    destruct (N.eqb_spec c 34) as [->|N34]; [|discriminate].
    destruct (skip_string (S f) r) as [r1|] eqn:Ek; [|discriminate].
    apply skip_string_sound in Ek. destruct Ek as (kb & Ekb & Hk).
    destruct (skip_ws_split r1) as (w2 & Hw2 & Er1 & Hs2). destruct (skip_ws r1) as [|d r2] eqn:Esk1; [discriminate|].
    destruct (N.eqb_spec d 58) as [->|N58]; [|discriminate].
    destruct (ignore_value f r2) as [r3|] eqn:Ev; [|discriminate].
    apply IHv in Ev. destruct Ev as (w3 & b & Hw3 & Hg & ->).
    destruct (skip_ws_split r3) as (w4 & Hw4 & Er3 & Hs4). destruct (skip_ws r3) as [|e r4] eqn:Esk3; [discriminate|].
    destruct (N.eqb_spec e 44) as [->|N44].
    + apply IHm in H. destruct H as (w1 & b' & Hw1 & Hgm & ->).
      exists w, (kb ++ w2 ++ 58 :: w3 ++ b ++ w4 ++ 44 :: w1 ++ b').
      split; [assumption|]. split; [constructor; assumption|].
      rewrite El. change (34 :: r) with ([] ++ 34 :: r). rewrite Ekb, Er1, Er3. norm_app. reflexivity.
    + destruct (N.eqb_spec e 125) as [->|N125]; [|discriminate]. injection H as <-.
      exists w, (kb ++ w2 ++ 58 :: w3 ++ b ++ w4 ++ [125]).
      split; [assumption|]. split; [constructor; assumption|].
      rewrite El. change (34 :: r) with ([] ++ 34 :: r). rewrite Ekb, Er1, Er3. norm_app. reflexivity.
Qed.

(* ---------- the schema reader accepts only schema sentences ---------- *)
Theorem schema_reader_sound : forall fuel,
  (forall sc l t rest, parse_sch fuel sc l = Some (t, rest) -> exists w b, WS w /\ GS sc t b /\ l = w ++ b ++ rest) /\
  (forall fs l acc t rest, sch_members fuel fs l acc = Some (t, rest) ->
     exists w b l', WS w /\ GSM fs l' b /\ l = w ++ b ++ rest /\ t = JObj (rev acc ++ l')) /\
  (forall fs l acc t rest, sch_elems fuel fs l acc = Some (t, rest) ->
     exists w b l', WS w /\ GSE fs l' b /\ l = w ++ b ++ rest /\ t = JArr (rev acc ++ l')).
Proof.
  induction fuel as [|f IH]; [repeat split; intros; discriminate|].
  destruct IH as (IHs & IHm & IHe).
  split; [|split].
  - intros sc l t rest H. cbn [parse_sch] in H. destruct sc as [|fs].
    + apply (proj1 (strict_reader_sound _)) in H. destruct H as (w & b & Hw & Hg & ->).
      exists w, b. repeat split; [assumption|constructor; assumption].
    + destruct (skip_ws_split l) as (w & Hw & El & Hs). destruct (skip_ws l) as [|c r] eqn:Esk; [discriminate|].
      destruct (N.eqb_spec c 123) as [->|N123].
      * exists w. rewrite El. clear El.
        destruct (skip_ws_split r) as (w0 & Hw0 & Er & Hs0). destruct (skip_ws r) as [|d r'] eqn:Esk0; [discriminate|].
        destruct (N.eqb_spec d 125) as [->|N125].
        -- injection H as <- <-. exists (123 :: w0 ++ [125]). split; [assumption|]. split; [constructor; assumption|].
           rewrite Er. norm_app. reflexivity.
        -- apply IHm in H. destruct H as (w1 & b & l' & Hw1 & Hgm & E & ->). cbn [rev app].
           exists (123 :: (w0 ++ w1) ++ b). split; [assumption|]. split; [constructor; [apply WS_app; assumption|exact Hgm]|].
           rewrite Er, E. norm_app. reflexivity.
      * destruct (N.eqb_spec c 91) as [->|N91].
        -- exists w. rewrite El. clear El.
           destruct (skip_ws_split r) as (w0 & Hw0 & Er & Hs0). destruct (skip_ws r) as [|d r'] eqn:Esk0; [discriminate|].
           destruct (N.eqb_spec d 93) as [->|N93].
           ++ injection H as <- <-. exists (91 :: w0 ++ [93]). split; [assumption|]. split; [apply GS_arr0; assumption|].
              rewrite Er. norm_app. reflexivity.
           ++ apply IHe in H. destruct H as (w1 & b & l' & Hw1 & Hge & E & ->). cbn [rev app].
              exists (91 :: (w0 ++ w1) ++ b). split; [assumption|]. split; [apply GS_arr; [apply WS_app; assumption|exact Hge]|].
              rewrite Er, E. norm_app. reflexivity.
        -- pose proof H as H'. apply (proj1 (strict_reader_sound _)) in H. destruct H as (w' & b & Hw' & Hg & E).
           exists w', b. split; [assumption|]. split; [|exact E].
           assert (Hsk : forall c0 r0, b = c0 :: r0 -> c0 = c).
           { intros c0 r0 ->. destruct (G_head _ _ Hg) as (c1 & r1 & E1 & Hc1). injection E1 as <- <-.
             assert (Hk : skip_ws l = c0 :: r0 ++ rest).
             { rewrite E. cbn [app]. apply skip_ws_app; [exact Hw'|cbn; apply vstart_nonws; exact Hc1]. }
             rewrite Esk in Hk. injection Hk as -> _. reflexivity. }
           apply GS_other; [exact Hg| |]; intros r0 Eb; specialize (Hsk _ _ Eb); congruence.
  - intros fs l acc t rest H. cbn [sch_members] in H.
    destruct (skip_ws_split l) as (w & Hw & El & Hs). destruct (skip_ws l) as [|c r] eqn:Esk; [discriminate|].
    destruct (N.eqb_spec c 34) as [->|N34]; [|discriminate].
    destruct (parse_string (S f) r) as [[k r1]|] eqn:Ek; [|discriminate].
    apply parse_string_sound in Ek. destruct Ek as (kb & Ekb & Hk).
    destruct (skip_ws_split r1) as (w2 & Hw2 & Er1 & Hs2). destruct (skip_ws r1) as [|d r2] eqn:Esk1; [discriminate|].
    destruct (N.eqb_spec d 58) as [->|N58]; [|discriminate].
    assert (Hval : forall v r3,
       match field_of (str_of k) fs with
       | Some sc' => parse_sch f sc' r2
       | None => match ignore_value (S f) r2 with Some r3 => Some (JNull, r3) | None => None end
       end = Some (v, r3) -> exists w3 b, WS w3 /\ GSV fs (str_of k) v b /\ r2 = w3 ++ b ++ r3).
    { intros v r3 Hv. destruct (field_of (str_of k) fs) as [sc'|] eqn:Ef.
      - apply IHs in Hv. destruct Hv as (w3 & b & Hw3 & Hg & ->). exists w3, b. repeat split; [assumption|].
        eapply GSV_known; eassumption.
      - destruct (ignore_value (S f) r2) as [r3'|] eqn:Ei; [|discriminate]. injection Hv as <- <-.
        apply (proj1 (scanner_sound _)) in Ei. destruct Ei as (w3 & b & Hw3 & Hl & ->). exists w3, b. repeat split; [assumption|].
        apply GSV_unknown; assumption. }
    destruct (match field_of (str_of k) fs with
              | Some sc' => parse_sch f sc' r2
              | None => match ignore_value (S f) r2 with Some r3 => Some (JNull, r3) | None => None end
              end) as [[v r3]|] eqn:Ev; [|discriminate].
    destruct (Hval v r3 eq_refl) as (w3 & b & Hw3 & Hgv & ->).
    destruct (skip_ws_split r3) as (w4 & Hw4 & Er3 & Hs4). destruct (skip_ws r3) as [|e r4] eqn:Esk3; [discriminate|].
    destruct (N.eqb_spec e 44) as [->|N44].
    + apply IHm in H. destruct H as (w1 & b' & l' & Hw1 & Hgm & -> & ->).
      exists w, (kb ++ w2 ++ 58 :: w3 ++ b ++ w4 ++ 44 :: w1 ++ b'), ((str_of k, v) :: l').
      split; [assumption|]. split; [constructor; assumption|]. split.
      * rewrite El. change (34 :: r) with ([] ++ 34 :: r). rewrite Ekb, Er1, Er3. norm_app. reflexivity.
      * cbn [rev]. rewrite <- app_assoc. reflexivity.
    + destruct (N.eqb_spec e 125) as [->|N125]; [|discriminate]. injection H as <- <-.
      exists w, (kb ++ w2 ++ 58 :: w3 ++ b ++ w4 ++ [125]), [(str_of k, v)].
      split; [assumption|]. split; [constructor; assumption|]. split.
      * rewrite El. change (34 :: r) with ([] ++ 34 :: r). rewrite Ekb, Er1, Er3. norm_app. reflexivity.
      * reflexivity.
  - intros fs l acc t rest H. cbn [sch_elems] in H. fold (hd_schema fs) in H.
    destruct (parse_sch f (hd_schema fs) l) as [[v r]|] eqn:Ev; [|discriminate].
    apply IHs in Ev. destruct Ev as (w & b & Hw & Hg & ->).
    destruct (skip_ws_split r) as (w2 & Hw2 & Er & Hs2). destruct (skip_ws r) as [|c r'] eqn:Esk; [discriminate|].
    destruct (N.eqb_spec c 44) as [->|N44].
    + apply IHe in H. destruct H as (w1 & b' & l' & Hw1 & Hge & -> & ->).
      exists w, (b ++ w2 ++ 44 :: w1 ++ b'), (v :: l'). split; [assumption|]. split; [constructor; assumption|]. split.
      * rewrite Er. norm_app. reflexivity.
      * cbn [rev]. rewrite <- app_assoc. reflexivity.
    + destruct (N.eqb_spec c 93) as [->|N93]; [|discriminate]. injection H as <- <-.
      exists w, (b ++ w2 ++ [93]), [v]. split; [assumption|]. split; [constructor; assumption|]. split.
      * rewrite Er. norm_app. reflexivity.
      * reflexivity.
Qed.

(* what the library accepts as a response body IS a sentence of the response schema, and its reading is the reading of
   the tree that sentence denotes: a body outside the schema grammar (not JSON at all, JSON with a defect in a position
   the struct reads, anything after the value) is a failed check *)
Theorem resp_of_body_iff l r :
  resp_of_body l = Some r <->
  exists w b w' t, WS w /\ GS resp_schema t b /\ WS w' /\ l = w ++ b ++ w' /\ resp_of_json t = Some r.
Proof.
  split.
  - unfold resp_of_body, parse_body.
    destruct (parse_sch (fuel_for l) resp_schema l) as [[t r0]|] eqn:E; [|discriminate].
    destruct (skip_ws_split r0) as (w' & Hw' & Er & _). destruct (skip_ws r0) as [|c r'] eqn:Es; [|discriminate].
    rewrite app_nil_r in Er. subst r0. intros H.
    apply (proj1 (schema_reader_sound _)) in E. destruct E as (w & b & Hw & Hg & ->).
    exists w, b, w', t. repeat split; assumption.
  - intros (w & b & w' & t & Hw & Hg & Hw' & -> & Hr). rewrite (resp_of_body_complete _ _ _ _ Hg Hw Hw'). exact Hr.
Qed.

(* the same for any schema *)
Theorem parse_body_iff sc l t :
  parse_body sc l = Some t <-> exists w b w', WS w /\ GS sc t b /\ WS w' /\ l = w ++ b ++ w'.
Proof.
  split.
  - unfold parse_body.
    destruct (parse_sch (fuel_for l) sc l) as [[t0 r0]|] eqn:E; [|discriminate].
    destruct (skip_ws_split r0) as (w' & Hw' & Er & _). destruct (skip_ws r0) as [|c r'] eqn:Es; [|discriminate].
    rewrite app_nil_r in Er. subst r0. intros H. injection H as <-.
    apply (proj1 (schema_reader_sound _)) in E. destruct E as (w & b & Hw & Hg & ->).
    exists w, b, w'. repeat split; assumption.
  - intros (w & b & w' & Hw & Hg & Hw' & ->). apply parse_body_complete; assumption.
Qed.
