(* Json.v — what serde's derived Deserialize for PatchCheckResponse / Patch (network.rs:131-146,
   187-197) makes of a JSON document, over the document's tree.  The text -> tree step (serde_json's
   tokenizer) is not modelled; everything after it is: which shapes are accepted, which are errors,
   which fields are required, defaulted, ignored, what a duplicate does, which numbers fit a usize.
   Definitions only (facts in JsonProofs.v). *)
From UV Require Import Base Codec Model.

(* a JSON number as serde_json classifies the token: an integer literal without fraction or exponent
   (sign, magnitude), or anything else (parsed as f64) *)
Inductive jnum := JInt (neg : bool) (v : N) | JFloat.

Inductive json :=
| JNull
| JBool (b : bool)
| JNum (n : jnum)
| JStr (s : string)
| JArr (l : list json)
| JObj (l : list (string * json)).

Definition two64 := Codec.two64.

(* usize (64-bit): a non-negative integer literal below 2^64.  "-0" is a float for serde_json
   (negative zero), integers beyond u64 are floats, negative integers are i64: all rejected *)
Definition as_usize (j : json) : option N :=
  match j with
  | JNum (JInt false v) => if v <? two64 then Some v else None
  | _ => None
  end.

Definition as_bool (j : json) : option bool := match j with JBool b => Some b | _ => None end.
Definition as_string (j : json) : option string := match j with JStr s => Some s | _ => None end.

(* Option<T>: null is None, anything else must be a T *)
Definition as_option {A} (f : json -> option A) (j : json) : option (option A) :=
  match j with
  | JNull => Some None
  | _ => match f j with Some a => Some (Some a) | None => None end
  end.

Fixpoint all_usize (l : list json) : option (list N) :=
  match l with
  | [] => Some []
  | x :: r => match as_usize x, all_usize r with
              | Some n, Some t => Some (n :: t)
              | _, _ => None
              end
  end.
Definition as_usize_vec (j : json) : option (list N) :=
  match j with JArr l => all_usize l | _ => None end.

(* ----- struct Patch { number: usize, hash: String, download_url: String,
                        #[serde(default)] hash_signature: Option<String> } ----- *)
Record patch_acc := { a_num : option N; a_hash : option string; a_url : option string;
                      a_sig : option (option string) }.
Definition patch_acc0 := {| a_num := None; a_hash := None; a_url := None; a_sig := None |}.

(* visit_map: keys in document order; a repeated known key is an error ("duplicate field");
   unknown keys are skipped whatever their value *)
Fixpoint patch_fields (l : list (string * json)) (a : patch_acc) : option patch_acc :=
  match l with
  | [] => Some a
  | (k, v) :: r =>
      if String.eqb k "number"%string then
        match a_num a, as_usize v with
        | None, Some n => patch_fields r {| a_num := Some n; a_hash := a_hash a; a_url := a_url a; a_sig := a_sig a |}
        | _, _ => None
        end
      else if String.eqb k "hash"%string then
        match a_hash a, as_string v with
        | None, Some s => patch_fields r {| a_num := a_num a; a_hash := Some s; a_url := a_url a; a_sig := a_sig a |}
        | _, _ => None
        end
      else if String.eqb k "download_url"%string then
        match a_url a, as_string v with
        | None, Some s => patch_fields r {| a_num := a_num a; a_hash := a_hash a; a_url := Some s; a_sig := a_sig a |}
        | _, _ => None
        end
      else if String.eqb k "hash_signature"%string then
        match a_sig a, as_option as_string v with
        | None, Some s => patch_fields r {| a_num := a_num a; a_hash := a_hash a; a_url := a_url a; a_sig := Some s |}
        | _, _ => None
        end
      else patch_fields r a
  end.

Definition patch_finish (a : patch_acc) : option patch :=
  match a_num a, a_hash a, a_url a with
  | Some n, Some h, Some u =>
      Some {| p_num := n; p_hash := h; p_url := u;
              p_sig := match a_sig a with Some s => s | None => None end |}
  | _, _, _ => None      (* missing field `number` / `hash` / `download_url` *)
  end.

(* visit_seq: positional; a missing defaulted element takes its default, a missing required one is
   an error, surplus elements are an error (serde_json's end_seq) *)
Definition patch_of_seq (l : list json) : option patch :=
  match l with
  | [n; h; u] =>
      match as_usize n, as_string h, as_string u with
      | Some n', Some h', Some u' => Some {| p_num := n'; p_hash := h'; p_url := u'; p_sig := None |}
      | _, _, _ => None
      end
  | [n; h; u; s] =>
      match as_usize n, as_string h, as_string u, as_option as_string s with
      | Some n', Some h', Some u', Some s' => Some {| p_num := n'; p_hash := h'; p_url := u'; p_sig := s' |}
      | _, _, _, _ => None
      end
  | _ => None
  end.

Definition as_patch (j : json) : option patch :=
  match j with
  | JObj l => match patch_fields l patch_acc0 with Some a => patch_finish a | None => None end
  | JArr l => patch_of_seq l
  | _ => None
  end.

(* ----- struct PatchCheckResponse { patch_available: bool, #[serde(default)] patch: Option<Patch>,
                                     #[serde(default)] rolled_back_patch_numbers: Option<Vec<usize>> } ----- *)
Record resp_acc := { ra_avail : option bool; ra_patch : option (option patch);
                     ra_rb : option (option (list N)) }.
Definition resp_acc0 := {| ra_avail := None; ra_patch := None; ra_rb := None |}.

Fixpoint resp_fields (l : list (string * json)) (a : resp_acc) : option resp_acc :=
  match l with
  | [] => Some a
  | (k, v) :: r =>
      if String.eqb k "patch_available"%string then
        match ra_avail a, as_bool v with
        | None, Some b => resp_fields r {| ra_avail := Some b; ra_patch := ra_patch a; ra_rb := ra_rb a |}
        | _, _ => None
        end
      else if String.eqb k "patch"%string then
        match ra_patch a, as_option as_patch v with
        | None, Some p => resp_fields r {| ra_avail := ra_avail a; ra_patch := Some p; ra_rb := ra_rb a |}
        | _, _ => None
        end
      else if String.eqb k "rolled_back_patch_numbers"%string then
        match ra_rb a, as_option as_usize_vec v with
        | None, Some x => resp_fields r {| ra_avail := ra_avail a; ra_patch := ra_patch a; ra_rb := Some x |}
        | _, _ => None
        end
      else resp_fields r a
  end.

Definition resp_finish (a : resp_acc) : option resp :=
  match ra_avail a with
  | Some b => Some {| r_avail := b;
                      r_patch := match ra_patch a with Some p => p | None => None end;
                      r_rb := match ra_rb a with Some x => x | None => None end |}
  | None => None        (* missing field `patch_available` *)
  end.

Definition resp_of_seq (l : list json) : option resp :=
  match l with
  | [b] => match as_bool b with
           | Some b' => Some {| r_avail := b'; r_patch := None; r_rb := None |}
           | None => None
           end
  | [b; p] => match as_bool b, as_option as_patch p with
              | Some b', Some p' => Some {| r_avail := b'; r_patch := p'; r_rb := None |}
              | _, _ => None
              end
  | [b; p; x] => match as_bool b, as_option as_patch p, as_option as_usize_vec x with
                 | Some b', Some p', Some x' => Some {| r_avail := b'; r_patch := p'; r_rb := x' |}
                 | _, _, _ => None
                 end
  | _ => None
  end.

(* the patch-check response the library reads from a body whose JSON tree is [j];
   None = `response.json()` fails, so the request as a whole fails *)
Definition resp_of_json (j : json) : option resp :=
  match j with
  | JObj l => match resp_fields l resp_acc0 with Some a => resp_finish a | None => None end
  | JArr l => resp_of_seq l
  | _ => None
  end.
