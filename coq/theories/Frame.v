(* Frame.v — frame lemmas at the level of the PatchManager primitives: what each primitive leaves
   alone.  Predicates: I-same, NB/LB/CB selections with intact artifacts, and "gone". *)
From UV Require Import Base Codec Model PMLemmas Inv.
Arguments N.eqb : simpl never.
Arguments N.ltb : simpl never.

Section Frame.
Variable sha : bytes -> bytes.
Variable sigok : string -> string -> string -> bool.

Notation validate := (validate sha sigok).
Notation fall_back := (fall_back sha sigok).
Notation next_boot := (next_boot sha sigok).
Notation boot_failure := (boot_failure sha sigok).
Notation rollback_loop := (rollback_loop sha sigok).

(* ---------- I-same: one number, one record ---------- *)
Definition slots (s : pstate) : list (option meta) := [lb s; nb s; cb s].
Definition Isame (s : pstate) : Prop :=
  forall a b, In (Some a) (slots s) -> In (Some b) (slots s) -> m_num a = m_num b -> a = b.

Lemma Isame_sub s s' :
  (forall a, In (Some a) (slots s') -> In (Some a) (slots s)) -> Isame s -> Isame s'.
Proof. intros H I a b Ha Hb. apply I; auto. Qed.

Lemma Isame_empty : Isame pempty.
Proof. intros a b [H|[H|[H|[]]]]; discriminate. Qed.

Ltac slot_cases :=
  unfold slots in *; cbn [In] in *;
  repeat match goal with
         | H : _ \/ _ |- _ => destruct H
         | H : False |- _ => destruct H
         end.

Lemma fall_back_slots key d s b a :
  In (Some a) (slots (snd (fall_back key d s b))) -> In (Some a) (slots s).
Proof.
  unfold slots. rewrite fall_back_lb, fall_back_nb, fall_back_cb. cbn zeta.
  destruct (lb s) as [l|]; destruct (numeq (nb s) b); cbn [In];
    repeat match goal with |- context [if ?x then _ else _] => destruct x end;
    destruct (nb s); cbn [In]; intuition congruence.
Qed.

Lemma fall_back_Isame key d s b : Isame s -> Isame (snd (fall_back key d s b)).
Proof. apply Isame_sub. apply fall_back_slots. Qed.

Lemma next_boot_slots key d s a :
  In (Some a) (slots (snd (fst (next_boot key d s)))) -> In (Some a) (slots s).
Proof.
  unfold Model.next_boot. destruct (nb s) as [m|]; cbn; auto.
  destruct (validate key d m); cbn; auto.
  pose proof (fall_back_slots key d s (m_num m) a) as H.
  destruct (fall_back key d s (m_num m)). exact H.
Qed.

Lemma next_boot_Isame key d s : Isame s -> Isame (snd (fst (next_boot key d s))).
Proof. apply Isame_sub. apply next_boot_slots. Qed.

Lemma rollback_loop_Isame key l : forall d s, Isame s -> Isame (snd (rollback_loop key d s l)).
Proof.
  induction l as [|x l IH]; intros d s H; cbn; auto.
  pose proof (fall_back_Isame key d s x H). destruct (fall_back key d s x). cbn in *. auto.
Qed.

Lemma boot_failure_Isame key d s n : Isame s -> Isame (snd (boot_failure key d s n)).
Proof.
  intros H. unfold Model.boot_failure. apply fall_back_Isame.
  revert H. apply Isame_sub. unfold slots. cbn. intuition congruence.
Qed.

Lemma boot_success_Isame d s : Isame s -> Isame (snd (boot_success d s)).
Proof.
  unfold boot_success. destruct (cb s) as [b|] eqn:E; cbn; auto.
  apply Isame_sub. unfold slots. cbn. rewrite E. intuition congruence.
Qed.

Lemma start_Isame s : Isame s -> Isame {| lb := lb s; nb := nb s; cb := nb s; bad := bad s |}.
Proof. apply Isame_sub. unfold slots. cbn. intuition congruence. Qed.

(* an install keeps I-same if the new record agrees with any record of the same number that stays *)
Definition consistent (s : pstate) (new : meta) : Prop :=
  forall a, lb s = Some a \/ cb s = Some a -> m_num a = m_num new -> a = new.

Lemma add_patch_Isame d s n b h sg :
  consistent s {| m_num := n; m_size := blen b; m_hash := h; m_sig := sg |} ->
  Isame s -> Isame (snd (add_patch d s n b h sg)).
Proof.
  intros C I. unfold add_patch. cbn [snd].
  set (new := {| m_num := n; m_size := blen b; m_hash := h; m_sig := sg |}) in *.
  intros x y Hx Hy E. unfold slots in Hx, Hy. cbn in Hx, Hy.
  assert (Hin : forall z, lb s = Some z \/ cb s = Some z -> In (Some z) (slots s)).
  { intros z [Hz|Hz]; unfold slots; rewrite <- Hz; cbn; auto. }
  destruct Hx as [Hx|[Hx|[Hx|[]]]]; destruct Hy as [Hy|[Hy|[Hy|[]]]];
    try (injection Hx as <-); try (injection Hy as <-); auto;
    try (apply I; auto; fail);
    try (apply C; auto; fail);
    try (symmetry; apply C; auto; fail).
Qed.

(* ---------- selections with an intact artifact ---------- *)
Definition NBsel (key : option string) (d : disk) (s : pstate) (m : meta) : Prop :=
  nb s = Some m /\ validate key d m = true.
Definition LBsel (key : option string) (d : disk) (s : pstate) (m : meta) : Prop :=
  lb s = Some m /\ validate key d m = true.
Definition CBsel (key : option string) (d : disk) (s : pstate) (m : meta) : Prop :=
  cb s = Some m /\ validate key d m = true.

Lemma Isame_lb_nb s a b : Isame s -> lb s = Some a -> nb s = Some b -> m_num a = m_num b -> a = b.
Proof. intros I Ha Hb. apply I; unfold slots; rewrite <- ?Ha, <- ?Hb; cbn; auto. Qed.
Lemma Isame_lb_cb s a b : Isame s -> lb s = Some a -> cb s = Some b -> m_num a = m_num b -> a = b.
Proof. intros I Ha Hb. apply I; unfold slots; rewrite <- ?Ha, <- ?Hb; cbn; auto. Qed.
Lemma Isame_nb_cb s a b : Isame s -> nb s = Some a -> cb s = Some b -> m_num a = m_num b -> a = b.
Proof. intros I Ha Hb. apply I; unfold slots; rewrite <- ?Ha, <- ?Hb; cbn; auto. Qed.

(* fall_back keeps the artifact of k (k <> b) when any LB carrying number k is intact *)
Lemma fall_back_keeps_valid key d s b m :
  m_num m <> b ->
  (forall l, lb s = Some l -> m_num l = m_num m -> validate key d l = true) ->
  validate key (fst (fall_back key d s b)) m = validate key d m.
Proof.
  intros Hn Hl. apply validate_arts. apply fall_back_arts_kept; auto.
Qed.

Lemma fall_back_LBsel key d s b m :
  LBsel key d s m -> m_num m <> b ->
  LBsel key (fst (fall_back key d s b)) (snd (fall_back key d s b)) m.
Proof.
  intros [Hl Hv] Hn. split.
  - rewrite fall_back_lb, Hl.
    rewrite (validate_arts sha sigok key d (del_art d b)) by (apply arts_del_other; auto).
    rewrite Hv. apply N.eqb_neq in Hn. rewrite Hn. reflexivity.
  - rewrite fall_back_keeps_valid; auto. intros l E. rewrite Hl in E. injection E as <-. auto.
Qed.

Lemma fall_back_NBsel key d s b m :
  Isame s -> NBsel key d s m -> m_num m <> b ->
  NBsel key (fst (fall_back key d s b)) (snd (fall_back key d s b)) m.
Proof.
  intros I [Hn Hv] Hb. split.
  - eapply fall_back_nb_kept; eauto.
  - rewrite fall_back_keeps_valid; auto. intros l El En.
    rewrite (Isame_lb_nb s l m I El Hn En). exact Hv.
Qed.

Lemma fall_back_CBsel key d s b m :
  Isame s -> CBsel key d s m -> m_num m <> b ->
  CBsel key (fst (fall_back key d s b)) (snd (fall_back key d s b)) m.
Proof.
  intros I [Hc Hv] Hb. split.
  - rewrite fall_back_cb. exact Hc.
  - rewrite fall_back_keeps_valid; auto. intros l El En.
    rewrite (Isame_lb_cb s l m I El Hc En). exact Hv.
Qed.

(* next_boot: a valid selection means nothing moves; an invalid one cannot carry the number of an
   intact LB/CB record (I-same), so those survive the fallback *)
Lemma next_boot_NBsel key d s m :
  NBsel key d s m -> next_boot key d s = (d, s, Some (m_num m)).
Proof. intros [H1 H2]. apply next_boot_valid; auto. Qed.

Lemma next_boot_LBsel key d s m :
  Isame s -> LBsel key d s m ->
  LBsel key (fst (fst (next_boot key d s))) (snd (fst (next_boot key d s))) m.
Proof.
  intros I L. unfold Model.next_boot. destruct (nb s) as [x|] eqn:En; cbn; auto.
  destruct (validate key d x) eqn:Ev; cbn; auto.
  pose proof (fall_back_LBsel key d s (m_num x) m L) as H.
  destruct (fall_back key d s (m_num x)). cbn in *. apply H.
  intros E. destruct L as [Hl Hv]. rewrite (Isame_lb_nb s m x I Hl En E) in Hv. congruence.
Qed.

Lemma next_boot_CBsel key d s m :
  Isame s -> CBsel key d s m ->
  CBsel key (fst (fst (next_boot key d s))) (snd (fst (next_boot key d s))) m.
Proof.
  intros I L. unfold Model.next_boot. destruct (nb s) as [x|] eqn:En; cbn; auto.
  destruct (validate key d x) eqn:Ev; cbn; auto.
  pose proof (fall_back_CBsel key d s (m_num x) m I L) as H.
  destruct (fall_back key d s (m_num x)). cbn in *. apply H.
  intros E. destruct L as [Hc Hv]. symmetry in E. rewrite <- (Isame_nb_cb s x m I En Hc E) in Hv. congruence.
Qed.

(* rollback loop *)
Lemma rollback_loop_LBsel key l m : forall d s,
  LBsel key d s m -> ~ In (m_num m) l ->
  LBsel key (fst (rollback_loop key d s l)) (snd (rollback_loop key d s l)) m.
Proof.
  induction l as [|x l IH]; intros d s L Hn; cbn; auto.
  pose proof (fall_back_LBsel key d s x m L) as H.
  destruct (fall_back key d s x) as [d1 s1]. cbn in *. apply IH.
  - apply H. intros E. apply Hn. left. auto.
  - intros Hi. apply Hn. right. auto.
Qed.

Lemma rollback_loop_NBsel key l m : forall d s,
  Isame s -> NBsel key d s m -> ~ In (m_num m) l ->
  NBsel key (fst (rollback_loop key d s l)) (snd (rollback_loop key d s l)) m.
Proof.
  induction l as [|x l IH]; intros d s I L Hn; cbn; auto.
  pose proof (fall_back_NBsel key d s x m I L) as H.
  pose proof (fall_back_Isame key d s x I) as I'.
  destruct (fall_back key d s x) as [d1 s1]. cbn in *.
  apply IH; [exact I' | apply H; intros E; apply Hn; left; auto | intros Hi; apply Hn; right; auto].
Qed.

Lemma rollback_loop_CBsel key l m : forall d s,
  Isame s -> CBsel key d s m -> ~ In (m_num m) l ->
  CBsel key (fst (rollback_loop key d s l)) (snd (rollback_loop key d s l)) m.
Proof.
  induction l as [|x l IH]; intros d s I L Hn; cbn; auto.
  pose proof (fall_back_CBsel key d s x m I L) as H.
  pose proof (fall_back_Isame key d s x I) as I'.
  destruct (fall_back key d s x) as [d1 s1]. cbn in *.
  apply IH; [exact I' | apply H; intros E; apply Hn; left; auto | intros Hi; apply Hn; right; auto].
Qed.

(* boot_success *)
Lemma sweep_arts_kept d s n k : ~ (N.lt k n /\ numeq (nb s) k = false) -> arts (sweep d s n) k = arts d k.
Proof.
  intros H. unfold sweep. cbn. destruct (N.ltb k n) eqn:E1; cbn; auto.
  destruct (numeq (nb s) k) eqn:E2; cbn; auto.
  exfalso. apply H. split; auto. apply N.ltb_lt. exact E1.
Qed.

Lemma boot_success_NBsel key d s m :
  NBsel key d s m -> NBsel key (fst (boot_success d s)) (snd (boot_success d s)) m.
Proof.
  intros [Hn Hv]. unfold boot_success. destruct (cb s) as [b|]; cbn; [|split; auto].
  split; auto. rewrite <- Hv. apply validate_arts. apply sweep_arts_kept.
  cbn. rewrite Hn. cbn. rewrite N.eqb_refl. intros [_ H]. discriminate.
Qed.

Lemma boot_success_LBsel key d s m b :
  Isame s -> cb s = Some b -> m_num b = m_num m -> LBsel key d s m ->
  LBsel key (fst (boot_success d s)) (snd (boot_success d s)) m.
Proof.
  intros I Hc En [Hl Hv]. unfold boot_success. rewrite Hc. cbn.
  assert (b = m) by (symmetry; apply (Isame_lb_cb s m b I Hl Hc); auto). subst b.
  split; auto. rewrite <- Hv. apply validate_arts. apply sweep_arts_kept.
  intros [H _]. apply N.lt_irrefl in H. exact H.
Qed.

(* the patch that a success report promotes keeps its artifact *)
Lemma boot_success_promotes key d s m :
  CBsel key d s m -> LBsel key (fst (boot_success d s)) (snd (boot_success d s)) m.
Proof.
  intros [Hc Hv]. unfold boot_success. rewrite Hc. cbn. split; auto.
  rewrite <- Hv. apply validate_arts. apply sweep_arts_kept.
  intros [H _]. apply N.lt_irrefl in H. exact H.
Qed.

(* add_patch *)
Lemma add_patch_arts_other d s n b h sg k :
  k <> n ->
  (forall x l, nb s = Some x -> lb s = Some l -> m_num x = k ->
               m_num l = k \/ numeq (cb s) k = true) ->
  arts (fst (add_patch d s n b h sg)) k = arts d k.
Proof.
  intros Hk Hx. unfold add_patch. cbn [fst].
  destruct (nb s) as [x|] eqn:En; [destruct (lb s) as [l|] eqn:El|]; cbn;
    try (apply upd_art_other; auto).
  destruct (negb (N.eqb (m_num l) (m_num x)) && negb (N.eqb (m_num x) n) &&
            negb (numeq (cb s) (m_num x))) eqn:E; cbn; try (apply upd_art_other; auto).
  destruct (N.eqb_spec k (m_num x)) as [->|Hne].
  - exfalso. apply andb_prop in E. destruct E as [E E3]. apply andb_prop in E. destruct E as [E1 E2].
    destruct (Hx x l eq_refl eq_refl eq_refl) as [H|H].
    + rewrite H, N.eqb_refl in E1. discriminate.
    + rewrite H in E3. discriminate.
  - rewrite upd_art_other by auto. apply upd_art_other; auto.
Qed.

Lemma add_patch_LBsel key d s n b h sg m :
  LBsel key d s m -> m_num m <> n ->
  LBsel key (fst (add_patch d s n b h sg)) (snd (add_patch d s n b h sg)) m.
Proof.
  intros [Hl Hv] Hn. split; [exact Hl|].
  rewrite <- Hv. apply validate_arts. apply add_patch_arts_other; auto.
  intros x l _ El _. left. rewrite Hl in El. injection El as <-. reflexivity.
Qed.

Lemma add_patch_CBsel key d s n b h sg m :
  CBsel key d s m -> m_num m <> n ->
  CBsel key (fst (add_patch d s n b h sg)) (snd (add_patch d s n b h sg)) m.
Proof.
  intros [Hc Hv] Hn. split; [exact Hc|].
  rewrite <- Hv. apply validate_arts. apply add_patch_arts_other; auto.
  intros x l _ _ _. right. rewrite Hc. cbn. apply N.eqb_refl.
Qed.

(* ---------- gone: artifact absent and not selected ---------- *)
Definition gone (d : disk) (s : pstate) (x : N) : Prop :=
  arts d x = None /\ numeq (nb s) x = false.

Lemma fall_back_gone key d s b x :
  gone d s x -> gone (fst (fall_back key d s b)) (snd (fall_back key d s b)) x.
Proof.
  intros [Ha Hn]. split.
  - destruct (fall_back_arts sha sigok key d s b x) as [H|H]; congruence.
  - assert (Hl : forall l, negb (N.eqb (m_num l) b) && validate key (del_art d b) l = true ->
                           N.eqb (m_num l) x = false).
    { intros l E. apply andb_prop in E. destruct E as [E1 E2]. apply negb_true_iff, N.eqb_neq in E1.
      destruct (N.eqb_spec (m_num l) x) as [<-|]; auto.
      rewrite (validate_none sha sigok) in E2; [discriminate|].
      rewrite arts_del_other by auto. exact Ha. }
    rewrite fall_back_nb. cbn zeta.
    destruct (lb s) as [l|] eqn:El;
      [destruct (negb (N.eqb (m_num l) b) && validate key (del_art d b) l) eqn:E|];
      destruct (numeq (nb s) b) eqn:Eb; cbn; auto;
      try (apply Hl; exact E);
      destruct (nb s); cbn in *; auto; apply Hl; exact E.
Qed.

Lemma fall_back_makes_gone key d s b : gone (fst (fall_back key d s b)) (snd (fall_back key d s b)) b.
Proof. split; [apply fall_back_deletes|apply fall_back_nb_not_bad]. Qed.

Lemma rollback_loop_gone key l x : forall d s,
  gone d s x -> gone (fst (rollback_loop key d s l)) (snd (rollback_loop key d s l)) x.
Proof.
  induction l as [|y l IH]; intros d s G; cbn; auto.
  pose proof (fall_back_gone key d s y x G) as H.
  destruct (fall_back key d s y) as [d1 s1]. cbn in *. auto.
Qed.

Lemma rollback_loop_makes_gone key l x : forall d s,
  In x l -> gone (fst (rollback_loop key d s l)) (snd (rollback_loop key d s l)) x.
Proof.
  induction l as [|y l IH]; intros d s Hin; cbn; [destruct Hin|].
  pose proof (fall_back_makes_gone key d s y) as H.
  destruct (fall_back key d s y) as [d1 s1] eqn:E. cbn in *.
  destruct Hin as [->|Hin]; [apply rollback_loop_gone; exact H|apply IH; exact Hin].
Qed.

Lemma next_boot_gone key d s x :
  gone d s x -> gone (fst (fst (next_boot key d s))) (snd (fst (next_boot key d s))) x.
Proof.
  intros G. unfold Model.next_boot. destruct (nb s) as [m|]; cbn; auto.
  destruct (validate key d m); cbn; auto.
  pose proof (fall_back_gone key d s (m_num m) x G) as H.
  destruct (fall_back key d s (m_num m)). exact H.
Qed.

Lemma boot_success_gone d s x : gone d s x -> gone (fst (boot_success d s)) (snd (boot_success d s)) x.
Proof.
  intros [Ha Hn]. unfold boot_success. destruct (cb s) as [b|]; cbn; [|split; auto].
  split; [|exact Hn]. unfold sweep. cbn. rewrite Ha.
  match goal with |- (if ?c then _ else _) = _ => destruct c end; auto.
Qed.

Lemma boot_failure_gone key d s n x :
  gone d s x -> gone (fst (boot_failure key d s n)) (snd (boot_failure key d s n)) x.
Proof. intros G. unfold Model.boot_failure. apply fall_back_gone. exact G. Qed.

Lemma add_patch_gone d s n b h sg x :
  gone d s x -> x <> n -> gone (fst (add_patch d s n b h sg)) (snd (add_patch d s n b h sg)) x.
Proof.
  intros [Ha Hn] Hx. unfold add_patch. cbn [fst snd]. split.
  - destruct (nb s) as [y|]; [destruct (lb s) as [l|]|]; cbn;
      repeat match goal with |- context [if ?c then _ else _] => destruct c end; cbn;
      unfold upd_art;
      repeat match goal with |- context [if ?c then _ else _] => destruct c eqn:? end; auto;
      try (apply N.eqb_eq in Heqb0; contradiction);
      try (apply N.eqb_eq in Heqb1; contradiction).
  - cbn. apply N.eqb_neq. auto.
Qed.

End Frame.
