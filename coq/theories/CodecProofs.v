(* CodecProofs.v — varint round trips and the bidiff-writer / bipatch-reader round trip (C16). *)
From UV Require Import Base Codec.
From Coq Require Import ZifyN ZifyBool ZifyNat.
Ltac Zify.zify_post_hook ::= Z.div_mod_to_equations.
Arguments N.add : simpl never.
Arguments N.sub : simpl never.
Arguments N.mul : simpl never.
Arguments N.div : simpl never.
Arguments N.modulo : simpl never.
Arguments N.ltb : simpl never.
Arguments N.leb : simpl never.
Arguments N.eqb : simpl never.
Arguments N.pow : simpl never.
Arguments N.of_nat : simpl never.
Arguments N.to_nat : simpl never.
Arguments Z.add : simpl never.
Arguments Z.sub : simpl never.
Arguments Z.mul : simpl never.
Arguments Z.of_N : simpl never.
Arguments Z.to_nat : simpl never.
Arguments Z.ltb : simpl never.
Arguments Z.leb : simpl never.

(* ---------- unsigned varint ---------- *)
Lemma dec_enc_raw f : forall n r,
  n < 128 ^ N.of_nat (S f) -> dec_raw (S f) (enc_raw (S f) n ++ r) = VOk n r.
Proof.
  induction f as [|f IH]; intros n r Hn.
  - change (128 ^ N.of_nat 1) with 128 in Hn. cbn [enc_raw dec_raw].
    assert (E : (n <? 128) = true) by lia. rewrite E. cbn [app]. rewrite E. reflexivity.
  - remember (S f) as g. cbn [enc_raw dec_raw]. destruct (n <? 128) eqn:E.
    + cbn [app]. rewrite E. reflexivity.
    + cbn [app]. assert (H1 : (128 + n mod 128 <? 128) = false) by lia. rewrite H1.
      subst g. rewrite IH.
      * f_equal. lia.
      * rewrite Nat2N.inj_succ, N.pow_succ_r' in Hn. apply N.div_lt_upper_bound; lia.
Qed.

Lemma two64_lt : two64 < 128 ^ N.of_nat 10.
Proof. reflexivity. Qed.

Theorem varint_u64 n r : n < two64 -> dec_u (enc_u n ++ r) = VOk n r.
Proof.
  intros H. unfold dec_u, enc_u. rewrite (dec_enc_raw 9).
  - f_equal. apply N.mod_small. exact H.
  - pose proof two64_lt. lia.
Qed.

Lemma enc_raw_bytes fuel : forall n b, In b (enc_raw fuel n) -> b < 256.
Proof.
  induction fuel as [|f IH]; intros n b; cbn [enc_raw In]; [tauto|].
  destruct (n <? 128) eqn:E; cbn [In]; intros [<-|H]; try lia; try contradiction; eauto.
Qed.

Lemma enc_u_wf n : wf_bytes (enc_u n).
Proof. apply Forall_forall. intros b. apply enc_raw_bytes. Qed.

Lemma enc_u_nonempty n : enc_u n <> [].
Proof. unfold enc_u. cbn [enc_raw]. destruct (n <? 128); discriminate. Qed.

(* ---------- zig-zag ---------- *)
Lemma zigzag_round z :
  (- two63 <= z < two63)%Z -> zigzag_enc z < two64 /\ zigzag_dec (zigzag_enc z) = z.
Proof.
  unfold two63, two64, zigzag_enc, zigzag_dec. intros H.
  destruct (0 <=? z)%Z eqn:E.
  - assert (Hev : N.even (Z.to_N (2 * z)) = true).
    { rewrite Z2N.inj_mul by lia. change (Z.to_N 2) with 2. rewrite N.even_mul. reflexivity. }
    rewrite Hev. split; lia.
  - assert (Hev : N.even (Z.to_N (- 2 * z - 1)) = false).
    { replace (Z.to_N (- 2 * z - 1)) with (1 + 2 * Z.to_N (- z - 1)) by lia.
      rewrite N.even_add_mul_2. reflexivity. }
    rewrite Hev. split; lia.
Qed.

Theorem varint_i64 z r : (- two63 <= z < two63)%Z -> dec_s (enc_s z ++ r) = VOk z r.
Proof.
  intros H. destruct (zigzag_round z H) as [H1 H2].
  unfold dec_s, enc_s. rewrite varint_u64 by exact H1. rewrite H2. reflexivity.
Qed.

(* ---------- lists ---------- *)
Lemma blen_app (a b : bytes) : blen (a ++ b) = blen a + blen b.
Proof. unfold blen. rewrite app_length. lia. Qed.

Lemma take_exact_app (a r : bytes) : take_exact (List.length a) (a ++ r) = Some (a, r).
Proof. induction a as [|x a IH]; cbn; auto. rewrite IH. reflexivity. Qed.

Lemma take_N_app (a r : bytes) : take_N (blen a) (a ++ r) = Some (a, r).
Proof.
  unfold take_N. rewrite blen_app. assert (E : (blen a <=? blen a + blen r) = true) by lia.
  rewrite E. unfold blen. rewrite Nat2N.id. apply take_exact_app.
Qed.

Lemma take_exact_firstn (n : nat) (l : bytes) :
  (n <= List.length l)%nat -> take_exact n l = Some (firstn n l, skipn n l).
Proof.
  revert l. induction n as [|n IH]; intros l H; cbn; auto.
  destruct l as [|x l]; cbn in *; [lia|]. rewrite IH by lia. reflexivity.
Qed.

Lemma slice_length (l : bytes) from len :
  from + len <= blen l -> List.length (slice l from len) = N.to_nat len.
Proof.
  unfold slice, blen. intros H. rewrite firstn_length, skipn_length. lia.
Qed.

Lemma blen_slice (l : bytes) from len : from + len <= blen l -> blen (slice l from len) = len.
Proof. intros H. unfold blen at 1. rewrite slice_length by auto. lia. Qed.

Lemma read_old_slice old pos n :
  pos + n <= blen old -> read_old old (Z.of_N pos) n = Some (slice old pos n).
Proof.
  intros H. unfold read_old. destruct (n =? 0) eqn:E0.
  - assert (n = 0) by lia. subst. unfold slice. change (N.to_nat 0) with 0%nat. reflexivity.
  - assert (E1 : (Z.of_N pos <? 0)%Z = false) by lia. rewrite E1.
    assert (E2 : (Z.of_N (blen old) <? Z.of_N pos + Z.of_N n)%Z = false) by lia. rewrite E2.
    replace (Z.to_nat (Z.of_N pos)) with (N.to_nat pos) by lia.
    rewrite take_exact_firstn.
    + reflexivity.
    + rewrite skipn_length. unfold blen in H. lia.
Qed.

(* adding back what was subtracted *)
Lemma add_sub_bytes : forall (o x : bytes),
  List.length o = List.length x -> wf_bytes o -> wf_bytes x -> add_bytes o (sub_bytes x o) = x.
Proof.
  induction o as [|a o IH]; intros x Hl Ho Hx; destruct x as [|b x]; cbn in *; try discriminate; auto.
  inversion Ho; subst. inversion Hx; subst. rewrite IH by (auto; lia). f_equal. lia.
Qed.

Lemma sub_bytes_length : forall (x o : bytes),
  List.length x = List.length o -> List.length (sub_bytes x o) = List.length x.
Proof.
  induction x as [|a x IH]; intros o H; destruct o as [|b o]; cbn in *; try discriminate; auto.
Qed.

Lemma In_firstn_w {A} (n : nat) (l : list A) x : In x (firstn n l) -> In x l.
Proof. intros H. rewrite <- (firstn_skipn n l). apply in_or_app. auto. Qed.
Lemma In_skipn_w {A} (n : nat) (l : list A) x : In x (skipn n l) -> In x l.
Proof. intros H. rewrite <- (firstn_skipn n l). apply in_or_app. auto. Qed.

Lemma wf_slice l from len : wf_bytes l -> wf_bytes (slice l from len).
Proof.
  unfold wf_bytes, slice. intros H. apply Forall_forall. intros x Hx.
  apply (proj1 (Forall_forall _ _) H). eapply In_skipn_w. eapply In_firstn_w. exact Hx.
Qed.

Lemma skipn_add {A} (a n : nat) : forall (l : list A), skipn (n + a) l = skipn n (skipn a l).
Proof.
  induction a as [|a IH]; intros l.
  - rewrite Nat.add_0_r. reflexivity.
  - destruct l as [|x l]; cbn [skipn].
    + rewrite !skipn_nil. reflexivity.
    + rewrite Nat.add_succ_r. cbn [skipn]. apply IH.
Qed.

Lemma slice_app (l : bytes) a n1 n2 :
  slice l a n1 ++ slice l (a + n1) n2 = slice l a (n1 + n2).
Proof.
  unfold slice. replace (N.to_nat (a + n1)) with (N.to_nat n1 + N.to_nat a)%nat by lia.
  rewrite skipn_add. set (t := skipn (N.to_nat a) l).
  replace (N.to_nat (n1 + n2)) with (N.to_nat n1 + N.to_nat n2)%nat by lia.
  rewrite <- (firstn_skipn (N.to_nat n1) t) at 3.
  rewrite firstn_app. rewrite firstn_firstn.
  replace (Nat.min (N.to_nat n1 + N.to_nat n2) (N.to_nat n1)) with (N.to_nat n1) by lia.
  f_equal. rewrite firstn_length.
  destruct (Nat.le_ge_cases (N.to_nat n1) (List.length t)) as [Hle|Hge].
  - replace (N.to_nat n1 + N.to_nat n2 - Nat.min (N.to_nat n1) (List.length t))%nat with (N.to_nat n2) by lia.
    reflexivity.
  - rewrite (skipn_all2 t) by lia. rewrite !firstn_nil. reflexivity.
Qed.

(* ---------- one control record ---------- *)
Definition next_start (m : bmatch) (nxt : option bmatch) : N :=
  match nxt with Some n => add_old_start n | None => add_old_start m + add_length m end.

Lemma apply_one_record old new m nxt f rest acc :
  wf_bytes old -> wf_bytes new ->
  (Z.of_N (blen old) < two63)%Z -> (Z.of_N (blen new) < two63)%Z ->
  add_old_start m + add_length m <= blen old ->
  add_new_start m + add_length m <= copy_end m -> copy_end m <= blen new ->
  next_start m nxt <= blen old ->
  apply_records (S f) old (Z.of_N (add_old_start m))
                (write_control (control_of old new m nxt) ++ rest) acc =
  apply_records f old (Z.of_N (next_start m nxt)) rest
                (acc ++ slice new (add_new_start m) (copy_end m - add_new_start m)).
Proof.
  intros Wo Wn Bo Bn H1 H2 H3 H4. unfold two63 in *.
  set (os := add_old_start m) in *. set (ns := add_new_start m) in *.
  set (len := add_length m) in *. set (ce := copy_end m) in *.
  set (oslice := slice old os len). set (nslice := slice new ns len).
  assert (Lo : List.length oslice = N.to_nat len) by (apply slice_length; lia).
  assert (Ln : List.length nslice = N.to_nat len) by (apply slice_length; lia).
  set (addb := sub_bytes nslice oslice).
  assert (La : blen addb = len).
  { unfold blen, addb. rewrite sub_bytes_length by congruence. lia. }
  set (cp := slice new (ns + len) (ce - (ns + len))).
  assert (Lc : blen cp = ce - (ns + len)) by (apply blen_slice; lia).
  set (sk := match nxt with
             | Some n => (Z.of_N (add_old_start n) - Z.of_N (os + len))%Z
             | None => 0%Z end).
  assert (Esk : (Z.of_N os + Z.of_N len + sk = Z.of_N (next_start m nxt))%Z).
  { unfold sk, next_start. subst os len. destruct nxt; lia. }
  assert (Rsk : (- two63 <= sk < two63)%Z).
  { unfold two63. unfold next_start in H4. unfold sk. subst os len. destruct nxt; lia. }
  unfold write_control, control_of. fold os ns len ce oslice nslice addb cp. cbn [c_add c_copy c_seek].
  fold sk. rewrite <- !app_assoc.
  cbn [apply_records].
  rewrite varint_u64 by (unfold two64; lia). rewrite La.
  rewrite read_old_slice by lia. fold oslice.
  rewrite <- La at 1. rewrite take_N_app.
  rewrite varint_u64 by (unfold two64; lia).
  rewrite take_N_app.
  rewrite varint_i64 by exact Rsk.
  rewrite Esk.
  assert (Eb : ((Z.of_N (next_start m nxt) <? 0)%Z || (two63 <=? Z.of_N (next_start m nxt))%Z) = false).
  { unfold two63. lia. }
  rewrite Eb. f_equal. f_equal.
  unfold addb. rewrite add_sub_bytes; try congruence; try (apply wf_slice; assumption).
  unfold nslice, cp. rewrite slice_app. f_equal. lia.
Qed.

(* ---------- all records ---------- *)
Lemma apply_all_records old new : forall ms f acc npos,
  wf_bytes old -> wf_bytes new ->
  (Z.of_N (blen old) < two63)%Z -> (Z.of_N (blen new) < two63)%Z ->
  wf_matches_from old new npos ms = true ->
  (List.length ms < f)%nat ->
  match ms with
  | m :: _ =>
      apply_records f old (Z.of_N (add_old_start m))
                    (List.concat (map write_control (translate old new ms))) acc =
      Some (acc ++ slice new npos (blen new - npos))
  | [] => True
  end.
Proof.
  induction ms as [|m rest IH]; intros f acc npos Wo Wn Bo Bn Hwf Hf; [exact I|].
  cbn [wf_matches_from] in Hwf.
  repeat (apply andb_prop in Hwf; destruct Hwf as [Hwf ?]).
  assert (Hs : add_new_start m = npos) by lia. subst npos.
  destruct f as [|f]; [cbn in Hf; lia|].
  cbn [translate map List.concat].
  rewrite (apply_one_record old new m (hd_error rest) f _ acc); auto; try lia.
  - destruct rest as [|m2 rest2].
    + (* last record: clean end of input *)
      cbn [translate map List.concat hd_error next_start].
      destruct f as [|f]; [cbn in Hf; lia|]. cbn [apply_records dec_u dec_raw].
      cbn [wf_matches_from] in *. match goal with Hq : (copy_end m =? blen new) = true |- _ => apply N.eqb_eq in Hq; rewrite Hq end. reflexivity.
    + cbn [hd_error next_start].
      specialize (IH f (acc ++ slice new (add_new_start m) (copy_end m - add_new_start m)) (copy_end m)
                     Wo Wn Bo Bn).
      cbn [List.length] in *. rewrite IH by (auto; lia).
      rewrite <- app_assoc. f_equal.
      assert (Hc : add_new_start m2 = copy_end m).
      { cbn [wf_matches_from] in *. repeat (match goal with H : _ && _ = true |- _ => apply andb_prop in H; destruct H end). lia. }
      replace (blen new - add_new_start m) with ((copy_end m - add_new_start m) + (blen new - copy_end m)) by lia.
      rewrite <- slice_app.
      replace (add_new_start m + (copy_end m - add_new_start m)) with (copy_end m) by lia. reflexivity.
  - destruct rest as [|m2 rest2]; cbn [hd_error next_start]; [lia|].
    cbn [wf_matches_from] in *. repeat (match goal with H : _ && _ = true |- _ => apply andb_prop in H; destruct H end). lia.
Qed.

Lemma slice_all (l : bytes) : slice l 0 (blen l) = l.
Proof. unfold slice, blen. rewrite Nat2N.id. cbn [skipn N.to_nat]. change (N.to_nat 0) with 0%nat. cbn. apply firstn_all. Qed.

Lemma concat_length_ge (cs : list control) :
  (List.length cs <= List.length (List.concat (map write_control cs)))%nat.
Proof.
  induction cs as [|c cs IH]; cbn [map List.concat List.length]; auto. rewrite app_length.
  assert (1 <= List.length (write_control c))%nat.
  { unfold write_control. pose proof (enc_u_nonempty (blen (c_add c))).
    destruct (enc_u (blen (c_add c))); [contradiction|]. cbn. lia. }
  lia.
Qed.

Lemma translate_length old new ms : List.length (translate old new ms) = List.length ms.
Proof. induction ms; cbn; auto. Qed.

(* C16: whatever match list the differ emits, as long as it is well formed, the patch the writer
   produces makes the reader reproduce [new] byte for byte *)
Theorem roundtrip old new ms :
  wf_bytes old -> wf_bytes new ->
  (Z.of_N (blen old) < two63)%Z -> (Z.of_N (blen new) < two63)%Z ->
  wf_matches old new ms = true ->
  apply_patch old (simple_diff old new ms) = Some new.
Proof.
  intros Wo Wn Bo Bn Hwf. unfold simple_diff, write_patch, apply_patch, header.
  cbn [magic_bytes version_bytes app take_exact].
  change (bytes_eqb [223; 177; 0; 0] magic_bytes) with true.
  change (bytes_eqb [0; 16; 0; 0] version_bytes) with true. cbn iota.
  destruct ms as [|m rest].
  - cbn in Hwf. cbn [translate map List.concat List.length apply_records dec_u dec_raw].
    f_equal. destruct new; [reflexivity|]. unfold blen in Hwf. cbn in Hwf. lia.
  - cbn [wf_matches] in Hwf. apply andb_prop in Hwf. destruct Hwf as [H0 Hwf].
    pose proof (apply_all_records old new (m :: rest)
                  (S (List.length (List.concat (map write_control (translate old new (m :: rest))))))
                  [] 0 Wo Wn Bo Bn Hwf) as H.
    cbn beta iota in H. assert (E0 : add_old_start m = 0) by lia. rewrite E0 in H.
    change (Z.of_N 0) with 0%Z in H. rewrite H.
    + cbn [app]. rewrite N.sub_0_r. rewrite slice_all. reflexivity.
    + pose proof (concat_length_ge (translate old new (m :: rest))) as Hl.
      rewrite translate_length in Hl. lia.
Qed.

(* ---------- hex ---------- *)
Lemma unhex_hex_digit n : n < 16 -> unhex_digit (hex_digit n) = Some n.
Proof.
  intros H. unfold unhex_digit, hex_digit. destruct (n <? 10) eqn:E.
  - rewrite N_ascii_embedding by lia.
    assert (E1 : ((48 <=? 48 + n) && (48 + n <=? 57)) = true) by lia. rewrite E1. f_equal. lia.
  - rewrite N_ascii_embedding by lia.
    assert (E1 : ((48 <=? 87 + n) && (87 + n <=? 57)) = false) by lia. rewrite E1.
    assert (E2 : ((97 <=? 87 + n) && (87 + n <=? 102)) = true) by lia. rewrite E2. f_equal. lia.
Qed.

Lemma unhex_hex (b : bytes) : wf_bytes b -> unhex (hex_of_bytes b) = Some b.
Proof.
  induction b as [|x b IH]; intros W; cbn [hex_of_bytes unhex]; auto.
  inversion W; subst. rewrite !unhex_hex_digit by lia. rewrite IH by assumption. f_equal. f_equal. lia.
Qed.

Lemma bytes_eqb_refl (b : bytes) : bytes_eqb b b = true.
Proof. induction b as [|x b IH]; cbn; auto. rewrite N.eqb_refl. exact IH. Qed.
