(* SpecRefine.v — the PatchManager operations of Model.v refine the abstract lifecycle machine of Spec.v.
   The relation R ties a disk + in-memory patch state to an abstract state: same selected / last good /
   booting numbers, same ban list, one record per number (Isame), and for every recorded patch "validates on
   this disk" is exactly "the abstract machine has a bootable artifact for that number". *)
From UV Require Import Base Codec Model PMLemmas Frame Spec.
Arguments N.eqb : simpl never.
Arguments N.ltb : simpl never.

Section Refine.
Variable sha : bytes -> bytes.
Variable sigok : string -> string -> string -> bool.
Variable key : option string.

Notation validate := (validate sha sigok key).
Notation fall_back := (fall_back sha sigok key).
Notation next_boot := (next_boot sha sigok key).
Notation boot_failure := (boot_failure sha sigok key).
Notation rollback_loop := (rollback_loop sha sigok key).

Definition R (d : disk) (s : pstate) (a : ast) : Prop :=
  a_sel a = onum (nb s) /\ a_good a = onum (lb s) /\ a_boot a = onum (cb s) /\ a_ban a = bad s /\
  Isame s /\
  (forall m, In (Some m) (slots s) -> validate d m = a_has a (m_num m)).

Lemma validate_del d x m :
  validate (del_art d x) m = if N.eqb (m_num m) x then false else validate d m.
Proof.
  destruct (N.eqb_spec (m_num m) x) as [E|E].
  - apply validate_none. rewrite E. apply arts_del_same.
  - apply validate_arts. apply arts_del_other. exact E.
Qed.

Lemma oeqb_onum o x : oeqb (onum o) x = numeq o x.
Proof. destruct o; reflexivity. Qed.

Lemma in_slots s m : In (Some m) (slots s) <-> lb s = Some m \/ nb s = Some m \/ cb s = Some m.
Proof.
  unfold slots. cbn. split.
  - intros [H|[H|[H|[]]]]; auto.
  - intros [H|[H|H]]; auto.
Qed.

(* ---------- fall back ---------- *)
Lemma R_fall_back d s a x :
  R d s a -> R (fst (fall_back d s x)) (snd (fall_back d s x)) (a_fall_back a x).
Proof.
  intros (Hs & Hg & Hb & Hn & HI & Hv).
  assert (HI' := fall_back_Isame sha sigok key d s x HI).
  destruct s as [l n c bd]. cbn [nb lb cb bad] in *.
  unfold Model.fall_back, a_fall_back in *. cbn [nb lb cb bad] in *.
  rewrite Hs, Hg, oeqb_onum.
  destruct l as [lm|]; cbn [onum omap].
  - assert (Hl : validate (del_art d x) lm = (if N.eqb (m_num lm) x then false else a_has a (m_num lm))).
    { rewrite validate_del. rewrite (Hv lm) by (apply in_slots; cbn; auto). reflexivity. }
    assert (Ec : (negb (N.eqb (m_num lm) x) && validate (del_art d x) lm) =
                 (negb (N.eqb (m_num lm) x) && a_has (a_del a x) (m_num lm))).
    { rewrite Hl. cbn. reflexivity. }
    rewrite <- Ec. clear Ec.
    destruct (negb (N.eqb (m_num lm) x) && validate (del_art d x) lm) eqn:Ec.
    + (* the last good patch is re-selected if nothing else is *)
      apply andb_prop in Ec. destruct Ec as [E1 E2]. apply Bool.negb_true_iff in E1.
      cbn [fst snd]. repeat split; cbn [a_sel a_good a_boot a_ban a_has a_with_sel a_del nb lb cb bad]; auto.
      * destruct (numeq n x) eqn:En; [reflexivity|]. destruct n; reflexivity.
      * intros m Hin. rewrite validate_save, validate_del.
        apply in_slots in Hin. cbn [nb lb cb] in Hin.
        destruct (N.eqb (m_num m) x) eqn:Em; [reflexivity|].
        apply Hv. apply in_slots. cbn [nb lb cb].
        destruct Hin as [H|[H|H]]; auto.
        destruct (numeq n x) eqn:En.
        -- inversion H; subst. auto.
        -- destruct n as [nm|]; inversion H; subst; auto.
    + (* the last good patch is x, or has lost its artifact: forgotten, artifact removed *)
      cbn [fst snd]. repeat split; cbn [a_sel a_good a_boot a_ban a_has a_with_sel a_with_good a_del nb lb cb bad]; auto.
      * destruct (numeq n x) eqn:En; [reflexivity|]. destruct n; reflexivity.
      * intros m Hin. rewrite validate_save, !validate_del.
        apply in_slots in Hin. cbn [nb lb cb] in Hin.
        destruct (N.eqb (m_num m) (m_num lm)) eqn:Em1; [reflexivity|].
        destruct (N.eqb (m_num m) x) eqn:Em; [reflexivity|].
        apply Hv. apply in_slots. cbn [nb lb cb].
        destruct Hin as [H|[H|H]]; auto; [discriminate|].
        destruct (numeq n x) eqn:En; [discriminate|]. auto.
  - cbn [fst snd]. repeat split; cbn [a_sel a_good a_boot a_ban a_has a_with_sel a_del nb lb cb bad]; auto.
    + destruct (numeq n x) eqn:En; [reflexivity|]. destruct n; reflexivity.
    + intros m Hin. rewrite validate_save, validate_del.
      apply in_slots in Hin. cbn [nb lb cb] in Hin.
      destruct (N.eqb (m_num m) x) eqn:Em; [reflexivity|].
      apply Hv. apply in_slots. cbn [nb lb cb].
      destruct Hin as [H|[H|H]]; auto.
      destruct (numeq n x) eqn:En; [discriminate|]. auto.
Qed.

(* ---------- rollback of a list ---------- *)
Lemma R_rollback l : forall d s a,
  R d s a -> R (fst (rollback_loop d s l)) (snd (rollback_loop d s l)) (a_rollback a l).
Proof.
  induction l as [|x l IH]; intros d s a H; cbn [Model.rollback_loop a_rollback fold_left]; [exact H|].
  pose proof (R_fall_back d s a x H) as H1.
  destruct (fall_back d s x) as [d' s']. cbn [fst snd] in H1. apply IH. exact H1.
Qed.

(* ---------- query ---------- *)
Lemma R_next_boot d s a :
  R d s a ->
  R (fst (fst (next_boot d s))) (snd (fst (next_boot d s))) (fst (a_query a)) /\
  snd (next_boot d s) = snd (a_query a).
Proof.
  intros H. pose proof H as (Hs & Hg & Hb & Hn & HI & Hv).
  unfold Model.next_boot, a_query. rewrite Hs.
  destruct (nb s) as [m|] eqn:En; cbn [onum omap].
  - rewrite <- (Hv m) by (apply in_slots; auto).
    destruct (validate d m) eqn:Ev; cbn [fst snd].
    + split; [exact H|reflexivity].
    + pose proof (R_fall_back d s a (m_num m) H) as H1.
      destruct (fall_back d s (m_num m)) as [d' s']. cbn [fst snd] in *.
      split; [exact H1|]. destruct H1 as (Hs' & _). rewrite Hs'. reflexivity.
  - cbn [fst snd]. split; [exact H|reflexivity].
Qed.

(* ---------- launch start ---------- *)
Definition pm_start (d : disk) (s : pstate) : disk * pstate :=
  let '(d1, s1, r) := next_boot d s in
  match r with
  | Some _ => let s2 := {| lb := lb s1; nb := nb s1; cb := nb s1; bad := bad s1 |} in (save_p d1 s2, s2)
  | None => (d1, s1)
  end.

Lemma R_start d s a : R d s a -> R (fst (pm_start d s)) (snd (pm_start d s)) (a_start a).
Proof.
  intros H. destruct (R_next_boot d s a H) as [H1 H2].
  unfold pm_start, a_start.
  destruct (next_boot d s) as [[d1 s1] r]. destruct (a_query a) as [a1 r']. cbn [fst snd] in *. subst r'.
  destruct r as [n|]; cbn [fst snd]; [|exact H1].
  destruct H1 as (Hs & Hg & Hb & Hn & HI & Hv).
  repeat split; cbn [a_sel a_good a_boot a_ban a_has a_with_boot nb lb cb bad]; auto.
  - apply start_Isame. exact HI.
  - intros m Hin. rewrite validate_save. apply Hv. apply in_slots. apply in_slots in Hin. cbn [nb lb cb] in Hin.
    destruct Hin as [Hx|[Hx|Hx]]; auto.
Qed.

(* ---------- launch success ---------- *)
Lemma validate_sweep d s n m :
  validate (sweep d s n) m =
  if N.ltb (m_num m) n && negb (numeq (nb s) (m_num m)) then false else validate d m.
Proof.
  unfold validate, Model.validate, sweep. cbn [arts set_junk set_arts].
  destruct (N.ltb (m_num m) n && negb (numeq (nb s) (m_num m))); reflexivity.
Qed.

Lemma R_success d s a :
  R d s a -> R (fst (boot_success d s)) (snd (boot_success d s)) (a_success a).
Proof.
  intros H. pose proof H as (Hs & Hg & Hb & Hn & HI & Hv).
  pose proof (boot_success_Isame d s HI) as HI'.
  unfold boot_success, a_success in *. rewrite Hb.
  destruct (cb s) as [b|] eqn:Ec; cbn [onum omap fst snd] in *; [|exact H].
  repeat split; cbn [a_sel a_good a_boot a_ban a_has nb lb cb bad]; auto.
  intros m Hin. rewrite validate_save, validate_sweep. cbn [nb].
  rewrite Hs, oeqb_onum.
  destruct (N.ltb (m_num m) (m_num b) && negb (numeq (nb s) (m_num m))); [reflexivity|].
  apply Hv. apply in_slots. apply in_slots in Hin. cbn [nb lb cb] in Hin.
  destruct Hin as [Hx|[Hx|Hx]]; [inversion Hx; subst; auto|auto|discriminate].
Qed.

(* ---------- launch failure / crash detection of the booting patch ---------- *)
Lemma R_failure d s a bm :
  R d s a -> cb s = Some bm ->
  R (fst (boot_failure d s (m_num bm))) (snd (boot_failure d s (m_num bm))) (a_failure a).
Proof.
  intros H Ec. pose proof H as (Hs & Hg & Hb & Hn & HI & Hv).
  unfold Model.boot_failure, a_failure. rewrite Hb, Ec. cbn [onum omap].
  apply R_fall_back.
  repeat split; cbn [a_sel a_good a_boot a_ban a_has a_with_ban a_with_boot nb lb cb bad]; auto.
  - rewrite Hn. reflexivity.
  - revert HI. apply Isame_sub. unfold slots. cbn. intuition congruence.
  - intros m Hin. apply Hv. apply in_slots. apply in_slots in Hin. cbn [nb lb cb] in Hin.
    destruct Hin as [Hx|[Hx|Hx]]; auto. discriminate.
Qed.

(* ---------- install ---------- *)
Lemma validate_put_other d n b m : m_num m <> n -> validate (put_art d n b) m = validate d m.
Proof. intros E. apply validate_arts. cbn. apply upd_art_other. exact E. Qed.

Lemma R_add_patch d s a n b h sg :
  let new := {| m_num := n; m_size := blen b; m_hash := h; m_sig := sg |} in
  R d s a -> consistent s new -> validate (put_art d n b) new = true ->
  R (fst (add_patch d s n b h sg)) (snd (add_patch d s n b h sg)) (a_install a n).
Proof.
  intros new H C Vn. pose proof H as (Hs & Hg & Hb & Hn & HI & Hv).
  pose proof (add_patch_Isame d s n b h sg C HI) as HI'.
  unfold add_patch, a_install in *. fold new in HI' |- *. cbn [fst snd] in *.
  rewrite Hs, Hg, Hb.
  (* validity of a slot of the new state on the disk after put (before the clean-up) *)
  assert (Hput : forall m, lb s = Some m \/ cb s = Some m \/ m = new ->
                 validate (put_art d n b) m = a_has (a_put a n) (m_num m)).
  { intros m Hm. cbn [a_has a_put].
    destruct (N.eqb_spec (m_num m) n) as [E|E].
    - assert (m = new) as ->.
      { destruct Hm as [Hm|[Hm|Hm]]; auto; apply C; auto. }
      exact Vn.
    - rewrite validate_put_other by exact E. apply Hv. apply in_slots.
      destruct Hm as [Hm|[Hm|Hm]]; auto. subst m. cbn in E. contradiction. }
  destruct (nb s) as [x|] eqn:En; [destruct (lb s) as [l|] eqn:El|]; cbn [onum omap].
  - rewrite oeqb_onum.
    destruct (negb (N.eqb (m_num l) (m_num x)) && negb (N.eqb (m_num x) n) && negb (numeq (cb s) (m_num x))) eqn:Ecl.
    + apply andb_prop in Ecl. destruct Ecl as [Ecl E3]. apply andb_prop in Ecl. destruct Ecl as [E1 E2].
      apply Bool.negb_true_iff in E1, E2, E3. apply N.eqb_neq in E1, E2.
      repeat split; cbn [a_sel a_good a_boot a_ban a_has a_with_sel a_del nb lb cb bad]; auto.
      intros m Hin. rewrite validate_save, validate_del.
      apply in_slots in Hin. cbn [nb lb cb] in Hin.
      assert (Hm : lb s = Some m \/ cb s = Some m \/ m = new).
      { rewrite El. destruct Hin as [Hx|[Hx|Hx]]; auto. inversion Hx; auto. }
      assert (Hne : m_num m <> m_num x).
      { destruct Hin as [Hx|[Hx|Hx]].
        - inversion Hx; subst. exact E1.
        - inversion Hx; subst. cbn. congruence.
        - rewrite Hx in E3. apply numeq_false_some in E3. exact E3. }
      destruct (N.eqb_spec (m_num m) (m_num x)) as [E|E]; [contradiction|].
      apply Hput. rewrite El in Hm. exact Hm.
    + repeat split; cbn [a_sel a_good a_boot a_ban a_has a_with_sel nb lb cb bad]; auto.
      intros m Hin. rewrite validate_save. apply in_slots in Hin. cbn [nb lb cb] in Hin.
      apply Hput. destruct Hin as [Hx|[Hx|Hx]]; auto. inversion Hx; auto.
  - repeat split; cbn [a_sel a_good a_boot a_ban a_has a_with_sel nb lb cb bad]; auto.
    intros m Hin. rewrite validate_save. apply in_slots in Hin. cbn [nb lb cb] in Hin.
    apply Hput. destruct Hin as [Hx|[Hx|Hx]]; auto. inversion Hx; auto.
  - repeat split; cbn [a_sel a_good a_boot a_ban a_has a_with_sel nb lb cb bad]; auto.
    intros m Hin. rewrite validate_save. apply in_slots in Hin. cbn [nb lb cb] in Hin.
    apply Hput. destruct Hin as [Hx|[Hx|Hx]]; auto. inversion Hx; auto.
Qed.

(* ---------- one operation language for both machines ---------- *)
Inductive pmop :=
| PQuery | PStart | PSuccess | PFailure
| PInstall (n : N) (b : bytes) (h : string) (sg : option string)
| PRollback (l : list N).

Definition pm_step (ds : disk * pstate) (o : pmop) : (disk * pstate) * option N :=
  let '(d, s) := ds in
  match o with
  | PQuery => let '(d', s', r) := next_boot d s in ((d', s'), r)
  | PStart => (pm_start d s, None)
  | PSuccess => (boot_success d s, None)
  | PFailure => (match cb s with Some bm => boot_failure d s (m_num bm) | None => (d, s) end, None)
  | PInstall n b h sg => (if inb n (bad s) then (d, s) else add_patch d s n b h sg, None)
  | PRollback l => (rollback_loop d s l, None)
  end.

Definition a_step (a : ast) (o : pmop) : ast * option N :=
  match o with
  | PQuery => a_query a
  | PStart => (a_start a, None)
  | PSuccess => (a_success a, None)
  | PFailure => (a_failure a, None)
  | PInstall n _ _ _ => (if inb n (a_ban a) then a else a_install a n, None)
  | PRollback l => (a_rollback a l, None)
  end.

(* what the environment must guarantee for an install: the new record agrees with any kept record of the same
   number (one content per patch number) and the installed content is bootable (it passed the hash gate; with a
   key configured its signature verifies) *)
Definition op_ok (ds : disk * pstate) (o : pmop) : Prop :=
  match o with
  | PInstall n b h sg =>
      let new := {| m_num := n; m_size := blen b; m_hash := h; m_sig := sg |} in
      inb n (bad (snd ds)) = false ->
      consistent (snd ds) new /\ validate (put_art (fst ds) n b) new = true
  | _ => True
  end.

Theorem pm_refines d s a o :
  R d s a -> op_ok (d, s) o ->
  R (fst (fst (pm_step (d, s) o))) (snd (fst (pm_step (d, s) o))) (fst (a_step a o)) /\
  snd (pm_step (d, s) o) = snd (a_step a o).
Proof.
  intros H Hok. destruct o as [| | | |n b h sg|l]; cbn [pm_step a_step].
  - destruct (R_next_boot d s a H) as [H1 H2]. destruct (next_boot d s) as [[d' s'] r]. cbn [fst snd] in *. auto.
  - split; [apply R_start; exact H|reflexivity].
  - split; [apply R_success; exact H|reflexivity].
  - split; [|reflexivity]. cbn [fst snd]. pose proof H as (_ & _ & Hb & _).
    destruct (cb s) as [bm|] eqn:Ec.
    + apply R_failure; auto.
    + unfold a_failure. rewrite Hb. cbn. exact H.
  - split; [|reflexivity]. cbn [fst snd]. pose proof H as (_ & _ & _ & Hn & _). rewrite Hn.
    destruct (inb n (bad s)) eqn:Eb; [exact H|].
    destruct (Hok Eb) as [C V]. apply R_add_patch; auto.
  - split; [apply R_rollback; exact H|reflexivity].
Qed.

(* any history: the concrete machine, observed through R, IS the abstract machine *)
Fixpoint pm_run (ds : disk * pstate) (ops : list pmop) : (disk * pstate) * list (option N) :=
  match ops with
  | [] => (ds, [])
  | o :: r => let '(ds1, x) := pm_step ds o in let '(ds2, t) := pm_run ds1 r in (ds2, x :: t)
  end.
Fixpoint a_run (a : ast) (ops : list pmop) : ast * list (option N) :=
  match ops with
  | [] => (a, [])
  | o :: r => let '(a1, x) := a_step a o in let '(a2, t) := a_run a1 r in (a2, x :: t)
  end.
Fixpoint ops_ok (ds : disk * pstate) (ops : list pmop) : Prop :=
  match ops with
  | [] => True
  | o :: r => op_ok ds o /\ ops_ok (fst (pm_step ds o)) r
  end.

Theorem pm_run_refines ops : forall d s a,
  R d s a -> ops_ok (d, s) ops ->
  R (fst (fst (pm_run (d, s) ops))) (snd (fst (pm_run (d, s) ops))) (fst (a_run a ops)) /\
  snd (pm_run (d, s) ops) = snd (a_run a ops).
Proof.
  induction ops as [|o r IH]; intros d s a H Hok; cbn [pm_run a_run]; [auto|].
  destruct Hok as [Ho Hr].
  destruct (pm_refines d s a o H Ho) as [H1 H2].
  destruct (pm_step (d, s) o) as [[d1 s1] x]. destruct (a_step a o) as [a1 x']. cbn [fst snd] in *. subst x'.
  destruct (IH d1 s1 a1 H1 Hr) as [H3 H4].
  destruct (pm_run (d1, s1) r) as [[d2 s2] t]. destruct (a_run a1 r) as [a2 t']. cbn [fst snd] in *. subst t'.
  auto.
Qed.

(* the empty state of a fresh release is related to the empty abstract state *)
Definition a_empty : ast := {| a_sel := None; a_good := None; a_boot := None; a_ban := []; a_has := fun _ => false |}.
Lemma R_empty d : R d pempty a_empty.
Proof.
  repeat split; cbn; auto; [apply Isame_empty|]. intros m [H|[H|[H|[]]]]; discriminate.
Qed.

End Refine.
