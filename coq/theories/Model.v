(* Model.v — executable model of the updater's persisted lifecycle (fault-free semantics).
   Mirrors library/src/cache/patch_manager.rs, cache/updater_state.rs, updater.rs, config.rs and
   the C wrappers of c_api/mod.rs, function by function.  Definitions only. *)
From UV Require Import Base Codec.

(* ---------- persisted data ---------- *)
Record meta := { m_num : N; m_size : N; m_hash : string; m_sig : option string }.
Record pstate := { lb : option meta; nb : option meta; cb : option meta; bad : list N }.
Definition pempty : pstate := {| lb := None; nb := None; cb := None; bad := [] |}.

Inductive evkind := EvInstallSuccess | EvInstallFailure | EvDownload.
Inductive evmsg := MsgNone | MsgInit | MsgEngine | MsgOther (s : string).   (* MsgOther: a message read back from a state.json that this library version did not write *)
Record event := { e_kind : evkind; e_num : N; e_app : string; e_rel : string; e_msg : evmsg }.
Record sstate := { rel : string; evq : list event }.

Inductive jfile (A : Type) := JMissing | JGarbage | JOk (v : A).
Arguments JMissing {A}. Arguments JGarbage {A}. Arguments JOk {A} v.

(* patches/<n>/ : directory without artifact, or directory with dlc.vmcode *)
Inductive art := ADir | AFile (b : bytes).

Record disk := { sj : jfile sstate; pj : jfile pstate; arts : N -> option art;
                 junk : bool (* non-numeric entries in patches/ *) }.

Definition set_arts (d : disk) (a : N -> option art) : disk :=
  {| sj := sj d; pj := pj d; arts := a; junk := junk d |}.
Definition set_pj (d : disk) (v : jfile pstate) : disk :=
  {| sj := sj d; pj := v; arts := arts d; junk := junk d |}.
Definition set_sj (d : disk) (v : jfile sstate) : disk :=
  {| sj := v; pj := pj d; arts := arts d; junk := junk d |}.
Definition set_junk (d : disk) (j : bool) : disk :=
  {| sj := sj d; pj := pj d; arts := arts d; junk := j |}.
Definition upd_art (a : N -> option art) (n : N) (v : option art) : N -> option art :=
  fun k => if N.eqb k n then v else a k.
Definition del_art (d : disk) (n : N) : disk := set_arts d (upd_art (arts d) n None).
Definition put_art (d : disk) (n : N) (b : bytes) : disk :=
  set_arts d (upd_art (arts d) n (Some (AFile b))).

Definition load_p (d : disk) : pstate := match pj d with JOk s => s | _ => pempty end.
Definition save_p (d : disk) (s : pstate) : disk := set_pj d (JOk s).

Definition numeq (o : option meta) (n : N) : bool :=
  match o with Some m => N.eqb (m_num m) n | None => false end.
Definition onum (o : option meta) : option N := omap m_num o.

(* ---------- configuration ---------- *)
Record cfg := { c_app : string; c_rel : string; c_chan : string; c_key : option string;
                c_auto : bool }.

Inductive yaml_in :=
| YBad
| YOk (app : string) (chan : option string) (key : option string) (auto : option bool).

Definition default_channel : string := "stable"%string.

(* ---------- network ---------- *)
Record patch := { p_num : N; p_hash : string; p_url : string; p_sig : option string }.
Record resp := { r_avail : bool; r_patch : option patch; r_rb : option (list N) }.
Record request := { q_app : string; q_chan : string; q_rel : string }.
Inductive netobs := NEvent (e : event) | NCheck (q : request) | NDownload (url : string).

Section Oracles.
(* external functions: never axioms; instantiated by the driver from tables / real code *)
Variable sha : bytes -> bytes.                           (* SHA-256 digest *)
Variable sigok : string -> string -> string -> bool.     (* key, message, signature *)
Variable zdec : bytes -> bytes.          (* what the zstd thread pushes into the pipe *)
Variable base : bytes.                                   (* the bundled libapp *)

(* ---------- PatchManager ---------- *)
(* validate_patch_is_bootable, patch_manager.rs *)
Definition validate (key : option string) (d : disk) (m : meta) : bool :=
  match arts d (m_num m) with
  | Some (AFile b) =>
      N.eqb (blen b) (m_size m) &&
      match key with
      | None => true
      | Some k => match m_sig m with
                  | None => false
                  | Some s => sigok k (hex_of_bytes (sha b)) s
                  end
      end
  | _ => false
  end.

(* try_fall_back_from_patch: returns the new in-memory state and disk (state saved) *)
Definition fall_back (key : option string) (d : disk) (s : pstate) (badn : N) : disk * pstate :=
  let d1 := del_art d badn in
  let nb1 := if numeq (nb s) badn then None else nb s in
  match lb s with
  | Some l =>
      if negb (N.eqb (m_num l) badn) && validate key d1 l
      then let s' := {| lb := lb s;
                        nb := match nb1 with None => Some l | Some x => Some x end;
                        cb := cb s; bad := bad s |} in
           (save_p d1 s', s')
      else let s' := {| lb := None; nb := nb1; cb := cb s; bad := bad s |} in
           (save_p (del_art d1 (m_num l)) s', s')
  | None =>
      let s' := {| lb := None; nb := nb1; cb := cb s; bad := bad s |} in
      (save_p d1 s', s')
  end.

(* next_boot_patch *)
Definition next_boot (key : option string) (d : disk) (s : pstate) : disk * pstate * option N :=
  match nb s with
  | None => (d, s, None)
  | Some m =>
      if validate key d m then (d, s, Some (m_num m))
      else let '(d', s') := fall_back key d s (m_num m) in (d', s', onum (nb s'))
  end.

(* record_boot_failure_for_patch *)
Definition add_bad (n : N) (l : list N) : list N := if inb n l then l else n :: l.
Definition boot_failure (key : option string) (d : disk) (s : pstate) (n : N) : disk * pstate :=
  fall_back key d {| lb := lb s; nb := nb s; cb := None; bad := add_bad n (bad s) |} n.

(* delete_patch_artifacts_older_than (with the selected next boot patch spared) *)
Definition sweep (d : disk) (s : pstate) (n : N) : disk :=
  set_junk
    (set_arts d (fun k => if N.ltb k n && negb (numeq (nb s) k) then None else arts d k))
    false.

(* record_boot_success *)
Definition boot_success (d : disk) (s : pstate) : disk * pstate :=
  match cb s with
  | None => (d, s)
  | Some b =>
      let s' := {| lb := Some b; nb := nb s; cb := None; bad := bad s |} in
      (save_p (sweep d s' (m_num b)) s', s')
  end.

(* add_patch (the downloaded file exists) *)
Definition add_patch (d : disk) (s : pstate) (n : N) (b : bytes) (h : string) (sg : option string)
  : disk * pstate :=
  let d1 := put_art d n b in
  let new := {| m_num := n; m_size := blen b; m_hash := h; m_sig := sg |} in
  let d2 := match nb s, lb s with
            | Some x, Some l =>
                if negb (N.eqb (m_num l) (m_num x)) && negb (N.eqb (m_num x) n)
                   && negb (numeq (cb s) (m_num x))
                then del_art d1 (m_num x) else d1
            | _, _ => d1
            end in
  let s' := {| lb := lb s; nb := Some new; cb := cb s; bad := bad s |} in
  (save_p d2 s', s').

(* ---------- UpdaterState::load_or_new_on_error ---------- *)
Definition fresh_disk (r : string) : disk :=
  {| sj := JOk {| rel := r; evq := [] |}; pj := JOk pempty; arts := fun _ => None;
     junk := false |}.

Definition norm (c : cfg) (d : disk) : disk :=
  match sj d with
  | JOk s => if String.eqb (rel s) (c_rel c) then d else fresh_disk (c_rel c)
  | _ => fresh_disk (c_rel c)
  end.
Definition load_s (c : cfg) (d : disk) : sstate :=
  match sj d with JOk s => s | _ => {| rel := c_rel c; evq := [] |} end.

Definition queue_event (c : cfg) (d : disk) (e : event) : disk :=
  let s := load_s c d in set_sj d (JOk {| rel := rel s; evq := evq s ++ [e] |}).

Definition mk_event (c : cfg) (k : evkind) (n : N) (m : evmsg) : event :=
  {| e_kind := k; e_num := n; e_app := c_app c; e_rel := c_rel c; e_msg := m |}.

(* ---------- critical sections of updater.rs (each starts with a fresh load) ---------- *)
Definition cs_next (c : cfg) (d : disk) : disk * option N :=
  let d := norm c d in
  let '(d', _, r) := next_boot (c_key c) d (load_p d) in (d', r).

Definition cs_current (c : cfg) (d : disk) : disk * option N :=
  let d := norm c d in
  let s := load_p d in
  (d, match cb s with Some m => Some (m_num m) | None => onum (lb s) end).

Definition cs_start (c : cfg) (d : disk) : disk :=
  let d := norm c d in
  let '(d1, s1, r) := next_boot (c_key c) d (load_p d) in
  match r with
  | Some _ => save_p d1 {| lb := lb s1; nb := nb s1; cb := nb s1; bad := bad s1 |}
  | None => d1
  end.

Definition cs_success (c : cfg) (d : disk) : disk * list netobs :=
  let d := norm c d in
  let s := load_p d in
  match cb s with
  | None => (d, [])
  | Some b =>
      let '(d', _) := boot_success d s in
      (d', if numeq (lb s) (m_num b) then []
           else [NEvent (mk_event c EvInstallSuccess (m_num b) MsgNone)])
  end.

(* report_launch_failure; false = error returned (nothing is booting) *)
Definition cs_failure (c : cfg) (d : disk) : disk * bool :=
  let d := norm c d in
  let s := load_p d in
  match cb s with
  | None => (d, false)
  | Some b =>
      let '(d', _) := boot_failure (c_key c) d s (m_num b) in
      (queue_event c d' (mk_event c EvInstallFailure (m_num b) MsgEngine), true)
  end.

(* handle_prior_boot_failure_if_necessary *)
Definition cs_init_recover (c : cfg) (d : disk) : disk :=
  let d := norm c d in
  let s := load_p d in
  match cb s with
  | None => d
  | Some b =>
      let '(d', _) := boot_failure (c_key c) d s (m_num b) in
      queue_event c d' (mk_event c EvInstallFailure (m_num b) MsgInit)
  end.

(* roll_back_patches_if_needed: one critical section, state kept in memory across the loop *)
Fixpoint rollback_loop (key : option string) (d : disk) (s : pstate) (l : list N) : disk * pstate :=
  match l with
  | [] => (d, s)
  | n :: r => let '(d', s') := fall_back key d s n in rollback_loop key d' s' r
  end.
Definition cs_rollback (c : cfg) (d : disk) (l : list N) : disk :=
  let d := norm c d in fst (rollback_loop (c_key c) d (load_p d) l).

Definition cs_is_bad (c : cfg) (d : disk) (n : N) : disk * bool :=
  let d := norm c d in (d, inb n (bad (load_p d))).

Inductive should := ShOk | ShBad | ShAlready.
(* should_install_patch: two critical sections *)
Definition should_install (c : cfg) (d : disk) (n : N) : disk * should :=
  let '(d1, isbad) := cs_is_bad c d n in
  if isbad then (d1, ShBad)
  else let '(d2, r) := cs_next c d1 in
       match r with
       | Some k => if N.eqb k n then (d2, ShAlready) else (d2, ShOk)
       | None => (d2, ShOk)
       end.

Definition cs_copy_events (c : cfg) (d : disk) : disk * list event :=
  let d := norm c d in (d, firstn 3 (evq (load_s c d))).
Definition cs_clear_events (c : cfg) (d : disk) : disk :=
  let d := norm c d in set_sj d (JOk {| rel := rel (load_s c d); evq := [] |}).

(* the install critical section (with the ban re-check) *)
Inductive ustatus := UNoUpdate | UInstalled | UHadError | UBadPatch | UError.
Definition cs_install (c : cfg) (d : disk) (p : patch) (b : bytes) : disk * ustatus :=
  let d := norm c d in
  let s := load_p d in
  if inb (p_num p) (bad s) then (d, UBadPatch)
  else let '(d', _) := add_patch d s (p_num p) b (p_hash p) (p_sig p) in (d', UInstalled).

(* inflate + check_hash: Some out iff the download inflates and matches the advertised hash *)
Definition inflate (dl : bytes) : option bytes := apply_patch base (zdec dl).
Definition hash_ok (out : bytes) (h : string) : bool :=
  match unhex h with Some e => bytes_eqb (sha out) e | None => false end.

Definition mk_request (c : cfg) (ch : option string) : request :=
  {| q_app := c_app c; q_chan := match ch with Some x => x | None => c_chan c end;
     q_rel := c_rel c |}.

Definition download_url_of (p : patch) : string := p_url p.

(* check_for_downloadable_update *)
Definition do_check (c : cfg) (d : disk) (ch : option string) (r : option resp)
  : disk * bool * list netobs :=
  let log := [NCheck (mk_request c ch)] in
  match r with
  | None => (d, false, log)
  | Some rs =>
      let d1 := match r_rb rs with Some l => cs_rollback c d l | None => d end in
      match r_patch rs with
      | None => (d1, false, log)
      | Some p =>
          let '(d2, sh) := should_install c d1 (p_num p) in
          (d2, match sh with ShOk => true | _ => false end, log)
      end
  end.

(* update_internal (the caller holds the update lock) *)
Definition do_update (c : cfg) (d : disk) (ch : option string) (r : option resp)
           (dl : option bytes) : disk * ustatus * list netobs :=
  let '(d0, evs) := cs_copy_events c d in
  let d1 := cs_clear_events c d0 in
  let log := map NEvent evs ++ [NCheck (mk_request c ch)] in
  match r with
  | None => (d1, UError, log)
  | Some rs =>
      let d2 := match r_rb rs with Some l => cs_rollback c d1 l | None => d1 end in
      if negb (r_avail rs) then (d2, UNoUpdate, log)
      else match r_patch rs with
           | None => (d2, UError, log)
           | Some p =>
               let '(d3, sh) := should_install c d2 (p_num p) in
               match sh with
               | ShBad => (d3, UBadPatch, log)
               | ShAlready => (d3, UNoUpdate, log)
               | ShOk =>
                   let log := log ++ [NDownload (p_url p)] in
                   match dl with
                   | None => (d3, UError, log)
                   | Some bytes_dl =>
                       match inflate bytes_dl with
                       | None => (d3, UError, log)
                       | Some out =>
                           if hash_ok out (p_hash p) then
                             let '(d4, st) := cs_install c d3 p out in
                             (d4, st,
                              match st with
                              | UInstalled =>
                                  log ++ [NEvent (mk_event c EvDownload (p_num p) MsgNone)]
                              | _ => log
                              end)
                           else (d3, UError, log)
                       end
                   end
               end
           end
  end.

(* ---------- worlds, operations, step ---------- *)
Record world := { w_disk : disk; w_cfg : option cfg }.

Inductive damage :=
| DDelArtFile (n : N)          (* remove dlc.vmcode, keep the directory *)
| DDelArtDir (n : N)           (* remove patches/<n> entirely *)
| DSetArt (n : N) (b : bytes)  (* truncate / extend / replace *)
| DSetPj (v : jfile pstate)    (* delete / garbage / stale patches_state.json *)
| DSetSj (v : jfile sstate)    (* delete / garbage / stale state.json *)
| DJunk.                       (* a non-numeric directory appears in patches/ *)

Inductive op :=
| OInit (relv : string) (y : yaml_in) (paths_ok : bool)
| OKill
| ONextNum | ONextPath | OCurNum | OStart | OSuccess | OFailure | OAuto
| OCheck (ch : option string) (r : option resp)
| OUpdate (ch : option string) (r : option resp) (dl : option bytes)
| ODamage (g : damage).

Inductive out :=
| RBool (b : bool) | RNum (n : N) | RPath (o : option N) | RUnit | RStatus (z : Z).

Definition status_code (u : ustatus) : Z :=
  match u with
  | UNoUpdate => 0 | UInstalled => 1 | UHadError => 2 | UBadPatch => 3 | UError => (-1)
  end%Z.

Definition apply_damage (d : disk) (g : damage) : disk :=
  match g with
  | DDelArtFile n => match arts d n with
                     | Some _ => set_arts d (upd_art (arts d) n (Some ADir))
                     | None => d
                     end
  | DDelArtDir n => del_art d n
  | DSetArt n b => put_art d n b
  | DSetPj v => set_pj d v
  | DSetSj v => set_sj d v
  | DJunk => set_junk d true
  end.

Definition cfg_of (relv : string) (y : yaml_in) : option cfg :=
  match y with
  | YBad => None
  | YOk app chan key auto =>
      Some {| c_app := app; c_rel := relv;
              c_chan := match chan with Some x => x | None => default_channel end;
              c_key := key;
              c_auto := match auto with Some a => a | None => true end |}
  end.

Definition step (w : world) (o : op) : world * out * list netobs :=
  let d := w_disk w in
  match o with
  | ODamage g => ({| w_disk := apply_damage d g; w_cfg := w_cfg w |}, RUnit, [])
  | OKill => ({| w_disk := d; w_cfg := None |}, RUnit, [])
  | OInit relv y paths_ok =>
      match cfg_of relv y with
      | None => (w, RBool false, [])
      | Some c =>
          if negb paths_ok then (w, RBool false, [])
          else match w_cfg w with
               | Some _ => (w, RBool false, [])
               | None => ({| w_disk := cs_init_recover c d; w_cfg := Some c |}, RBool true, [])
               end
      end
  | _ =>
      match w_cfg w with
      | None =>
          (w, match o with
              | ONextNum | OCurNum => RNum 0
              | ONextPath => RPath None
              | OAuto => RBool true
              | OCheck _ _ => RBool false
              | OUpdate _ _ _ => RStatus (-1)
              | _ => RUnit
              end, [])
      | Some c =>
          let mk d' := {| w_disk := d'; w_cfg := Some c |} in
          match o with
          | ONextNum => let '(d', r) := cs_next c d in
                        (mk d', RNum (match r with Some n => n | None => 0 end), [])
          | ONextPath => let '(d', r) := cs_next c d in (mk d', RPath r, [])
          | OCurNum => let '(d', r) := cs_current c d in
                       (mk d', RNum (match r with Some n => n | None => 0 end), [])
          | OStart => (mk (cs_start c d), RUnit, [])
          | OSuccess => let '(d', l) := cs_success c d in (mk d', RUnit, l)
          | OFailure => let '(d', _) := cs_failure c d in (mk d', RUnit, [])
          | OAuto => (w, RBool (c_auto c), [])
          | OCheck ch r => let '(d', b, l) := do_check c d ch r in (mk d', RBool b, l)
          | OUpdate ch r dl => let '(d', u, l) := do_update c d ch r dl in
                               (mk d', RStatus (status_code u), l)
          | _ => (w, RUnit, [])
          end
      end
  end.

Fixpoint run (w : world) (ops : list op) : world * list (out * list netobs) :=
  match ops with
  | [] => (w, [])
  | o :: r => let '(w1, x, l) := step w o in
              let '(w2, t) := run w1 r in (w2, (x, l) :: t)
  end.

End Oracles.

Definition empty_disk : disk :=
  {| sj := JMissing; pj := JMissing; arts := fun _ => None; junk := false |}.
Definition world0 : world := {| w_disk := empty_disk; w_cfg := None |}.
