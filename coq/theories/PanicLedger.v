(* PanicLedger.v — the committed ledger of explicit panic sites / unsafe blocks of the non-test
   library code, each with the reason it cannot fire (or what it depends on).  gen/PanicSites.v is
   regenerated from the current sources on every run and must equal this list (props/C13.v). *)
From Coq Require Import List String.
Import ListNotations.
Open Scope string_scope.

Definition ledger : list (string * string * string) :=
  [
  (* reads of caller-supplied pointers; null-checked first (anyhow::ensure) where the API allows null *)
  ("c_api/mod.rs", "to_rust", "unsafe");
  ("c_api/mod.rs", "to_rust_vector", "unsafe");
  ("c_api/mod.rs", "to_rust_vector", "offset");
  ("c_api/mod.rs", "app_config_from_c", "unsafe");
  (* PathBuf built by joining UTF-8 Strings: to_str() cannot fail *)
  ("c_api/mod.rs", "path_to_c_string", "unwrap()");
  (* the two free functions: null-checked, documented contract "pointer returned by this library" *)
  ("c_api/mod.rs", "shorebird_free_string", "unsafe");
  ("c_api/mod.rs", "shorebird_free_string", "unsafe");
  ("c_api/mod.rs", "shorebird_free_update_result", "unsafe");
  ("c_api/mod.rs", "shorebird_free_update_result", "unsafe");
  (* poisoned config mutex: only after an earlier panic while the lock was held *)
  ("config.rs", "with_config", "expect");
  ("config.rs", "with_config_mut", "expect");
  (* channel.unwrap() directly under `if channel.is_some()` *)
  ("updater.rs", "update_internal", "unwrap()");
  (* thread spawns: panic only if the OS refuses a thread (runtime, not modelled) *)
  ("updater.rs", "update_internal", "thread::spawn");
  ("updater.rs", "inflate", "thread::spawn");
  ("updater.rs", "report_launch_success", "thread::spawn");
  ("updater.rs", "start_update_thread", "thread::spawn");
  (* poisoned update mutex: only after an earlier panic while it was held *)
  ("updater_lock.rs", "with_updater_thread_lock", "panic")
  ].

(* The check is on (file, kind) with multiplicity, and one-directional: every explicit panic site / unsafe block /
   thread spawn of the current sources must be covered by an audited entry of the same kind in the same file.
   Renaming or splitting a function, or REMOVING a site, is harmless and keeps the check; a NEW site, or a site
   moved to another file, is not covered and breaks it. *)
Definition fk (s : string * string * string) : string * string := (fst (fst s), snd s).
Definition fk_eqb (a b : string * string) : bool := String.eqb (fst a) (fst b) && String.eqb (snd a) (snd b).
Definition count_fk (k : string * string) (l : list (string * string * string)) : nat :=
  List.length (List.filter (fun s => fk_eqb k (fk s)) l).
Definition covered (sites led : list (string * string * string)) : bool :=
  List.forallb (fun s => Nat.leb (count_fk (fk s) sites) (count_fk (fk s) led)) sites.
