(* JsonTorn.v — a torn write of a state file is garbage.
   disk_io::write truncates the file and streams the new text into it; a process death or a failing write leaves a
   strict prefix of that text.  The fault model (Fault.v: write_pj) says such a file is JGarbage; DESIGN listed "a
   strict prefix of a pretty-printed JSON object never parses" as an assumption.  With the text-level reader in the
   model it is a theorem: if a text reads as a value of a struct schema, starts (after white space) with '{' and ends
   with '}', then NO strict prefix of it is accepted. *)
From UV Require Import Base Codec Model Json JsonText JsonTextProofs JsonTextSound JsonState JsonStateProofs.
From Coq Require Import ZifyN ZifyBool ZifyNat Lia.
Local Open Scope N_scope.
Arguments N.eqb : simpl never.

(* an object sentence is self-delimiting: the schema reader stops at its closing brace whatever follows *)
Lemma object_any_rest fs l w0 b : WS w0 -> GSM fs l b ->
  forall w rest fuel, WS w -> (List.length (123%N :: w0 ++ b) < fuel)%nat ->
    parse_sch fuel (SStruct fs) (w ++ (123 :: w0 ++ b) ++ rest) = Some (JObj l, rest).
Proof.
  intros Hw0 Hm w rest fuel Hw Hf. destruct fuel as [|f]; [lia|]. cbn [parse_sch].
  rewrite skip_ws_app; [|exact Hw|cbn; reflexivity]. cbn [app].
  assert (E : (123 =? 123) = true) by reflexivity. rewrite E. rewrite <- app_assoc.
  destruct (GSM_head _ _ _ Hm) as (r & Eb).
  rewrite skip_ws_app; [|exact Hw0|subst b; cbn; reflexivity].
  assert (Hlen : (List.length b < f)%nat) by (cbn [List.length] in Hf; rewrite app_length in Hf; lia).
  pose proof (proj1 (proj2 schema_reader_complete) fs l b Hm [] rest [] f (Forall_nil _) Hlen) as IH. cbn [app rev] in IH.
  subst b. cbn [app] in *. assert (E7 : (34 =? 125) = false) by reflexivity. rewrite E7. exact IH.
Qed.

Lemma empty_object_any_rest fs w0 : WS w0 ->
  forall w rest fuel, WS w -> (0 < fuel)%nat ->
    parse_sch fuel (SStruct fs) (w ++ (123 :: w0 ++ [125]) ++ rest) = Some (JObj [], rest).
Proof.
  intros Hw0 w rest fuel Hw Hf. destruct fuel as [|f]; [lia|]. cbn [parse_sch].
  rewrite skip_ws_app; [|exact Hw|cbn; reflexivity]. cbn [app].
  assert (E : (123 =? 123) = true) by reflexivity. rewrite E. rewrite <- app_assoc.
  rewrite skip_ws_app; [|exact Hw0|cbn; reflexivity]. cbn [app].
  assert (E7 : (125 =? 125) = true) by reflexivity. rewrite E7. reflexivity.
Qed.

Lemma GS_head_struct fs t b : GS (SStruct fs) t b -> exists c z, b = c :: z /\ is_ws c = false.
Proof.
  intros Hg. destruct (GS_head _ _ _ Hg) as (c & z & -> & Hc). exists c, z. split; [reflexivity|apply vstart_nonws; exact Hc].
Qed.

Lemma WS_last_not_brace r y : WS r -> r = y ++ [125] -> False.
Proof.
  intros Hw ->. apply Forall_app in Hw. destruct Hw as [_ Hw]. inversion Hw as [|? ? H _]; subst. discriminate.
Qed.

Lemma skip_ws_prefix p r c x : skip_ws (p ++ r) = c :: x -> is_ws c = false ->
  (exists x', skip_ws p = c :: x') \/ WS p.
Proof.
  induction p as [|a p IH]; intros H Hc.
  - right. constructor.
  - cbn [app skip_ws] in *. destruct (is_ws a) eqn:Ea.
    + destruct (IH H Hc) as [(x' & E)|Hw]; [left; eauto|right; constructor; assumption].
    + injection H as -> _. left. eauto.
Qed.

Theorem torn_object_is_unreadable fs (P p r : bytes) T :
  P = p ++ r -> r <> [] ->
  parse_body (SStruct fs) P = Some T ->
  (exists x, skip_ws P = 123 :: x) -> (exists y, P = y ++ [125]) ->
  parse_body (SStruct fs) p = None.
Proof.
  intros -> Hr HP (x & Hstart) (y & Hend).
  destruct (parse_body (SStruct fs) p) as [t'|] eqn:Ep; [exfalso|reflexivity].
  (* the prefix would be: white space, a sentence, white space *)
  apply parse_body_iff in Ep. destruct Ep as (w & b & w' & Hw & Hg & Hw' & ->).
  assert (EP : (w ++ b ++ w') ++ r = w ++ b ++ (w' ++ r)) by (rewrite <- !app_assoc; reflexivity).
  rewrite EP in *. clear EP.
  (* its first non-blank byte is the '{' of P, so the sentence is an object; and the reader, run on P, stops right
     after that sentence *)
  assert (Hrun : exists t'', parse_sch (fuel_for (w ++ b ++ w' ++ r)) (SStruct fs) (w ++ b ++ w' ++ r) = Some (t'', w' ++ r)).
  { destruct (GS_head_struct fs t' b Hg) as (c & z & Eb & Hc).
    assert (Hsk : skip_ws (w ++ b ++ w' ++ r) = c :: z ++ w' ++ r).
    { rewrite Eb. cbn [app]. apply skip_ws_app; [exact Hw|cbn; exact Hc]. }
    rewrite Hstart in Hsk. injection Hsk as <- _.
    inversion Hg as [| ? ? ? Hgg Hno Hna | ? w0 Hw0 | ? l w0 b0 Hw0 Hm | ? w0 Hw0 | ? l w0 b0 Hw0 He].
    - exfalso. eapply Hno. exact Eb.
    - exists (JObj []). apply empty_object_any_rest; [assumption|assumption|unfold fuel_for; lia].
    - exists (JObj l). apply object_any_rest; try assumption.
      unfold fuel_for. rewrite !app_length. cbn [List.length]. rewrite !app_length. lia.
    - exfalso. congruence.
    - exfalso. congruence. }
  destruct Hrun as (t'' & Hrun).
  (* but P is read completely: what is left after the value is white space only *)
  unfold parse_body in HP. rewrite Hrun in HP.
  destruct (skip_ws (w' ++ r)) as [|c0 r0] eqn:Es; [|discriminate].
  destruct (skip_ws_split (w' ++ r)) as (ww & Hww & Ews & _). rewrite Es, app_nil_r in Ews.
  (* ... while P, and so r, ends with '}' *)
  assert (Hrw : WS r). { rewrite <- Ews in Hww. apply Forall_app in Hww. apply Hww. }
  assert (Hrend : exists y', r = y' ++ [125]).
  { destruct (exists_last Hr) as (y' & c & Er). exists y'. rewrite Er in *.
    rewrite !app_assoc in Hend. apply app_inj_tail in Hend. destruct Hend as [_ ->]. reflexivity. }
  destruct Hrend as (y' & Er). eapply WS_last_not_brace; eassumption.
Qed.

(* patches_state.json: if the complete text reads as a state, begins with '{' and ends with '}' (what
   serde_json::to_writer_pretty produces), every strict prefix of it - what a death or a failing write in the middle of
   disk_io::write leaves behind - is garbage for the reader, as Fault.write_pj says *)
Theorem torn_state_file_is_garbage (P p r : bytes) s :
  pstate_of_body P = Some s -> P = p ++ r -> r <> [] ->
  (exists x, skip_ws P = 123 :: x) -> (exists y, P = y ++ [125]) ->
  pj_of_file p = JGarbage.
Proof.
  intros HP EP Hr Hs He. unfold pj_of_file, pstate_of_body in *.
  destruct (parse_body pstate_schema P) as [T|] eqn:E; [|discriminate].
  unfold pstate_schema in *.
  rewrite (torn_object_is_unreadable _ P p r T EP Hr E Hs He). reflexivity.
Qed.

(* a response body cut short anywhere (connection closed early, Content-Length lying): a failed check *)
Theorem truncated_body_is_rejected (P p r : bytes) a :
  resp_of_body P = Some a -> P = p ++ r -> r <> [] ->
  (exists x, skip_ws P = 123 :: x) -> (exists y, P = y ++ [125]) ->
  resp_of_body p = None.
Proof.
  intros HP EP Hr Hs He. unfold resp_of_body in *.
  destruct (parse_body resp_schema P) as [T|] eqn:E; [|discriminate].
  unfold resp_schema in *.
  rewrite (torn_object_is_unreadable _ P p r T EP Hr E Hs He). reflexivity.
Qed.
