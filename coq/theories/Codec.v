(* Codec.v — executable model of integer-encoding 2.1.3 varints, bipatch 1.0.0 Reader and
   bidiff 1.0.0 enc::Writer / Translator.  Definitions only. *)
From UV Require Import Base.

(* ---------- varint (LEB128, at most 10 bytes) ---------- *)
Inductive vres (A : Type) := VOk (v : A) (rest : bytes) | VEof | VInvalid.
Arguments VOk {A} v rest. Arguments VEof {A}. Arguments VInvalid {A}.

(* VarIntReader::read_varint: bytes are pushed one at a time; an 11th byte is InvalidData;
   end of input (at the start or in the middle) is UnexpectedEof. [i] = bytes still allowed. *)
Fixpoint dec_raw (i : nat) (l : bytes) : vres N :=
  match l with
  | [] => VEof
  | b :: r =>
      match i with
      | O => VInvalid
      | S i' =>
          if b <? 128 then VOk b r
          else match dec_raw i' r with
               | VOk v r' => VOk ((b - 128) + 128 * v) r'
               | VEof => VEof
               | VInvalid => VInvalid
               end
      end
  end.

Definition two64 : N := 18446744073709551616.

(* u64::decode_var: bits beyond 64 are shifted out *)
Definition dec_u (l : bytes) : vres N :=
  match dec_raw 10 l with
  | VOk v r => VOk (v mod two64) r
  | VEof => VEof
  | VInvalid => VInvalid
  end.

Definition zigzag_dec (n : N) : Z :=
  if N.even n then Z.of_N (n / 2) else (- Z.of_N (n / 2) - 1)%Z.

Definition dec_s (l : bytes) : vres Z :=
  match dec_u l with
  | VOk v r => VOk (zigzag_dec v) r
  | VEof => VEof
  | VInvalid => VInvalid
  end.

(* VarInt::encode_var for u64 *)
Fixpoint enc_raw (fuel : nat) (n : N) : bytes :=
  match fuel with
  | O => []
  | S f => if n <? 128 then [n] else (128 + n mod 128) :: enc_raw f (n / 128)
  end.
Definition enc_u (n : N) : bytes := enc_raw 10 n.

(* zigzag_encode for i64 in range *)
Definition zigzag_enc (z : Z) : N :=
  if (0 <=? z)%Z then Z.to_N (2 * z) else Z.to_N (- 2 * z - 1).
Definition enc_s (z : Z) : bytes := enc_u (zigzag_enc z).

(* ---------- bipatch ---------- *)
Definition magic_bytes : bytes := [223; 177; 0; 0].     (* 0xB1DF little endian *)
Definition version_bytes : bytes := [0; 16; 0; 0].      (* 0x1000 little endian *)
Definition header : bytes := magic_bytes ++ version_bytes.

(* read_exact of n bytes from a byte list *)
Fixpoint take_exact (n : nat) (l : bytes) : option (bytes * bytes) :=
  match n with
  | O => Some ([], l)
  | S n' => match l with
            | [] => None
            | x :: r => match take_exact n' r with
                        | Some (a, b) => Some (x :: a, b)
                        | None => None
                        end
            end
  end.

(* take n bytes where n is an N that may be astronomically large: never build a nat bigger
   than the list *)
Definition take_N (n : N) (l : bytes) : option (bytes * bytes) :=
  if n <=? blen l then take_exact (N.to_nat n) l else None.

Fixpoint add_bytes (a b : bytes) : bytes :=
  match a, b with
  | x :: a', y :: b' => ((x + y) mod 256) :: add_bytes a' b'
  | _, _ => []
  end.

Definition two63 : Z := 9223372036854775808%Z.

(* old.read_exact(n) at absolute position pos (pos may be beyond the end after a seek) *)
Definition read_old (old : bytes) (pos : Z) (n : N) : option bytes :=
  if n =? 0 then Some []
  else if (pos <? 0)%Z then None
  else if (Z.of_N (blen old) <? pos + Z.of_N n)%Z then None
  else match take_exact (N.to_nat n) (skipn (Z.to_nat pos) old) with
       | Some (a, _) => Some a
       | None => None
       end.

(* One control record after another until a clean end of input.
   Returns None for every error the Reader reports. fuel: each record eats >= 3 patch bytes. *)
Fixpoint apply_records (fuel : nat) (old : bytes) (pos : Z) (p : bytes) (acc : bytes)
  : option bytes :=
  match fuel with
  | O => None
  | S f =>
      match dec_u p with
      | VEof => Some acc                           (* state Initial: any UnexpectedEof ends *)
      | VInvalid => None
      | VOk add_len p1 =>
          match read_old old pos add_len, take_N add_len p1 with
          | Some o, Some (dif, p2) =>
              match dec_u p2 with
              | VOk copy_len p3 =>
                  match take_N copy_len p3 with
                  | Some (cp, p4) =>
                      match dec_s p4 with
                      | VOk sk p5 =>
                          let pos' := (pos + Z.of_N add_len + sk)%Z in
                          if (pos' <? 0)%Z || (two63 <=? pos')%Z then None
                          else apply_records f old pos' p5 (acc ++ add_bytes o dif ++ cp)
                      | _ => None
                      end
                  | None => None
                  end
              | _ => None
              end
          | _, _ => None
          end
      end
  end.

Definition apply_patch (old : bytes) (patch : bytes) : option bytes :=
  match take_exact 4 patch with
  | Some (m, p1) =>
      if bytes_eqb m magic_bytes then
        match take_exact 4 p1 with
        | Some (v, p2) =>
            if bytes_eqb v version_bytes then apply_records (S (List.length p2)) old 0%Z p2 []
            else None
        | None => None
        end
      else None
  | None => None
  end.

(* ---------- bidiff: Match, Translator, Writer ---------- *)
Record bmatch := { add_old_start : N; add_new_start : N; add_length : N; copy_end : N }.
Record control := { c_add : bytes; c_copy : bytes; c_seek : Z }.

Definition slice (l : bytes) (from len : N) : bytes :=
  firstn (N.to_nat len) (skipn (N.to_nat from) l).

Fixpoint sub_bytes (a b : bytes) : bytes :=
  match a, b with
  | x :: a', y :: b' => ((x + 256 - y) mod 256) :: sub_bytes a' b'
  | _, _ => []
  end.

Definition control_of (old new : bytes) (m : bmatch) (next : option bmatch) : control :=
  {| c_add := sub_bytes (slice new (add_new_start m) (add_length m))
                        (slice old (add_old_start m) (add_length m));
     c_copy := slice new (add_new_start m + add_length m)
                         (copy_end m - (add_new_start m + add_length m));
     c_seek := match next with
               | Some n => (Z.of_N (add_old_start n) - Z.of_N (add_old_start m + add_length m))%Z
               | None => 0%Z
               end |}.

Fixpoint translate (old new : bytes) (ms : list bmatch) : list control :=
  match ms with
  | [] => []
  | m :: rest => control_of old new m (hd_error rest) :: translate old new rest
  end.

Definition write_control (c : control) : bytes :=
  enc_u (blen (c_add c)) ++ c_add c ++ enc_u (blen (c_copy c)) ++ c_copy c ++ enc_s (c_seek c).

Definition write_patch (cs : list control) : bytes :=
  header ++ List.concat (map write_control cs).

Definition simple_diff (old new : bytes) (ms : list bmatch) : bytes :=
  write_patch (translate old new ms).

(* well-formedness of a match list, checked against what bidiff::diff really emits:
   matches tile [new] from 0, each add range lies inside [old], the first starts at old 0 *)
Fixpoint wf_matches_from (old new : bytes) (npos : N) (ms : list bmatch) : bool :=
  match ms with
  | [] => npos =? blen new
  | m :: rest =>
      (add_new_start m =? npos)
      && (add_old_start m + add_length m <=? blen old)
      && (add_new_start m + add_length m <=? copy_end m)
      && (copy_end m <=? blen new)
      && wf_matches_from old new (copy_end m) rest
  end.

Definition wf_matches (old new : bytes) (ms : list bmatch) : bool :=
  match ms with
  | [] => blen new =? 0
  | m :: _ => (add_old_start m =? 0) && wf_matches_from old new 0 ms
  end.

(* ---------- bipatch Reader as the state machine it is: read(buf) called with any buffer sizes ----------
   One [iter] is one turn of the `while !buf.is_empty()` loop of Reader::read; [b] is the room left in
   the caller's buffer (> 0), [cap] the Reader's internal 4096-byte scratch buffer. *)
Inductive rst := RInit | RAdd (k : N) | RCopy (k : N) | RFinal.
Record rd := { r_st : rst; r_p : bytes; r_pos : Z }.

Definition bad_pos (z : Z) : bool := (z <? 0)%Z || (two63 <=? z)%Z.

Definition iter (old : bytes) (cap : N) (s : rd) (b : N) : option (bytes * rd) :=
  match r_st s with
  | RInit =>
      match dec_u (r_p s) with
      | VOk k p1 => Some ([], {| r_st := RAdd k; r_p := p1; r_pos := r_pos s |})
      | VEof => Some ([], {| r_st := RFinal; r_p := r_p s; r_pos := r_pos s |})
      | VInvalid => None
      end
  | RAdd k =>
      let n := N.min (N.min k b) cap in
      match read_old old (r_pos s) n, take_N n (r_p s) with
      | Some o, Some (dif, p1) =>
          let pos1 := (r_pos s + Z.of_N n)%Z in
          if k =? n then
            match dec_u p1 with
            | VOk c p2 => Some (add_bytes o dif, {| r_st := RCopy c; r_p := p2; r_pos := pos1 |})
            | _ => None
            end
          else Some (add_bytes o dif, {| r_st := RAdd (k - n); r_p := p1; r_pos := pos1 |})
      | _, _ => None
      end
  | RCopy k =>
      let n := N.min k b in
      match take_N n (r_p s) with
      | Some (cp, p1) =>
          if k =? n then
            match dec_s p1 with
            | VOk sk p2 =>
                let pos' := (r_pos s + sk)%Z in
                if bad_pos pos' then None
                else Some (cp, {| r_st := RInit; r_p := p2; r_pos := pos' |})
            | _ => None
            end
          else Some (cp, {| r_st := RCopy (k - n); r_p := p1; r_pos := r_pos s |})
      | None => None
      end
  | RFinal => Some ([], s)
  end.

(* std::io::copy: read into a buffer of [sizes i] bytes (the i-th call), until a call returns 0.
   Flattened: [b] is what is left of the current buffer; a full buffer starts call i+1.
   Every turn either consumes a patch byte or reaches RFinal, so fuel = S (length patch) is enough.
   None = some read returned an error (the whole inflate fails). *)
Fixpoint chunked (fuel : nat) (old : bytes) (cap : N) (sizes : nat -> N) (s : rd) (b : N) (i : nat)
  : option bytes :=
  match fuel with
  | O => None
  | S f =>
      match r_st s with
      | RFinal => Some []
      | _ =>
          let b' := if b =? 0 then sizes (S i) else b in
          let i' := if b =? 0 then S i else i in
          match iter old cap s b' with
          | None => None
          | Some (o, s') =>
              match chunked f old cap sizes s' (b' - blen o) i' with
              | Some r => Some (o ++ r)
              | None => None
              end
          end
      end
  end.

(* Reader::new + io::copy with the given buffer sizes *)
Definition apply_patch_chunked (cap : N) (sizes : nat -> N) (old patch : bytes) : option bytes :=
  match take_exact 4 patch with
  | Some (m, p1) =>
      if bytes_eqb m magic_bytes then
        match take_exact 4 p1 with
        | Some (v, p2) =>
            if bytes_eqb v version_bytes
            then chunked (S (S (List.length p2))) old cap sizes {| r_st := RInit; r_p := p2; r_pos := 0 |} 0 0
            else None
        | None => None
        end
      else None
  | None => None
  end.
