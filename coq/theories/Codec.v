(* Codec.v — executable model of integer-encoding 2.1.3 varints, bipatch 1.0.0 Reader and
   bidiff 1.0.0 enc::Writer / Translator.  Definitions only. *)
From UV Require Import Base.

(* ---------- varint (LEB128, at most 10 bytes) ---------- *)
Inductive vres (A : Type) := VOk (v : A) (rest : bytes) | VEof | VInvalid.
Arguments VOk {A} v rest. Arguments VEof {A}. Arguments VInvalid {A}.

(* VarIntReader::read_varint: bytes are pushed one at a time; an 11th byte is InvalidData;
   end of input (at the start or in the middle) is UnexpectedEof. [i] = bytes still allowed. *)
Fixpoint dec_raw (i : nat) (l : bytes) : vres N :=
  match l with
  | [] => VEof
  | b :: r =>
      match i with
      | O => VInvalid
      | S i' =>
          if b <? 128 then VOk b r
          else match dec_raw i' r with
               | VOk v r' => VOk ((b - 128) + 128 * v) r'
               | VEof => VEof
               | VInvalid => VInvalid
               end
      end
  end.

Definition two64 : N := 18446744073709551616.

(* u64::decode_var: bits beyond 64 are shifted out *)
Definition dec_u (l : bytes) : vres N :=
  match dec_raw 10 l with
  | VOk v r => VOk (v mod two64) r
  | VEof => VEof
  | VInvalid => VInvalid
  end.

Definition zigzag_dec (n : N) : Z :=
  if N.even n then Z.of_N (n / 2) else (- Z.of_N (n / 2) - 1)%Z.

Definition dec_s (l : bytes) : vres Z :=
  match dec_u l with
  | VOk v r => VOk (zigzag_dec v) r
  | VEof => VEof
  | VInvalid => VInvalid
  end.

(* VarInt::encode_var for u64 *)
Fixpoint enc_raw (fuel : nat) (n : N) : bytes :=
  match fuel with
  | O => []
  | S f => if n <? 128 then [n] else (128 + n mod 128) :: enc_raw f (n / 128)
  end.
Definition enc_u (n : N) : bytes := enc_raw 10 n.

(* zigzag_encode for i64 in range *)
Definition zigzag_enc (z : Z) : N :=
  if (0 <=? z)%Z then Z.to_N (2 * z) else Z.to_N (- 2 * z - 1).
Definition enc_s (z : Z) : bytes := enc_u (zigzag_enc z).

(* ---------- bipatch ---------- *)
Definition magic_bytes : bytes := [223; 177; 0; 0].     (* 0xB1DF little endian *)
Definition version_bytes : bytes := [0; 16; 0; 0].      (* 0x1000 little endian *)
Definition header : bytes := magic_bytes ++ version_bytes.

(* read_exact of n bytes from a byte list *)
Fixpoint take_exact (n : nat) (l : bytes) : option (bytes * bytes) :=
  match n with
  | O => Some ([], l)
  | S n' => match l with
            | [] => None
            | x :: r => match take_exact n' r with
                        | Some (a, b) => Some (x :: a, b)
                        | None => None
                        end
            end
  end.

(* take n bytes where n is an N that may be astronomically large: never build a nat bigger
   than the list *)
Definition take_N (n : N) (l : bytes) : option (bytes * bytes) :=
  if n <=? blen l then take_exact (N.to_nat n) l else None.

Fixpoint add_bytes (a b : bytes) : bytes :=
  match a, b with
  | x :: a', y :: b' => ((x + y) mod 256) :: add_bytes a' b'
  | _, _ => []
  end.

Definition two63 : Z := 9223372036854775808%Z.

(* old.read_exact(n) at absolute position pos (pos may be beyond the end after a seek) *)
Definition read_old (old : bytes) (pos : Z) (n : N) : option bytes :=
  if n =? 0 then Some []
  else if (pos <? 0)%Z then None
  else if (Z.of_N (blen old) <? pos + Z.of_N n)%Z then None
  else match take_exact (N.to_nat n) (skipn (Z.to_nat pos) old) with
       | Some (a, _) => Some a
       | None => None
       end.

(* One control record after another until a clean end of input.
   Returns None for every error the Reader reports. fuel: each record eats >= 3 patch bytes. *)
Fixpoint apply_records (fuel : nat) (old : bytes) (pos : Z) (p : bytes) (acc : bytes)
  : option bytes :=
  match fuel with
  | O => None
  | S f =>
      match dec_u p with
      | VEof => Some acc                           (* state Initial: any UnexpectedEof ends *)
      | VInvalid => None
      | VOk add_len p1 =>
          match read_old old pos add_len, take_N add_len p1 with
          | Some o, Some (dif, p2) =>
              match dec_u p2 with
              | VOk copy_len p3 =>
                  match take_N copy_len p3 with
                  | Some (cp, p4) =>
                      match dec_s p4 with
                      | VOk sk p5 =>
                          let pos' := (pos + Z.of_N add_len + sk)%Z in
                          if (pos' <? 0)%Z || (two63 <=? pos')%Z then None
                          else apply_records f old pos' p5 (acc ++ add_bytes o dif ++ cp)
                      | _ => None
                      end
                  | None => None
                  end
              | _ => None
              end
          | _, _ => None
          end
      end
  end.

Definition apply_patch (old : bytes) (patch : bytes) : option bytes :=
  match take_exact 4 patch with
  | Some (m, p1) =>
      if bytes_eqb m magic_bytes then
        match take_exact 4 p1 with
        | Some (v, p2) =>
            if bytes_eqb v version_bytes then apply_records (S (List.length p2)) old 0%Z p2 []
            else None
        | None => None
        end
      else None
  | None => None
  end.

(* ---------- bidiff: Match, Translator, Writer ---------- *)
Record bmatch := { add_old_start : N; add_new_start : N; add_length : N; copy_end : N }.
Record control := { c_add : bytes; c_copy : bytes; c_seek : Z }.

Definition slice (l : bytes) (from len : N) : bytes :=
  firstn (N.to_nat len) (skipn (N.to_nat from) l).

Fixpoint sub_bytes (a b : bytes) : bytes :=
  match a, b with
  | x :: a', y :: b' => ((x + 256 - y) mod 256) :: sub_bytes a' b'
  | _, _ => []
  end.

Definition control_of (old new : bytes) (m : bmatch) (next : option bmatch) : control :=
  {| c_add := sub_bytes (slice new (add_new_start m) (add_length m))
                        (slice old (add_old_start m) (add_length m));
     c_copy := slice new (add_new_start m + add_length m)
                         (copy_end m - (add_new_start m + add_length m));
     c_seek := match next with
               | Some n => (Z.of_N (add_old_start n) - Z.of_N (add_old_start m + add_length m))%Z
               | None => 0%Z
               end |}.

Fixpoint translate (old new : bytes) (ms : list bmatch) : list control :=
  match ms with
  | [] => []
  | m :: rest => control_of old new m (hd_error rest) :: translate old new rest
  end.

Definition write_control (c : control) : bytes :=
  enc_u (blen (c_add c)) ++ c_add c ++ enc_u (blen (c_copy c)) ++ c_copy c ++ enc_s (c_seek c).

Definition write_patch (cs : list control) : bytes :=
  header ++ List.concat (map write_control cs).

Definition simple_diff (old new : bytes) (ms : list bmatch) : bytes :=
  write_patch (translate old new ms).

(* well-formedness of a match list, checked against what bidiff::diff really emits:
   matches tile [new] from 0, each add range lies inside [old], the first starts at old 0 *)
Fixpoint wf_matches_from (old new : bytes) (npos : N) (ms : list bmatch) : bool :=
  match ms with
  | [] => npos =? blen new
  | m :: rest =>
      (add_new_start m =? npos)
      && (add_old_start m + add_length m <=? blen old)
      && (add_new_start m + add_length m <=? copy_end m)
      && (copy_end m <=? blen new)
      && wf_matches_from old new (copy_end m) rest
  end.

Definition wf_matches (old new : bytes) (ms : list bmatch) : bool :=
  match ms with
  | [] => blen new =? 0
  | m :: _ => (add_old_start m =? 0) && wf_matches_from old new 0 ms
  end.
