(* JsonText.v — the text -> tree step that Json.v left out: what serde_json (1.0.108, SliceRead: reqwest's
   Response::json is serde_json::from_slice) makes of the BYTES of a patch-check response body, as the derived
   Deserialize of PatchCheckResponse / Patch drives it.

   Two readers, as in serde_json:
   - [parse_value]: the strict reader used wherever the struct has a field (string contents must be valid UTF-8 after
     escapes are decoded, \u escapes must pair their surrogates);
   - [ignore_value]: the scanner used for the value of every UNKNOWN key (serde's IgnoredAny -> Deserializer::
     ignore_value): it checks the grammar only - strings may hold ill-formed UTF-8 and lone surrogates, numbers are
     not evaluated, nesting is not limited.
   [parse_sch] follows the struct: keys are always read strictly; the value of a known key is read by the reader of
   its type, the value of any other key is scanned; in the positional form (a JSON array, serde's visit_seq) element i
   is read by the reader of field i (found by the thorough tier: a nested struct inside a positional answer still scans
   its unknown members leniently).  [resp_of_body] = parse_sch, nothing but white space after the
   value (Deserializer::end), then Json.resp_of_json on the tree.
   Numbers: the grammar is checked; an integer literal without fraction / exponent that fits u64 (or i64 when negative)
   is a JInt, everything else a JFloat (no field of these structs accepts a float, so its value never matters).
   The recursion limit of serde_json (128) cannot be reached through the typed skeleton (depth <= 3) and is not applied
   by ignore_value, so it does not appear.  Definitions only. *)
From UV Require Import Base Codec Model Json.
Local Open Scope N_scope.
Arguments N.add : simpl never.
Arguments N.mul : simpl never.
Arguments N.sub : simpl never.
Arguments N.div : simpl never.
Arguments N.modulo : simpl never.
Arguments N.eqb : simpl never.
Arguments N.ltb : simpl never.
Arguments N.leb : simpl never.

Definition is_ws (c : N) : bool := (c =? 32) || (c =? 9) || (c =? 10) || (c =? 13).
Fixpoint skip_ws (l : bytes) : bytes :=
  match l with
  | c :: r => if is_ws c then skip_ws r else l
  | [] => []
  end.

Definition is_digit (c : N) : bool := (48 <=? c) && (c <=? 57).

Definition hexv (c : N) : option N :=
  if (48 <=? c) && (c <=? 57) then Some (c - 48)
  else if (65 <=? c) && (c <=? 70) then Some (c - 55)
  else if (97 <=? c) && (c <=? 102) then Some (c - 87)
  else None.

Definition hex4 (l : bytes) : option (N * bytes) :=
  match l with
  | a :: b :: c :: d :: r =>
      match hexv a, hexv b, hexv c, hexv d with
      | Some x, Some y, Some z, Some w => Some (x * 4096 + y * 256 + z * 16 + w, r)
      | _, _, _, _ => None
      end
  | _ => None
  end.

(* char::encode_utf8 *)
Definition utf8_enc (n : N) : bytes :=
  if n <? 128 then [n]
  else if n <? 2048 then [192 + n / 64; 128 + n mod 64]
  else if n <? 65536 then [224 + n / 4096; 128 + (n / 64) mod 64; 128 + n mod 64]
  else [240 + n / 262144; 128 + (n / 4096) mod 64; 128 + (n / 64) mod 64; 128 + n mod 64].

(* core::str::from_utf8: well-formed UTF-8 (no overlong forms, no surrogates, nothing above U+10FFFF) *)
Definition cont (c : N) : bool := (128 <=? c) && (c <=? 191).
Fixpoint utf8_valid (l : bytes) : bool :=
  match l with
  | [] => true
  | a :: r =>
      if a <? 128 then utf8_valid r
      else if (194 <=? a) && (a <=? 223) then
        match r with b :: r2 => cont b && utf8_valid r2 | _ => false end
      else if (224 <=? a) && (a <=? 239) then
        match r with
        | b :: c :: r3 =>
            (if a =? 224 then (160 <=? b) && (b <=? 191)
             else if a =? 237 then (128 <=? b) && (b <=? 159) else cont b) && cont c && utf8_valid r3
        | _ => false
        end
      else if (240 <=? a) && (a <=? 244) then
        match r with
        | b :: c :: d :: r4 =>
            (if a =? 240 then (144 <=? b) && (b <=? 191)
             else if a =? 244 then (128 <=? b) && (b <=? 143) else cont b) && cont c && cont d && utf8_valid r4
        | _ => false
        end
      else false
  end.

(* the single-character escapes: quote, backslash, slash, b, f, n, r, t *)
Definition simple_escape (e : N) : option N :=
  if e =? 34 then Some 34 else if e =? 92 then Some 92 else if e =? 47 then Some 47
  else if e =? 98 then Some 8 else if e =? 102 then Some 12 else if e =? 110 then Some 10
  else if e =? 114 then Some 13 else if e =? 116 then Some 9 else None.

Definition is_low_surrogate (n : N) : bool := (56320 <=? n) && (n <=? 57343).
Definition is_high_surrogate (n : N) : bool := (55296 <=? n) && (n <=? 56319).

(* after the opening quote; [acc] = decoded bytes so far, reversed (kept only by the strict reader) *)
Fixpoint str_body (fuel : nat) (strict : bool) (l : bytes) (acc : bytes) : option (bytes * bytes) :=
  match fuel with
  | O => None
  | S f =>
      match l with
      | [] => None                                              (* EofWhileParsingString *)
      | c :: r =>
          if c =? 34 then Some (rev acc, r)
          else if c =? 92 then
            match r with
            | [] => None
            | e :: r1 =>
                if e =? 117 then
                  match hex4 r1 with
                  | None => None                                (* InvalidEscape / Eof *)
                  | Some (n, r2) =>
                      if strict then
                        if is_low_surrogate n then None         (* LoneLeadingSurrogateInHexEscape *)
                        else if is_high_surrogate n then
                          match r2 with
                          | a :: b :: r3 =>
                              if (a =? 92) && (b =? 117) then
                                match hex4 r3 with
                                | Some (n2, r4) =>
                                    if is_low_surrogate n2
                                    then str_body f strict r4
                                           (rev (utf8_enc (65536 + (n - 55296) * 1024 + (n2 - 56320))) ++ acc)
                                    else None
                                | None => None
                                end
                              else None                         (* UnexpectedEndOfHexEscape *)
                          | _ => None
                          end
                        else str_body f strict r2 (rev (utf8_enc n) ++ acc)
                      else str_body f strict r2 acc             (* ignore_escape: any four hex digits *)
                  end
                else match simple_escape e with
                     | Some b => str_body f strict r1 (if strict then b :: acc else acc)
                     | None => None                             (* InvalidEscape *)
                     end
            end
          else if c <? 32 then None                             (* ControlCharacterWhileParsingString *)
          else str_body f strict r (if strict then c :: acc else acc)
      end
  end.

(* parse_str: the decoded bytes must be a str *)
Definition parse_string (fuel : nat) (l : bytes) : option (bytes * bytes) :=
  match str_body fuel true l [] with
  | Some (s, r) => if utf8_valid s then Some (s, r) else None
  | None => None
  end.
(* ignore_str *)
Definition skip_string (fuel : nat) (l : bytes) : option bytes :=
  match str_body fuel false l [] with Some (_, r) => Some r | None => None end.

Definition str_of (b : bytes) : string := string_of_list_ascii (map ascii_of_N b).

(* digits: value, how many, rest *)
Fixpoint digits (l : bytes) (acc : N) (cnt : N) : N * N * bytes :=
  match l with
  | c :: r => if is_digit c then digits r (acc * 10 + (c - 48)) (cnt + 1) else (acc, cnt, l)
  | [] => (acc, cnt, [])
  end.

Definition two63 : N := 9223372036854775808.

Definition classify (isf neg : bool) (v : N) : jnum :=
  if isf then JFloat
  else if neg then (if v =? 0 then JFloat else if v <=? two63 then JInt true v else JFloat)
  else if v <? two64 then JInt false v else JFloat.

(* after the integer part: [.digits+] [(e|E)[+|-]digits+] *)
Definition frac_exp (neg : bool) (v : N) (l : bytes) : option (jnum * bytes) :=
  let after_frac :=
    match l with
    | c :: r => if c =? 46 then (let '(_, cnt, r') := digits r 0 0 in if cnt =? 0 then None else Some (true, r'))
                else Some (false, l)
    | [] => Some (false, [])
    end in
  match after_frac with
  | None => None
  | Some (isf, l2) =>
      match l2 with
      | c :: r =>
          if (c =? 101) || (c =? 69) then
            let r1 := match r with s :: r' => if (s =? 43) || (s =? 45) then r' else r | [] => [] end in
            let '(_, cnt, r2) := digits r1 0 0 in
            if cnt =? 0 then None else Some (JFloat, r2)
          else Some (classify isf neg v, l2)
      | [] => Some (classify isf neg v, [])
      end
  end.

(* [l] starts at '-' or a digit *)
Definition parse_number (l : bytes) : option (jnum * bytes) :=
  let '(neg, l1) := match l with c :: r => if c =? 45 then (true, r) else (false, l) | [] => (false, []) end in
  match l1 with
  | [] => None
  | c :: r =>
      if c =? 48 then
        match r with
        | d :: _ => if is_digit d then None else frac_exp neg 0 r       (* leading zero *)
        | [] => frac_exp neg 0 r
        end
      else if is_digit c then let '(v, _, r') := digits l1 0 0 in frac_exp neg v r'
      else None
  end.

(* parse_ident *)
Fixpoint lit (w : bytes) (l : bytes) : option bytes :=
  match w with
  | [] => Some l
  | x :: w' => match l with c :: r => if c =? x then lit w' r else None | [] => None end
  end.

(* ---------- the strict reader: a whole value as a tree ---------- *)
Fixpoint parse_value (fuel : nat) (l : bytes) : option (json * bytes) :=
  match fuel with
  | O => None
  | S f =>
      match skip_ws l with
      | [] => None
      | c :: r =>
          if c =? 110 then match lit [117; 108; 108] r with Some r' => Some (JNull, r') | None => None end
          else if c =? 116 then match lit [114; 117; 101] r with Some r' => Some (JBool true, r') | None => None end
          else if c =? 102 then match lit [97; 108; 115; 101] r with Some r' => Some (JBool false, r') | None => None end
          else if c =? 34 then
            match parse_string fuel r with Some (s, r') => Some (JStr (str_of s), r') | None => None end
          else if (c =? 45) || is_digit c then
            match parse_number (c :: r) with Some (n, r') => Some (JNum n, r') | None => None end
          else if c =? 91 then
            match skip_ws r with
            | d :: r' => if d =? 93 then Some (JArr [], r') else parse_elems f (d :: r') []
            | [] => None
            end
          else if c =? 123 then
            match skip_ws r with
            | d :: r' => if d =? 125 then Some (JObj [], r') else parse_members f (d :: r') []
            | [] => None
            end
          else None
      end
  end
with parse_elems (fuel : nat) (l : bytes) (acc : list json) : option (json * bytes) :=
  match fuel with
  | O => None
  | S f =>
      match parse_value f l with
      | None => None
      | Some (v, r) =>
          match skip_ws r with
          | c :: r' => if c =? 44 then parse_elems f r' (v :: acc)
                       else if c =? 93 then Some (JArr (rev (v :: acc)), r') else None
          | [] => None
          end
      end
  end
with parse_members (fuel : nat) (l : bytes) (acc : list (string * json)) : option (json * bytes) :=
  match fuel with
  | O => None
  | S f =>
      match skip_ws l with
      | c :: r =>
          if c =? 34 then
            match parse_string fuel r with
            | None => None
            | Some (k, r1) =>
                match skip_ws r1 with
                | d :: r2 =>
                    if d =? 58 then
                      match parse_value f r2 with
                      | None => None
                      | Some (v, r3) =>
                          match skip_ws r3 with
                          | e :: r4 => if e =? 44 then parse_members f r4 ((str_of k, v) :: acc)
                                       else if e =? 125 then Some (JObj (rev ((str_of k, v) :: acc)), r4) else None
                          | [] => None
                          end
                      end
                    else None
                | [] => None
                end
            end
          else None                                             (* KeyMustBeAString / TrailingComma *)
      | [] => None
      end
  end.

(* ---------- the scanner: grammar only ---------- *)
Fixpoint ignore_value (fuel : nat) (l : bytes) : option bytes :=
  match fuel with
  | O => None
  | S f =>
      match skip_ws l with
      | [] => None
      | c :: r =>
          if c =? 110 then lit [117; 108; 108] r
          else if c =? 116 then lit [114; 117; 101] r
          else if c =? 102 then lit [97; 108; 115; 101] r
          else if c =? 34 then skip_string fuel r
          else if (c =? 45) || is_digit c then
            match parse_number (c :: r) with Some (_, r') => Some r' | None => None end
          else if c =? 91 then
            match skip_ws r with
            | d :: r' => if d =? 93 then Some r' else ignore_elems f (d :: r')
            | [] => None
            end
          else if c =? 123 then
            match skip_ws r with
            | d :: r' => if d =? 125 then Some r' else ignore_members f (d :: r')
            | [] => None
            end
          else None
      end
  end
with ignore_elems (fuel : nat) (l : bytes) : option bytes :=
  match fuel with
  | O => None
  | S f =>
      match ignore_value f l with
      | None => None
      | Some r =>
          match skip_ws r with
          | c :: r' => if c =? 44 then ignore_elems f r' else if c =? 93 then Some r' else None
          | [] => None
          end
      end
  end
with ignore_members (fuel : nat) (l : bytes) : option bytes :=
  match fuel with
  | O => None
  | S f =>
      match skip_ws l with
      | c :: r =>
          if c =? 34 then
            match skip_string fuel r with
            | None => None
            | Some r1 =>
                match skip_ws r1 with
                | d :: r2 =>
                    if d =? 58 then
                      match ignore_value f r2 with
                      | None => None
                      | Some r3 =>
                          match skip_ws r3 with
                          | e :: r4 => if e =? 44 then ignore_members f r4 else if e =? 125 then Some r4 else None
                          | [] => None
                          end
                      end
                    else None
                | [] => None
                end
            end
          else None
      | [] => None
      end
  end.

(* ---------- following a struct ---------- *)
Inductive schema := SLeaf | SStruct (fields : list (string * schema)).

Fixpoint field_of (k : string) (fs : list (string * schema)) : option schema :=
  match fs with
  | [] => None
  | (n, s) :: r => if String.eqb k n then Some s else field_of k r
  end.

Fixpoint parse_sch (fuel : nat) (sc : schema) (l : bytes) : option (json * bytes) :=
  match fuel with
  | O => None
  | S f =>
      match sc with
      | SLeaf => parse_value fuel l
      | SStruct fs =>
          match skip_ws l with
          | c :: r =>
              if c =? 123 then
                match skip_ws r with
                | d :: r' => if d =? 125 then Some (JObj [], r') else sch_members f fs (d :: r') []
                | [] => None
                end
              else if c =? 91 then                    (* the positional form (visit_seq): element i is read as field i *)
                match skip_ws r with
                | d :: r' => if d =? 93 then Some (JArr [], r') else sch_elems f fs (d :: r') []
                | [] => None
                end
              else parse_value fuel l                 (* null or a value of the wrong type *)
          | [] => None
          end
      end
  end
with sch_elems (fuel : nat) (fs : list (string * schema)) (l : bytes) (acc : list json) : option (json * bytes) :=
  match fuel with
  | O => None
  | S f =>
      (* elements beyond the last field are an error for serde whatever they hold (and for resp_of_json / pstate_of_json
         on the tree): they are read strictly here *)
      match parse_sch f (match fs with (_, sc) :: _ => sc | [] => SLeaf end) l with
      | None => None
      | Some (v, r) =>
          match skip_ws r with
          | c :: r' => if c =? 44 then sch_elems f (tl fs) r' (v :: acc)
                       else if c =? 93 then Some (JArr (rev (v :: acc)), r') else None
          | [] => None
          end
      end
  end
with sch_members (fuel : nat) (fs : list (string * schema)) (l : bytes) (acc : list (string * json))
  : option (json * bytes) :=
  match fuel with
  | O => None
  | S f =>
      match skip_ws l with
      | c :: r =>
          if c =? 34 then
            match parse_string fuel r with            (* deserialize_identifier: keys are read strictly *)
            | None => None
            | Some (k, r1) =>
                match skip_ws r1 with
                | d :: r2 =>
                    if d =? 58 then
                      match (match field_of (str_of k) fs with
                             | Some sc' => parse_sch f sc' r2
                             | None => match ignore_value fuel r2 with Some r3 => Some (JNull, r3) | None => None end
                             end) with
                      | None => None
                      | Some (v, r3) =>
                          match skip_ws r3 with
                          | e :: r4 => if e =? 44 then sch_members f fs r4 ((str_of k, v) :: acc)
                                       else if e =? 125 then Some (JObj (rev ((str_of k, v) :: acc)), r4) else None
                          | [] => None
                          end
                      end
                    else None
                | [] => None
                end
            end
          else None
      | [] => None
      end
  end.

Definition patch_schema : schema :=
  SStruct [("number", SLeaf); ("hash", SLeaf); ("download_url", SLeaf); ("hash_signature", SLeaf)]%string.
Definition resp_schema : schema :=
  SStruct [("patch_available", SLeaf); ("patch", patch_schema); ("rolled_back_patch_numbers", SLeaf)]%string.

Definition fuel_for (l : bytes) : nat := (3 * List.length l + 8)%nat.

(* from_slice: the value, then Deserializer::end *)
Definition parse_body (sc : schema) (l : bytes) : option json :=
  match parse_sch (fuel_for l) sc l with
  | Some (t, r) => match skip_ws r with [] => Some t | _ => None end
  | None => None
  end.
Definition parse_json (l : bytes) : option json :=
  match parse_value (fuel_for l) l with
  | Some (t, r) => match skip_ws r with [] => Some t | _ => None end
  | None => None
  end.

Definition resp_of_body (l : bytes) : option resp :=
  match parse_body resp_schema l with
  | Some t => resp_of_json t
  | None => None
  end.
