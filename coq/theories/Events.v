(* Events.v — C17, the "never otherwise" half: queries, launch start/success, checks and restarts neither
   queue nor drop events, and none of them except a launch-success report puts an event on the wire. *)
From UV Require Import Base Codec Model PMLemmas Inv Ban Handout Calls.
Arguments N.eqb : simpl never.

Section Events.
Variable sha : bytes -> bytes.
Variable sigok : string -> string -> string -> bool.
Variable zdec : bytes -> bytes.
Variable base : bytes.

Notation next_boot := (next_boot sha sigok).
Notation rollback_loop := (rollback_loop sha sigok).
Notation cs_next := (cs_next sha sigok).
Notation cs_start := (cs_start sha sigok).
Notation cs_rollback := (cs_rollback sha sigok).
Notation should_install := (should_install sha sigok).
Notation do_check := (do_check sha sigok).
Notation step := (step sha sigok zdec base).

Lemma sj_cs_next c d : sj (fst (cs_next c d)) = sj (norm c d).
Proof.
  unfold Model.cs_next.
  pose proof (next_boot_sj sha sigok (c_key c) (norm c d) (load_p (norm c d))) as H.
  destruct (next_boot (c_key c) (norm c d) (load_p (norm c d))) as [[d1 s1] r]. exact H.
Qed.

Lemma sj_cs_start c d : sj (cs_start c d) = sj (norm c d).
Proof.
  unfold Model.cs_start.
  pose proof (next_boot_sj sha sigok (c_key c) (norm c d) (load_p (norm c d))) as H.
  destruct (next_boot (c_key c) (norm c d) (load_p (norm c d))) as [[d1 s1] r]. cbn in H.
  destruct r; exact H.
Qed.

Lemma sj_cs_success c d : sj (fst (cs_success c d)) = sj (norm c d).
Proof.
  unfold Model.cs_success. destruct (cb (load_p (norm c d))) as [b|] eqn:E; [|reflexivity].
  unfold boot_success. rewrite E. reflexivity.
Qed.

Lemma sj_cs_rollback c d l : sj (cs_rollback c d l) = sj (norm c d).
Proof. unfold Model.cs_rollback. apply rollback_loop_sj. Qed.

Lemma sj_should_install c d n : sj (fst (should_install c d n)) = sj (norm c d).
Proof.
  unfold Model.should_install, cs_is_bad.
  destruct (inb n (bad (load_p (norm c d)))); [reflexivity|].
  pose proof (sj_cs_next c (norm c d)) as H. rewrite norm_idem in H.
  destruct (cs_next c (norm c d)) as [d2 r]. cbn in H.
  destruct r as [k|]; [destruct (N.eqb k n)|]; exact H.
Qed.

Lemma sj_do_check c d ch r :
  sj (fst (fst (do_check c d ch r))) = sj d \/ sj (fst (fst (do_check c d ch r))) = sj (norm c d).
Proof.
  unfold Model.do_check. destruct r as [rs|]; [|left; reflexivity].
  destruct (r_rb rs) as [l|].
  - destruct (r_patch rs) as [p|]; cbn [fst].
    + pose proof (sj_should_install c (cs_rollback c d l) (p_num p)) as H.
      destruct (should_install c (cs_rollback c d l) (p_num p)) as [d2 sh]. cbn [fst] in *.
      right. rewrite H.
      assert (St : stable (c_rel c) (cs_rollback c d l)).
      { unfold Model.cs_rollback. eapply stable_of_sj; [apply rollback_loop_sj|apply norm_stable]. }
      rewrite (norm_id c _ St). apply sj_cs_rollback.
    + right. apply sj_cs_rollback.
  - destruct (r_patch rs) as [p|]; cbn [fst]; [|left; reflexivity].
    pose proof (sj_should_install c d (p_num p)) as H.
    destruct (should_install c d (p_num p)) as [d2 sh]. right. exact H.
Qed.

Lemma do_check_log c d ch r : snd (do_check c d ch r) = [NCheck (mk_request c ch)].
Proof.
  unfold Model.do_check. destruct r as [rs|]; [|reflexivity].
  destruct (r_patch rs) as [p|]; [|reflexivity].
  destruct (should_install c _ (p_num p)). reflexivity.
Qed.

(* the calls that must leave the event queue alone *)
Definition quiet (o : op) : Prop :=
  match o with
  | ONextNum | ONextPath | OCurNum | OStart | OSuccess | OAuto | OKill | OCheck _ _ => True
  | _ => False
  end.

Theorem quiet_calls w o c :
  w_cfg w = Some c -> quiet o ->
  (sj (w_disk (fst (fst (step w o)))) = sj (w_disk w) \/
   sj (w_disk (fst (fst (step w o)))) = sj (norm c (w_disk w))) /\
  (forall e, In (NEvent e) (snd (step w o)) -> o = OSuccess).
Proof.
  intros Hc Hq. unfold Model.step. destruct o; try contradiction; rewrite ?Hc; cbn [fst snd w_disk].
  - split; [left; reflexivity|intros e []].
  - pose proof (sj_cs_next c (w_disk w)) as H. destruct (cs_next c (w_disk w)) as [d' r].
    cbn [fst snd w_disk] in *. split; [right; exact H|intros e []].
  - pose proof (sj_cs_next c (w_disk w)) as H. destruct (cs_next c (w_disk w)) as [d' r].
    cbn [fst snd w_disk] in *. split; [right; exact H|intros e []].
  - unfold cs_current. cbn [fst snd w_disk]. split; [right; reflexivity|intros e []].
  - split; [right; apply sj_cs_start|intros e []].
  - pose proof (sj_cs_success c (w_disk w)) as H. destruct (cs_success c (w_disk w)) as [d' l].
    cbn [fst snd w_disk] in *. split; [right; exact H|reflexivity].
  - split; [left; reflexivity|intros e []].
  - pose proof (sj_do_check c (w_disk w) ch r) as H. pose proof (do_check_log c (w_disk w) ch r) as Hl.
    destruct (do_check c (w_disk w) ch r) as [[d' b] l]. cbn [fst snd w_disk] in *.
    split; [exact H|]. subst l. intros e [He|[]]. discriminate.
Qed.

(* on an initialised, undamaged store the queue itself is unchanged by those calls *)
Corollary quiet_calls_keep_queue w o c :
  w_cfg w = Some c -> stable (c_rel c) (w_disk w) -> quiet o ->
  evq_of c (w_disk (fst (fst (step w o)))) = evq_of c (w_disk w).
Proof.
  intros Hc Hs Hq. destruct (quiet_calls w o c Hc Hq) as [[H|H] _];
    unfold evq_of, load_s; rewrite H; [reflexivity|]. rewrite (norm_id c _ Hs). reflexivity.
Qed.

End Events.
