(* JsonWrite.v — what the library WRITES: serde_json::to_writer_pretty (PrettyFormatter, two-space indent) applied to the
   derived Serialize of PatchesState / PatchMetadata (patches_state.json) and of SerializedState / PatchEvent (state.json).
   Strings are escaped as serde_json's format_escaped_str does: quote, backslash, \b \f \n \r \t, any other byte below 0x20
   as \u00XX (lower-case hex), everything else verbatim.  Members in declaration order, "key": value, one member per line,
   an empty sequence as [] and an absent Option as null.  Definitions only. *)
From UV Require Import Base Codec Model Json JsonText JsonState JsonSj.
Local Open Scope N_scope.

Definition hexd (n : N) : N := if n <? 10 then 48 + n else 87 + n.
Definition esc_byte (c : N) : bytes :=
  if c =? 34 then [92; 34] else if c =? 92 then [92; 92]
  else if c =? 8 then [92; 98] else if c =? 12 then [92; 102] else if c =? 10 then [92; 110]
  else if c =? 13 then [92; 114] else if c =? 9 then [92; 116]
  else if c <? 32 then [92; 117; 48; 48; hexd (c / 16); hexd (c mod 16)]
  else [c].
Definition w_str (s : bytes) : bytes := 34 :: flat_map esc_byte s ++ [34].
Definition bytes_of_string (s : string) : bytes := map N_of_ascii (list_ascii_of_string s).
Definition w_string (s : string) : bytes := w_str (bytes_of_string s).

(* decimal digits, most significant first (itoa); 20 digits are enough below 2^64 *)
Fixpoint w_digits (fuel : nat) (n : N) (acc : bytes) : bytes :=
  match fuel with
  | O => acc
  | S f => let acc' := (48 + n mod 10) :: acc in if n <? 10 then acc' else w_digits f (n / 10) acc'
  end.
Definition w_num (n : N) : bytes := w_digits 20 n [].

Definition w_null : bytes := [110; 117; 108; 108].
Definition nl (indent : nat) : bytes := 10 :: repeat 32 (2 * indent).

(* "key": value *)
Definition w_member (k : string) (v : bytes) : bytes := w_string k ++ [] ++ 58 :: [32] ++ v.

(* { members } at the given depth; members already rendered; never empty for our structs *)
Fixpoint w_members (indent : nat) (ms : list (string * bytes)) : bytes :=
  match ms with
  | [] => [125]
  | [(k, v)] => w_string k ++ [] ++ 58 :: [32] ++ v ++ nl (indent - 1) ++ [125]
  | (k, v) :: r => w_string k ++ [] ++ 58 :: [32] ++ v ++ [] ++ 44 :: nl indent ++ w_members indent r
  end.
Definition w_object (indent : nat) (ms : list (string * bytes)) : bytes := 123 :: nl (S indent) ++ w_members (S indent) ms.

Fixpoint w_elems (indent : nat) (es : list bytes) : bytes :=
  match es with
  | [] => [93]
  | [v] => v ++ nl (indent - 1) ++ [93]
  | v :: r => v ++ [] ++ 44 :: nl indent ++ w_elems indent r
  end.
Definition w_array (indent : nat) (es : list bytes) : bytes :=
  match es with
  | [] => 91 :: [] ++ [93]
  | _ => 91 :: nl (S indent) ++ w_elems (S indent) es
  end.

Definition w_ostring (o : option string) : bytes := match o with Some s => w_string s | None => w_null end.

(* struct PatchMetadata { number, size, hash, signature } *)
Definition w_meta (indent : nat) (m : meta) : bytes :=
  w_object indent [("number"%string, w_num (m_num m)); ("size"%string, w_num (m_size m));
                   ("hash"%string, w_string (m_hash m)); ("signature"%string, w_ostring (m_sig m))].
Definition w_ometa (indent : nat) (o : option meta) : bytes := match o with Some m => w_meta indent m | None => w_null end.

(* struct PatchesState { last_booted_patch, next_boot_patch, currently_booting_patch, known_bad_patches } ; the set is
   written in whatever order the hash set iterates: [bad s] in the order given *)
Definition w_pstate (s : pstate) : bytes :=
  w_object 0 [("last_booted_patch"%string, w_ometa 1 (lb s)); ("next_boot_patch"%string, w_ometa 1 (nb s));
              ("currently_booting_patch"%string, w_ometa 1 (cb s));
              ("known_bad_patches"%string, w_array 1 (map w_num (bad s)))].

Definition evkind_wire (k : evkind) : string :=
  match k with
  | EvInstallSuccess => "__patch_install__"
  | EvInstallFailure => "__patch_install_failure__"
  | EvDownload => "__patch_download__"
  end.
(* struct PatchEvent { app_id, arch, type, patch_number, platform, release_version, timestamp, message } *)
Definition w_fevent (indent : nat) (e : fevent) : bytes :=
  w_object indent [("app_id"%string, w_string (fe_app e)); ("arch"%string, w_string (fe_arch e));
                   ("type"%string, w_string (evkind_wire (fe_kind e))); ("patch_number"%string, w_num (fe_num e));
                   ("platform"%string, w_string (fe_platform e)); ("release_version"%string, w_string (fe_rel e));
                   ("timestamp"%string, w_num (fe_ts e)); ("message"%string, w_ostring (fe_msg e))].
(* struct SerializedState { release_version, queued_events } *)
Definition w_fstate (r : string) (q : list fevent) : bytes :=
  w_object 0 [("release_version"%string, w_string r); ("queued_events"%string, w_array 1 (map (w_fevent 2) q))].

(* the canonical-form check the driver runs on every state file the library wrote: reading it and writing what was
   read gives the same bytes back *)
Definition pj_canonical (l : bytes) : bool :=
  match pstate_of_body l with Some s => bytes_eqb (w_pstate s) l | None => true end.
Definition sj_canonical (l : bytes) : bool :=
  match fstate_of_body_n (List.length l) l with Some (r, q) => bytes_eqb (w_fstate r q) l | None => true end.
