(* JsonProofs.v — facts about the reading of a patch-check response body (Json.v). *)
From UV Require Import Base Codec Model Json.
From Coq Require Import ZifyN ZifyBool.
Arguments N.ltb : simpl never.
Arguments String.eqb : simpl never.

(* ---------- what the server's own serializer writes is read back exactly ---------- *)
Definition json_of_ostring (o : option string) : json :=
  match o with Some s => JStr s | None => JNull end.

Definition json_of_patch (p : patch) : json :=
  JObj [("number"%string, JNum (JInt false (p_num p)));
        ("hash"%string, JStr (p_hash p));
        ("download_url"%string, JStr (p_url p));
        ("hash_signature"%string, json_of_ostring (p_sig p))].

Definition json_of_resp (r : resp) : json :=
  JObj [("patch_available"%string, JBool (r_avail r));
        ("patch"%string, match r_patch r with Some p => json_of_patch p | None => JNull end);
        ("rolled_back_patch_numbers"%string,
         match r_rb r with Some l => JArr (map (fun n => JNum (JInt false n)) l) | None => JNull end)].

Definition resp_in_range (r : resp) : Prop :=
  (forall p, r_patch r = Some p -> p_num p < two64) /\
  (forall l, r_rb r = Some l -> Forall (fun n => n < two64) l).

Lemma all_usize_map l :
  Forall (fun n => n < two64) l -> all_usize (map (fun n => JNum (JInt false n)) l) = Some l.
Proof.
  induction 1 as [|n l Hn Hl IH]; cbn [map all_usize]; [reflexivity|].
  unfold as_usize. assert (E : (n <? two64) = true) by lia. rewrite E, IH. reflexivity.
Qed.

Theorem resp_roundtrip r : resp_in_range r -> resp_of_json (json_of_resp r) = Some r.
Proof.
  intros [Hp Hl]. destruct r as [av pt rb]. cbn [r_avail r_patch r_rb] in *.
  unfold json_of_resp, resp_of_json. cbn [r_avail r_patch r_rb].
  cbn [resp_fields]. repeat (rewrite ?String.eqb_refl; cbn [resp_acc0 ra_avail ra_patch ra_rb as_bool]).
  change (String.eqb "patch" "patch_available") with false.
  change (String.eqb "rolled_back_patch_numbers" "patch_available") with false.
  change (String.eqb "rolled_back_patch_numbers" "patch") with false.
  cbn iota. rewrite ?String.eqb_refl. cbn [ra_avail ra_patch ra_rb].
  assert (Ep : as_option as_patch (match pt with Some p => json_of_patch p | None => JNull end) = Some pt).
  { destruct pt as [p|]; [|reflexivity]. specialize (Hp p eq_refl).
    destruct p as [n h u s]. cbn [p_num] in Hp.
    unfold as_option, json_of_patch, as_patch. cbn [p_num p_hash p_url p_sig patch_fields].
    rewrite ?String.eqb_refl. cbn [patch_acc0 a_num a_hash a_url a_sig].
    unfold as_usize. assert (E : (n <? two64) = true) by lia. rewrite E.
    change (String.eqb "hash" "number") with false.
    change (String.eqb "download_url" "number") with false.
    change (String.eqb "download_url" "hash") with false.
    change (String.eqb "hash_signature" "number") with false.
    change (String.eqb "hash_signature" "hash") with false.
    change (String.eqb "hash_signature" "download_url") with false.
    cbn iota. rewrite ?String.eqb_refl. cbn [a_num a_hash a_url a_sig as_string].
    destruct s as [s|]; reflexivity. }
  rewrite Ep.
  assert (Er : as_option as_usize_vec (match rb with Some l => JArr (map (fun n => JNum (JInt false n)) l) | None => JNull end) = Some rb).
  { destruct rb as [l|]; [|reflexivity]. unfold as_option, as_usize_vec.
    rewrite all_usize_map by (apply Hl; reflexivity). reflexivity. }
  rewrite Er. reflexivity.
Qed.

(* ---------- fields the library does not know are skipped, wherever they stand ---------- *)
Definition known (k : string) : bool :=
  String.eqb k "patch_available" || String.eqb k "patch" || String.eqb k "rolled_back_patch_numbers".

Lemma resp_fields_skip l1 : forall k v l2 a,
  known k = false ->
  resp_fields (l1 ++ (k, v) :: l2) a = resp_fields (l1 ++ l2) a.
Proof.
  induction l1 as [|[k1 v1] l1 IH]; intros k v l2 a Hk; cbn [app resp_fields].
  - unfold known in Hk. apply orb_false_elim in Hk. destruct Hk as [Hk H3].
    apply orb_false_elim in Hk. destruct Hk as [H1 H2]. rewrite H1, H2, H3. reflexivity.
  - destruct (String.eqb k1 "patch_available").
    { destruct (ra_avail a), (as_bool v1); auto. }
    destruct (String.eqb k1 "patch").
    { destruct (ra_patch a), (as_option as_patch v1); auto. }
    destruct (String.eqb k1 "rolled_back_patch_numbers").
    { destruct (ra_rb a), (as_option as_usize_vec v1); auto. }
    auto.
Qed.

Theorem unknown_field_ignored l1 k v l2 :
  known k = false ->
  resp_of_json (JObj (l1 ++ (k, v) :: l2)) = resp_of_json (JObj (l1 ++ l2)).
Proof. intros H. unfold resp_of_json. rewrite resp_fields_skip by exact H. reflexivity. Qed.

(* ---------- a required field that is absent, a known field given twice: the body is rejected ---------- *)
Lemma resp_fields_avail_absent l : forall a a',
  ra_avail a = None -> (forall v, ~ In ("patch_available"%string, v) l) ->
  resp_fields l a = Some a' -> ra_avail a' = None.
Proof.
  induction l as [|[k v] l IH]; intros a a' Ha Hn H; cbn [resp_fields] in H.
  - inversion H; subst; exact Ha.
  - destruct (String.eqb k "patch_available") eqn:E.
    { apply String.eqb_eq in E. subst k. exfalso. apply (Hn v). left. reflexivity. }
    assert (Hn' : forall v0, ~ In ("patch_available"%string, v0) l).
    { intros v0 Hin. apply (Hn v0). right. exact Hin. }
    destruct (String.eqb k "patch").
    { destruct (ra_patch a); [discriminate|]. destruct (as_option as_patch v); [|discriminate].
      eapply IH; [|exact Hn'|exact H]. exact Ha. }
    destruct (String.eqb k "rolled_back_patch_numbers").
    { destruct (ra_rb a); [discriminate|]. destruct (as_option as_usize_vec v); [|discriminate].
      eapply IH; [|exact Hn'|exact H]. exact Ha. }
    eapply IH; eauto.
Qed.

Theorem missing_patch_available_rejected l :
  (forall v, ~ In ("patch_available"%string, v) l) -> resp_of_json (JObj l) = None.
Proof.
  intros Hn. unfold resp_of_json. destruct (resp_fields l resp_acc0) as [a'|] eqn:E; [|reflexivity].
  apply resp_fields_avail_absent in E; auto. unfold resp_finish. rewrite E. reflexivity.
Qed.

(* once a field has been seen, a second occurrence anywhere later is an error *)
Definition seen (k : string) (a : resp_acc) : bool :=
  if String.eqb k "patch_available" then match ra_avail a with Some _ => true | None => false end
  else if String.eqb k "patch" then match ra_patch a with Some _ => true | None => false end
  else if String.eqb k "rolled_back_patch_numbers" then match ra_rb a with Some _ => true | None => false end
  else false.

Lemma resp_fields_seen_again l : forall k v a,
  seen k a = true -> In (k, v) l -> resp_fields l a = None.
Proof.
  induction l as [|[k1 v1] l IH]; intros k v a Hs Hin; [contradiction|].
  cbn [resp_fields].
  assert (Hstep : forall a1, seen k a = true ->
            (ra_avail a1 = ra_avail a \/ exists b, ra_avail a1 = Some b) ->
            (ra_patch a1 = ra_patch a \/ exists b, ra_patch a1 = Some b) ->
            (ra_rb a1 = ra_rb a \/ exists b, ra_rb a1 = Some b) -> seen k a1 = true).
  { intros a1 Hsa H1 H2 H3. unfold seen in *.
    destruct (String.eqb k "patch_available").
    - destruct H1 as [->|[b ->]]; auto.
    - destruct (String.eqb k "patch").
      + destruct H2 as [->|[b ->]]; auto.
      + destruct (String.eqb k "rolled_back_patch_numbers"); [|discriminate].
        destruct H3 as [->|[b ->]]; auto. }
  destruct Hin as [Heq|Hin].
  - inversion Heq; subst k1 v1. unfold seen in Hs.
    destruct (String.eqb k "patch_available").
    { destruct (ra_avail a); [|discriminate]. reflexivity. }
    destruct (String.eqb k "patch").
    { destruct (ra_patch a); [|discriminate]. reflexivity. }
    destruct (String.eqb k "rolled_back_patch_numbers"); [|discriminate].
    destruct (ra_rb a); [|discriminate]. reflexivity.
  - destruct (String.eqb k1 "patch_available").
    { destruct (ra_avail a) eqn:Ea; [reflexivity|]. destruct (as_bool v1); [|reflexivity].
      eapply IH; [|exact Hin]. apply Hstep; cbn; eauto. }
    destruct (String.eqb k1 "patch").
    { destruct (ra_patch a) eqn:Ea; [reflexivity|]. destruct (as_option as_patch v1); [|reflexivity].
      eapply IH; [|exact Hin]. apply Hstep; cbn; eauto. }
    destruct (String.eqb k1 "rolled_back_patch_numbers").
    { destruct (ra_rb a) eqn:Ea; [reflexivity|]. destruct (as_option as_usize_vec v1); [|reflexivity].
      eapply IH; [|exact Hin]. apply Hstep; cbn; eauto. }
    eapply IH; eauto.
Qed.

Theorem duplicate_field_rejected l1 k v1 l2 v2 l3 :
  known k = true ->
  resp_of_json (JObj (l1 ++ (k, v1) :: l2 ++ (k, v2) :: l3)) = None.
Proof.
  intros Hk. unfold resp_of_json.
  assert (H : forall a, resp_fields (l1 ++ (k, v1) :: l2 ++ (k, v2) :: l3) a = None).
  { induction l1 as [|[k0 v0] l1 IH]; intros a; cbn [app resp_fields].
    - unfold known in Hk.
      destruct (String.eqb k "patch_available") eqn:E1.
      { destruct (ra_avail a); [reflexivity|]. destruct (as_bool v1); [|reflexivity].
        apply (resp_fields_seen_again _ k v2); [unfold seen; rewrite E1; reflexivity|].
        apply in_or_app. right. left. reflexivity. }
      destruct (String.eqb k "patch") eqn:E2.
      { destruct (ra_patch a); [reflexivity|]. destruct (as_option as_patch v1); [|reflexivity].
        apply (resp_fields_seen_again _ k v2); [unfold seen; rewrite E1, E2; reflexivity|].
        apply in_or_app. right. left. reflexivity. }
      destruct (String.eqb k "rolled_back_patch_numbers") eqn:E3; [|discriminate].
      destruct (ra_rb a); [reflexivity|]. destruct (as_option as_usize_vec v1); [|reflexivity].
      apply (resp_fields_seen_again _ k v2); [unfold seen; rewrite E1, E2, E3; reflexivity|].
      apply in_or_app. right. left. reflexivity.
    - destruct (String.eqb k0 "patch_available").
      { destruct (ra_avail a); [reflexivity|]. destruct (as_bool v0); [|reflexivity]. apply IH. }
      destruct (String.eqb k0 "patch").
      { destruct (ra_patch a); [reflexivity|]. destruct (as_option as_patch v0); [|reflexivity]. apply IH. }
      destruct (String.eqb k0 "rolled_back_patch_numbers").
      { destruct (ra_rb a); [reflexivity|]. destruct (as_option as_usize_vec v0); [|reflexivity]. apply IH. }
      apply IH. }
  rewrite H. reflexivity.
Qed.

(* ---------- numbers: exactly the integer literals 0 .. 2^64-1 are patch numbers ---------- *)
Theorem usize_exactly j n :
  as_usize j = Some n <-> j = JNum (JInt false n) /\ n < two64.
Proof.
  split.
  - destruct j as [| |[[|] v|]| | |]; cbn; try discriminate.
    destruct (v <? two64) eqn:E; [|discriminate]. intros H; inversion H; subst. split; [reflexivity|lia].
  - intros [-> H]. cbn. assert (E : (n <? two64) = true) by lia. rewrite E. reflexivity.
Qed.

(* a scalar is never a response *)
Theorem scalar_rejected j :
  (forall l, j <> JObj l) -> (forall l, j <> JArr l) -> resp_of_json j = None.
Proof. destruct j; intros H1 H2; try reflexivity; [exfalso; eapply H2|exfalso; eapply H1]; reflexivity. Qed.
