(* Downloads.v — the download directory (<code_cache>/downloads): `<n>` written by download_to_path
   (network.rs) and `<n>.full` written by inflate and consumed by add_patch's rename (updater.rs,
   patch_manager.rs).  Nothing in the library ever deletes these files: they survive restarts and
   release changes, so every update runs on top of whatever earlier attempts left behind.

   The lifecycle model (Model.step) does not take the directory as an input at all; this file adds it
   as a second component that is only ever WRITTEN, which is exactly the claim to be tied to the code:
   what an update does never depends on leftovers (File::create truncates, the download is rewritten
   from the hook's bytes).  The correspondence check compares [dls] after every op, with leftovers of
   other lengths present, so an implementation that reads a leftover (open without truncate, "skip the
   download if the file exists") diverges at once.  Definitions + the few facts worth stating. *)
From UV Require Import Base Codec Model.

(* content of <n>.full: the inflated bytes, or whatever prefix a failed inflate flushed *)
Inductive fcont := FBytes (b : bytes) | FPartial.

Record dls := { dl_file : N -> option bytes; dl_full : N -> option fcont }.
Definition dls0 : dls := {| dl_file := fun _ => None; dl_full := fun _ => None |}.

Definition set_file (L : dls) (n : N) (v : option bytes) : dls :=
  {| dl_file := fun k => if N.eqb k n then v else dl_file L k; dl_full := dl_full L |}.
Definition set_full (L : dls) (n : N) (v : option fcont) : dls :=
  {| dl_file := dl_file L; dl_full := fun k => if N.eqb k n then v else dl_full L k |}.

Definition is_download (x : netobs) : bool := match x with NDownload _ => true | _ => false end.

Section Oracles.
Variable sha : bytes -> bytes.
Variable sigok : string -> string -> string -> bool.
Variable zdec : bytes -> bytes.
Variable base : bytes.

(* the files an update leaves, as a function of the call and of what Model.step said it did
   ([o]: the C-level result, [log]: its network actions) *)
Definition dl_step (w : world) (o : op) (res : out) (log : list netobs) (L : dls) : dls :=
  match o, w_cfg w with
  | OUpdate _ (Some rs) (Some body), Some _ =>
      match r_patch rs with
      | Some p =>
          if existsb is_download log then
            (* download_to_path: create (truncate) + write_all of the hook's bytes *)
            let L1 := set_file L (p_num p) (Some body) in
            (* inflate: File::create(<n>.full) (truncate), then the streamed reader *)
            match inflate zdec base body with
            | None => set_full L1 (p_num p) (Some FPartial)
            | Some outb =>
                match res with
                | RStatus 1 => set_full L1 (p_num p) None          (* add_patch renamed it away *)
                | _ => set_full L1 (p_num p) (Some (FBytes outb))    (* hash mismatch / banned meanwhile *)
                end
            end
          else L
      | None => L
      end
  | _, _ => L
  end.

Definition step2 (wl : world * dls) (o : op) : (world * dls) * out * list netobs :=
  let '(w', r, log) := step sha sigok zdec base (fst wl) o in
  ((w', dl_step (fst wl) o r log (snd wl)), r, log).

Fixpoint run2 (wl : world * dls) (ops : list op) : (world * dls) * list (out * list netobs) :=
  match ops with
  | [] => (wl, [])
  | o :: r => let '(wl1, x, l) := step2 wl o in
              let '(wl2, t) := run2 wl1 r in (wl2, (x, l) :: t)
  end.

End Oracles.
