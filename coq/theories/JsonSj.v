(* JsonSj.v — state.json as TEXT: what serde's derived Deserialize for SerializedState { release_version: String,
   queued_events: Vec<PatchEvent> } (cache/updater_state.rs:44-56) and PatchEvent (events.rs:50-77; EventType through its
   hand-written Deserialize, events.rs:31-45) makes of the bytes of the file, read by disk_io::read = serde_json::from_reader,
   whose readers behave as the ones of JsonText.v.  The model's disk holds [sj : jfile sstate]; with this file "which
   contents count as a readable state.json, which release and which queued events they hold" is part of the model instead
   of an abstraction made by the harness: [sj_of_file].

   A Vec<T> of structs is read element by element by T's own visitor (so the value of an unknown member of an EVENT is
   skipped by the lenient scanner, as for any struct).  JsonText.schema has no vector constructor; the positional reader
   [sch_elems] reads element i by the schema of field i, so a pseudo-struct with [n] fields that all carry the event schema
   reads the first [n] elements of an array exactly as the Vec visitor does.  [n] = the length of the text is always enough
   (an element takes at least one byte).  That the pseudo-struct would also read an OBJECT is harmless: the tree reader
   below accepts only an array for the vector, as serde does. *)
From UV Require Import Base Codec Model Json JsonText JsonState.
Local Open Scope N_scope.

(* ----- what the file holds for one event ----- *)
Record fevent := { fe_app : string; fe_arch : string; fe_kind : evkind; fe_num : N; fe_platform : string;
                   fe_rel : string; fe_ts : N; fe_msg : option string }.

(* EventType::deserialize: a string, one of three *)
Definition as_evkind (j : json) : option evkind :=
  match j with
  | JStr s => if String.eqb s "__patch_install__" then Some EvInstallSuccess
              else if String.eqb s "__patch_install_failure__" then Some EvInstallFailure
              else if String.eqb s "__patch_download__" then Some EvDownload
              else None
  | _ => None
  end.

(* visit_map of a derived struct, generically: members in document order; a repeated KNOWN key is an error; the value of
   an unknown key is dropped.  (serde converts each value when it meets its key and stops at the first error; accepting
   or rejecting, and the value accepted, do not depend on that order.) *)
Definition is_key (k : string) (ks : list string) : bool := existsb (String.eqb k) ks.
Fixpoint collect (ks : list string) (l : list (string * json)) (acc : list (string * json)) : option (list (string * json)) :=
  match l with
  | [] => Some acc
  | (k, v) :: r =>
      if is_key k ks then
        if existsb (fun p => String.eqb k (fst p)) acc then None else collect ks r ((k, v) :: acc)
      else collect ks r acc
  end.
Fixpoint lookup (k : string) (l : list (string * json)) : option json :=
  match l with
  | [] => None
  | (k', v) :: r => if String.eqb k k' then Some v else lookup k r
  end.
(* a required field; an Option field (missing = None) *)
Definition req {A} (f : json -> option A) (k : string) (a : list (string * json)) : option A :=
  match lookup k a with Some v => f v | None => None end.
Definition opt {A} (f : json -> option A) (k : string) (a : list (string * json)) : option (option A) :=
  match lookup k a with Some v => as_option f v | None => Some None end.

Definition ev_keys : list string :=
  ["app_id"; "arch"; "type"; "patch_number"; "platform"; "release_version"; "timestamp"; "message"]%string.

Definition as_fevent (j : json) : option fevent :=
  match j with
  | JObj l =>
      match collect ev_keys l [] with
      | None => None
      | Some a =>
          match req as_string "app_id" a, req as_string "arch" a, req as_evkind "type" a, req as_usize "patch_number" a,
                req as_string "platform" a, req as_string "release_version" a, req as_u64 "timestamp" a,
                opt as_string "message" a with
          | Some ap, Some ar, Some k, Some n, Some pl, Some r, Some t, Some m =>
              Some {| fe_app := ap; fe_arch := ar; fe_kind := k; fe_num := n; fe_platform := pl; fe_rel := r; fe_ts := t; fe_msg := m |}
          | _, _, _, _, _, _, _, _ => None
          end
      end
  | JArr [ap; ar; k; n; pl; r; t; m] =>          (* visit_seq: exactly the eight fields, in declaration order *)
      match as_string ap, as_string ar, as_evkind k, as_usize n, as_string pl, as_string r, as_u64 t, as_option as_string m with
      | Some ap', Some ar', Some k', Some n', Some pl', Some r', Some t', Some m' =>
          Some {| fe_app := ap'; fe_arch := ar'; fe_kind := k'; fe_num := n'; fe_platform := pl'; fe_rel := r'; fe_ts := t'; fe_msg := m' |}
      | _, _, _, _, _, _, _, _ => None
      end
  | _ => None
  end.

Fixpoint all_fevents (l : list json) : option (list fevent) :=
  match l with
  | [] => Some []
  | x :: r => match as_fevent x, all_fevents r with
              | Some e, Some t => Some (e :: t)
              | _, _ => None
              end
  end.
(* Vec<PatchEvent>: a sequence, nothing else *)
Definition as_fevent_vec (j : json) : option (list fevent) :=
  match j with JArr l => all_fevents l | _ => None end.

Definition sj_keys : list string := ["release_version"; "queued_events"]%string.
Definition fstate_of_json (j : json) : option (string * list fevent) :=
  match j with
  | JObj l =>
      match collect sj_keys l [] with
      | None => None
      | Some a =>
          match req as_string "release_version" a, req as_fevent_vec "queued_events" a with
          | Some r, Some q => Some (r, q)
          | _, _ => None
          end
      end
  | JArr [r; q] =>
      match as_string r, as_fevent_vec q with
      | Some r', Some q' => Some (r', q')
      | _, _ => None
      end
  | _ => None
  end.

(* ----- the schemas that steer the text reader ----- *)
Definition event_schema : schema :=
  SStruct [("app_id", SLeaf); ("arch", SLeaf); ("type", SLeaf); ("patch_number", SLeaf); ("platform", SLeaf);
           ("release_version", SLeaf); ("timestamp", SLeaf); ("message", SLeaf)]%string.
Definition vec_schema (n : nat) (sc : schema) : schema := SStruct (repeat ("0"%string, sc) n).
Definition sstate_schema (n : nat) : schema :=
  SStruct [("release_version", SLeaf); ("queued_events", vec_schema n event_schema)]%string.

(* the reader with room for [n] queued events *)
Definition fstate_of_body_n (n : nat) (l : bytes) : option (string * list fevent) :=
  match parse_body (sstate_schema n) l with
  | Some t => fstate_of_json t
  | None => None
  end.

(* ----- from what the file holds to the model's event ----- *)
(* decimal rendering of a usize (at most 20 digits) *)
Fixpoint dec_digits (fuel : nat) (n : N) (acc : string) : string :=
  match fuel with
  | O => acc
  | S f => let acc' := String (ascii_of_N (48 + n mod 10)) acc in
           if n <? 10 then acc' else dec_digits f (n / 10) acc'
  end.
Definition dec_of_N (n : N) : string := dec_digits 20 n EmptyString.

(* the two messages this library writes (updater.rs:223-226, 605-608) *)
Definition msg_init (n : N) : string := ("Patch " ++ dec_of_N n ++ " was marked currently_booting in init")%string.
Definition msg_engine (n : N) : string := ("Install failure reported from engine for patch " ++ dec_of_N n)%string.

Definition evmsg_of (n : N) (m : option string) : evmsg :=
  match m with
  | None => MsgNone
  | Some s => if String.eqb s (msg_init n) then MsgInit
              else if String.eqb s (msg_engine n) then MsgEngine
              else MsgOther s
  end.
(* arch, platform and the timestamp are carried by the file and re-sent as they are; the model's event does not hold them *)
Definition event_of_fevent (e : fevent) : event :=
  {| e_kind := fe_kind e; e_num := fe_num e; e_app := fe_app e; e_rel := fe_rel e; e_msg := evmsg_of (fe_num e) (fe_msg e) |}.

Definition sj_of_file_n (n : nat) (l : bytes) : jfile sstate :=
  match fstate_of_body_n n l with
  | Some (r, q) => JOk {| rel := r; evq := map event_of_fevent q |}
  | None => JGarbage
  end.

(* the content of state.json as the model's disk sees it *)
Definition sj_of_file (l : bytes) : jfile sstate := sj_of_file_n (List.length l) l.
