(* Chunked.v — C16: the bipatch Reader driven through read(buf) with ANY sequence of non-empty buffer
   sizes (and any size of its internal scratch buffer) produces exactly what the one-shot semantics
   [apply_patch] produces, error for error. *)
From UV Require Import Base Codec CodecProofs.
From Coq Require Import ZifyN ZifyBool ZifyNat.
Arguments N.add : simpl never.
Arguments N.sub : simpl never.
Arguments N.mul : simpl never.
Arguments N.ltb : simpl never.
Arguments N.leb : simpl never.
Arguments N.eqb : simpl never.
Arguments N.min : simpl never.
Arguments N.of_nat : simpl never.
Arguments N.to_nat : simpl never.
Arguments Z.add : simpl never.
Arguments Z.sub : simpl never.
Arguments Z.of_N : simpl never.
Arguments Z.to_nat : simpl never.
Arguments Z.ltb : simpl never.
Arguments Z.leb : simpl never.

Definition omap {A B} (f : A -> B) (x : option A) : option B :=
  match x with Some a => Some (f a) | None => None end.

(* ---------- splitting reads ---------- *)
Lemma firstn_add {A} (n m : nat) : forall (l : list A),
  firstn (n + m) l = firstn n l ++ firstn m (skipn n l).
Proof.
  induction n as [|n IH]; intros l; cbn; auto.
  destruct l as [|x l]; cbn; [destruct m; reflexivity|]. rewrite IH. reflexivity.
Qed.

Lemma take_N_some n p a r : take_N n p = Some (a, r) -> p = a ++ r /\ blen a = n.
Proof.
  unfold take_N. destruct (n <=? blen p) eqn:E; [|discriminate].
  rewrite take_exact_firstn by (unfold blen in E; lia). intros H. injection H as <- <-.
  split; [symmetry; apply firstn_skipn|]. unfold blen in *. rewrite firstn_length. lia.
Qed.

Lemma take_N_firstn n p : n <= blen p -> take_N n p = Some (firstn (N.to_nat n) p, skipn (N.to_nat n) p).
Proof.
  intros H. unfold take_N. assert (E : (n <=? blen p) = true) by lia. rewrite E.
  apply take_exact_firstn. unfold blen in H. lia.
Qed.

Lemma take_N_none n p : blen p < n -> take_N n p = None.
Proof. intros H. unfold take_N. assert (E : (n <=? blen p) = false) by lia. rewrite E. reflexivity. Qed.

Lemma blen_skipn (n : nat) (p : bytes) : blen (skipn n p) = blen p - N.of_nat n.
Proof. unfold blen. rewrite skipn_length. lia. Qed.

Lemma take_N_split n m p :
  take_N (n + m) p =
  match take_N n p with
  | Some (a, p1) => match take_N m p1 with Some (b, p2) => Some (a ++ b, p2) | None => None end
  | None => None
  end.
Proof.
  destruct (N.le_gt_cases n (blen p)) as [Hn|Hn].
  - rewrite (take_N_firstn n p Hn).
    destruct (N.le_gt_cases (n + m) (blen p)) as [Hm|Hm].
    + rewrite (take_N_firstn (n + m) p Hm), take_N_firstn by (rewrite blen_skipn; lia).
      replace (N.to_nat (n + m)) with (N.to_nat n + N.to_nat m)%nat by lia.
      rewrite firstn_add. f_equal. f_equal.
      rewrite Nat.add_comm. apply skipn_add.
    + rewrite take_N_none by lia. rewrite take_N_none by (rewrite blen_skipn; lia). reflexivity.
  - rewrite (take_N_none n p Hn), take_N_none by lia. reflexivity.
Qed.

(* read_old, characterised *)
Lemma read_old_char old pos n :
  read_old old pos n =
  if n =? 0 then Some []
  else if (pos <? 0)%Z then None
  else if (Z.of_N (blen old) <? pos + Z.of_N n)%Z then None
  else Some (firstn (N.to_nat n) (skipn (Z.to_nat pos) old)).
Proof.
  unfold read_old. destruct (n =? 0); auto. destruct (pos <? 0)%Z eqn:E1; auto.
  destruct (Z.of_N (blen old) <? pos + Z.of_N n)%Z eqn:E2; auto.
  rewrite take_exact_firstn; auto. rewrite skipn_length. unfold blen in *. lia.
Qed.

Lemma read_old_len old pos n o : read_old old pos n = Some o -> blen o = n.
Proof.
  rewrite read_old_char. destruct (n =? 0) eqn:E0.
  - intros H. injection H as <-. unfold blen. cbn. lia.
  - destruct (pos <? 0)%Z eqn:E1; [discriminate|].
    destruct (Z.of_N (blen old) <? pos + Z.of_N n)%Z eqn:E2; [discriminate|].
    intros H. injection H as <-. unfold blen in *. rewrite firstn_length, skipn_length. lia.
Qed.

Lemma read_old_split old pos n m : 0 < n ->
  read_old old pos (n + m) =
  match read_old old pos n with
  | Some a => match read_old old (pos + Z.of_N n) m with Some b => Some (a ++ b) | None => None end
  | None => None
  end.
Proof.
  intros Hn. rewrite !read_old_char.
  assert (E0 : (n + m =? 0) = false) by lia. rewrite E0.
  assert (E0' : (n =? 0) = false) by lia. rewrite E0'.
  destruct (pos <? 0)%Z eqn:E1; auto.
  destruct (m =? 0) eqn:Em.
  - assert (m = 0) by lia. subst m. rewrite N.add_0_r.
    destruct (Z.of_N (blen old) <? pos + Z.of_N n)%Z; auto. rewrite app_nil_r. reflexivity.
  - assert (E3 : (pos + Z.of_N n <? 0)%Z = false) by lia. rewrite E3.
    destruct (Z.of_N (blen old) <? pos + Z.of_N n)%Z eqn:E2.
    + assert (E4 : (Z.of_N (blen old) <? pos + Z.of_N (n + m))%Z = true) by lia. rewrite E4. reflexivity.
    + replace (pos + Z.of_N n + Z.of_N m)%Z with (pos + Z.of_N (n + m))%Z by lia.
      destruct (Z.of_N (blen old) <? pos + Z.of_N (n + m))%Z; auto.
      replace (N.to_nat (n + m)) with (N.to_nat n + N.to_nat m)%nat by lia.
      rewrite firstn_add. f_equal. f_equal. f_equal.
      replace (Z.to_nat (pos + Z.of_N n)) with (N.to_nat n + Z.to_nat pos)%nat by lia.
      symmetry. apply skipn_add.
Qed.

Lemma add_bytes_app : forall (a1 b1 a2 b2 : bytes),
  List.length a1 = List.length b1 -> add_bytes (a1 ++ a2) (b1 ++ b2) = add_bytes a1 b1 ++ add_bytes a2 b2.
Proof.
  induction a1 as [|x a1 IH]; intros [|y b1] a2 b2 H; cbn in *; try discriminate; auto.
  rewrite IH by lia. reflexivity.
Qed.

(* a varint eats at least one byte *)
Lemma dec_raw_shorter i : forall l v r, dec_raw i l = VOk v r -> (List.length r < List.length l)%nat.
Proof.
  induction i as [|i IH]; intros [|b l] v r H; cbn in H; try discriminate.
  destruct (b <? 128).
  - injection H as _ <-. cbn. lia.
  - destruct (dec_raw i l) as [v' r'| |] eqn:E; try discriminate.
    injection H as _ <-. apply IH in E. cbn. lia.
Qed.

Lemma dec_u_shorter l v r : dec_u l = VOk v r -> (List.length r < List.length l)%nat.
Proof.
  unfold dec_u. destruct (dec_raw 10 l) as [v' r'| |] eqn:E; try discriminate.
  intros H. injection H as _ <-. eapply dec_raw_shorter; eauto.
Qed.

Lemma dec_s_shorter l v r : dec_s l = VOk v r -> (List.length r < List.length l)%nat.
Proof.
  unfold dec_s. destruct (dec_u l) as [v' r'| |] eqn:E; try discriminate.
  intros H. injection H as _ <-. eapply dec_u_shorter; eauto.
Qed.

Lemma take_N_len n p a r : take_N n p = Some (a, r) -> (List.length r <= List.length p)%nat /\ (0 < n -> (List.length r < List.length p)%nat).
Proof.
  intros H. apply take_N_some in H. destruct H as [-> Hl]. rewrite app_length. unfold blen in Hl. split; lia.
Qed.

(* ---------- the denotation of a reader state: everything it will still produce ---------- *)
Section Den.
Variable old : bytes.

Definition den_copy (rec : bytes -> Z -> option bytes) (c : N) (p : bytes) (pos : Z) : option bytes :=
  match take_N c p with
  | Some (cp, p1) =>
      match dec_s p1 with
      | VOk sk p2 => if bad_pos (pos + sk) then None else omap (app cp) (rec p2 (pos + sk)%Z)
      | _ => None
      end
  | None => None
  end.

Definition den_add (rec : bytes -> Z -> option bytes) (k : N) (p : bytes) (pos : Z) : option bytes :=
  match read_old old pos k, take_N k p with
  | Some o, Some (dif, p1) =>
      match dec_u p1 with
      | VOk c p2 => omap (app (add_bytes o dif)) (den_copy rec c p2 (pos + Z.of_N k)%Z)
      | _ => None
      end
  | _, _ => None
  end.

Fixpoint den_rec (f : nat) (p : bytes) (pos : Z) : option bytes :=
  match f with
  | O => None
  | S f' =>
      match dec_u p with
      | VEof => Some []
      | VInvalid => None
      | VOk k p1 => den_add (den_rec f') k p1 pos
      end
  end.

Definition den (f : nat) (s : rd) : option bytes :=
  match r_st s with
  | RFinal => Some []
  | RInit => den_rec f (r_p s) (r_pos s)
  | RAdd k => den_add (den_rec f) k (r_p s) (r_pos s)
  | RCopy k => den_copy (den_rec f) k (r_p s) (r_pos s)
  end.

Definition fuel_ok (f : nat) (s : rd) : Prop :=
  match r_st s with
  | RFinal => True
  | RInit => (List.length (r_p s) < f)%nat
  | _ => (List.length (r_p s) <= f)%nat
  end.

Lemma omap_app (a b : bytes) x : omap (app (a ++ b)) x = omap (app a) (omap (app b) x).
Proof. destruct x; cbn; [rewrite app_assoc|]; reflexivity. Qed.

Lemma den_add_split rec k p pos n : 0 < n -> n <= k ->
  den_add rec k p pos =
  match read_old old pos n, take_N n p with
  | Some o, Some (d, p1) => omap (app (add_bytes o d)) (den_add rec (k - n) p1 (pos + Z.of_N n)%Z)
  | _, _ => None
  end.
Proof.
  intros Hn Hk. unfold den_add.
  assert (Hm : exists m, k = n + m) by (exists (k - n); lia). destruct Hm as [m ->].
  replace (n + m - n) with m by lia.
  rewrite read_old_split, take_N_split by exact Hn.
  destruct (read_old old pos n) as [o1|] eqn:R1; [|reflexivity].
  destruct (take_N n p) as [[d1 p1]|] eqn:T1.
  2:{ destruct (read_old old (pos + Z.of_N n) m); reflexivity. }
  destruct (read_old old (pos + Z.of_N n) m) as [o2|] eqn:R2; [|reflexivity].
  destruct (take_N m p1) as [[d2 p2]|] eqn:T2; [|reflexivity].
  destruct (dec_u p2) as [c p3| |]; try reflexivity.
  rewrite add_bytes_app.
  2:{ apply read_old_len in R1. apply take_N_some in T1. destruct T1 as [_ T1]. unfold blen in *. lia. }
  rewrite omap_app. replace (pos + Z.of_N n + Z.of_N m)%Z with (pos + Z.of_N (n + m))%Z by lia.
  reflexivity.
Qed.

Lemma den_copy_split rec k p pos n : n <= k ->
  den_copy rec k p pos =
  match take_N n p with
  | Some (c1, p1) => omap (app c1) (den_copy rec (k - n) p1 pos)
  | None => None
  end.
Proof.
  intros Hk. unfold den_copy.
  assert (Hm : exists m, k = n + m) by (exists (k - n); lia). destruct Hm as [m ->].
  replace (n + m - n) with m by lia. rewrite take_N_split.
  destruct (take_N n p) as [[c1 p1]|]; [|reflexivity].
  destruct (take_N m p1) as [[c2 p2]|]; [|reflexivity].
  destruct (dec_s p2) as [sk p3| |]; try reflexivity.
  destruct (bad_pos (pos + sk)); [reflexivity|]. apply omap_app.
Qed.

(* ---------- main lemma: any buffer schedule yields the denotation ---------- *)
Variable cap : N.
Variable sizes : nat -> N.
Hypothesis cap_pos : 0 < cap.
Hypothesis sizes_pos : forall j, 0 < sizes j.

Lemma chunked_den : forall fc s b i fd,
  (List.length (r_p s) + 2 <= fc)%nat -> fuel_ok fd s ->
  chunked fc old cap sizes s b i = den fd s.
Proof.
  induction fc as [|fc IH]; intros s b i fd Hfc Hfd; [lia|].
  destruct s as [st p pos]. cbn [r_p r_st r_pos] in *. cbn [chunked r_st].
  set (b' := if b =? 0 then sizes (S i) else b).
  assert (Hb : 0 < b').
  { unfold b'. destruct (b =? 0) eqn:E; [apply sizes_pos|lia]. }
  set (i' := if b =? 0 then S i else i). clearbody b' i'. clear b i.
  destruct st as [|k|k|].
  - (* RInit *)
    unfold den, fuel_ok in *. cbn [r_st r_p r_pos] in *. unfold iter. cbn [r_st r_p r_pos].
    destruct fd as [|fd]; [lia|]. cbn [den_rec].
    destruct (dec_u p) as [k p1| |] eqn:E.
    + apply dec_u_shorter in E. cbn [app].
      rewrite (IH _ _ _ fd); cbn [r_p r_st r_pos]; unfold den, fuel_ok; cbn [r_p r_st r_pos]; try lia.
      destruct (den_add (den_rec fd) k p1 pos); reflexivity.
    + destruct fc as [|fc]; [lia|]. reflexivity.
    + reflexivity.
  - (* RAdd k *)
    unfold den, fuel_ok in *. cbn [r_st r_p r_pos] in *. unfold iter. cbn [r_st r_p r_pos].
    set (n := N.min (N.min k b') cap).
    destruct (k =? n) eqn:Ek.
    + (* the whole add block fits *)
      assert (n = k) by lia. subst n. rewrite H. unfold den_add.
      destruct (read_old old pos k) as [o|]; [|reflexivity].
      destruct (take_N k p) as [[d p1]|] eqn:T; [|reflexivity].
      apply take_N_len in T. destruct T as [T _].
      destruct (dec_u p1) as [c p2| |] eqn:E; try reflexivity.
      apply dec_u_shorter in E.
      rewrite (IH _ _ _ fd); cbn [r_p r_st r_pos]; unfold den, fuel_ok; cbn [r_p r_st r_pos]; try lia.
      destruct (den_copy (den_rec fd) c p2 (pos + Z.of_N k)); reflexivity.
    + (* a strict part of it *)
      assert (Hn : 0 < n /\ n <= k) by (subst n; lia). destruct Hn as [Hn0 Hnk].
      rewrite (den_add_split _ k p pos n Hn0 Hnk).
      destruct (read_old old pos n) as [o|]; [|reflexivity].
      destruct (take_N n p) as [[d p1]|] eqn:T; [|reflexivity].
      apply take_N_len in T. destruct T as [_ T]. specialize (T Hn0).
      rewrite (IH _ _ _ fd); cbn [r_p r_st r_pos]; unfold den, fuel_ok; cbn [r_p r_st r_pos]; try lia.
      destruct (den_add (den_rec fd) (k - n) p1 (pos + Z.of_N n)); reflexivity.
  - (* RCopy k *)
    unfold den, fuel_ok in *. cbn [r_st r_p r_pos] in *. unfold iter. cbn [r_st r_p r_pos].
    set (n := N.min k b').
    destruct (k =? n) eqn:Ek.
    + assert (n = k) by lia. subst n. rewrite H. unfold den_copy.
      destruct (take_N k p) as [[cp p1]|] eqn:T; [|reflexivity].
      apply take_N_len in T. destruct T as [T _].
      destruct (dec_s p1) as [sk p2| |] eqn:E; try reflexivity.
      apply dec_s_shorter in E.
      destruct (bad_pos (pos + sk)); [reflexivity|].
      rewrite (IH _ _ _ fd); cbn [r_p r_st r_pos]; unfold den, fuel_ok; cbn [r_p r_st r_pos]; try lia.
      destruct (den_rec fd p2 (pos + sk)); reflexivity.
    + assert (Hn : 0 < n /\ n <= k) by (subst n; lia). destruct Hn as [Hn0 Hnk].
      rewrite (den_copy_split _ k p pos n Hnk).
      destruct (take_N n p) as [[c1 p1]|] eqn:T; [|reflexivity].
      apply take_N_len in T. destruct T as [_ T]. specialize (T Hn0).
      rewrite (IH _ _ _ fd); cbn [r_p r_st r_pos]; unfold den, fuel_ok; cbn [r_p r_st r_pos]; try lia.
      destruct (den_copy (den_rec fd) (k - n) p1 pos); reflexivity.
  - reflexivity.
Qed.

(* the denotation from the initial state is the one-shot reader *)
Lemma apply_records_den : forall f pos p acc,
  apply_records f old pos p acc = omap (app acc) (den_rec f p pos).
Proof.
  induction f as [|f IH]; intros pos p acc; cbn [apply_records den_rec]; [reflexivity|].
  destruct (dec_u p) as [k p1| |]; cbn [omap]; try reflexivity; [|rewrite app_nil_r; reflexivity].
  unfold den_add.
  destruct (read_old old pos k) as [o|]; [|reflexivity].
  destruct (take_N k p1) as [[d p2]|]; [|reflexivity].
  destruct (dec_u p2) as [c p3| |]; try reflexivity.
  unfold den_copy.
  destruct (take_N c p3) as [[cp p4]|]; [|reflexivity].
  destruct (dec_s p4) as [sk p5| |]; try reflexivity.
  replace (pos + Z.of_N k + sk)%Z with (pos + Z.of_N k + sk)%Z by reflexivity.
  unfold bad_pos. destruct ((pos + Z.of_N k + sk <? 0)%Z || (two63 <=? pos + Z.of_N k + sk)%Z); [reflexivity|].
  rewrite IH. destruct (den_rec f p5 (pos + Z.of_N k + sk)) as [r|]; cbn [omap]; [|reflexivity].
  rewrite <- !app_assoc. reflexivity.
Qed.

Theorem chunked_is_oneshot patch :
  apply_patch_chunked cap sizes old patch = apply_patch old patch.
Proof.
  unfold apply_patch_chunked, apply_patch.
  destruct (take_exact 4 patch) as [[m p1]|]; [|reflexivity].
  destruct (bytes_eqb m magic_bytes); [|reflexivity].
  destruct (take_exact 4 p1) as [[v p2]|]; [|reflexivity].
  destruct (bytes_eqb v version_bytes); [|reflexivity].
  rewrite (chunked_den _ _ _ _ (S (List.length p2))); cbn [r_p r_st r_pos]; unfold den, fuel_ok; cbn [r_p r_st r_pos]; try lia.
  rewrite apply_records_den. destruct (den_rec (S (List.length p2)) p2 0); reflexivity.
Qed.

End Den.
