(* Frames2.v — frame theorems at the level of critical sections, calls and histories:
   selections (next / last good / booting) with intact artifacts survive everything that does not
   concern their number (C09, C03, C18); rolled-back numbers stay gone (C10). *)
From UV Require Import Base Codec Model PMLemmas Inv Ban Handout Calls Frame.
Arguments N.eqb : simpl never.
Arguments N.ltb : simpl never.

Section Frames2.
Variable sha : bytes -> bytes.
Variable sigok : string -> string -> string -> bool.
Variable zdec : bytes -> bytes.
Variable base : bytes.

Notation validate := (validate sha sigok).
Notation fall_back := (fall_back sha sigok).
Notation next_boot := (next_boot sha sigok).
Notation boot_failure := (boot_failure sha sigok).
Notation rollback_loop := (rollback_loop sha sigok).
Notation cs_next := (cs_next sha sigok).
Notation cs_start := (cs_start sha sigok).
Notation cs_failure := (cs_failure sha sigok).
Notation cs_init_recover := (cs_init_recover sha sigok).
Notation cs_rollback := (cs_rollback sha sigok).
Notation should_install := (should_install sha sigok).
Notation do_check := (do_check sha sigok).
Notation do_update := (do_update sha sigok zdec base).
Notation step := (step sha sigok zdec base).
Notation inflate := (inflate zdec base).
Notation hash_ok := (hash_ok sha).
Notation Isame := Frame.Isame.

Inductive slot := SLB | SNB | SCB.
Definition getslot (sl : slot) (s : pstate) : option meta :=
  match sl with SLB => lb s | SNB => nb s | SCB => cb s end.

(* the record in slot sl is m and m's artifact is intact; plus I-same *)
Definition Sel (sl : slot) (key : option string) (d : disk) (s : pstate) (m : meta) : Prop :=
  Isame s /\ getslot sl s = Some m /\ validate key d m = true.
Definition SelD (sl : slot) (key : option string) (d : disk) (m : meta) : Prop :=
  Sel sl key d (load_p d) m.

Lemma Sel_ext sl key d d' s m :
  arts d' (m_num m) = arts d (m_num m) -> Sel sl key d s m -> Sel sl key d' s m.
Proof. intros E (I & G & V). repeat split; auto. rewrite <- V. apply validate_arts. exact E. Qed.

Lemma SelD_core sl key d d' m :
  load_p d' = load_p d -> arts d' = arts d -> SelD sl key d m -> SelD sl key d' m.
Proof. unfold SelD. intros -> E. apply Sel_ext. rewrite E. reflexivity. Qed.

(* ---------- primitives, generic in the slot ---------- *)
Lemma fall_back_Sel sl key d s b m :
  Sel sl key d s m -> m_num m <> b ->
  Sel sl key (fst (fall_back key d s b)) (snd (fall_back key d s b)) m.
Proof.
  intros (I & G & V) Hb. split; [apply fall_back_Isame; auto|].
  destruct sl; cbn in G.
  - apply (fall_back_LBsel sha sigok key d s b m); [split|]; auto.
  - apply (fall_back_NBsel sha sigok key d s b m); [|split|]; auto.
  - apply (fall_back_CBsel sha sigok key d s b m); [|split|]; auto.
Qed.

Lemma next_boot_Sel sl key d s m :
  Sel sl key d s m ->
  Sel sl key (fst (fst (next_boot key d s))) (snd (fst (next_boot key d s))) m.
Proof.
  intros (I & G & V). split; [apply next_boot_Isame; auto|].
  destruct sl; cbn in G.
  - apply (next_boot_LBsel sha sigok key d s m); [|split]; auto.
  - rewrite (next_boot_NBsel sha sigok key d s m) by (split; auto). cbn. auto.
  - apply (next_boot_CBsel sha sigok key d s m); [|split]; auto.
Qed.

Lemma rollback_loop_Sel sl key l m d s :
  Sel sl key d s m -> ~ In (m_num m) l ->
  Sel sl key (fst (rollback_loop key d s l)) (snd (rollback_loop key d s l)) m.
Proof.
  intros (I & G & V) Hn. split; [apply rollback_loop_Isame; auto|].
  destruct sl; cbn in G.
  - apply (rollback_loop_LBsel sha sigok key l m d s); [split|]; auto.
  - apply (rollback_loop_NBsel sha sigok key l m d s); [|split|]; auto.
  - apply (rollback_loop_CBsel sha sigok key l m d s); [|split|]; auto.
Qed.

(* ---------- critical sections (the disk belongs to the running release) ---------- *)
Lemma cs_next_SelD sl c d m :
  stable (c_rel c) d -> SelD sl (c_key c) d m -> SelD sl (c_key c) (fst (cs_next c d)) m.
Proof.
  intros S H. unfold Model.cs_next. rewrite (norm_id c d S).
  pose proof (next_boot_Sel sl (c_key c) d (load_p d) m H) as H1.
  destruct (next_boot (c_key c) d (load_p d)) as [[d1 s1] r] eqn:E. cbn in *.
  unfold SelD. rewrite (next_boot_load _ _ _ _ _ _ _ E). exact H1.
Qed.

Lemma cs_next_NB_unchanged c d m :
  stable (c_rel c) d -> SelD SNB (c_key c) d m -> cs_next c d = (d, Some (m_num m)).
Proof.
  intros S (I & G & V). unfold Model.cs_next. rewrite (norm_id c d S).
  rewrite (next_boot_valid sha sigok (c_key c) d (load_p d) m G V). reflexivity.
Qed.

Lemma cs_start_SelD sl c d m :
  sl <> SCB -> stable (c_rel c) d -> SelD sl (c_key c) d m -> SelD sl (c_key c) (cs_start c d) m.
Proof.
  intros Hs S H. unfold Model.cs_start. rewrite (norm_id c d S).
  pose proof (next_boot_Sel sl (c_key c) d (load_p d) m H) as H1.
  destruct (next_boot (c_key c) d (load_p d)) as [[d1 s1] r] eqn:E. cbn in *.
  destruct r as [r0|].
  - unfold SelD. rewrite load_save. destruct H1 as (I & G & V). split; [apply start_Isame; auto|].
    split; [destruct sl; cbn in *; auto; contradiction|exact V].
  - unfold SelD. rewrite (next_boot_load _ _ _ _ _ _ _ E). exact H1.
Qed.

(* launch start makes the (valid) selection the booting record *)
Lemma cs_start_sets_CB c d m :
  stable (c_rel c) d -> SelD SNB (c_key c) d m -> SelD SCB (c_key c) (cs_start c d) m.
Proof.
  intros S (I & G & V). unfold Model.cs_start. rewrite (norm_id c d S).
  rewrite (next_boot_valid sha sigok (c_key c) d (load_p d) m G V).
  unfold SelD. rewrite load_save. split; [apply start_Isame; auto|]. split; [exact G|exact V].
Qed.

Lemma cs_success_SelD_NB c d m :
  stable (c_rel c) d -> SelD SNB (c_key c) d m -> SelD SNB (c_key c) (fst (cs_success c d)) m.
Proof.
  intros S (I & G & V). unfold Model.cs_success. rewrite (norm_id c d S).
  destruct (cb (load_p d)) as [b|] eqn:E; cbn; [|split; auto].
  pose proof (boot_success_NBsel sha sigok (c_key c) d (load_p d) m (conj G V)) as H.
  pose proof (boot_success_Isame d (load_p d) I) as I'.
  unfold boot_success in *. rewrite E in *. cbn in *. unfold SelD. rewrite load_save.
  destruct H as [H1 H2]. repeat split; auto.
Qed.

Lemma cs_success_SelD_LB c d m :
  stable (c_rel c) d -> SelD SLB (c_key c) d m ->
  (forall b, cb (load_p d) = Some b -> m_num b = m_num m) ->
  SelD SLB (c_key c) (fst (cs_success c d)) m.
Proof.
  intros S (I & G & V) Hc. unfold Model.cs_success. rewrite (norm_id c d S).
  destruct (cb (load_p d)) as [b|] eqn:E; cbn; [|split; auto].
  pose proof (boot_success_LBsel sha sigok (c_key c) d (load_p d) m b I E (Hc b eq_refl) (conj G V)) as H.
  pose proof (boot_success_Isame d (load_p d) I) as I'.
  unfold boot_success in *. rewrite E in *. cbn in *. unfold SelD. rewrite load_save.
  destruct H as [H1 H2]. repeat split; auto.
Qed.

(* success promotes the booting patch, artifact intact *)
Lemma cs_success_promotes c d m :
  stable (c_rel c) d -> SelD SCB (c_key c) d m -> SelD SLB (c_key c) (fst (cs_success c d)) m.
Proof.
  intros S (I & G & V). unfold Model.cs_success. rewrite (norm_id c d S). cbn in G. rewrite G.
  pose proof (boot_success_promotes sha sigok (c_key c) d (load_p d) m (conj G V)) as H.
  pose proof (boot_success_Isame d (load_p d) I) as I'.
  unfold boot_success in *. rewrite G in *. cbn in *. unfold SelD. rewrite load_save.
  destruct H as [H1 H2]. repeat split; auto.
Qed.

Lemma boot_failure_Sel sl key d s n m :
  sl <> SCB -> Sel sl key d s m -> m_num m <> n ->
  Sel sl key (fst (boot_failure key d s n)) (snd (boot_failure key d s n)) m.
Proof.
  intros Hs (I & G & V) Hn. unfold Model.boot_failure. apply fall_back_Sel; auto.
  split; [|split; auto].
  - revert I. apply Isame_sub. unfold slots. cbn. intuition congruence.
  - destruct sl; cbn in *; auto. contradiction.
Qed.

Lemma cs_failure_SelD sl c d m :
  sl <> SCB -> stable (c_rel c) d -> SelD sl (c_key c) d m ->
  (forall b, cb (load_p d) = Some b -> m_num b <> m_num m) ->
  SelD sl (c_key c) (fst (cs_failure c d)) m.
Proof.
  intros Hs S H Hc. unfold Model.cs_failure. rewrite (norm_id c d S).
  destruct (cb (load_p d)) as [b|] eqn:E; cbn; auto.
  pose proof (boot_failure_Sel sl (c_key c) d (load_p d) (m_num b) m Hs H) as H1.
  pose proof (boot_failure_saved sha sigok (c_key c) d (load_p d) (m_num b)) as H2.
  destruct (boot_failure (c_key c) d (load_p d) (m_num b)) as [d1 s1]. cbn in *.
  unfold SelD, queue_event. rewrite load_set_sj, (load_of_pj _ _ H2).
  apply (Sel_ext sl (c_key c) d1); [reflexivity|]. apply H1. intros E'. apply (Hc b eq_refl). auto.
Qed.

Lemma cs_init_recover_SelD sl c d m :
  sl <> SCB -> stable (c_rel c) d -> SelD sl (c_key c) d m ->
  (forall b, cb (load_p d) = Some b -> m_num b <> m_num m) ->
  SelD sl (c_key c) (cs_init_recover c d) m.
Proof.
  intros Hs S H Hc. unfold Model.cs_init_recover. rewrite (norm_id c d S).
  destruct (cb (load_p d)) as [b|] eqn:E; cbn; auto.
  pose proof (boot_failure_Sel sl (c_key c) d (load_p d) (m_num b) m Hs H) as H1.
  pose proof (boot_failure_saved sha sigok (c_key c) d (load_p d) (m_num b)) as H2.
  destruct (boot_failure (c_key c) d (load_p d) (m_num b)) as [d1 s1]. cbn in *.
  unfold SelD, queue_event. rewrite load_set_sj, (load_of_pj _ _ H2).
  apply (Sel_ext sl (c_key c) d1); [reflexivity|]. apply H1. intros E'. apply (Hc b eq_refl). auto.
Qed.

Lemma cs_rollback_SelD sl c d l m :
  stable (c_rel c) d -> SelD sl (c_key c) d m -> ~ In (m_num m) l ->
  SelD sl (c_key c) (cs_rollback c d l) m.
Proof.
  intros S H Hn. unfold Model.cs_rollback. rewrite (norm_id c d S).
  destruct l as [|x l]; [exact H|].
  unfold SelD. rewrite rollback_loop_load by discriminate. apply rollback_loop_Sel; auto.
Qed.

Lemma should_install_SelD sl c d n m :
  stable (c_rel c) d -> SelD sl (c_key c) d m -> SelD sl (c_key c) (fst (should_install c d n)) m.
Proof.
  intros S H. unfold Model.should_install. cbn. rewrite (norm_id c d S).
  destruct (inb n (bad (load_p d))); cbn; auto.
  pose proof (cs_next_SelD sl c d m S H) as H1.
  destruct (cs_next c d) as [d2 r]. cbn in *.
  destruct r as [k|]; [destruct (N.eqb k n)|]; exact H1.
Qed.

Lemma cs_clear_events_SelD sl c d m :
  stable (c_rel c) d -> SelD sl (c_key c) d m -> SelD sl (c_key c) (cs_clear_events c d) m.
Proof. intros S H. unfold Model.cs_clear_events. rewrite (norm_id c d S). exact H. Qed.

Lemma cs_install_SelD sl c d p out m :
  sl <> SNB -> stable (c_rel c) d -> SelD sl (c_key c) d m -> m_num m <> p_num p ->
  consistent (load_p d) {| m_num := p_num p; m_size := blen out; m_hash := p_hash p; m_sig := p_sig p |} ->
  SelD sl (c_key c) (fst (cs_install c d p out)) m.
Proof.
  intros Hs S (I & G & V) Hn C. unfold Model.cs_install. rewrite (norm_id c d S).
  destruct (inb (p_num p) (bad (load_p d))); cbn; [repeat split; auto|].
  unfold SelD. rewrite load_save.
  split; [apply (add_patch_Isame d (load_p d) (p_num p) out (p_hash p) (p_sig p)); auto|].
  destruct sl; [|contradiction|].
  - apply (add_patch_LBsel sha sigok (c_key c) d (load_p d) (p_num p) out (p_hash p) (p_sig p) m); [split|]; auto.
  - apply (add_patch_CBsel sha sigok (c_key c) d (load_p d) (p_num p) out (p_hash p) (p_sig p) m); [split|]; auto.
Qed.

(* a banned offer leaves everything alone *)
Lemma cs_install_bad_unchanged c d p out :
  stable (c_rel c) d -> snd (cs_install c d p out) <> UInstalled -> fst (cs_install c d p out) = d.
Proof.
  intros S. unfold Model.cs_install. rewrite (norm_id c d S).
  destruct (inb (p_num p) (bad (load_p d))); cbn; auto.
  destruct (add_patch d (load_p d) (p_num p) out (p_hash p) (p_sig p)). cbn. congruence.
Qed.

(* ---------- calls ---------- *)
Definition not_listed (k : N) (rs : resp) : Prop :=
  match r_rb rs with Some l => ~ In k l | None => True end.

Local Opaque Model.cs_next Model.cs_start Model.cs_success Model.cs_failure Model.cs_init_recover
      Model.cs_rollback Model.should_install Model.cs_install Model.cs_copy_events
      Model.cs_clear_events Model.inflate Model.hash_ok.

Lemma do_check_SelD sl c d ch r m :
  stable (c_rel c) d -> SelD sl (c_key c) d m ->
  (forall rs, r = Some rs -> not_listed (m_num m) rs) ->
  SelD sl (c_key c) (fst (fst (do_check c d ch r))) m.
Proof.
  intros S H Hr. unfold Model.do_check. destruct r as [rs|]; cbn [fst]; auto.
  specialize (Hr rs eq_refl). unfold not_listed in Hr.
  set (d1 := match r_rb rs with Some l => cs_rollback c d l | None => d end).
  assert (H1 : stable (c_rel c) d1 /\ SelD sl (c_key c) d1 m).
  { unfold d1. destruct (r_rb rs) as [l|]; [|split; auto].
    split; [apply (cs_rollback_BM sha sigok c d l S)|apply cs_rollback_SelD; auto]. }
  destruct H1 as [S1 H1].
  destruct (r_patch rs) as [p|]; cbn [fst]; auto.
  pose proof (should_install_SelD sl c d1 (p_num p) m S1 H1) as H2.
  destruct (should_install c d1 (p_num p)). cbn in *. exact H2.
Qed.

(* records only move between slots: the slots after these sections are among those before *)
Definition SlotsSub (d d' : disk) : Prop :=
  forall a, In (Some a) (slots (load_p d')) -> In (Some a) (slots (load_p d)).

Lemma SlotsSub_refl d : SlotsSub d d.
Proof. intros a H. exact H. Qed.
Lemma SlotsSub_trans d1 d2 d3 : SlotsSub d1 d2 -> SlotsSub d2 d3 -> SlotsSub d1 d3.
Proof. intros H1 H2 a H. apply H1, H2, H. Qed.

Local Transparent Model.cs_next Model.cs_rollback Model.should_install Model.cs_clear_events.

Lemma cs_next_SlotsSub c d : stable (c_rel c) d -> SlotsSub d (fst (cs_next c d)).
Proof.
  intros S a. unfold Model.cs_next. rewrite (norm_id c d S).
  pose proof (next_boot_slots sha sigok (c_key c) d (load_p d) a) as H.
  destruct (next_boot (c_key c) d (load_p d)) as [[d1 s1] r] eqn:E. cbn in *.
  rewrite (next_boot_load _ _ _ _ _ _ _ E). exact H.
Qed.

Lemma rollback_loop_slots key l a : forall d s,
  In (Some a) (slots (snd (rollback_loop key d s l))) -> In (Some a) (slots s).
Proof.
  induction l as [|x l IH]; intros d s; cbn; auto.
  pose proof (fall_back_slots sha sigok key d s x a) as H.
  destruct (fall_back key d s x) as [d1 s1]. cbn in *. intros Hi. apply H. eapply IH. exact Hi.
Qed.

Lemma cs_rollback_SlotsSub c d l : stable (c_rel c) d -> SlotsSub d (cs_rollback c d l).
Proof.
  intros S a. unfold Model.cs_rollback. rewrite (norm_id c d S).
  destruct l as [|x l]; [auto|]. rewrite rollback_loop_load by discriminate. apply rollback_loop_slots.
Qed.

Lemma should_install_SlotsSub c d n : stable (c_rel c) d -> SlotsSub d (fst (should_install c d n)).
Proof.
  intros S. unfold Model.should_install. cbn. rewrite (norm_id c d S).
  destruct (inb n (bad (load_p d))); cbn; [apply SlotsSub_refl|].
  pose proof (cs_next_SlotsSub c d S) as H1.
  destruct (cs_next c d) as [d2 r]. cbn in *.
  destruct r as [k|]; [destruct (N.eqb k n)|]; exact H1.
Qed.

Lemma cs_clear_events_SlotsSub c d : stable (c_rel c) d -> SlotsSub d (cs_clear_events c d).
Proof. intros S. unfold Model.cs_clear_events. rewrite (norm_id c d S). intros a H. exact H. Qed.

Local Opaque Model.cs_next Model.cs_rollback Model.should_install Model.cs_clear_events.

(* no record of the offered number with other fields exists *)
Definition consistent_offer (d : disk) (new : meta) : Prop :=
  forall a, In (Some a) (slots (load_p d)) -> m_num a = m_num new -> a = new.

Lemma consistent_offer_sub d d' new :
  SlotsSub d d' -> consistent_offer d new -> consistent (load_p d') new.
Proof.
  intros Hs Hc a Ha. apply Hc. apply Hs. unfold slots. destruct Ha as [<-|<-]; cbn; auto.
Qed.

Definition new_meta (p : patch) (out : bytes) : meta :=
  {| m_num := p_num p; m_size := blen out; m_hash := p_hash p; m_sig := p_sig p |}.

(* updates: a selection survives an update that lists it in no rollback and either does not install,
   or installs another number consistently (LB / CB slots only) *)
Lemma do_update_SelD sl c d ch r dl m :
  stable (c_rel c) d -> SelD sl (c_key c) d m ->
  (forall rs, r = Some rs -> not_listed (m_num m) rs) ->
  (snd (fst (do_update c d ch r dl)) = UInstalled ->
   sl <> SNB /\
   forall rs p bdl out, r = Some rs -> r_patch rs = Some p -> dl = Some bdl -> inflate bdl = Some out ->
                        m_num m <> p_num p /\ consistent_offer d (new_meta p out)) ->
  SelD sl (c_key c) (fst (fst (do_update c d ch r dl))) m.
Proof.
  intros S H Hr Hi. unfold Model.do_update in *.
  destruct (cs_copy_events c d) as [d0 evs] eqn:E0.
  assert (d0 = d).
  { Local Transparent Model.cs_copy_events. unfold Model.cs_copy_events in E0.
    rewrite (norm_id c d S) in E0. congruence. }
  Local Opaque Model.cs_copy_events. subst d0.
  set (d1 := cs_clear_events c d) in *.
  assert (S1 : stable (c_rel c) d1) by (apply (cs_clear_events_BM c d S)).
  assert (H1 : SelD sl (c_key c) d1 m) by (apply cs_clear_events_SelD; auto).
  assert (U1 : SlotsSub d d1) by (apply cs_clear_events_SlotsSub; auto).
  destruct r as [rs|]; cbn [fst snd] in *; auto.
  specialize (Hr rs eq_refl). unfold not_listed in Hr.
  set (d2 := match r_rb rs with Some l => cs_rollback c d1 l | None => d1 end) in *.
  assert (H2 : stable (c_rel c) d2 /\ SelD sl (c_key c) d2 m /\ SlotsSub d d2).
  { unfold d2. destruct (r_rb rs) as [l|]; [|auto].
    split; [apply (cs_rollback_BM sha sigok c d1 l S1)|].
    split; [apply cs_rollback_SelD; auto|].
    eapply SlotsSub_trans; [exact U1|apply cs_rollback_SlotsSub; auto]. }
  destruct H2 as (S2 & H2 & U2).
  destruct (negb (r_avail rs)); cbn [fst snd] in *; auto.
  destruct (r_patch rs) as [p|] eqn:Ep; cbn [fst snd] in *; auto.
  pose proof (should_install_SelD sl c d2 (p_num p) m S2 H2) as H3.
  pose proof (should_install_BM sha sigok c d2 (p_num p) S2) as B3.
  pose proof (should_install_SlotsSub c d2 (p_num p) S2) as U3.
  destruct (should_install c d2 (p_num p)) as [d3 sh]. cbn [fst snd] in H3, B3, U3.
  destruct sh; cbn [fst snd] in *; auto.
  destruct dl as [bdl|]; cbn [fst snd] in *; auto.
  destruct (inflate bdl) as [out|] eqn:Ei; cbn [fst snd] in *; auto.
  destruct (hash_ok out (p_hash p)); cbn [fst snd] in *; auto.
  destruct (cs_install c d3 p out) as [d4 st] eqn:Ec. cbn [fst snd] in *.
  destruct (cs_install_status c d3 p out) as [Es|Es]; rewrite Ec in Es; cbn in Es; subst st.
  - destruct (Hi eq_refl) as [Hs Hp]. destruct (Hp rs p bdl out eq_refl Ep eq_refl Ei) as [Hn Hc].
    pose proof (cs_install_SelD sl c d3 p out m Hs (proj1 B3) H3 Hn) as H4.
    rewrite Ec in H4. apply H4.
    eapply consistent_offer_sub; [|exact Hc]. eapply SlotsSub_trans; eauto.
  - pose proof (cs_install_bad_unchanged c d3 p out (proj1 B3)) as H4. rewrite Ec in H4. cbn in H4.
    rewrite H4 by discriminate. exact H3.
Qed.

(* ---------- gone, at the level of critical sections and calls ---------- *)
Definition goneD (d : disk) (x : N) : Prop := gone d (load_p d) x.

Lemma goneD_fresh r x : goneD (fresh_disk r) x.
Proof. split; reflexivity. Qed.

Lemma goneD_norm c d x : goneD d x -> goneD (norm c d) x.
Proof. intros H. destruct (norm_cases c d) as [-> | ->]; auto using goneD_fresh. Qed.

Lemma goneD_core d d' x : load_p d' = load_p d -> arts d' = arts d -> goneD d x -> goneD d' x.
Proof. unfold goneD, gone. intros -> ->. auto. Qed.

Local Transparent Model.cs_next Model.cs_start Model.cs_success Model.cs_failure Model.cs_init_recover
      Model.cs_rollback Model.should_install Model.cs_install Model.cs_copy_events
      Model.cs_clear_events.

Lemma cs_next_goneD c d x : goneD d x -> goneD (fst (cs_next c d)) x.
Proof.
  intros H. apply (goneD_norm c) in H. unfold Model.cs_next. set (d0 := norm c d) in *.
  pose proof (next_boot_gone sha sigok (c_key c) d0 (load_p d0) x H) as H1.
  destruct (next_boot (c_key c) d0 (load_p d0)) as [[d1 s1] r] eqn:E. cbn in *.
  unfold goneD. rewrite (next_boot_load _ _ _ _ _ _ _ E). exact H1.
Qed.

Lemma cs_start_goneD c d x : goneD d x -> goneD (cs_start c d) x.
Proof.
  intros H. apply (goneD_norm c) in H. unfold Model.cs_start. set (d0 := norm c d) in *.
  pose proof (next_boot_gone sha sigok (c_key c) d0 (load_p d0) x H) as H1.
  destruct (next_boot (c_key c) d0 (load_p d0)) as [[d1 s1] r] eqn:E. cbn in *.
  destruct r as [r0|].
  - unfold goneD. rewrite load_save. exact H1.
  - unfold goneD. rewrite (next_boot_load _ _ _ _ _ _ _ E). exact H1.
Qed.

Lemma cs_success_goneD c d x : goneD d x -> goneD (fst (cs_success c d)) x.
Proof.
  intros H. apply (goneD_norm c) in H. unfold Model.cs_success. set (d0 := norm c d) in *.
  destruct (cb (load_p d0)) as [b|] eqn:E; cbn; auto.
  pose proof (boot_success_gone d0 (load_p d0) x H) as H1.
  unfold boot_success in *. rewrite E in *. cbn in *. unfold goneD. rewrite load_save. exact H1.
Qed.

Lemma cs_failure_goneD c d x : goneD d x -> goneD (fst (cs_failure c d)) x.
Proof.
  intros H. apply (goneD_norm c) in H. unfold Model.cs_failure. set (d0 := norm c d) in *.
  destruct (cb (load_p d0)) as [b|] eqn:E; cbn; auto.
  pose proof (boot_failure_gone sha sigok (c_key c) d0 (load_p d0) (m_num b) x H) as H1.
  pose proof (boot_failure_saved sha sigok (c_key c) d0 (load_p d0) (m_num b)) as H2.
  destruct (boot_failure (c_key c) d0 (load_p d0) (m_num b)) as [d1 s1]. cbn in *.
  unfold goneD, queue_event. rewrite load_set_sj, (load_of_pj _ _ H2). exact H1.
Qed.

Lemma cs_init_recover_goneD c d x : goneD d x -> goneD (cs_init_recover c d) x.
Proof.
  intros H. apply (goneD_norm c) in H. unfold Model.cs_init_recover. set (d0 := norm c d) in *.
  destruct (cb (load_p d0)) as [b|] eqn:E; cbn; auto.
  pose proof (boot_failure_gone sha sigok (c_key c) d0 (load_p d0) (m_num b) x H) as H1.
  pose proof (boot_failure_saved sha sigok (c_key c) d0 (load_p d0) (m_num b)) as H2.
  destruct (boot_failure (c_key c) d0 (load_p d0) (m_num b)) as [d1 s1]. cbn in *.
  unfold goneD, queue_event. rewrite load_set_sj, (load_of_pj _ _ H2). exact H1.
Qed.

Lemma cs_rollback_goneD c d l x : goneD d x -> goneD (cs_rollback c d l) x.
Proof.
  intros H. apply (goneD_norm c) in H. unfold Model.cs_rollback. set (d0 := norm c d) in *.
  destruct l as [|y l]; [exact H|].
  unfold goneD. rewrite rollback_loop_load by discriminate. apply rollback_loop_gone. exact H.
Qed.

Lemma cs_rollback_makes_goneD c d l x : In x l -> goneD (cs_rollback c d l) x.
Proof.
  intros Hin. unfold Model.cs_rollback. set (d0 := norm c d).
  destruct l as [|y l]; [destruct Hin|].
  unfold goneD. rewrite rollback_loop_load by discriminate. apply rollback_loop_makes_gone. exact Hin.
Qed.

Lemma should_install_goneD c d n x : goneD d x -> goneD (fst (should_install c d n)) x.
Proof.
  intros H. unfold Model.should_install. cbn.
  destruct (inb n (bad (load_p (norm c d)))); cbn; [apply goneD_norm, H|].
  pose proof (cs_next_goneD c (norm c d) x (goneD_norm c d x H)) as H1.
  destruct (cs_next c (norm c d)) as [d2 r]. cbn in *.
  destruct r as [k|]; [destruct (N.eqb k n)|]; exact H1.
Qed.

Lemma cs_clear_events_goneD c d x : goneD d x -> goneD (cs_clear_events c d) x.
Proof. intros H. unfold Model.cs_clear_events. apply (goneD_core (norm c d)); auto. apply goneD_norm, H. Qed.

Lemma cs_install_goneD c d p out x :
  goneD d x -> (snd (cs_install c d p out) = UInstalled -> x <> p_num p) ->
  goneD (fst (cs_install c d p out)) x.
Proof.
  intros H Hx. apply (goneD_norm c) in H. unfold Model.cs_install in *. set (d0 := norm c d) in *.
  destruct (inb (p_num p) (bad (load_p d0))); cbn in *; auto.
  unfold goneD. rewrite load_save.
  apply (add_patch_gone d0 (load_p d0) (p_num p) out (p_hash p) (p_sig p) x H).
  apply Hx. destruct (add_patch d0 (load_p d0) (p_num p) out (p_hash p) (p_sig p)). reflexivity.
Qed.

Local Opaque Model.cs_next Model.cs_start Model.cs_success Model.cs_failure Model.cs_init_recover
      Model.cs_rollback Model.should_install Model.cs_install Model.cs_copy_events
      Model.cs_clear_events.

Lemma do_check_goneD c d ch r x : goneD d x -> goneD (fst (fst (do_check c d ch r))) x.
Proof.
  intros H. unfold Model.do_check. destruct r as [rs|]; cbn [fst]; auto.
  set (d1 := match r_rb rs with Some l => cs_rollback c d l | None => d end).
  assert (H1 : goneD d1 x) by (unfold d1; destruct (r_rb rs); auto using cs_rollback_goneD).
  destruct (r_patch rs) as [p|]; cbn [fst]; auto.
  pose proof (should_install_goneD c d1 (p_num p) x H1) as H2.
  destruct (should_install c d1 (p_num p)). cbn in *. exact H2.
Qed.

(* a check/update whose response lists x makes x gone (unless the same update re-installs x) *)
Lemma do_check_makes_goneD c d ch rs l x :
  r_rb rs = Some l -> In x l -> goneD (fst (fst (do_check c d ch (Some rs)))) x.
Proof.
  intros El Hin. unfold Model.do_check. rewrite El.
  pose proof (cs_rollback_makes_goneD c d l x Hin) as H1.
  destruct (r_patch rs) as [p|]; cbn [fst]; auto.
  pose proof (should_install_goneD c (cs_rollback c d l) (p_num p) x H1) as H2.
  destruct (should_install c (cs_rollback c d l) (p_num p)). cbn in *. exact H2.
Qed.

Definition installs (r : option resp) (x : N) : Prop :=
  exists rs p, r = Some rs /\ r_patch rs = Some p /\ p_num p = x.

Lemma do_update_goneD_aux c d0 ch r dl x :
  (goneD d0 x \/ exists rs l, r = Some rs /\ r_rb rs = Some l /\ In x l) ->
  (snd (fst (do_update c d0 ch r dl)) = UInstalled -> ~ installs r x) ->
  goneD (fst (fst (do_update c d0 ch r dl))) x.
Proof.
  intros H Hx. unfold Model.do_update in *.
  destruct (cs_copy_events c d0) as [d evs] eqn:E0.
  assert (Hd : goneD d0 x -> goneD d x).
  { Local Transparent Model.cs_copy_events. unfold Model.cs_copy_events in E0.
    injection E0 as <- _. apply goneD_norm. }
  Local Opaque Model.cs_copy_events.
  set (d1 := cs_clear_events c d) in *.
  assert (H1 : goneD d0 x -> goneD d1 x) by (intros G; apply cs_clear_events_goneD; auto).
  destruct r as [rs|]; cbn [fst snd] in *.
  2:{ destruct H as [H|(rs & l & E & _)]; [auto|discriminate]. }
  set (d2 := match r_rb rs with Some l => cs_rollback c d1 l | None => d1 end) in *.
  assert (H2 : goneD d2 x).
  { unfold d2. destruct H as [H|(rs' & l & E & El & Hin)].
    - destruct (r_rb rs); auto using cs_rollback_goneD.
    - injection E as <-. rewrite El. apply cs_rollback_makes_goneD. exact Hin. }
  destruct (negb (r_avail rs)); cbn [fst snd] in *; auto.
  destruct (r_patch rs) as [p|] eqn:Ep; cbn [fst snd] in *; auto.
  pose proof (should_install_goneD c d2 (p_num p) x H2) as H3.
  destruct (should_install c d2 (p_num p)) as [d3 sh]. cbn [fst snd] in H3.
  destruct sh; cbn [fst snd] in *; auto.
  destruct dl as [bdl|]; cbn [fst snd] in *; auto.
  destruct (inflate bdl) as [out|] eqn:Ei; cbn [fst snd] in *; auto.
  destruct (hash_ok out (p_hash p)); cbn [fst snd] in *; auto.
  pose proof (cs_install_goneD c d3 p out x H3) as H4.
  destruct (cs_install c d3 p out) as [d4 st] eqn:Ec. cbn [fst snd] in *.
  apply H4. intros -> ->. apply (Hx eq_refl). exists rs, p. auto.
Qed.

End Frames2.
