(* JsonSjExist.v — every release version and every queue of in-range events has a state.json text (an object: '{' ... '}')
   that is read back as exactly that state; with JsonSjWidth.torn_state_json: a text of which every strict prefix is garbage. *)
From UV Require Import Base Codec Model Json JsonProofs JsonText JsonTextProofs JsonTextSound JsonTextExist JsonState
  JsonStateExist JsonSj JsonSjProofs JsonSjWidth.
From Coq Require Import ZifyN ZifyBool ZifyNat Lia.
Local Open Scope N_scope.
Arguments N.eqb : simpl never.
Arguments String.eqb : simpl never.

Definition fevent_utf8 (e : fevent) : Prop :=
  utf8_valid (bytes_of (fe_app e)) = true /\ utf8_valid (bytes_of (fe_arch e)) = true /\
  utf8_valid (bytes_of (fe_platform e)) = true /\ utf8_valid (bytes_of (fe_rel e)) = true /\ ostring_utf8 (fe_msg e).

Lemma evkind_str_utf8 k : utf8_valid (bytes_of (evkind_str k)) = true.
Proof. destruct k; vm_compute; reflexivity. Qed.

Lemma GS_fevent e : fevent_in_range e -> fevent_utf8 e -> exists b, GS event_schema (json_of_fevent e) b.
Proof.
  intros [Hn Ht] (Ha & Hr & Hp & Hv & Hm).
  destruct (Gnum_usize _ Hn) as (nb & Hnb). destruct (Gnum_usize _ Ht) as (tb & Htb).
  destruct (G_string _ Ha) as (ab & Hab). destruct (G_string _ Hr) as (rb & Hrb).
  destruct (G_string _ Hp) as (pb & Hpb). destruct (G_string _ Hv) as (vb & Hvb).
  destruct (G_string _ (evkind_str_utf8 (fe_kind e))) as (kb & Hkb).
  destruct (G_ostring _ Hm) as (mb & Hmb & _).
  destruct (GSM_exists [("app_id", SLeaf); ("arch", SLeaf); ("type", SLeaf); ("patch_number", SLeaf); ("platform", SLeaf);
                        ("release_version", SLeaf); ("timestamp", SLeaf); ("message", SLeaf)]%string
              [(bytes_of "app_id", JStr (fe_app e), ab); (bytes_of "arch", JStr (fe_arch e), rb);
               (bytes_of "type", JStr (evkind_str (fe_kind e)), kb); (bytes_of "patch_number", JNum (JInt false (fe_num e)), nb);
               (bytes_of "platform", JStr (fe_platform e), pb); (bytes_of "release_version", JStr (fe_rel e), vb);
               (bytes_of "timestamp", JNum (JInt false (fe_ts e)), tb); (bytes_of "message", json_of_ostring (fe_msg e), mb)]
              ltac:(discriminate)) as (b & Hb).
  { repeat constructor; cbn [fst snd]; try key_ok; rewrite str_of_bytes_of.
    - eapply GSV_known; [reflexivity|]. constructor. exact Hab.
    - eapply GSV_known; [reflexivity|]. constructor. exact Hrb.
    - eapply GSV_known; [reflexivity|]. constructor. exact Hkb.
    - eapply GSV_known; [reflexivity|]. constructor. constructor. exact Hnb.
    - eapply GSV_known; [reflexivity|]. constructor. exact Hpb.
    - eapply GSV_known; [reflexivity|]. constructor. exact Hvb.
    - eapply GSV_known; [reflexivity|]. constructor. constructor. exact Htb.
    - eapply GSV_known; [reflexivity|]. constructor. exact Hmb. }
  exists (123 :: [] ++ b). unfold json_of_fevent, event_schema.
  cbn [map fst snd] in Hb. rewrite !str_of_bytes_of in Hb. apply GS_obj; [apply WSnil|exact Hb].
Qed.

(* the elements of the vector: one text, good for every reader with room for them *)
Lemma GSE_fevents : forall q, q <> [] -> Forall fevent_in_range q -> Forall fevent_utf8 q ->
  exists b, forall n, (List.length q <= n)%nat -> GSE (repeat ("0"%string, event_schema) n) (map json_of_fevent q) b.
Proof.
  induction q as [|e q IH]; intros Hne HR HU; [contradiction|].
  inversion HR as [|? ? Hr HR']; subst. inversion HU as [|? ? Hu HU']; subst.
  destruct (GS_fevent e Hr Hu) as (eb & Heb).
  destruct q as [|e' q'].
  - exists (eb ++ [] ++ [93]). intros n Hn. cbn [List.length] in Hn. cbn [map].
    apply GSE_last; [|apply WSnil]. rewrite hd_schema_repeat by lia. exact Heb.
  - destruct (IH ltac:(discriminate) HR' HU') as (b' & Hb').
    exists (eb ++ [] ++ 44 :: [] ++ b'). intros n Hn. cbn [List.length] in Hn.
    change (map json_of_fevent (e :: e' :: q')) with (json_of_fevent e :: map json_of_fevent (e' :: q')).
    apply GSE_cons; try apply WSnil.
    + rewrite hd_schema_repeat by lia. exact Heb.
    + rewrite tl_repeat. apply Hb'. cbn [List.length]. lia.
Qed.

Lemma GS_fevent_vec q : Forall fevent_in_range q -> Forall fevent_utf8 q ->
  exists b, forall n, (List.length q <= n)%nat -> GS (vec_schema n event_schema) (JArr (map json_of_fevent q)) b.
Proof.
  intros HR HU. destruct q as [|e q].
  - exists (91 :: [] ++ [93]). intros n _. unfold vec_schema. cbn [map]. apply GS_arr0. apply WSnil.
  - destruct (GSE_fevents (e :: q) ltac:(discriminate) HR HU) as (b & Hb).
    exists (91 :: [] ++ b). intros n Hn. unfold vec_schema. apply GS_arr; [apply WSnil|]. apply Hb. exact Hn.
Qed.

Theorem sj_state_has_a_file r q :
  utf8_valid (bytes_of r) = true -> Forall fevent_in_range q -> Forall fevent_utf8 q ->
  exists P, sj_of_file P = JOk {| rel := r; evq := map event_of_fevent q |} /\
            (exists x, skip_ws P = 123 :: x) /\ (exists y, P = y ++ [125]).
Proof.
  intros Hr HR HU.
  destruct (G_string _ Hr) as (rb & Hrb). destruct (GS_fevent_vec q HR HU) as (vb & Hvb).
  set (k1 := bytes_of "release_version"). set (k2 := bytes_of "queued_events").
  set (b := (34 :: k1 ++ [34]) ++ [] ++ 58 :: [] ++ rb ++ [] ++ 44 :: [] ++ ((34 :: k2 ++ [34]) ++ [] ++ 58 :: [] ++ vb ++ [] ++ [125])).
  set (P := [] ++ (123 :: [] ++ b) ++ []).
  assert (Hg : forall n, (List.length q <= n)%nat -> GS (sstate_schema n) (json_of_fstate r q) (123 :: [] ++ b)).
  { intros n Hn. unfold sstate_schema, json_of_fstate. apply GS_obj; [apply WSnil|]. unfold b.
    replace "release_version"%string with (str_of k1) by (unfold k1; apply str_of_bytes_of).
    replace "queued_events"%string with (str_of k2) by (unfold k2; apply str_of_bytes_of).
    apply GSM_cons; try apply WSnil.
    - unfold k1. key_ok.
    - eapply GSV_known; [unfold k1; rewrite str_of_bytes_of; reflexivity|]. constructor. exact Hrb.
    - apply GSM_last; try apply WSnil.
      + unfold k2. key_ok.
      + eapply GSV_known; [unfold k2; rewrite str_of_bytes_of; reflexivity|]. apply Hvb. exact Hn. }
  exists P. split; [|split].
  - set (n := (List.length P + List.length q)%nat).
    rewrite <- (sj_of_file_width n P) by (unfold n; lia).
    unfold P. apply spelled_state_is_read; try apply WSnil; [exact HR|]. apply Hg. unfold n. lia.
  - unfold P. cbn [app]. rewrite app_nil_r. cbn [skip_ws]. assert (E : is_ws 123 = false) by reflexivity. rewrite E. eauto.
  - unfold P, b. exists (123 :: (34 :: k1 ++ [34]) ++ 58 :: rb ++ 44 :: (34 :: k2 ++ [34]) ++ 58 :: vb).
    cbn [app]. rewrite app_nil_r. rewrite <- !app_assoc. cbn [app]. rewrite <- !app_assoc. cbn [app]. rewrite <- !app_assoc. reflexivity.
Qed.
