(* Base.v — bytes, hex strings, small helpers.  Definitions only (proofs live in *Lemmas files). *)
From Coq Require Export List NArith ZArith Bool String Ascii Lia.
Export ListNotations.
Open Scope N_scope.

Definition bytes := list N.            (* every element < 256 where it matters (wf_bytes) *)
Definition wf_bytes (b : bytes) : Prop := Forall (fun x => x < 256) b.

Definition blen (b : bytes) : N := N.of_nat (List.length b).

Fixpoint bytes_eqb (a b : bytes) : bool :=
  match a, b with
  | [], [] => true
  | x :: a', y :: b' => N.eqb x y && bytes_eqb a' b'
  | _, _ => false
  end.

Definition opt_eqb {A} (eqb : A -> A -> bool) (a b : option A) : bool :=
  match a, b with
  | None, None => true
  | Some x, Some y => eqb x y
  | _, _ => false
  end.

Definition inb (n : N) (l : list N) : bool := existsb (N.eqb n) l.

(* hex encoding as produced by the `hex` crate (lower case) *)
Definition hex_digit (n : N) : ascii :=
  if n <? 10 then ascii_of_N (48 + n) else ascii_of_N (87 + n).

Fixpoint hex_of_bytes (b : bytes) : string :=
  match b with
  | [] => EmptyString
  | x :: r => String (hex_digit (x / 16)) (String (hex_digit (x mod 16)) (hex_of_bytes r))
  end.

(* hex decoding as accepted by hex::decode: even length, [0-9a-fA-F] *)
Definition unhex_digit (c : ascii) : option N :=
  let n := N_of_ascii c in
  if (48 <=? n) && (n <=? 57) then Some (n - 48)
  else if (97 <=? n) && (n <=? 102) then Some (n - 87)
  else if (65 <=? n) && (n <=? 70) then Some (n - 55)
  else None.

Fixpoint unhex (s : string) : option bytes :=
  match s with
  | EmptyString => Some []
  | String a (String b r) =>
      match unhex_digit a, unhex_digit b, unhex r with
      | Some x, Some y, Some t => Some ((16 * x + y) :: t)
      | _, _, _ => None
      end
  | String _ EmptyString => None
  end.



Definition omap {A B} (f : A -> B) (o : option A) : option B :=
  match o with Some a => Some (f a) | None => None end.
