(* Frames3.v — frame theorems for whole calls (step) and whole histories. *)
From UV Require Import Base Codec Model PMLemmas Inv Ban Handout Calls Frame Frames2.
Arguments N.eqb : simpl never.
Arguments N.ltb : simpl never.

Section Frames3.
Variable sha : bytes -> bytes.
Variable sigok : string -> string -> string -> bool.
Variable zdec : bytes -> bytes.
Variable base : bytes.

Notation validate := (validate sha sigok).
Notation cs_next := (cs_next sha sigok).
Notation cs_start := (cs_start sha sigok).
Notation cs_failure := (cs_failure sha sigok).
Notation cs_init_recover := (cs_init_recover sha sigok).
Notation cs_rollback := (cs_rollback sha sigok).
Notation should_install := (should_install sha sigok).
Notation do_check := (do_check sha sigok).
Notation do_update := (do_update sha sigok zdec base).
Notation step := (step sha sigok zdec base).
Notation inflate := (inflate zdec base).
Notation hash_ok := (hash_ok sha).
Notation SelD := (SelD sha sigok).
Notation Isame := Frame.Isame.

Definition stepw (w : world) (o : op) : world := fst (fst (step w o)).
Definition final (w : world) (ops : list op) : world := fold_left stepw ops w.

Fixpoint along (P : world -> op -> Prop) (w : world) (ops : list op) : Prop :=
  match ops with
  | [] => True
  | o :: rest => P w o /\ along P (stepw w o) rest
  end.

Lemma along_inv (Q : world -> Prop) (P : world -> op -> Prop) :
  (forall w o, Q w -> P w o -> Q (stepw w o)) ->
  forall ops w, Q w -> along P w ops -> Q (final w ops).
Proof.
  intros Hstep. induction ops as [|o rest IH]; intros w Hq Ha; cbn; auto.
  destruct Ha as [Hp Ha]. apply IH; auto.
Qed.

(* the key in use is [key] for the acting configuration *)
Definition keyed (key : option string) (w : world) (o : op) : Prop :=
  (forall c, w_cfg w = Some c -> c_key c = key) /\
  match o with
  | OInit r y _ => forall c, cfg_of r y = Some c -> c_key c = key
  | _ => True
  end.

Definition art_damage_other (k : N) (o : op) : Prop :=
  match o with
  | ODamage (DDelArtFile n) | ODamage (DDelArtDir n) | ODamage (DSetArt n _) => n <> k
  | _ => True
  end.

Lemma status_installed u : RStatus (status_code u) = RStatus 1 -> u = UInstalled.
Proof. destruct u; cbn; intros H; try reflexivity; discriminate. Qed.

(* what may NOT happen to the patch selected for next boot (everything else leaves it selected) *)
Definition nb_undisturbed (m : meta) (w : world) (o : op) : Prop :=
  art_damage_other (m_num m) o /\
  match o with
  | OFailure => forall b, cb (load_p (w_disk w)) = Some b -> m_num b <> m_num m
  | OInit _ _ _ => w_cfg w = None ->
                   forall b, cb (load_p (w_disk w)) = Some b -> m_num b <> m_num m
  | OCheck _ (Some rs) => not_listed (m_num m) rs
  | OUpdate _ r _ => (forall rs, r = Some rs -> not_listed (m_num m) rs) /\
                     snd (fst (step w o)) <> RStatus 1
  | _ => True
  end.

(* side conditions under which records of other slots survive an install *)
Definition install_ok (m : meta) (d : disk) (r : option resp) (dl : option bytes) : Prop :=
  forall rs p bdl out, r = Some rs -> r_patch rs = Some p -> dl = Some bdl -> inflate bdl = Some out ->
                       m_num m <> p_num p /\ consistent_offer d (new_meta p out).

Definition lb_undisturbed (m : meta) (w : world) (o : op) : Prop :=
  art_damage_other (m_num m) o /\
  match o with
  | OSuccess => forall b, cb (load_p (w_disk w)) = Some b -> m_num b = m_num m
  | OFailure => forall b, cb (load_p (w_disk w)) = Some b -> m_num b <> m_num m
  | OInit _ _ _ => w_cfg w = None ->
                   forall b, cb (load_p (w_disk w)) = Some b -> m_num b <> m_num m
  | OCheck _ (Some rs) => not_listed (m_num m) rs
  | OUpdate _ r dl => (forall rs, r = Some rs -> not_listed (m_num m) rs) /\
                      install_ok m (w_disk w) r dl
  | _ => True
  end.

Definition cb_undisturbed (m : meta) (w : world) (o : op) : Prop :=
  art_damage_other (m_num m) o /\
  match o with
  | OStart | OSuccess | OFailure => False
  | OInit _ _ _ => w_cfg w <> None
  | OCheck _ (Some rs) => not_listed (m_num m) rs
  | OUpdate _ r dl => (forall rs, r = Some rs -> not_listed (m_num m) rs) /\
                      install_ok m (w_disk w) r dl
  | _ => True
  end.

Lemma SelD_damage sl key d m g :
  art_damage_other (m_num m) (ODamage g) ->
  (match g with DSetPj _ | DSetSj _ => False | _ => True end) ->
  SelD sl key d m -> SelD sl key (apply_damage d g) m.
Proof.
  intros Ha Hg H. destruct g; cbn in *; try contradiction.
  - destruct (arts d n) eqn:E; auto. apply (Sel_ext sha sigok sl key d); auto.
    cbn. rewrite upd_art_other; auto.
  - apply (Sel_ext sha sigok sl key d); auto. cbn. rewrite upd_art_other; auto.
  - apply (Sel_ext sha sigok sl key d); auto. cbn. rewrite upd_art_other; auto.
  - exact H.
Qed.

Lemma within_damage r w g : within r w (ODamage g) -> match g with DSetPj _ | DSetSj _ => False | _ => True end.
Proof. intros [_ H]. destruct g; auto. Qed.

Local Opaque Model.cs_next Model.cs_start Model.cs_success Model.cs_failure Model.cs_init_recover
      Model.cs_rollback Model.should_install Model.cs_install Model.cs_copy_events
      Model.cs_clear_events Model.inflate Model.hash_ok Model.do_check Model.do_update
      Model.cs_current.

Lemma cs_current_disk c d : stable (c_rel c) d -> fst (cs_current c d) = d.
Proof.
  Local Transparent Model.cs_current. intros S. unfold Model.cs_current. cbn. apply norm_id, S.
  Local Opaque Model.cs_current.
Qed.

(* generic part of the three frames: ops that are handled identically for every slot *)
Ltac frame_common S H :=
  match goal with
  | |- context [cs_next ?c ?d] =>
      let H1 := fresh in pose proof (cs_next_SelD sha sigok _ c d _ S H) as H1;
      destruct (cs_next c d); exact H1
  end.

Theorem NB_frame r key w o m :
  within r w o -> keyed key w o -> stable r (w_disk w) ->
  SelD SNB key (w_disk w) m -> nb_undisturbed m w o ->
  SelD SNB key (w_disk (stepw w o)) m.
Proof.
  intros Hw [Hk Hko] S H [Hd Hu]. unfold stepw. destruct w as [d cf]. cbn [w_disk w_cfg] in *.
  destruct Hw as [Hc Hwo].
  destruct o as [relv y pk| | | | | | | | |ch rr|ch rr dl|g]; cbn.
  - (* init *)
    destruct (cfg_of relv y) as [c|] eqn:Ec; cbn; auto. destruct pk; cbn; auto.
    destruct cf as [c0|]; cbn; auto.
    pose proof (cfg_of_rel _ _ _ Ec) as Er. rewrite Hwo in Er. rewrite <- Er in S.
    rewrite <- (Hko c eq_refl). rewrite <- (Hko c eq_refl) in H.
    apply (cs_init_recover_SelD sha sigok zdec base); auto; try discriminate; try (apply Hu; reflexivity).
  - exact H.
  - destruct cf as [c|]; cbn; auto. rewrite <- (Hc c eq_refl) in S. rewrite <- (Hk c eq_refl) in *.
    frame_common S H.
  - destruct cf as [c|]; cbn; auto. rewrite <- (Hc c eq_refl) in S. rewrite <- (Hk c eq_refl) in *.
    frame_common S H.
  - destruct cf as [c|]; cbn; auto. rewrite <- (Hc c eq_refl) in S.
    pose proof (cs_current_disk c d S) as E. destruct (cs_current c d). cbn in *. subst. exact H.
  - destruct cf as [c|]; cbn; auto. rewrite <- (Hc c eq_refl) in S. rewrite <- (Hk c eq_refl) in *.
    apply cs_start_SelD; auto. discriminate.
  - destruct cf as [c|]; cbn; auto. rewrite <- (Hc c eq_refl) in S. rewrite <- (Hk c eq_refl) in *.
    pose proof (cs_success_SelD_NB sha sigok c d m S H) as H1. destruct (Model.cs_success c d). exact H1.
  - destruct cf as [c|]; cbn; auto. rewrite <- (Hc c eq_refl) in S. rewrite <- (Hk c eq_refl) in *.
    pose proof (cs_failure_SelD sha sigok zdec base SNB c d m) as H1. destruct (cs_failure c d). cbn in *.
    apply H1; auto. discriminate.
  - destruct cf as [c|]; cbn; auto.
  - destruct cf as [c|]; cbn; auto. rewrite <- (Hc c eq_refl) in S. rewrite <- (Hk c eq_refl) in *.
    pose proof (do_check_SelD sha sigok SNB c d ch rr m S H) as H1.
    destruct (do_check c d ch rr) as [[? ?] ?]. cbn in *. apply H1.
    intros rs ->. exact Hu.
  - destruct cf as [c|]; cbn; auto. rewrite <- (Hc c eq_refl) in S. rewrite <- (Hk c eq_refl) in *.
    destruct Hu as [Hl Hst]. cbn in Hst.
    pose proof (do_update_SelD sha sigok zdec base SNB c d ch rr dl m S H Hl) as H1.
    destruct (do_update c d ch rr dl) as [[d1 u] l1]. cbn in *. apply H1.
    intros ->. exfalso. apply Hst. reflexivity.
  - apply SelD_damage; auto; apply (within_damage r {| w_disk := d; w_cfg := cf |}); split; auto.
Qed.

Theorem LB_frame r key w o m :
  within r w o -> keyed key w o -> stable r (w_disk w) ->
  SelD SLB key (w_disk w) m -> lb_undisturbed m w o ->
  SelD SLB key (w_disk (stepw w o)) m.
Proof.
  intros Hw [Hk Hko] S H [Hd Hu]. unfold stepw. destruct w as [d cf]. cbn [w_disk w_cfg] in *.
  destruct Hw as [Hc Hwo].
  destruct o as [relv y pk| | | | | | | | |ch rr|ch rr dl|g]; cbn.
  - destruct (cfg_of relv y) as [c|] eqn:Ec; cbn; auto. destruct pk; cbn; auto.
    destruct cf as [c0|]; cbn; auto.
    pose proof (cfg_of_rel _ _ _ Ec) as Er. rewrite Hwo in Er. rewrite <- Er in S.
    rewrite <- (Hko c eq_refl). rewrite <- (Hko c eq_refl) in H.
    apply (cs_init_recover_SelD sha sigok zdec base); auto; try discriminate; try (apply Hu; reflexivity).
  - exact H.
  - destruct cf as [c|]; cbn; auto. rewrite <- (Hc c eq_refl) in S. rewrite <- (Hk c eq_refl) in *.
    frame_common S H.
  - destruct cf as [c|]; cbn; auto. rewrite <- (Hc c eq_refl) in S. rewrite <- (Hk c eq_refl) in *.
    frame_common S H.
  - destruct cf as [c|]; cbn; auto. rewrite <- (Hc c eq_refl) in S.
    pose proof (cs_current_disk c d S) as E. destruct (cs_current c d). cbn in *. subst. exact H.
  - destruct cf as [c|]; cbn; auto. rewrite <- (Hc c eq_refl) in S. rewrite <- (Hk c eq_refl) in *.
    apply cs_start_SelD; auto. discriminate.
  - destruct cf as [c|]; cbn; auto. rewrite <- (Hc c eq_refl) in S. rewrite <- (Hk c eq_refl) in *.
    pose proof (cs_success_SelD_LB sha sigok c d m S H Hu) as H1. destruct (Model.cs_success c d). exact H1.
  - destruct cf as [c|]; cbn; auto. rewrite <- (Hc c eq_refl) in S. rewrite <- (Hk c eq_refl) in *.
    pose proof (cs_failure_SelD sha sigok zdec base SLB c d m) as H1. destruct (cs_failure c d). cbn in *.
    apply H1; auto. discriminate.
  - destruct cf as [c|]; cbn; auto.
  - destruct cf as [c|]; cbn; auto. rewrite <- (Hc c eq_refl) in S. rewrite <- (Hk c eq_refl) in *.
    pose proof (do_check_SelD sha sigok SLB c d ch rr m S H) as H1.
    destruct (do_check c d ch rr) as [[? ?] ?]. cbn in *. apply H1.
    intros rs ->. exact Hu.
  - destruct cf as [c|]; cbn; auto. rewrite <- (Hc c eq_refl) in S. rewrite <- (Hk c eq_refl) in *.
    destruct Hu as [Hl Hi].
    pose proof (do_update_SelD sha sigok zdec base SLB c d ch rr dl m S H Hl) as H1.
    destruct (do_update c d ch rr dl) as [[d1 u] l1]. cbn in *. apply H1.
    intros _. split; [discriminate|exact Hi].
  - apply SelD_damage; auto; apply (within_damage r {| w_disk := d; w_cfg := cf |}); split; auto.
Qed.

Theorem CB_frame r key w o m :
  within r w o -> keyed key w o -> stable r (w_disk w) ->
  SelD SCB key (w_disk w) m -> cb_undisturbed m w o ->
  SelD SCB key (w_disk (stepw w o)) m.
Proof.
  intros Hw [Hk Hko] S H [Hd Hu]. unfold stepw. destruct w as [d cf]. cbn [w_disk w_cfg] in *.
  destruct Hw as [Hc Hwo].
  destruct o as [relv y pk| | | | | | | | |ch rr|ch rr dl|g]; cbn; try contradiction.
  - destruct (cfg_of relv y) as [c|] eqn:Ec; cbn; auto. destruct pk; cbn; auto.
    destruct cf as [c0|]; cbn; auto. exfalso. apply Hu. reflexivity.
  - exact H.
  - destruct cf as [c|]; cbn; auto. rewrite <- (Hc c eq_refl) in S. rewrite <- (Hk c eq_refl) in *.
    frame_common S H.
  - destruct cf as [c|]; cbn; auto. rewrite <- (Hc c eq_refl) in S. rewrite <- (Hk c eq_refl) in *.
    frame_common S H.
  - destruct cf as [c|]; cbn; auto. rewrite <- (Hc c eq_refl) in S.
    pose proof (cs_current_disk c d S) as E. destruct (cs_current c d). cbn in *. subst. exact H.
  - destruct cf as [c|]; cbn; auto.
  - destruct cf as [c|]; cbn; auto. rewrite <- (Hc c eq_refl) in S. rewrite <- (Hk c eq_refl) in *.
    pose proof (do_check_SelD sha sigok SCB c d ch rr m S H) as H1.
    destruct (do_check c d ch rr) as [[? ?] ?]. cbn in *. apply H1.
    intros rs ->. exact Hu.
  - destruct cf as [c|]; cbn; auto. rewrite <- (Hc c eq_refl) in S. rewrite <- (Hk c eq_refl) in *.
    destruct Hu as [Hl Hi].
    pose proof (do_update_SelD sha sigok zdec base SCB c d ch rr dl m S H Hl) as H1.
    destruct (do_update c d ch rr dl) as [[d1 u] l1]. cbn in *. apply H1.
    intros _. split; [discriminate|exact Hi].
  - apply SelD_damage; auto; apply (within_damage r {| w_disk := d; w_cfg := cf |}); split; auto.
Qed.

(* ---------- histories ---------- *)
(* state carried along a history within release r *)
Definition InRel (r : string) (w : world) : Prop :=
  stable r (w_disk w) /\ (forall c, w_cfg w = Some c -> c_rel c = r).

Lemma InRel_step r w o : within r w o -> InRel r w -> InRel r (stepw w o).
Proof.
  intros Hw [S C]. destruct (step_BM sha sigok zdec base r w o Hw S) as [[S' _] C']. split; auto.
Qed.

(* C09: for every history in which nothing concerns m, m stays selected with its artifact intact,
   and every query along the way returns it *)
Theorem selection_persists r key m ops : forall w,
  InRel r w -> SelD SNB key (w_disk w) m ->
  along (fun w o => within r w o /\ keyed key w o /\ nb_undisturbed m w o) w ops ->
  SelD SNB key (w_disk (final w ops)) m.
Proof.
  intros w HR HS HA.
  apply (along_inv (fun w => InRel r w /\ SelD SNB key (w_disk w) m)
                   (fun w o => within r w o /\ keyed key w o /\ nb_undisturbed m w o)); auto.
  intros w0 o [[S C] H] (Hw & Hk & Hu). split.
  - apply InRel_step; auto. split; auto.
  - eapply NB_frame; eauto.
Qed.

Theorem last_good_persists r key m ops : forall w,
  InRel r w -> SelD SLB key (w_disk w) m ->
  along (fun w o => within r w o /\ keyed key w o /\ lb_undisturbed m w o) w ops ->
  SelD SLB key (w_disk (final w ops)) m.
Proof.
  intros w HR HS HA.
  apply (along_inv (fun w => InRel r w /\ SelD SLB key (w_disk w) m)
                   (fun w o => within r w o /\ keyed key w o /\ lb_undisturbed m w o)); auto.
  intros w0 o [[S C] H] (Hw & Hk & Hu). split.
  - apply InRel_step; auto. split; auto.
  - eapply LB_frame; eauto.
Qed.

Theorem booting_persists r key m ops : forall w,
  InRel r w -> SelD SCB key (w_disk w) m ->
  along (fun w o => within r w o /\ keyed key w o /\ cb_undisturbed m w o) w ops ->
  SelD SCB key (w_disk (final w ops)) m.
Proof.
  intros w HR HS HA.
  apply (along_inv (fun w => InRel r w /\ SelD SCB key (w_disk w) m)
                   (fun w o => within r w o /\ keyed key w o /\ cb_undisturbed m w o)); auto.
  intros w0 o [[S C] H] (Hw & Hk & Hu). split.
  - apply InRel_step; auto. split; auto.
  - eapply CB_frame; eauto.
Qed.

(* queries on a selected state *)
Theorem selected_is_reported c d m :
  stable (c_rel c) d -> SelD SNB (c_key c) d m -> cs_next c d = (d, Some (m_num m)).
Proof. apply cs_next_NB_unchanged. Qed.

End Frames3.
