(* Bsdiff.v — executable model of bidiff 1.0.0's BsdiffIterator (lib.rs:128-291), the scan loop that
   turns a suffix-array matcher into the list of Matches the Translator/Writer of Codec.v consume.
   The matcher (sacapart/divsufsort `longest_substring_match`) is an oracle [lsm]: nothing about its
   quality is used, only (in the theorems) that what it returns lies inside the two buffers.
   Definitions only.

   Fidelity notes: usize values are N (no wrap: every subtraction below is shown not to underflow
   under the stated invariant, BsdiffProofs.v); `oldscore -= 1` on 0 — a panic in debug builds, a wrap in
   release builds, unreachable with a correct matcher — is the outcome [Underflow]; lenf/lenb/lens
   are isize/i32 accumulators, modelled in Z; an out-of-range `obuf[oi]` guarded by `oi < obuflen`
   (negative oi wraps to a huge usize in Rust) reads as "different". *)
From UV Require Import Base Codec.

Inductive res (A : Type) := Ok (a : A) | Underflow | OutOfFuel.
Arguments Ok {A} a. Arguments Underflow {A}. Arguments OutOfFuel {A}.

Definition get (l : bytes) (i : N) : option N := nth_error l (N.to_nat i).

(* obuf[oi] == nbuf[ni], false when either index is outside its buffer *)
Definition same (o n : bytes) (oi : Z) (ni : N) : bool :=
  if (oi <? 0)%Z then false
  else match get o (Z.to_N oi), get n ni with
       | Some a, Some b => a =? b
       | _, _ => false
       end.

Record bs := { scan : N; pos : N; len : N; lastscan : N; lastpos : N; lastoff : Z }.

Section Bs.
Variable old new : bytes.
Variable lsm : N -> N * N.   (* sa.longest_substring_match(&nbuf[scan..]) = (start, len) *)

Definition olen := blen old.
Definition nlen := blen new.

(* `while scsc < scan + length { if obuf[scsc+lastoffset] == nbuf[scsc] { oldscore += 1 } scsc += 1 }` *)
Fixpoint count (n : nat) (scsc : N) (off : Z) (score : N) : N :=
  match n with
  | O => score
  | S n' => count n' (scsc + 1) off
                  (if same old new (Z.of_N scsc + off) scsc then score + 1 else score)
  end.

(* the 'inner loop; returns (scan, pos, length, oldscore) at the break or at the end of nbuf *)
Fixpoint inner (fuel : nat) (sc scsc ps ln : N) (off : Z) (score : N) : res (N * N * N * N) :=
  match fuel with
  | O => OutOfFuel
  | S f =>
      if sc <? nlen then
        let '(p, l) := lsm sc in
        let upto := sc + l in
        let score1 := count (N.to_nat (upto - scsc)) scsc off score in
        let scsc1 := N.max scsc upto in
        if ((l =? score1) && negb (l =? 0)) || (score1 + 8 <? l) then Ok (sc, p, l, score1)
        else if same old new (Z.of_N sc + off) sc then
               if score1 =? 0 then Underflow
               else inner f (sc + 1) scsc1 p l off (score1 - 1)
             else inner f (sc + 1) scsc1 p l off score1
      else Ok (sc, ps, ln, score)
  end.

(* "length forward from lastscan": for i in 0..n *)
Fixpoint lenf_loop (n : nat) (i : N) (s sf lf : Z) (lp ls : N) : Z :=
  match n with
  | O => lf
  | S n' =>
      let s1 := if same old new (Z.of_N (lp + i)) (ls + i) then (s + 1)%Z else s in
      let i1 := i + 1 in
      if (sf * 2 - lf <? s1 * 2 - Z.of_N i1)%Z
      then lenf_loop n' i1 s1 s1 (Z.of_N i1) lp ls
      else lenf_loop n' i1 s1 sf lf lp ls
  end.

(* "length backwards from scan": for i in 1..=n (called with i = 1) *)
Fixpoint lenb_loop (n : nat) (i : N) (s sb lb : Z) (ps sc : N) : Z :=
  match n with
  | O => lb
  | S n' =>
      let s1 := if same old new (Z.of_N ps - Z.of_N i) (sc - i) then (s + 1)%Z else s in
      if (sb * 2 - lb <? s1 * 2 - Z.of_N i)%Z
      then lenb_loop n' (i + 1) s1 s1 (Z.of_N i) ps sc
      else lenb_loop n' (i + 1) s1 sb lb ps sc
  end.

(* the overlap scoring: for i in 0..overlap *)
Fixpoint lens_loop (n : nat) (i : N) (s ss : Z) (ls : N) (a b c d : N) : N :=
  match n with
  | O => ls
  | S n' =>
      let s1 := if same old new (Z.of_N (b + i)) (a + i) then (s + 1)%Z else s in
      let s2 := if same old new (Z.of_N (d + i)) (c + i) then (s1 - 1)%Z else s1 in
      if (ss <? s2)%Z then lens_loop n' (i + 1) s2 s2 (i + 1) a b c d
      else lens_loop n' (i + 1) s2 ss ls a b c d
  end.

(* the body of `if self.length != oldscore || done_scanning { ... return Some(m) }` *)
Definition emit (st : bs) (sc ps ln : N) : bmatch * bs :=
  let lenf0 := Z.to_N (lenf_loop (N.to_nat (N.min (sc - lastscan st) (olen - lastpos st)))
                                 0 0 0 0 (lastpos st) (lastscan st)) in
  let lenb0 := if nlen <=? sc then 0
               else Z.to_N (lenb_loop (N.to_nat (N.min (sc - lastscan st) ps)) 1 0 0 0 ps sc) in
  let '(lenf, lenb) :=
    if sc - lenb0 <? lastscan st + lenf0 then
      let overlap := (lastscan st + lenf0) - (sc - lenb0) in
      let lens := lens_loop (N.to_nat overlap) 0 0 0 0
                            (lastscan st + lenf0 - overlap) (lastpos st + lenf0 - overlap)
                            (sc - lenb0) (ps - lenb0) in
      (lenf0 + lens - overlap, lenb0 - lens)
    else (lenf0, lenb0) in
  ({| add_old_start := lastpos st; add_new_start := lastscan st; add_length := lenf;
      copy_end := sc - lenb |},
   {| scan := sc; pos := ps; len := ln; lastscan := sc - lenb; lastpos := ps - lenb;
      lastoff := (Z.of_N ps - Z.of_N sc)%Z |}).

(* Iterator::next called until it returns None: the `while self.scan < nbuflen` loop; after a match has
   been returned the next call re-enters the same loop with the saved fields *)
Fixpoint outer (fuel : nat) (st : bs) : res (list bmatch) :=
  match fuel with
  | O => OutOfFuel
  | S f =>
      if scan st <? nlen then
        let sc0 := scan st + len st in
        match inner (S (N.to_nat (nlen - sc0))) sc0 sc0 (pos st) (len st) (lastoff st) 0 with
        | Ok (sc, ps, ln, score) =>
            if negb (ln =? score) || (sc =? nlen) then
              let '(m, st') := emit st sc ps ln in
              match outer f st' with
              | Ok ms => Ok (m :: ms)
              | Underflow => Underflow
              | OutOfFuel => OutOfFuel
              end
            else outer f {| scan := sc; pos := ps; len := ln; lastscan := lastscan st;
                            lastpos := lastpos st; lastoff := lastoff st |}
        | Underflow => Underflow
        | OutOfFuel => OutOfFuel
        end
      else Ok []
  end.

Definition bs0 : bs := {| scan := 0; pos := 0; len := 0; lastscan := 0; lastpos := 0; lastoff := 0 |}.

(* every Match of `diff(obuf, nbuf, default params)` *)
Definition bsdiff : res (list bmatch) := outer (S (S (N.to_nat nlen))) bs0.

(* what the theorems assume of the matcher: the match it reports lies inside both buffers *)
Definition lsm_bounded : Prop :=
  forall sc, sc < nlen -> fst (lsm sc) + snd (lsm sc) <= olen /\ sc + snd (lsm sc) <= nlen.

End Bs.
