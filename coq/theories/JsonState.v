(* JsonState.v — patches_state.json as TEXT: what serde's derived Deserialize for PatchesState / PatchMetadata
   (cache/patch_manager.rs:20-56; read by disk_io::read = serde_json::from_reader, whose readers behave as the ones of
   JsonText.v) makes of the bytes of the file.  The model's disk holds [pj : jfile pstate]; with this file "which
   contents count as a readable state, and which state" is part of the model instead of an abstraction made by the
   harness: [pj_of_file]. *)
From UV Require Import Base Codec Model Json JsonText.
Local Open Scope N_scope.

(* u64 / usize on the 64-bit targets: the same literals *)
Definition as_u64 := as_usize.

(* ----- struct PatchMetadata { number: usize, size: u64, hash: String, signature: Option<String> } ----- *)
Record meta_acc := { ma_num : option N; ma_size : option N; ma_hash : option string; ma_sig : option (option string) }.
Definition meta_acc0 := {| ma_num := None; ma_size := None; ma_hash := None; ma_sig := None |}.

Fixpoint meta_fields (l : list (string * json)) (a : meta_acc) : option meta_acc :=
  match l with
  | [] => Some a
  | (k, v) :: r =>
      if String.eqb k "number"%string then
        match ma_num a, as_usize v with
        | None, Some n => meta_fields r {| ma_num := Some n; ma_size := ma_size a; ma_hash := ma_hash a; ma_sig := ma_sig a |}
        | _, _ => None
        end
      else if String.eqb k "size"%string then
        match ma_size a, as_u64 v with
        | None, Some n => meta_fields r {| ma_num := ma_num a; ma_size := Some n; ma_hash := ma_hash a; ma_sig := ma_sig a |}
        | _, _ => None
        end
      else if String.eqb k "hash"%string then
        match ma_hash a, as_string v with
        | None, Some s => meta_fields r {| ma_num := ma_num a; ma_size := ma_size a; ma_hash := Some s; ma_sig := ma_sig a |}
        | _, _ => None
        end
      else if String.eqb k "signature"%string then
        match ma_sig a, as_option as_string v with
        | None, Some s => meta_fields r {| ma_num := ma_num a; ma_size := ma_size a; ma_hash := ma_hash a; ma_sig := Some s |}
        | _, _ => None
        end
      else meta_fields r a
  end.

(* a missing Option field is None; the others are required *)
Definition meta_finish (a : meta_acc) : option meta :=
  match ma_num a, ma_size a, ma_hash a with
  | Some n, Some z, Some h =>
      Some {| m_num := n; m_size := z; m_hash := h; m_sig := match ma_sig a with Some s => s | None => None end |}
  | _, _, _ => None
  end.

(* visit_seq: no field has a default, so exactly four elements *)
Definition meta_of_seq (l : list json) : option meta :=
  match l with
  | [n; z; h; s] =>
      match as_usize n, as_u64 z, as_string h, as_option as_string s with
      | Some n', Some z', Some h', Some s' => Some {| m_num := n'; m_size := z'; m_hash := h'; m_sig := s' |}
      | _, _, _, _ => None
      end
  | _ => None
  end.

Definition as_meta (j : json) : option meta :=
  match j with
  | JObj l => match meta_fields l meta_acc0 with Some a => meta_finish a | None => None end
  | JArr l => meta_of_seq l
  | _ => None
  end.

(* HashSet<usize> from a sequence: repeated elements collapse *)
Fixpoint dedup (l : list N) : list N :=
  match l with
  | [] => []
  | x :: r => if inb x r then dedup r else x :: dedup r
  end.
Definition as_usize_set (j : json) : option (list N) :=
  match as_usize_vec j with Some l => Some (dedup l) | None => None end.

(* ----- struct PatchesState { last_booted_patch, next_boot_patch, currently_booting_patch: Option<PatchMetadata>,
                               known_bad_patches: HashSet<usize> } ----- *)
Record ps_acc := { pa_lb : option (option meta); pa_nb : option (option meta); pa_cb : option (option meta);
                   pa_bad : option (list N) }.
Definition ps_acc0 := {| pa_lb := None; pa_nb := None; pa_cb := None; pa_bad := None |}.

Fixpoint ps_fields (l : list (string * json)) (a : ps_acc) : option ps_acc :=
  match l with
  | [] => Some a
  | (k, v) :: r =>
      if String.eqb k "last_booted_patch"%string then
        match pa_lb a, as_option as_meta v with
        | None, Some m => ps_fields r {| pa_lb := Some m; pa_nb := pa_nb a; pa_cb := pa_cb a; pa_bad := pa_bad a |}
        | _, _ => None
        end
      else if String.eqb k "next_boot_patch"%string then
        match pa_nb a, as_option as_meta v with
        | None, Some m => ps_fields r {| pa_lb := pa_lb a; pa_nb := Some m; pa_cb := pa_cb a; pa_bad := pa_bad a |}
        | _, _ => None
        end
      else if String.eqb k "currently_booting_patch"%string then
        match pa_cb a, as_option as_meta v with
        | None, Some m => ps_fields r {| pa_lb := pa_lb a; pa_nb := pa_nb a; pa_cb := Some m; pa_bad := pa_bad a |}
        | _, _ => None
        end
      else if String.eqb k "known_bad_patches"%string then
        match pa_bad a, as_usize_set v with
        | None, Some s => ps_fields r {| pa_lb := pa_lb a; pa_nb := pa_nb a; pa_cb := pa_cb a; pa_bad := Some s |}
        | _, _ => None
        end
      else ps_fields r a
  end.

Definition ps_finish (a : ps_acc) : option pstate :=
  match pa_bad a with
  | Some b =>
      Some {| lb := match pa_lb a with Some m => m | None => None end;
              nb := match pa_nb a with Some m => m | None => None end;
              cb := match pa_cb a with Some m => m | None => None end;
              bad := b |}
  | None => None                    (* missing field `known_bad_patches` *)
  end.

Definition ps_of_seq (l : list json) : option pstate :=
  match l with
  | [a; b; c; d] =>
      match as_option as_meta a, as_option as_meta b, as_option as_meta c, as_usize_set d with
      | Some a', Some b', Some c', Some d' => Some {| lb := a'; nb := b'; cb := c'; bad := d' |}
      | _, _, _, _ => None
      end
  | _ => None
  end.

Definition pstate_of_json (j : json) : option pstate :=
  match j with
  | JObj l => match ps_fields l ps_acc0 with Some a => ps_finish a | None => None end
  | JArr l => ps_of_seq l
  | _ => None
  end.

Definition meta_schema : schema :=
  SStruct [("number", SLeaf); ("size", SLeaf); ("hash", SLeaf); ("signature", SLeaf)]%string.
Definition pstate_schema : schema :=
  SStruct [("last_booted_patch", meta_schema); ("next_boot_patch", meta_schema);
           ("currently_booting_patch", meta_schema); ("known_bad_patches", SLeaf)]%string.

Definition pstate_of_body (l : bytes) : option pstate :=
  match parse_body pstate_schema l with
  | Some t => pstate_of_json t
  | None => None
  end.

(* the content of patches_state.json as the model's disk sees it *)
Definition pj_of_file (l : bytes) : jfile pstate :=
  match pstate_of_body l with Some s => JOk s | None => JGarbage end.
