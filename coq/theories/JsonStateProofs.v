(* JsonStateProofs.v — facts about the reading of patches_state.json. *)
From UV Require Import Base Codec Model Json JsonProofs JsonText JsonTextProofs JsonTextSound JsonState.
From Coq Require Import ZifyN ZifyBool Lia.
Local Open Scope N_scope.
Arguments String.eqb : simpl never.

(* the file is read as a state exactly when it is a sentence of the state's schema whose tree is accepted *)
Theorem pstate_of_body_iff l s :
  pstate_of_body l = Some s <->
  exists w b w' t, WS w /\ GS pstate_schema t b /\ WS w' /\ l = w ++ b ++ w' /\ pstate_of_json t = Some s.
Proof.
  unfold pstate_of_body. split.
  - destruct (parse_body pstate_schema l) as [t|] eqn:E; [|discriminate]. intros H.
    apply parse_body_iff in E. destruct E as (w & b & w' & Hw & Hg & Hw' & ->). exists w, b, w', t. repeat split; assumption.
  - intros (w & b & w' & t & Hw & Hg & Hw' & -> & H).
    rewrite (proj2 (parse_body_iff pstate_schema _ t)); [exact H|]. exists w, b, w'. repeat split; assumption.
Qed.

(* ---------- what disk_io::write serializes is read back ---------- *)
Definition json_of_meta (m : meta) : json :=
  JObj [("number"%string, JNum (JInt false (m_num m)));
        ("size"%string, JNum (JInt false (m_size m)));
        ("hash"%string, JStr (m_hash m));
        ("signature"%string, json_of_ostring (m_sig m))].
Definition json_of_ometa (o : option meta) : json := match o with Some m => json_of_meta m | None => JNull end.
Definition json_of_pstate (s : pstate) : json :=
  JObj [("last_booted_patch"%string, json_of_ometa (lb s));
        ("next_boot_patch"%string, json_of_ometa (nb s));
        ("currently_booting_patch"%string, json_of_ometa (cb s));
        ("known_bad_patches"%string, JArr (map (fun n => JNum (JInt false n)) (bad s)))].

Definition meta_in_range (m : meta) : Prop := m_num m < two64 /\ m_size m < two64.
Definition ometa_in_range (o : option meta) : Prop := match o with Some m => meta_in_range m | None => True end.
Definition pstate_in_range (s : pstate) : Prop :=
  ometa_in_range (lb s) /\ ometa_in_range (nb s) /\ ometa_in_range (cb s) /\
  Forall (fun n => n < two64) (bad s) /\ NoDup (bad s).

Lemma as_meta_roundtrip m : meta_in_range m -> as_meta (json_of_meta m) = Some m.
Proof.
  intros [H1 H2]. destruct m as [n z h sg]. cbn [m_num m_size m_hash m_sig] in *.
  unfold as_meta, json_of_meta. cbn [m_num m_size m_hash m_sig meta_fields].
  rewrite ?String.eqb_refl. cbn [meta_acc0 ma_num ma_size ma_hash ma_sig].
  unfold as_u64, as_usize. assert (E1 : (n <? two64) = true) by lia. assert (E2 : (z <? two64) = true) by lia. rewrite E1.
  change (String.eqb "size" "number") with false.
  change (String.eqb "hash" "number") with false.
  change (String.eqb "hash" "size") with false.
  change (String.eqb "signature" "number") with false.
  change (String.eqb "signature" "size") with false.
  change (String.eqb "signature" "hash") with false.
  cbn iota. rewrite ?String.eqb_refl. cbn [ma_num ma_size ma_hash ma_sig as_string]. rewrite E2.
  cbn iota. cbn [ma_num ma_size ma_hash ma_sig as_string].
  destruct sg as [sg|]; reflexivity.
Qed.

Lemma as_ometa_roundtrip o : ometa_in_range o -> as_option as_meta (json_of_ometa o) = Some o.
Proof.
  destruct o as [m|]; intros H; [|reflexivity]. cbn [json_of_ometa].
  pose proof (as_meta_roundtrip m H) as E. unfold as_option. unfold json_of_meta in *. rewrite E. reflexivity.
Qed.

Lemma dedup_nodup l : NoDup l -> dedup l = l.
Proof.
  induction 1 as [|x l Hx _ IH]; [reflexivity|]. cbn [dedup].
  destruct (inb x l) eqn:E.
  - exfalso. apply Hx. unfold inb in E. apply existsb_exists in E. destruct E as (y & Hy & Ey).
    apply N.eqb_eq in Ey. subst y. exact Hy.
  - rewrite IH. reflexivity.
Qed.

Theorem pstate_roundtrip s : pstate_in_range s -> pstate_of_json (json_of_pstate s) = Some s.
Proof.
  intros (H1 & H2 & H3 & H4 & H5). destruct s as [l n c b]. cbn [lb nb cb bad] in *.
  unfold pstate_of_json, json_of_pstate. cbn [lb nb cb bad ps_fields].
  rewrite ?String.eqb_refl. cbn [ps_acc0 pa_lb pa_nb pa_cb pa_bad].
  rewrite (as_ometa_roundtrip l H1).
  change (String.eqb "next_boot_patch" "last_booted_patch") with false.
  change (String.eqb "currently_booting_patch" "last_booted_patch") with false.
  change (String.eqb "currently_booting_patch" "next_boot_patch") with false.
  change (String.eqb "known_bad_patches" "last_booted_patch") with false.
  change (String.eqb "known_bad_patches" "next_boot_patch") with false.
  change (String.eqb "known_bad_patches" "currently_booting_patch") with false.
  cbn iota. rewrite ?String.eqb_refl. cbn [pa_lb pa_nb pa_cb pa_bad].
  rewrite (as_ometa_roundtrip n H2). cbn iota. cbn [pa_lb pa_nb pa_cb pa_bad].
  rewrite (as_ometa_roundtrip c H3). cbn iota. cbn [pa_lb pa_nb pa_cb pa_bad].
  unfold as_usize_set, as_usize_vec. rewrite (all_usize_map b H4). rewrite (dedup_nodup b H5).
  cbn [pa_lb pa_nb pa_cb pa_bad ps_fields ps_finish]. reflexivity.
Qed.

(* a file that lacks the ban list, names a field twice, or gives a number where a record is expected is unreadable *)
Example pstate_rejects :
  pstate_of_json (JObj [("last_booted_patch"%string, JNull)]) = None /\
  pstate_of_json (JObj [("known_bad_patches"%string, JArr []); ("known_bad_patches"%string, JArr [])]) = None /\
  pstate_of_json (JObj [("known_bad_patches"%string, JArr []); ("next_boot_patch"%string, JNum (JInt false 2))]) = None /\
  pstate_of_json (JObj [("known_bad_patches"%string, JArr [JNum (JInt false 3); JNum (JInt false 3)])]) = Some {| lb := None; nb := None; cb := None; bad := [3] |} /\
  pstate_of_json (JObj [("zzz"%string, JBool true); ("known_bad_patches"%string, JArr [])]) = Some pempty.
Proof. vm_compute. repeat split. Qed.
