(* LockSemProofs.v — deadlock freedom and termination of the two-mutex discipline (C12). *)
From UV Require Import Base LockSem.
From Coq Require Import Lia.

(* ---------- invariants ---------- *)
(* what is left of a thread is well formed from its current depth *)
Definition th_ok (t : th) : Prop :=
  match inside t with
  | Some b => wfa (depth t) b = Some 0%nat /\ wfp 0 (rest t) = true
  | None => wfp (depth t) (rest t) = true
  end.

(* thread i in a system whose mutexes are owned by co / uo *)
Definition th_inv (i : nat) (t : th) (co uo : option nat) : Prop :=
  th_ok t /\ (depth t <= 1)%nat /\
  (depth t = 1%nat <-> co = Some i) /\ (inside t <> None <-> uo = Some i).

Definition sys_ok (s : sys) : Prop :=
  (forall i t, nth_error (threads s) i = Some t -> th_inv i t (cfg_owner s) (upd_owner s)) /\
  (forall j, cfg_owner s = Some j -> nth_error (threads s) j <> None).

Lemma nth_error_set_nth {A} (l : list A) : forall i j x,
  nth_error (set_nth i x l) j =
  if Nat.eqb i j then match nth_error l j with Some _ => Some x | None => None end else nth_error l j.
Proof.
  induction l as [|y l IH]; intros i j x; cbn [set_nth].
  - destruct i, j; cbn; try reflexivity; destruct (Nat.eqb _ _); reflexivity.
  - destruct i as [|i], j as [|j]; cbn; try reflexivity. apply IH.
Qed.

Lemma init_ok ps : Forall (fun p => wfp 0 p = true) ps -> sys_ok (init_sys ps).
Proof.
  intros H. split.
  - intros i t Ht. unfold init_sys in *; cbn in *.
    rewrite nth_error_map in Ht. destruct (nth_error ps i) as [p|] eqn:E; [|discriminate].
    inversion Ht; subst t. rewrite Forall_forall in H. specialize (H p (nth_error_In _ _ E)).
    unfold th_inv, th_ok, start; cbn. repeat split; try lia; try discriminate; try congruence.
  - cbn. discriminate.
Qed.

(* ---------- shape of the next action ---------- *)
Lemma wfa_cons d a b : wfa d (a :: b) = Some 0%nat ->
  match a with
  | ANet => d = 0%nat /\ wfa 0 b = Some 0%nat
  | AAcq => d = 0%nat /\ wfa 1 b = Some 0%nat
  | ARel => d = 1%nat /\ wfa 0 b = Some 0%nat
  end.
Proof.
  destruct a; cbn; destruct d as [|[|d]]; cbn; intros H; try discriminate; auto.
Qed.

Lemma wfp_cons d a r : wfp d (IAct a :: r) = true ->
  match a with
  | ANet => d = 0%nat /\ wfp 0 r = true
  | AAcq => d = 0%nat /\ wfp 1 r = true
  | ARel => d = 1%nat /\ wfp 0 r = true
  end.
Proof.
  destruct a; cbn; destruct d as [|[|d]]; cbn; intros H; try discriminate; auto.
Qed.

Lemma wfp_upd d body r : wfp d (IUpd body :: r) = true ->
  d = 0%nat /\ wfa 0 body = Some 0%nat /\ wfp 0 r = true.
Proof.
  cbn. destruct d as [|d]; cbn; [|discriminate].
  destruct (wfa 0 body) as [[|k]|]; cbn; try discriminate. auto.
Qed.

(* ---------- one step of one thread keeps its invariant and moves ownership only to / from itself ---------- *)
Definition moved (i : nat) (o o' : option nat) : Prop :=
  o' = o \/ (o = None /\ o' = Some i) \/ (o = Some i /\ o' = None).

Ltac fin :=
  repeat split;
  try solve [lia | tauto | congruence | discriminate | assumption
            | intuition congruence | intuition lia | intuition discriminate].

Lemma th_step_spec i t co uo t' co' uo' :
  th_inv i t co uo -> th_step i t co uo = Some (t', co', uo') ->
  th_inv i t' co' uo' /\ moved i co co' /\ moved i uo uo' /\ (th_work t' < th_work t)%nat.
Proof.
  intros (Hok & Hle & Hco & Huo) H. unfold th_step in H. unfold th_ok in Hok.
  destruct (inside t) as [[|a b]|] eqn:Ei.
  - (* leaving the update body: release the update mutex *)
    inversion H; subst; clear H. destruct Hok as [Hw Hr]. cbn in Hw. inversion Hw as [Hd].
    assert (Hu : uo = Some i) by (apply Huo; discriminate).
    unfold th_inv, th_ok, moved, th_work; cbn. rewrite Ei. cbn. rewrite Hd in *. fin.
  - destruct Hok as [Hw Hr]. apply wfa_cons in Hw.
    assert (Hu : uo = Some i) by (apply Huo; discriminate).
    destruct a; cbn in H.
    + destruct Hw as [Hd Hw]. inversion H; subst; clear H.
      unfold th_inv, th_ok, moved, th_work; cbn. rewrite Ei. cbn. rewrite Hd in *. fin.
    + destruct Hw as [Hd Hw]. destruct co as [j|]; [discriminate|]. inversion H; subst; clear H.
      unfold th_inv, th_ok, moved, th_work; cbn. rewrite Ei. cbn. fin.
    + destruct Hw as [Hd Hw]. inversion H; subst; clear H.
      assert (Hc : co = Some i) by (apply Hco; exact Hd).
      unfold th_inv, th_ok, moved, th_work; cbn. rewrite Ei. cbn. fin.
  - assert (Hni : uo <> Some i) by (intros Hx; apply Huo in Hx; congruence).
    destruct (rest t) as [|[a|body] r] eqn:Er; [discriminate| |].
    + apply wfp_cons in Hok. destruct a; cbn in H.
      * destruct Hok as [Hd Hw]. inversion H; subst; clear H.
        unfold th_inv, th_ok, moved, th_work; cbn. rewrite Ei, Er. cbn. rewrite Hd in *. fin.
      * destruct Hok as [Hd Hw]. destruct co as [j|]; [discriminate|]. inversion H; subst; clear H.
        unfold th_inv, th_ok, moved, th_work; cbn. rewrite Ei, Er. cbn. fin.
      * destruct Hok as [Hd Hw]. inversion H; subst; clear H.
        assert (Hc : co = Some i) by (apply Hco; exact Hd).
        unfold th_inv, th_ok, moved, th_work; cbn. rewrite Ei, Er. cbn. fin.
    + apply wfp_upd in Hok. destruct Hok as (Hd & Hb & Hr).
      destruct uo as [k|]; inversion H; subst; clear H.
      * unfold th_inv, th_ok, moved, th_work; cbn. rewrite Ei, Er. cbn. rewrite Hd in *. fin.
      * unfold th_inv, th_ok, moved, th_work; cbn. rewrite Ei, Er. cbn. rewrite Hd in *. fin.
Qed.

(* ---------- the invariant holds in every reachable state ---------- *)
Lemma sys_step_ok s i s' : sys_ok s -> sys_step s i = Some s' -> sys_ok s'.
Proof.
  intros [HA HB] H. unfold sys_step in H.
  destruct (nth_error (threads s) i) as [t|] eqn:Et; [|discriminate].
  destruct (th_step i t (cfg_owner s) (upd_owner s)) as [[[t' co'] uo']|] eqn:Es; [|discriminate].
  inversion H; subst s'; clear H. cbn.
  destruct (th_step_spec _ _ _ _ _ _ _ (HA i t Et) Es) as (Hinv & Mc & Mu & _).
  split.
  - intros j tj Hj. cbn in Hj. rewrite nth_error_set_nth in Hj.
    destruct (Nat.eqb i j) eqn:Eij.
    + apply Nat.eqb_eq in Eij. subst j. rewrite Et in Hj. inversion Hj; subst tj. exact Hinv.
    + apply Nat.eqb_neq in Eij. destruct (HA j tj Hj) as (K1 & K2 & K3 & K4).
      unfold th_inv. cbn [cfg_owner upd_owner]. repeat split; auto.
      * intros Hd. apply K3 in Hd. destruct Mc as [->|[[Hn Hs]|[Hs Hn]]]; congruence.
      * intros Hc. apply K3. destruct Mc as [->|[[Hn Hs]|[Hs Hn]]]; congruence.
      * intros Hd. apply K4 in Hd. destruct Mu as [->|[[Hn Hs]|[Hs Hn]]]; congruence.
      * intros Hc. apply K4. destruct Mu as [->|[[Hn Hs]|[Hs Hn]]]; congruence.
  - intros j Hj. cbn in *. rewrite nth_error_set_nth.
    destruct (Nat.eqb i j) eqn:Eij.
    + apply Nat.eqb_eq in Eij. subst j. rewrite Et. discriminate.
    + apply Nat.eqb_neq in Eij. apply HB. destruct Mc as [->|[[Hn Hs]|[Hs Hn]]]; congruence.
Qed.

Theorem reachable_ok order : forall s, sys_ok s -> sys_ok (run_sched s order).
Proof.
  induction order as [|i r IH]; intros s H; cbn [run_sched]; [exact H|].
  destruct (sys_step s i) as [s'|] eqn:E; [|apply IH; exact H].
  apply IH. eapply sys_step_ok; eauto.
Qed.

(* ---------- no deadlock ---------- *)
Lemma holder_not_done t : th_ok t -> depth t = 1%nat -> th_done t = false.
Proof.
  intros Hok Hd. unfold th_ok, th_done in *. destruct (inside t) as [b|]; [reflexivity|].
  destruct (rest t); [|reflexivity]. rewrite Hd in Hok. cbn in Hok. discriminate.
Qed.

(* a thread that is not finished can move unless it wants the config mutex while another thread holds it *)
Lemma th_step_enabled i t co uo :
  th_inv i t co uo -> th_done t = false -> (co = None \/ co = Some i) ->
  th_step i t co uo <> None.
Proof.
  intros (Hok & Hle & Hco & Huo) Hd Hfree. unfold th_step, th_ok, th_done in *.
  destruct (inside t) as [[|a b]|] eqn:Ei.
  - discriminate.
  - destruct Hok as [Hw _]. apply wfa_cons in Hw. destruct a; cbn; try discriminate.
    destruct co as [j|]; [|discriminate]. destruct Hfree as [Hc|Hc]; [discriminate|].
    assert (depth t = 1%nat) by (apply Hco; exact Hc). lia.
  - destruct (rest t) as [|[a|body] r] eqn:Er; [discriminate| |].
    + apply wfp_cons in Hok. destruct a; cbn; try discriminate.
      destruct co as [j|]; [|discriminate]. destruct Hfree as [Hc|Hc]; [discriminate|].
      assert (depth t = 1%nat) by (apply Hco; exact Hc). lia.
    + destruct uo; discriminate.
Qed.

Theorem no_deadlock s :
  sys_ok s -> (exists i t, nth_error (threads s) i = Some t /\ th_done t = false) ->
  exists i, sys_step s i <> None.
Proof.
  intros [HA HB] (i & t & Ht & Hnd).
  destruct (cfg_owner s) as [j|] eqn:Eco.
  - (* the holder of the config mutex can always take its next step *)
    destruct (nth_error (threads s) j) as [tj|] eqn:Ej; [|exfalso; apply (HB j eq_refl); exact Ej].
    exists j. unfold sys_step. rewrite Ej. pose proof (HA j tj Ej) as Hinv. rewrite Eco in *.
    assert (Hd1 : depth tj = 1%nat) by (destruct Hinv as (_ & _ & K & _); apply K; reflexivity).
    pose proof (th_step_enabled j tj (Some j) (upd_owner s) Hinv
                  (holder_not_done tj (proj1 Hinv) Hd1) (or_intror eq_refl)) as He.
    destruct (th_step j tj (Some j) (upd_owner s)) as [[[t' co] uo]|]; [discriminate|contradiction].
  - (* the config mutex is free: any unfinished thread can move *)
    exists i. unfold sys_step. rewrite Ht. pose proof (HA i t Ht) as Hinv. rewrite Eco in *.
    pose proof (th_step_enabled i t None (upd_owner s) Hinv Hnd (or_introl eq_refl)) as He.
    destruct (th_step i t None (upd_owner s)) as [[[t' co] uo]|]; [discriminate|contradiction].
Qed.

(* ---------- every step consumes work: no schedule runs for ever ---------- *)
Lemma work_set_nth l : forall i t t',
  nth_error l i = Some t -> (th_work t' < th_work t)%nat ->
  (fold_right (fun t n => th_work t + n) 0 (set_nth i t' l) < fold_right (fun t n => th_work t + n) 0 l)%nat.
Proof.
  induction l as [|y l IH]; intros i t t' Hn Hw; destruct i as [|i]; cbn in *; try discriminate.
  - inversion Hn; subst. lia.
  - specialize (IH i t t' Hn Hw). lia.
Qed.

Theorem step_consumes_work s i s' :
  sys_ok s -> sys_step s i = Some s' -> (sys_work s' < sys_work s)%nat.
Proof.
  intros [HA _] H. unfold sys_step in H.
  destruct (nth_error (threads s) i) as [t|] eqn:Et; [|discriminate].
  destruct (th_step i t (cfg_owner s) (upd_owner s)) as [[[t' co'] uo']|] eqn:Es; [|discriminate].
  inversion H; subst s'; clear H. unfold sys_work; cbn.
  destruct (th_step_spec _ _ _ _ _ _ _ (HA i t Et) Es) as (_ & _ & _ & Hw).
  eapply work_set_nth; eauto.
Qed.

(* all threads finished *)
Definition all_done (s : sys) : Prop := forall i t, nth_error (threads s) i = Some t -> th_done t = true.

Lemma done_dec_list (l : list th) :
  (forall i t, nth_error l i = Some t -> th_done t = true) \/
  (exists i t, nth_error l i = Some t /\ th_done t = false).
Proof.
  induction l as [|x l IH].
  - left. intros [|i] t H; discriminate.
  - destruct (th_done x) eqn:Ex.
    + destruct IH as [IH|(i & t & Hi & Ht)].
      * left. intros [|i] t H; cbn in H; [inversion H; subst; exact Ex|eapply IH; eauto].
      * right. exists (S i), t. auto.
    + right. exists 0%nat, x. auto.
Qed.
Lemma classic_done s : all_done s \/ exists i t, nth_error (threads s) i = Some t /\ th_done t = false.
Proof. apply done_dec_list. Qed.

(* from every reachable state the system can run to completion, in at most [sys_work] further steps *)
Theorem completion_exists : forall n s, sys_ok s -> (sys_work s <= n)%nat ->
  exists order, (List.length order <= n)%nat /\ all_done (run_sched s order).
Proof.
  induction n as [|n IH]; intros s Hok Hw.
  - exists []. split; [cbn; lia|]. cbn. intros i t Ht.
    destruct (th_done t) eqn:Ed; [reflexivity|].
    exfalso. destruct (no_deadlock s Hok) as [j Hj]; [eauto|].
    destruct (sys_step s j) as [s'|] eqn:Es; [|contradiction].
    pose proof (step_consumes_work s j s' Hok Es). lia.
  - destruct (classic_done s) as [Hall|Hsome].
    + exists []. split; [cbn; lia|]. exact Hall.
    + destruct (no_deadlock s Hok Hsome) as [j Hj].
      destruct (sys_step s j) as [s'|] eqn:Es; [|contradiction].
      pose proof (step_consumes_work s j s' Hok Es).
      destruct (IH s' (sys_step_ok _ _ _ Hok Es) ltac:(lia)) as (order & Hl & Hd).
      exists (j :: order). split; [cbn; lia|]. cbn [run_sched]. rewrite Es. exact Hd.
Qed.
