(* LockSemLink.v — the per-call action traces of Blocks.v as programs of the lock-level semantics: every
   well-formed trace (Blocks.wf_go) is a well-formed program (LockSem.wfp), so the deadlock-freedom and
   termination theorems of LockSemProofs.v apply to any number of threads issuing any calls. *)
From UV Require Import Base Codec Model Blocks LockSem LockSemProofs.
From Coq Require Import Lia.

Definition ocons {A} (x : A) (o : option (list A)) : option (list A) :=
  match o with Some l => Some (x :: l) | None => None end.

(* [cur] = the update body collected so far (between a successful try-lock and the release).
   A try-lock recorded as refused contributes a try with an empty body: nothing ran under it. *)
Fixpoint items_of (l : list action) (cur : option (list act)) : option (list item) :=
  match l with
  | [] => match cur with None => Some [] | Some _ => None end
  | a :: r =>
      match cur with
      | None =>
          match a with
          | AcqCfg => ocons (IAct AAcq) (items_of r None)
          | RelCfg => ocons (IAct ARel) (items_of r None)
          | Net _ => ocons (IAct ANet) (items_of r None)
          | Spawn => items_of r None
          | TryUpd true => items_of r (Some [])
          | TryUpd false => ocons (IUpd []) (items_of r None)
          | RelUpd => None
          end
      | Some b =>
          match a with
          | AcqCfg => items_of r (Some (b ++ [AAcq]))
          | RelCfg => items_of r (Some (b ++ [ARel]))
          | Net _ => items_of r (Some (b ++ [ANet]))
          | Spawn => items_of r (Some b)
          | RelUpd => ocons (IUpd b) (items_of r None)
          | TryUpd _ => None
          end
      end
  end.

Lemma wfa_app d b : forall d1 a,
  wfa d b = Some d1 ->
  wfa d (b ++ [a]) = match a with
                     | ANet => if Nat.eqb d1 0 then Some 0%nat else None
                     | AAcq => if Nat.eqb d1 0 then Some 1%nat else None
                     | ARel => if Nat.eqb d1 1 then Some 0%nat else None
                     end.
Proof.
  revert d. induction b as [|x b IH]; intros d d1 a H; cbn [app wfa] in *.
  - inversion H; subst. destruct a; destruct (Nat.eqb d1 _); reflexivity.
  - destruct x; destruct (Nat.eqb d _); try discriminate; apply IH; exact H.
Qed.

Lemma items_wf l :
  (forall d, wf_go d false l = Some (0%nat, false) ->
     exists p, items_of l None = Some p /\ wfp d p = true) /\
  (forall b d, wfa 0 b = Some d -> wf_go d true l = Some (0%nat, false) ->
     exists body p, items_of l (Some b) = Some (IUpd body :: p) /\
                    wfa 0 body = Some 0%nat /\ wfp 0 p = true).
Proof.
  induction l as [|a r [IH1 IH2]]; split.
  - intros d H. cbn in H. inversion H; subst. exists []. split; reflexivity.
  - intros b d Hb H. cbn in H. discriminate.
  - intros d H. cbn [wf_go] in H. destruct a; cbn [items_of].
    + destruct (Nat.eqb d 0) eqn:E; [|discriminate]. apply Nat.eqb_eq in E. subst d.
      destruct (IH1 _ H) as (p & Hp & Hw). exists (IAct AAcq :: p). rewrite Hp. split; [reflexivity|]. cbn. exact Hw.
    + destruct (Nat.eqb d 1) eqn:E; [|discriminate]. apply Nat.eqb_eq in E. subst d.
      destruct (IH1 _ H) as (p & Hp & Hw). exists (IAct ARel :: p). rewrite Hp. split; [reflexivity|]. cbn. exact Hw.
    + destruct (Nat.eqb d 0) eqn:E; [|discriminate]. apply Nat.eqb_eq in E. subst d. cbn [andb negb] in H.
      destruct ok.
      * destruct (IH2 [] 0%nat eq_refl H) as (body & p & Hp & Hb & Hw).
        exists (IUpd body :: p). split; [exact Hp|]. cbn. rewrite Hb. exact Hw.
      * destruct (IH1 _ H) as (p & Hp & Hw). exists (IUpd [] :: p). rewrite Hp. split; [reflexivity|]. cbn. exact Hw.
    + destruct (Nat.eqb d 0); cbn in H; discriminate.
    + destruct (Nat.eqb d 0) eqn:E; [|discriminate]. apply Nat.eqb_eq in E. subst d.
      destruct (IH1 _ H) as (p & Hp & Hw). exists (IAct ANet :: p). rewrite Hp. split; [reflexivity|]. cbn. exact Hw.
    + apply IH1. exact H.
  - intros b d Hb H. cbn [wf_go] in H. destruct a; cbn [items_of].
    + destruct (Nat.eqb d 0) eqn:E; [|discriminate].
      apply (IH2 (b ++ [AAcq]) 1%nat); [|exact H]. rewrite (wfa_app _ _ _ AAcq Hb), E. reflexivity.
    + destruct (Nat.eqb d 1) eqn:E; [|discriminate].
      apply (IH2 (b ++ [ARel]) 0%nat); [|exact H]. rewrite (wfa_app _ _ _ ARel Hb), E. reflexivity.
    + destruct (Nat.eqb d 0); cbn in H; discriminate.
    + destruct (Nat.eqb d 0) eqn:E; [|discriminate]. apply Nat.eqb_eq in E. subst d. cbn [andb] in H.
      destruct (IH1 _ H) as (p & Hp & Hw). exists b, p. rewrite Hp. auto.
    + destruct (Nat.eqb d 0) eqn:E; [|discriminate]. apply Nat.eqb_eq in E. subst d.
      apply (IH2 (b ++ [ANet]) 0%nat); [|exact H]. rewrite (wfa_app _ _ _ ANet Hb). reflexivity.
    + apply (IH2 b d Hb H).
Qed.

Lemma wfp_app p1 : forall d p2, wfp d p1 = true -> wfp 0 p2 = true -> wfp d (p1 ++ p2) = true.
Proof.
  induction p1 as [|x p1 IH]; intros d p2 H1 H2; cbn [app].
  - cbn in H1. apply Nat.eqb_eq in H1. subst d. exact H2.
  - destruct x as [[| |]|body]; cbn [wfp] in *;
      repeat (apply andb_prop in H1; destruct H1 as [H1 ?]);
      repeat (apply andb_true_intro; split); auto.
Qed.

Section Link.
Variable sha : bytes -> bytes.
Variable sigok : string -> string -> string -> bool.
Variable zdec : bytes -> bytes.
Variable base : bytes.

(* the program of one call, issued from world [w] *)
Definition call_program (wo : world * op) : list item :=
  match items_of (world_actions sha sigok zdec base (fst wo) (snd wo)) None with
  | Some p => p
  | None => []
  end.

Lemma call_program_wf wo : wfp 0 (call_program wo) = true.
Proof.
  unfold call_program.
  destruct (proj1 (items_wf (world_actions sha sigok zdec base (fst wo) (snd wo))) 0%nat
                  (world_actions_wf sha sigok zdec base (fst wo) (snd wo))) as (p & Hp & Hw).
  rewrite Hp. exact Hw.
Qed.

(* a thread issues any sequence of calls; the worlds are arbitrary (whatever state each call finds) *)
Definition thread_program (calls : list (world * op)) : list item :=
  List.concat (map call_program calls).

Lemma thread_program_wf calls : wfp 0 (thread_program calls) = true.
Proof.
  induction calls as [|c r IH]; [reflexivity|].
  unfold thread_program. cbn [map List.concat]. apply wfp_app; [apply call_program_wf|exact IH].
Qed.

Definition system_of (threads : list (list (world * op))) : sys :=
  init_sys (map thread_program threads).

Lemma system_ok threads : sys_ok (system_of threads).
Proof.
  apply init_ok. apply Forall_forall. intros p Hp. apply in_map_iff in Hp.
  destruct Hp as (calls & <- & _). apply thread_program_wf.
Qed.

(* after ANY schedule prefix: if some thread still has work, some thread can step (no deadlock), and
   the rest of the work can be completed within [sys_work] further steps *)
Theorem no_deadlock_any_schedule threads order :
  let s := run_sched (system_of threads) order in
  ((exists i t, nth_error (LockSem.threads s) i = Some t /\ th_done t = false) ->
   exists i, sys_step s i <> None) /\
  (exists rest, (List.length rest <= sys_work s)%nat /\ all_done (run_sched s rest)).
Proof.
  intros s. assert (Hok : sys_ok s) by (apply reachable_ok; apply system_ok). split.
  - apply no_deadlock. exact Hok.
  - apply (completion_exists (sys_work s) s Hok). lia.
Qed.

(* a try-lock on the update mutex never waits: whatever its outcome, the step is enabled and the
   thread moves on in that very step *)
Theorem try_never_blocks i t body r co uo :
  inside t = None -> rest t = IUpd body :: r ->
  exists t', th_step i t co uo = Some (t', co, match uo with None => Some i | Some k => Some k end) /\
             rest t' = r /\
             inside t' = match uo with None => Some body | Some _ => None end.
Proof.
  intros Hi Hr. unfold th_step. rewrite Hi, Hr. destruct uo as [k|]; eexists; split; cbn; auto.
Qed.

End Link.
