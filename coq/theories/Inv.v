(* Inv.v — the ban invariant (I-ban), ban monotonicity and release stability, for every critical
   section, every call and every history. *)
From UV Require Import Base Codec Model PMLemmas.
Arguments N.eqb : simpl never.

Section Inv.
Variable sha : bytes -> bytes.
Variable sigok : string -> string -> string -> bool.
Variable zdec : bytes -> bytes.
Variable base : bytes.

Notation validate := (validate sha sigok).
Notation fall_back := (fall_back sha sigok).
Notation next_boot := (next_boot sha sigok).
Notation boot_failure := (boot_failure sha sigok).
Notation rollback_loop := (rollback_loop sha sigok).
Notation cs_next := (cs_next sha sigok).
Notation cs_start := (cs_start sha sigok).
Notation cs_failure := (cs_failure sha sigok).
Notation cs_init_recover := (cs_init_recover sha sigok).
Notation cs_rollback := (cs_rollback sha sigok).
Notation should_install := (should_install sha sigok).
Notation do_check := (do_check sha sigok).
Notation do_update := (do_update sha sigok zdec base).
Notation step := (step sha sigok zdec base).
Notation run := (run sha sigok zdec base).

(* ---------- release stability ---------- *)
Definition stable (r : string) (d : disk) : Prop := exists s, sj d = JOk s /\ rel s = r.

Lemma norm_stable c d : stable (c_rel c) (norm c d).
Proof.
  unfold norm, stable. destruct (sj d) as [| |s] eqn:E; cbn; eauto.
  destruct (String.eqb_spec (rel s) (c_rel c)); cbn; eauto.
Qed.

Lemma norm_id c d : stable (c_rel c) d -> norm c d = d.
Proof. intros [s [H1 H2]]. unfold norm. rewrite H1, H2, String.eqb_refl. reflexivity. Qed.

Lemma norm_cases c d : norm c d = d \/ norm c d = fresh_disk (c_rel c).
Proof. unfold norm. destruct (sj d) as [| |s]; auto. destruct (String.eqb (rel s) (c_rel c)); auto. Qed.

Lemma norm_idem c d : norm c (norm c d) = norm c d.
Proof. apply norm_id, norm_stable. Qed.

(* ---------- I-ban ---------- *)
Definition Iban (s : pstate) : Prop :=
  forall n, In n (bad s) ->
            numeq (nb s) n = false /\ numeq (lb s) n = false /\ numeq (cb s) n = false.
Definition IbanD (d : disk) : Prop := Iban (load_p d).

Lemma Iban_empty : Iban pempty.
Proof. intros n []. Qed.

Lemma IbanD_fresh r : IbanD (fresh_disk r).
Proof. exact Iban_empty. Qed.

Lemma IbanD_norm c d : IbanD d -> IbanD (norm c d).
Proof. intros H. destruct (norm_cases c d) as [-> | ->]; auto using IbanD_fresh. Qed.

Lemma inb_In n l : inb n l = true <-> In n l.
Proof.
  unfold inb. rewrite existsb_exists. split.
  - intros [x [Hx E]]. apply N.eqb_eq in E. subst. exact Hx.
  - intros H. exists n. split; auto. apply N.eqb_refl.
Qed.

Lemma add_bad_In n k l : In k (add_bad n l) <-> k = n \/ In k l.
Proof.
  unfold add_bad. destruct (inb n l) eqn:E.
  - apply inb_In in E. split; auto. intros [->|H]; auto.
  - cbn. split; intros [H|H]; auto.
Qed.

Lemma fall_back_Iban key d s b : Iban s -> Iban (snd (fall_back key d s b)).
Proof.
  intros H n Hn. rewrite fall_back_bad in Hn. destruct (H n Hn) as (H1 & H2 & H3).
  rewrite fall_back_cb, fall_back_nb, fall_back_lb. cbn zeta.
  destruct (lb s) as [l|]; destruct (numeq (nb s) b); cbn in *;
    repeat match goal with |- context [if ?x then _ else _] => destruct x end;
    cbn; try (destruct (nb s)); cbn in *; auto.
Qed.

Lemma rollback_loop_Iban key l : forall d s, Iban s -> Iban (snd (rollback_loop key d s l)).
Proof.
  induction l as [|x l IH]; intros d s H; cbn; auto.
  pose proof (fall_back_Iban key d s x H). destruct (fall_back key d s x). cbn in *. auto.
Qed.

Lemma next_boot_Iban key d s : Iban s -> Iban (snd (fst (next_boot key d s))).
Proof.
  intros H. unfold next_boot. destruct (nb s) as [m|]; cbn; auto.
  destruct (validate key d m); cbn; auto.
  pose proof (fall_back_Iban key d s (m_num m) H). destruct (fall_back key d s (m_num m)). auto.
Qed.

Lemma boot_failure_Iban key d s n : Iban s -> Iban (snd (boot_failure key d s n)).
Proof.
  intros H. unfold boot_failure.
  set (s0 := {| lb := lb s; nb := nb s; cb := None; bad := add_bad n (bad s) |}).
  intros k Hk. rewrite fall_back_bad in Hk. cbn in Hk. apply add_bad_In in Hk.
  rewrite fall_back_cb. cbn.
  destruct Hk as [->|Hk].
  - split; [apply fall_back_nb_not_bad|]. split; [apply fall_back_lb_not_bad|reflexivity].
  - destruct (H k Hk) as (H1 & H2 & H3).
    rewrite fall_back_nb, fall_back_lb. cbn.
    destruct (lb s) as [l|]; destruct (numeq (nb s) n); cbn in *;
      repeat match goal with |- context [if ?x then _ else _] => destruct x end;
      cbn; try (destruct (nb s)); cbn in *; auto.
Qed.

Lemma boot_failure_bans key d s n : In n (bad (snd (boot_failure key d s n))).
Proof. unfold boot_failure. rewrite fall_back_bad. cbn. apply add_bad_In. auto. Qed.

Lemma boot_failure_bad_mono key d s n k : In k (bad s) -> In k (bad (snd (boot_failure key d s n))).
Proof. unfold boot_failure. rewrite fall_back_bad. cbn. intros. apply add_bad_In. auto. Qed.

Lemma boot_failure_saved key d s n :
  pj (fst (boot_failure key d s n)) = JOk (snd (boot_failure key d s n)).
Proof. apply fall_back_saved. Qed.

Lemma boot_failure_sj key d s n : sj (fst (boot_failure key d s n)) = sj d.
Proof. apply fall_back_sj. Qed.

Lemma boot_success_Iban d s : Iban s -> Iban (snd (boot_success d s)).
Proof.
  intros H. unfold boot_success. destruct (cb s) as [b|] eqn:E; cbn; auto.
  intros n Hn. cbn in Hn. destruct (H n Hn) as (H1 & H2 & H3). rewrite E in H3. cbn. auto.
Qed.

Lemma add_patch_Iban d s n b h sg : ~ In n (bad s) -> Iban s -> Iban (snd (add_patch d s n b h sg)).
Proof.
  intros Hn H k Hk. cbn in Hk. destruct (H k Hk) as (H1 & H2 & H3). cbn.
  split; auto. apply N.eqb_neq. intros ->. contradiction.
Qed.

(* load_p of a saved disk *)
Lemma load_save d s : load_p (save_p d s) = s.
Proof. reflexivity. Qed.
Lemma load_set_sj d v : load_p (set_sj d v) = load_p d.
Proof. reflexivity. Qed.
Lemma load_of_pj d s : pj d = JOk s -> load_p d = s.
Proof. unfold load_p. intros ->. reflexivity. Qed.

(* ---------- critical sections preserve I-ban ---------- *)
Lemma cs_next_IbanD c d : IbanD d -> IbanD (fst (cs_next c d)).
Proof.
  intros H. unfold cs_next. apply (IbanD_norm c) in H. set (d0 := norm c d) in *.
  pose proof (next_boot_Iban (c_key c) d0 (load_p d0) H) as H1.
  destruct (next_boot (c_key c) d0 (load_p d0)) as [[d1 s1] r] eqn:E. cbn in *.
  unfold IbanD. rewrite (next_boot_load _ _ _ _ _ _ _ E). exact H1.
Qed.

Lemma cs_current_IbanD c d : IbanD d -> IbanD (fst (cs_current c d)).
Proof. intros H. cbn. apply IbanD_norm, H. Qed.

Lemma cs_start_IbanD c d : IbanD d -> IbanD (cs_start c d).
Proof.
  intros H. unfold cs_start. apply (IbanD_norm c) in H. set (d0 := norm c d) in *.
  pose proof (next_boot_Iban (c_key c) d0 (load_p d0) H) as H1.
  destruct (next_boot (c_key c) d0 (load_p d0)) as [[d1 s1] r] eqn:E. cbn in *.
  destruct r as [r0|].
  - unfold IbanD. rewrite load_save. intros k Hk. cbn in *. destruct (H1 k Hk) as (A & B & C). auto.
  - unfold IbanD. rewrite (next_boot_load _ _ _ _ _ _ _ E). exact H1.
Qed.

Lemma cs_success_IbanD c d : IbanD d -> IbanD (fst (cs_success c d)).
Proof.
  intros H. unfold cs_success. apply (IbanD_norm c) in H. set (d0 := norm c d) in *.
  destruct (cb (load_p d0)) eqn:E; cbn; auto.
  pose proof (boot_success_Iban d0 (load_p d0) H) as H1.
  unfold boot_success in *. rewrite E in *. cbn in *. exact H1.
Qed.

Lemma cs_failure_IbanD c d : IbanD d -> IbanD (fst (cs_failure c d)).
Proof.
  intros H. unfold cs_failure. apply (IbanD_norm c) in H. set (d0 := norm c d) in *.
  destruct (cb (load_p d0)) as [b|] eqn:E; cbn; auto.
  pose proof (boot_failure_Iban (c_key c) d0 (load_p d0) (m_num b) H) as H1.
  pose proof (boot_failure_saved (c_key c) d0 (load_p d0) (m_num b)) as H2.
  destruct (boot_failure (c_key c) d0 (load_p d0) (m_num b)) as [d1 s1]. cbn in *.
  unfold IbanD, queue_event. rewrite load_set_sj, (load_of_pj _ _ H2). exact H1.
Qed.

Lemma cs_init_recover_IbanD c d : IbanD d -> IbanD (cs_init_recover c d).
Proof.
  intros H. unfold cs_init_recover. apply (IbanD_norm c) in H. set (d0 := norm c d) in *.
  destruct (cb (load_p d0)) as [b|] eqn:E; cbn; auto.
  pose proof (boot_failure_Iban (c_key c) d0 (load_p d0) (m_num b) H) as H1.
  pose proof (boot_failure_saved (c_key c) d0 (load_p d0) (m_num b)) as H2.
  destruct (boot_failure (c_key c) d0 (load_p d0) (m_num b)) as [d1 s1]. cbn in *.
  unfold IbanD, queue_event. rewrite load_set_sj, (load_of_pj _ _ H2). exact H1.
Qed.

Lemma rollback_loop_load key l d :
  l <> [] -> load_p (fst (rollback_loop key d (load_p d) l)) = snd (rollback_loop key d (load_p d) l).
Proof.
  destruct l as [|x l]; [contradiction|]. intros _. cbn.
  pose proof (fall_back_saved sha sigok key d (load_p d) x) as H.
  destruct (fall_back key d (load_p d) x) as [d1 s1]. cbn in H.
  apply load_of_pj. apply rollback_loop_saved. exact H.
Qed.

Lemma cs_rollback_IbanD c d l : IbanD d -> IbanD (cs_rollback c d l).
Proof.
  intros H. unfold cs_rollback. apply (IbanD_norm c) in H. set (d0 := norm c d) in *.
  destruct l as [|x l]; [exact H|].
  unfold IbanD. rewrite rollback_loop_load by discriminate. apply rollback_loop_Iban. exact H.
Qed.

Lemma cs_is_bad_IbanD c d n : IbanD d -> IbanD (fst (cs_is_bad c d n)).
Proof. intros H. cbn. apply IbanD_norm, H. Qed.

Lemma should_install_IbanD c d n : IbanD d -> IbanD (fst (should_install c d n)).
Proof.
  intros H. unfold should_install. cbn.
  destruct (inb n (bad (load_p (norm c d)))); cbn; [apply IbanD_norm, H|].
  pose proof (cs_next_IbanD c (norm c d) (IbanD_norm c d H)) as H1.
  destruct (cs_next c (norm c d)) as [d2 r]. cbn in *.
  destruct r as [k|]; [destruct (N.eqb k n)|]; exact H1.
Qed.

Lemma cs_copy_events_IbanD c d : IbanD d -> IbanD (fst (cs_copy_events c d)).
Proof. intros H. cbn. apply IbanD_norm, H. Qed.
Lemma cs_clear_events_IbanD c d : IbanD d -> IbanD (cs_clear_events c d).
Proof. intros H. unfold cs_clear_events, IbanD. rewrite load_set_sj. apply IbanD_norm, H. Qed.

Lemma cs_install_IbanD c d p b : IbanD d -> IbanD (fst (cs_install c d p b)).
Proof.
  intros H. unfold cs_install. apply (IbanD_norm c) in H. set (d0 := norm c d) in *.
  destruct (inb (p_num p) (bad (load_p d0))) eqn:E; cbn; auto.
  unfold IbanD. rewrite load_save.
  apply (add_patch_Iban d0 (load_p d0) (p_num p) b (p_hash p) (p_sig p)); auto.
  intros Hin. apply inb_In in Hin. congruence.
Qed.

Local Opaque Model.cs_next Model.cs_start Model.cs_success Model.cs_failure Model.cs_init_recover
      Model.cs_rollback Model.should_install Model.cs_install Model.cs_copy_events
      Model.cs_clear_events Model.inflate Model.hash_ok.

Lemma do_check_IbanD c d ch r : IbanD d -> IbanD (fst (fst (do_check c d ch r))).
Proof.
  intros H. unfold do_check. destruct r as [rs|]; cbn; auto.
  assert (H1 : IbanD (match r_rb rs with Some l => cs_rollback c d l | None => d end))
    by (destruct (r_rb rs); auto using cs_rollback_IbanD).
  destruct (r_patch rs) as [p|]; cbn; auto.
  pose proof (should_install_IbanD c _ (p_num p) H1) as H2.
  destruct (should_install c _ (p_num p)). cbn in *. exact H2.
Qed.

Lemma do_update_IbanD c d ch r dl : IbanD d -> IbanD (fst (fst (do_update c d ch r dl))).
Proof.
  intros H. unfold do_update.
  pose proof (cs_copy_events_IbanD c d H) as H0.
  destruct (cs_copy_events c d) as [d0 evs]. cbn in H0.
  pose proof (cs_clear_events_IbanD c d0 H0) as H1.
  destruct r as [rs|]; cbn; auto.
  assert (H2 : IbanD (match r_rb rs with Some l => cs_rollback c (cs_clear_events c d0) l
                                    | None => cs_clear_events c d0 end))
    by (destruct (r_rb rs); auto using cs_rollback_IbanD).
  destruct (negb (r_avail rs)); cbn; auto.
  destruct (r_patch rs) as [p|]; cbn; auto.
  pose proof (should_install_IbanD c _ (p_num p) H2) as H3.
  destruct (should_install c _ (p_num p)) as [d3 sh]. cbn in H3.
  destruct sh; cbn; auto.
  destruct dl as [bdl|]; cbn; auto.
  destruct (inflate zdec base bdl) as [out|]; cbn; auto.
  destruct (hash_ok sha out (p_hash p)); cbn; auto.
  pose proof (cs_install_IbanD c d3 p out H3) as H4.
  destruct (cs_install c d3 p out) as [d4 st]. cbn in *. exact H4.
Qed.

Local Opaque Model.do_check Model.do_update.

(* ---------- every call preserves I-ban; only damage to patches_state.json can break it ---------- *)
Definition pj_damage (o : op) : Prop :=
  match o with ODamage (DSetPj _) => True | _ => False end.

Theorem step_IbanD w o :
  ~ pj_damage o -> IbanD (w_disk w) -> IbanD (w_disk (fst (fst (step w o)))).
Proof.
  intros Hd H. destruct w as [d cf]. cbn in H.
  destruct o; cbn.
  - (* init *) destruct (cfg_of relv y) as [c|]; cbn; auto.
    destruct paths_ok; cbn; auto. destruct cf; cbn; auto using cs_init_recover_IbanD.
  - exact H.
  - destruct cf as [c|]; cbn; auto.
    pose proof (cs_next_IbanD c d H). destruct (cs_next c d). cbn in *. auto.
  - destruct cf as [c|]; cbn; auto.
    pose proof (cs_next_IbanD c d H). destruct (cs_next c d). cbn in *. auto.
  - destruct cf as [c|]; cbn; auto. apply IbanD_norm, H.
  - destruct cf as [c|]; cbn; auto using cs_start_IbanD.
  - destruct cf as [c|]; cbn; auto.
    pose proof (cs_success_IbanD c d H). destruct (cs_success c d). cbn in *. auto.
  - destruct cf as [c|]; cbn; auto.
    pose proof (cs_failure_IbanD c d H). destruct (cs_failure c d). cbn in *. auto.
  - destruct cf as [c|]; cbn; auto.
  - destruct cf as [c|]; cbn; auto.
    pose proof (do_check_IbanD c d ch r H). destruct (do_check c d ch r) as [[? ?] ?]. cbn in *. auto.
  - destruct cf as [c|]; cbn; auto.
    pose proof (do_update_IbanD c d ch r dl H). destruct (do_update c d ch r dl) as [[? ?] ?]. cbn in *. auto.
  - destruct g; cbn in *; auto; try contradiction.
    destruct (arts d n); auto.
Qed.

End Inv.
